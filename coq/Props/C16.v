(* C16 — Outbound federation goes only where resolution rules and network policy allow.
   Only statements here; proofs live in Net/ResolveProofs.v, Net/WellKnownProofs.v,
   Net/PolicyProofs.v.  Oracles (the well-known lookup, the SRV lookups) are universally
   quantified function arguments, never axioms.

   Models: Net/Resolve.v (ResolveServer), Net/WellKnown.v (LookupWellKnown after the HTTP
   exchange), Net/IpC16.v (net.ParseIP / ParseCIDR / Contains / SplitHostPort and the dialer
   control function), Net/ServerNameC16.v.  Specifications, written separately:
   Net/ResolveSpec.v (decision table as a relation), Net/WellKnownSpec.v, Net/PolicySpec.v
   (interval arithmetic). *)
From Verif Require Import Lib.Bytes Json.Ast Json.Parse Gen.GenConsts
     Net.IpC16 Net.ServerNameC16 Net.WellKnown Net.Resolve
     Net.PolicySpec Net.WellKnownSpec Net.ResolveSpec
     Net.ResolveProofs Net.WellKnownProofs Net.PolicyProofs Net.RoundTrip Net.RoundTripProofs.
Open Scope N_scope.

(* the size limit of the model is the constant of the source (regenerated on every run) *)
Theorem C16_constants_match_source : gen_well_known_max_size = Z.of_N max_size.
Proof. reflexivity. Qed.

(* ---------------- resolution ---------------- *)

(* The model returns exactly what the specification's table prescribes, and nothing else is
   prescribed: IP literal; explicit port; the well-known delegate resolved by the rows that
   do not consult well-known again; _matrix-fed before _matrix; finally port 8448; each row
   with its Host header and TLS server name.  For all names and all oracles. *)
Theorem resolve_follows_spec_order : forall wk srv name o,
  srv_sane srv -> (resolves wk srv name o <-> o = resolve wk srv name).
Proof.
  intros wk srv name o Hs. split.
  - apply resolve_unique; exact Hs.
  - intro E. subst o. apply resolve_sound; exact Hs.
Qed.

(* the same table read as a function (what the oracle op of the check evaluates) *)
Theorem resolve_table_function : forall wk srv name,
  srv_sane srv -> spec_fn wk srv name = resolve wk srv name.
Proof. intros. apply spec_fn_eq; assumption. Qed.

Theorem invalid_names_refused : forall wk srv name,
  parse_and_validate name = None -> resolve wk srv name = Refused.
Proof. intros wk srv name H. unfold resolve, resolve_step. rewrite H. reflexivity. Qed.

(* a well-known reply that delegates to something that is not a server name is an invalid
   reply: resolution goes on as if there had been none (SRV, then 8448, for the name asked for);
   no connection target is ever derived from the invalid name *)
Theorem invalid_delegate_falls_through : forall wk srv name d,
  srv_sane srv -> wk name = Some d -> parse_and_validate d = None ->
  resolve wk srv name = resolve (fun _ => None) srv name.
Proof.
  intros wk srv name d Hs Hwk Hd.
  destruct (wants_wk_dec name) as [(h & Ev & Ei)|Hn].
  - rewrite !(resolve_wk _ _ _ _ Ev Ei), Hwk, Hd. reflexivity.
  - rewrite !(resolve_no_wk _ _ _ Hn). reflexivity.
Qed.

(* the delegated name is resolved without a further well-known lookup: over the whole
   resolution at most one well-known request is made, and it is for the name asked for *)
Theorem at_most_one_well_known_lookup : forall wk srv name,
  filter is_pw (probes wk srv name) = [] \/ filter is_pw (probes wk srv name) = [PW name].
Proof. exact one_well_known_lookup. Qed.

Theorem matrix_fed_before_matrix : forall srv n,
  srv_probes srv n = [PS svc_fed n] \/
  (srv svc_fed n = SrvNotFound /\ srv_probes srv n = [PS svc_fed n; PS svc_legacy n]).
Proof. exact fed_before_legacy. Qed.

Theorem literals_and_ports_look_nothing_up : forall wk srv name,
  ~ wants_well_known name -> probes wk srv name = [].
Proof. exact no_lookup_unless_plain. Qed.

(* ---------------- round trips, retries included ---------------- *)

(* every connection attempt of a round trip - first pass and the retry pass after all targets
   failed - goes to a target that the specification prescribes for the server name the round
   trip was made for, hence with that target's Host header and TLS server name *)
(* every TCP connection behind the attempts of a round trip, and the connection of the
   .well-known request of its resolution, is to an address the allow / deny lists permit *)
Theorem round_trip_connections_policed : forall wks dead allow deny ip_of name res n cache k c,
  In c (attempt_connections ip_of
          (rt_attempts (round_trip wks (blocked_by dead allow deny ip_of) name res n cache k))) ->
  may_connect allow deny (net_of c) c.
Proof. exact attempt_connections_allowed. Qed.

Theorem well_known_connection_policed : forall allow deny ip_of name c,
  well_known_connection allow deny ip_of name = Some c -> may_connect allow deny (net_of c) c.
Proof. exact well_known_connection_allowed. Qed.

(* every attempt of a round trip that starts without a cache entry goes to a target the
   specification prescribes for the server name the round trip was made for, under the answers
   the lookups give at the time: the first pass under those of its resolution, the retry pass -
   after every target failed the name is resolved AGAIN (F95) - under those of the fresh one *)
Theorem round_trip_attempts_follow_spec : forall wk1 srv1 wk2 srv2 blocked name k t o,
  srv_sane srv1 -> srv_sane srv2 ->
  In (t, o) (rt_attempts (round_trip true blocked name
               (fun i => match i with O => resolve wk1 srv1 name | _ => resolve wk2 srv2 name end)
               0 None k)) ->
  (exists l, resolves wk1 srv1 name (Targets l) /\ In t l) \/
  (exists l, resolves wk2 srv2 name (Targets l) /\ In t l).
Proof. exact attempts_follow_spec. Qed.

(* with a resolution cache: attempts use cached targets or targets of a resolution made in this
   round trip, and the cache only ever holds what such a resolution produced *)
Theorem round_trip_attempts_usable : forall wks blocked name res n cache k t o,
  In (t, o) (rt_attempts (round_trip wks blocked name res n cache k)) ->
  usable wks name res n cache t.
Proof. exact attempts_are_usable. Qed.

Theorem round_trip_cache_holds_resolution : forall wks blocked name res n cache k l,
  rt_cache (round_trip wks blocked name res n cache k) = Some l ->
  cache = Some l \/ (wks = true /\ (res n = Targets l \/ res (S n) = Targets l)).
Proof. exact cache_holds_resolution. Qed.

Theorem round_trip_success_has_completed_attempt : forall wks blocked name res n cache k,
  rt_ok (round_trip wks blocked name res n cache k) = true ->
  exists t, In (t, AOk) (rt_attempts (round_trip wks blocked name res n cache k)).
Proof. exact success_has_ok_attempt. Qed.

(* ---------------- well-known ---------------- *)

(* honoured iff status 200, declared and actual size at most 51200 bytes, body read, body a
   JSON object naming an m.server; lifetime = max-age first, else Expires, else 0 *)
Theorem well_known_accept_iff : forall now r a e,
  lookup now r = WkOk a e <-> honoured now r a e.
Proof. exact lookup_iff. Qed.

Theorem well_known_oracle_is_spec : forall now r a e,
  honouredb now r = Some (a, e) <-> honoured now r a e.
Proof. exact honouredb_iff. Qed.

Theorem cache_lifetime_prefers_max_age : forall now ex ex' cc age,
  cache_control_max_age (join_lines cc) = Some age ->
  header_expiry now ex cc = sat_add age now /\
  header_expiry now ex cc = header_expiry now ex' cc.
Proof. exact max_age_preferred. Qed.

Theorem cache_lifetime_expires_otherwise : forall now ex cc,
  cache_control_max_age (join_lines cc) = None ->
  header_expiry now ex cc = match ex with Some e => e | None => 0%Z end.
Proof. exact expires_used_otherwise. Qed.

(* the repaired sum never wraps: it is the exact sum capped at the largest int64 *)
Theorem cache_lifetime_saturates : forall age now, sat_add age now = Z.min (age + now) max_i64.
Proof. exact sat_add_spec. Qed.

Theorem max_age_directive_is_last_valid : forall cc ds x,
  cc <> [] -> split_all 44 cc [] = ds ++ [x] ->
  cache_control_max_age cc =
  match max_age_of x with Some a => Some a | None => last_max_age ds None end.
Proof. exact max_age_is_last_valid_directive. Qed.

Theorem oversized_reply_refused : forall now r,
  max_size < N.of_nat (length (r_body r)) -> lookup now r = WkErr.
Proof. exact oversized_refused. Qed.

(* regression statement for F23 / F24: the code as first found honoured a reply the
   specification refuses, and took the lifetime from the body *)
Theorem unrepaired_well_known_departed :
  exists now r a e, lookup_gen false now r = WkOk a e /\ ~ honoured now r a e.
Proof.
  exists 0%Z,
    {| r_status := 200; r_content_length := []; r_cache_control := bs "max-age=60";
       r_expires := None; r_body := bs "{""m.server"":""a"",""CacheExpiresAt"":5}";
       r_body_read_ok := true |}, (bs "a"), 5%Z.
  split; [vm_compute; reflexivity|].
  intro H. apply lookup_iff in H. vm_compute in H. discriminate.
Qed.

(* ---------------- network policy ---------------- *)

(* CIDR arithmetic: for every entry text, mask-and-compare (what net.IPNet.Contains does) is
   membership in the interval the entry denotes; for all 128-bit addresses, all prefix
   lengths, IPv4, IPv6 and IPv4-mapped forms *)
Theorem cidr_membership_is_interval : forall c,
  match parse_cidr c, interval_of_cidr c with
  | None, None => True
  | Some n, Some r => forall x16, x16 < 2 ^ 128 -> (net_contains n x16 = true <-> in_interval r x16)
  | _, _ => False
  end.
Proof. exact cidr_corr. Qed.

Theorem parsed_addresses_are_128_bit : forall s v, parse_ip s = Some v -> v < 2 ^ 128.
Proof. exact parse_ip_bound. Qed.

(* the control function lets a connection proceed iff the network is tcp4 / tcp6, the address
   is host:port with an IP-literal host, no parsable deny entry contains it and some allow
   entry does *)
Theorem control_allows_iff : forall allow deny network address,
  control_allows allow deny network address = true <-> may_connect allow deny network address.
Proof. exact control_allows_may_connect. Qed.

Theorem control_oracle_is_spec : forall allow deny network address,
  may_connectb allow deny network address = true <-> may_connect allow deny network address.
Proof. exact may_connectb_iff. Qed.

(* regression statement for F13 *)
Theorem unrepaired_control_failed_open :
  exists allow deny network address,
    control_allows_unrepaired allow deny network address = true /\
    ~ may_connect allow deny network address.
Proof. exact unrepaired_deny_list_failed_open. Qed.

(* ---------------- non-vacuity ---------------- *)
Definition ex_srv (s n : bytes) : srv_outcome :=
  if bytes_eqb s svc_fed && bytes_eqb n (bs "delegate.example.net")
  then SrvOk [(bs "b.target.example.", 4242); (bs "a.target.example", 1)]
  else SrvNotFound.

Example ex_srv_sane : srv_sane ex_srv.
Proof.
  intros s n recs H. unfold ex_srv in H.
  destruct (bytes_eqb s svc_fed && bytes_eqb n (bs "delegate.example.net")); [|discriminate].
  inversion H; subst. repeat constructor; discriminate.
Qed.

Example resolve_delegated_srv :
  resolve (fun n => if bytes_eqb n (bs "example.com") then Some (bs "delegate.example.net") else None)
          ex_srv (bs "example.com")
  = Targets [ {| t_dest := bs "b.target.example:4242"; t_host := bs "delegate.example.net";
                 t_sni := bs "delegate.example.net" |};
              {| t_dest := bs "a.target.example:1"; t_host := bs "delegate.example.net";
                 t_sni := bs "delegate.example.net" |} ].
Proof. vm_compute. reflexivity. Qed.

Example resolve_shapes :
  resolve (fun _ => None) ex_srv (bs "[2001:db8::1]") =
    Targets [ {| t_dest := bs "[2001:db8::1]:8448"; t_host := bs "[2001:db8::1]"; t_sni := bs "2001:db8::1" |} ]
  /\ resolve (fun _ => None) ex_srv (bs "example.com:443") =
    Targets [ {| t_dest := bs "example.com:443"; t_host := bs "example.com:443"; t_sni := bs "example.com" |} ]
  /\ resolve (fun _ => None) ex_srv (bs "example.com") =
    Targets [ {| t_dest := bs "example.com:8448"; t_host := bs "example.com"; t_sni := bs "example.com" |} ]
  /\ resolve (fun _ => Some (bs "bad name")) ex_srv (bs "example.com") =
    Targets [ {| t_dest := bs "example.com:8448"; t_host := bs "example.com"; t_sni := bs "example.com" |} ]
  /\ resolve (fun _ => None) ex_srv (bs "exa_mple.com") = Refused.
Proof. repeat split; vm_compute; reflexivity. Qed.

Example well_known_honoured_instance :
  honoured 1000 {| r_status := 200; r_content_length := bs "39"; r_cache_control := bs "public, max-age=60";
                   r_expires := Some 5%Z; r_body := bs "{""m.server"":""delegate.example.net:443""}";
                   r_body_read_ok := true |} (bs "delegate.example.net:443") 1060.
Proof. apply lookup_iff. vm_compute. reflexivity. Qed.

Example control_instances :
  control_allows [bs "0.0.0.0/0"] [bs "bad"; bs "10.0.0.0/8"] (bs "tcp4") (bs "10.255.255.255:8448") = false
  /\ control_allows [bs "0.0.0.0/0"] [bs "bad"; bs "10.0.0.0/8"] (bs "tcp4") (bs "11.0.0.0:8448") = true
  /\ control_allows [bs "0.0.0.0/0"] [] (bs "tcp6") (bs "[::ffff:10.0.0.1]:8448") = true
  /\ control_allows [bs "0.0.0.0/0"] [] (bs "tcp6") (bs "[2001:db8::1]:8448") = false
  /\ control_allows [bs "0.0.0.0/0"] [] (bs "udp4") (bs "1.2.3.4:8448") = false
  /\ control_allows [bs "0.0.0.0/0"] [] (bs "tcp4") (bs "example.com:8448") = false.
Proof. repeat split; vm_compute; reflexivity. Qed.

Print Assumptions C16_constants_match_source.
Print Assumptions resolve_follows_spec_order.
Print Assumptions resolve_table_function.
Print Assumptions invalid_names_refused.
Print Assumptions invalid_delegate_falls_through.
Print Assumptions at_most_one_well_known_lookup.
Print Assumptions matrix_fed_before_matrix.
Print Assumptions literals_and_ports_look_nothing_up.
Print Assumptions round_trip_connections_policed.
Print Assumptions well_known_connection_policed.
Print Assumptions round_trip_attempts_follow_spec.
Print Assumptions round_trip_attempts_usable.
Print Assumptions round_trip_cache_holds_resolution.
Print Assumptions round_trip_success_has_completed_attempt.
Print Assumptions well_known_accept_iff.
Print Assumptions well_known_oracle_is_spec.
Print Assumptions cache_lifetime_prefers_max_age.
Print Assumptions cache_lifetime_expires_otherwise.
Print Assumptions cache_lifetime_saturates.
Print Assumptions max_age_directive_is_last_valid.
Print Assumptions oversized_reply_refused.
Print Assumptions unrepaired_well_known_departed.
Print Assumptions cidr_membership_is_interval.
Print Assumptions parsed_addresses_are_128_bit.
Print Assumptions control_allows_iff.
Print Assumptions control_oracle_is_spec.
Print Assumptions unrepaired_control_failed_open.
