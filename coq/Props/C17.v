(* Property C17: identifiers, size limits and per-version traits follow the specification.
   Theorem statements only; the proofs are in coq/Ident/*Proofs.v.

   Reading of the property text (DESIGN 5.0): the grammars are those of Ident/GrammarSpec.v
   (Matrix appendices; IPv6 literals in the RFC 3513 text forms, IPv6Lit). The faithful model of
   the parsers accepts MORE than the grammar in four named ways (Ident/Strict.v: a bracketed IPv4
   literal, an unbracketed IPv4-mapped IPv6 literal, a DNS name or room ID longer than 255 bytes,
   an empty localpart of a historical user ID), so the three accept_iff_grammar claims are stated
   as: the grammar is decided by the strict deciders (which the oracles run), everything in the
   grammar is accepted, acceptance = grammar or one of the named departures, and a refutation of
   the unqualified equivalence. *)
From Verif Require Import Lib.Bytes Ident.Chars Ident.ServerName Ident.Ids Ident.Base64 Ident.Limits
  Ident.Versions Ident.Events Ident.Strict Ident.GrammarSpec Ident.VersionSpec.
From Verif Require Import Ident.Base64Proofs Ident.LimitsProofs Ident.GrammarProofs Ident.Ipv6Proofs
  Ident.DepartureProofs.
From Verif Require Import Gen.GenVersions Gen.GenConsts.
From Verif Require Import Ident.LimitsSpec Ident.LimitsSpecProofs.
Open Scope N_scope.

(* ---------------- identifiers ---------------- *)

(* the strict deciders (what the specification oracles compute) decide the grammars, for ALL byte
   strings *)
Theorem server_name_grammar_decided s : sn_strict s = true <-> ServerNameG IPv6Lit s.
Proof. apply sn_strict_iff_rfc. Qed.
Theorem user_id_grammar_decided hist s : user_strict hist s = true <-> UserIdG IPv6Lit hist s.
Proof. apply user_strict_iff_rfc. Qed.
Theorem room_id_grammar_decided s : room_strict s = true <-> RoomIdG IPv6Lit s.
Proof. apply room_strict_iff_rfc. Qed.

(* the IPv6 branch of the net.ParseIP model accepts exactly the RFC text forms *)
Theorem ipv6_text_accept_iff_grammar a : (exists l, parse_ip a = Some (IP6 l)) <-> IPv6Lit a.
Proof. apply ip6_model_iff. Qed.

(* acceptance = grammar, up to the named departures (sn_departure etc. name which one) *)
Theorem server_name_accept_iff_grammar_upto s :
  sn_accept s = true <-> ServerNameG IPv6Lit s \/ sn_departure s <> [].
Proof. rewrite sn_accept_cases, sn_strict_iff_rfc. reflexivity. Qed.

Theorem user_id_accept_iff_grammar_upto hist s :
  (exists p, user_id_parse hist s = Some p) <-> UserIdG IPv6Lit hist s \/ user_departure hist s <> [].
Proof. rewrite user_accept_cases, user_strict_iff_rfc. reflexivity. Qed.

Theorem room_id_accept_iff_grammar_upto s :
  (exists p, room_id_parse s = Some p) <-> RoomIdG IPv6Lit s \/ room_departure s <> [].
Proof. rewrite room_accept_cases, room_strict_iff_rfc. reflexivity. Qed.

(* everything in the grammar is accepted *)
Theorem server_name_grammar_accepted s : ServerNameG IPv6Lit s -> sn_accept s = true.
Proof. intro H. apply server_name_accept_iff_grammar_upto. left. exact H. Qed.
Theorem user_id_grammar_accepted hist s :
  UserIdG IPv6Lit hist s -> exists p, user_id_parse hist s = Some p.
Proof. intro H. apply user_id_accept_iff_grammar_upto. left. exact H. Qed.
Theorem room_id_grammar_accepted s : RoomIdG IPv6Lit s -> exists p, room_id_parse s = Some p.
Proof. intro H. apply room_id_accept_iff_grammar_upto. left. exact H. Qed.

(* the unqualified equivalences do not hold for the code as it is (known findings F19,
   C17-bracketed-ipv4, C17-mapped-ipv6, C17-empty-localpart) *)
Theorem server_name_accept_iff_grammar_refuted :
  exists s, sn_accept s = true /\ ~ ServerNameG IPv6Lit s.
Proof.
  exists (bs "::ffff:1.2.3.4:80"). split; [vm_compute; reflexivity|].
  intro H. apply server_name_grammar_decided in H. vm_compute in H. discriminate.
Qed.

Theorem user_id_accept_iff_grammar_refuted :
  exists s, (exists p, user_id_parse true s = Some p) /\ ~ UserIdG IPv6Lit true s.
Proof.
  exists (bs "@:example.org"). split; [eexists; vm_compute; reflexivity|].
  intro H. apply user_id_grammar_decided in H. vm_compute in H. discriminate.
Qed.

Theorem room_id_accept_iff_grammar_refuted :
  exists s, (exists p, room_id_parse s = Some p) /\ ~ RoomIdG IPv6Lit s.
Proof.
  exists (bs "!a:[1.2.3.4]"). split; [eexists; vm_compute; reflexivity|].
  intro H. apply room_id_grammar_decided in H. vm_compute in H. discriminate.
Qed.

(* the strict (current-specification) user-ID parser has no departure of its own: with a domain
   inside the grammar it accepts exactly the grammar *)
Theorem strict_user_id_only_domain_departures s :
  (exists p, user_id_parse false s = Some p) -> ~ UserIdG IPv6Lit false s ->
  exists l d, user_id_parse false s = Some (l, d) /\ sn_departure d <> [].
Proof.
  intros [[l d] E] Hn. exists l, d. split; [exact E|].
  assert (A : user_strict false s = true \/ user_departure false s <> [])
    by (apply user_accept_cases; eauto).
  destruct A as [A|A]; [apply user_id_grammar_decided in A; contradiction|].
  unfold user_departure in A. rewrite E in A.
  unfold user_id_parse in E.
  destruct ((len s <? 4) || (255 <? len s)); [discriminate|].
  destruct s as [|c rest]; [discriminate|]. destruct (negb (c =? user_sigil)); [discriminate|].
  destruct (cut_first ch_colon rest) as [[l' d']|]; [|discriminate].
  destruct (negb (sn_accept d')); [discriminate|].
  destruct (strict_localpart l') eqn:S; [|discriminate]. inversion E; subst.
  unfold strict_localpart in S. destruct (is_nil l); [discriminate|exact A].
Qed.

(* accepted identifiers report parts that re-concatenate to the input *)
Theorem parts_reassemble_user hist s l d :
  user_id_parse hist s = Some (l, d) -> s = 64 :: l ++ 58 :: d.
Proof. apply user_parts. Qed.

Theorem parts_reassemble_room s o d :
  room_id_parse s = Some (o, d) ->
  match d with Some d' => s = 33 :: o ++ 58 :: d' | None => s = 33 :: o end.
Proof. apply room_parts. Qed.

Theorem parts_reassemble_server_name s h port k :
  sn_parse s = Some (h, port, k) ->
  match port with
  | None => s = h
  | Some n => exists p, parse_port p = Some n /\ s = h ++ 58 :: p
  end.
Proof. apply server_name_parts. Qed.

(* the port is reported as a NUMBER: it is the port text p of the input that re-concatenates
   (theorem above); host, colon and the decimal spelling of the number do so only when the port
   text has no leading zero (known finding F101: example.org:0080 reports example.org and 80) *)
Theorem server_name_port_number_reassembles_refuted :
  exists s h n k, sn_parse s = Some (h, Some n, k) /\ s <> h ++ 58 :: print_dec n.
Proof.
  exists (bs "example.org:0080"), (bs "example.org"), 80, HDns. split; [vm_compute; reflexivity|].
  vm_compute. discriminate.
Qed.

(* ---------------- base64 ---------------- *)

(* both unpadded alphabets: decoding an encoding gives the bytes back, for every byte string *)
Theorem base64_roundtrip url b : bytes_ok b -> b64_decode url (b64_encode url b) = Some b.
Proof. apply decode_encode. Qed.

(* Base64Bytes: Decode (Encode b) = b, and Decode also reads the URL-safe encoding of b *)
Theorem base64bytes_roundtrip b : bytes_ok b -> base64bytes_decode (base64bytes_encode b) = Some b.
Proof. apply base64bytes_decode_encode. Qed.

Theorem base64bytes_reads_url_safe b : bytes_ok b -> base64bytes_decode (b64_encode true b) = Some b.
Proof. apply base64bytes_decode_url_text. Qed.

(* whatever Decode accepts (either alphabet, CR / LF skipped, unused trailing bits ignored)
   re-encodes to a text denoting the same value; the re-encoded TEXT may differ from the input,
   for example for URL-safe input *)
Theorem base64bytes_reencode_same_value s b :
  base64bytes_decode s = Some b -> base64bytes_decode (base64bytes_encode b) = Some b.
Proof. apply base64bytes_value_stable. Qed.

(* ---------------- size limits ---------------- *)

(* utf8.RuneCountInString never exceeds the byte length: exceeding 255 code points implies
   exceeding 255 bytes *)
Theorem code_points_at_most_bytes s : rune_count s <= len s.
Proof. apply rune_count_le. Qed.

(* CheckFields: more than 65 536 bytes of JSON or more than 255 code points of type, state key
   or sender is refused, not persistable, in every version and whatever the other fields are *)
Theorem check_fields_hard_limits v json_len type sk sender room :
  65536 < json_len \/ 255 < rune_count type \/ opt_over rune_count sk \/ 255 < rune_count sender ->
  check_fields v false json_len type sk sender room = VTooLarge false.
Proof. apply fields_hard_limit. Qed.

(* checkID (sender, room ID): more than 255 code points refused, more than 255 bytes only
   persistable, otherwise accepted *)
Theorem check_id_table sigil id :
  shaped sigil id ->
  (255 < rune_count id -> check_id id sigil = VTooLarge false)
  /\ (rune_count id <= 255 -> 255 < len id -> check_id id sigil = VTooLarge true)
  /\ (len id <= 255 -> check_id id sigil = VOk).
Proof.
  intro H. rewrite (check_id_shaped sigil id H).
  repeat split; [apply id_length_refused|apply id_length_persistable|apply id_length_ok].
Qed.

(* the whole table for an event of any of the three structs (eventV1 / eventV2 check the room ID
   with checkID; eventV3 demands its sigil, the create event - whose room ID is derived - apart),
   in a version of the lenient set other than the pseudo-ID version, with a room ID of the right
   shape (the sender's shape is a premise of the OK and persistable rows only); the event is otherwise valid, in particular its room ID is one the room-ID
   parser accepts (since the repair of F9 an event with any other room ID is refused).
   Refused: some limit that is not lenient is exceeded, whatever else is merely too many bytes
   (before the repair of F43 this needed the extra premise that no other field exceeded only its
   byte limit). Persistable: no such limit is exceeded and some byte limit is. *)
Theorem check_fields_table struct v json_len type sk sender room :
  ((struct =? 3) = false /\ shaped 33 room
   \/ (struct =? 3) = true /\ is_create_v3 type sk = false /\ exists r, room = 33 :: r) ->
  lenient_version v = true -> bytes_eqb v pseudo_id_version = false ->
  room_valid room = true ->
  let verdict := event_checks struct v false json_len type sk sender room in
  (hard_limit_exceeded json_len type sk sender room -> verdict = VTooLarge false)
  /\ (shaped 64 sender -> no_hard_limit_exceeded json_len type sk sender room ->
      byte_limit_exceeded type sk sender room -> verdict = VTooLarge true)
  /\ (shaped 64 sender -> all_within_limits json_len type sk sender room -> verdict = VOk)
  (* a sender that is not @...:... : refused, never persistable, whatever the sizes (repair of
     F100: before it, a type or state key over the byte limit only made such an event persistable) *)
  /\ (~ shaped 64 sender -> no_hard_limit_exceeded json_len type sk sender room -> verdict = VErr)
  /\ (~ shaped 64 sender -> verdict = VErr \/ verdict = VTooLarge false).
Proof. apply check_fields_table_gen. Qed.

Example malformed_sender_is_refused_whatever_the_sizes :
  let long := concat (repeat [195; 169] 128) in
  event_checks 2 (bs "10") false 500 long None (bs "garbage") (bs "!r:x") = VErr
  /\ event_checks 2 (bs "10") false 500 (bs "m.x") (Some long) (bs "@u") (bs "!r:x") = VErr
  /\ event_checks 1 (bs "1") false 500 long None [] (bs "!r:x") = VErr
  /\ event_checks 3 (bs "12") false 500 long None (bs "u:x") (33 :: repeat 65 43) = VErr
  /\ event_checks 2 (bs "10") false 500 long None (bs "@u:x") (bs "!r:x") = VTooLarge true
  /\ ~ shaped 64 (bs "garbage") /\ ~ shaped 64 (bs "@u") /\ ~ shaped 64 [] /\ ~ shaped 64 (bs "u:x").
Proof.
  repeat split; try (vm_compute; reflexivity);
    intros [Hc [r Hr]]; vm_compute in Hc; try discriminate; inversion Hr.
Qed.

(* the same as ONE equation against the specification of the property text (LimitsSpec: refused when
   the JSON exceeds 65 536 bytes or a limited field exceeds 255 code points, persistable when only
   the byte limit is exceeded - no order of checks in it), for limited fields that are well-formed
   UTF-8, where the library's RuneCountInString is the number of code points *)
Theorem event_size_verdict_is_spec_class struct v json_len type sk sender room :
  ((struct =? 3) = false /\ shaped 33 room
   \/ (struct =? 3) = true /\ is_create_v3 type sk = false /\ exists r, room = 33 :: r) ->
  lenient_version v = true -> bytes_eqb v pseudo_id_version = false ->
  shaped 64 sender -> room_valid room = true ->
  wf_utf8 type = true -> opt_wf sk -> wf_utf8 sender = true -> wf_utf8 room = true ->
  event_checks struct v false json_len type sk sender room
  = verdict_of_class (size_class_of json_len (limited_fields type sk sender room)).
Proof. apply event_checks_is_size_class. Qed.

(* the oracle's test "the sender is a user ID" (LimitsSpec.sender_well_formed) is the shape premise
   of check_fields_table *)
Theorem sender_well_formed_is_shape s : sender_well_formed s = true <-> shaped 64 s.
Proof. apply sender_well_formed_shaped. Qed.

Theorem rune_count_is_code_points_on_utf8 s : wf_utf8 s = true -> rune_count s = code_points s.
Proof. exact (rune_count_code_points s). Qed.

Example wf_utf8_inhabited :
  wf_utf8 (bs "m.room.message") = true
  /\ wf_utf8 (33 :: concat (repeat [195; 169] 130) ++ bs ":x") = true
  /\ wf_utf8 [240; 159; 152; 128; 226; 130; 172] = true
  /\ wf_utf8 [195] = false /\ wf_utf8 [128] = false /\ wf_utf8 [237; 160; 128] = false.
Proof. repeat split; vm_compute; reflexivity. Qed.

Example check_fields_table_room_premise_satisfiable :
  shaped 33 (bs "!r:x") /\ room_valid (bs "!r:x") = true.
Proof. split; [split; [reflexivity|eexists; reflexivity]|vm_compute; reflexivity]. Qed.

(* ---------------- room versions ---------------- *)

(* the generated table (regenerated from eventversion.go on every run) equals the specification
   table of DESIGN Appendix C cell by cell; an edit of roomVersionMeta breaks this proof *)
Theorem version_table_matches_spec : table_matches_spec gen_versions gen_version_fields = true.
Proof. vm_compute. reflexivity. Qed.

(* every function-valued and enumerated field of every entry is set (F10) *)
Theorem version_table_complete v :
  In v (ver_names gen_versions) -> entry_complete gen_versions v = true.
Proof.
  assert (A : forallb (entry_complete gen_versions) (ver_names gen_versions) = true)
    by (vm_compute; reflexivity).
  rewrite forallb_forall in A. apply A.
Qed.

(* lenientByteLimitRoomVersions holds exactly the registered versions *)
Theorem lenient_versions_are_all_registered v :
  lenient_version v = true <-> In v (ver_names gen_versions).
Proof.
  destruct lenient_all_registered as [A B]. rewrite forallb_forall in A, B. split.
  - intro H. apply mem_bytes_In in H. apply mem_bytes_In. apply B. exact H.
  - apply A.
Qed.

(* events built for a version have the event / event-ID format the specification gives it *)
Theorem built_events_have_version_format r :
  In r spec_rows -> builder_shape gen_versions (v_name r) = expected_builder_shape r.
Proof.
  assert (A : forallb (fun r => bytes_eqb (builder_shape gen_versions (v_name r))
                                          (expected_builder_shape r)) spec_rows = true)
    by (vm_compute; reflexivity).
  rewrite forallb_forall in A. intro H. apply bytes_eqb_eq. apply A. exact H.
Qed.

(* ---------------- non-vacuity ---------------- *)
Example grammar_inhabited_server_name : ServerNameG IPv6Lit (bs "[2001:db8::1.2.3.4]:8448").
Proof. apply server_name_grammar_decided. vm_compute. reflexivity. Qed.

Example grammar_inhabited_user_id : UserIdG IPv6Lit false (bs "@alice_1=x/y:matrix.example.org:443").
Proof. apply user_id_grammar_decided. vm_compute. reflexivity. Qed.

Example grammar_inhabited_room_id_domainless :
  RoomIdG IPv6Lit (bs "!31hneApxJ_1o-63DmFrpeqnkFfWppnzWso1JvH3ogLM").
Proof. apply room_id_grammar_decided. vm_compute. reflexivity. Qed.

(* a port has at most five digits (repair of F101) *)
Example grammar_excludes_six_digit_port :
  ~ ServerNameG IPv6Lit (bs "example.org:000080") /\ sn_accept (bs "example.org:000080") = false
  /\ sn_accept (bs "[::1]:0000065535") = false /\ sn_accept (bs "example.org:00080") = true.
Proof.
  repeat split; try (vm_compute; reflexivity).
  intro H. apply server_name_grammar_decided in H. vm_compute in H. discriminate.
Qed.

Example grammar_excludes_port_65536 : ~ ServerNameG IPv6Lit (bs "example.org:65536").
Proof. intro H. apply server_name_grammar_decided in H. vm_compute in H. discriminate. Qed.

Example base64_concrete : base64bytes_decode (bs "aGk_") = Some [104; 105; 63]
                          /\ base64bytes_encode [104; 105; 63] = bs "aGk/".
Proof. split; vm_compute; reflexivity. Qed.

Example table_concrete :
  event_checks 2 (bs "10") false 500 (repeat 97 256) None (bs "@u:x") (bs "!r:x") = VTooLarge false
  /\ event_checks 2 (bs "10") false 500 (concat (repeat [195; 169] 128)) None (bs "@u:x") (bs "!r:x")
     = VTooLarge true
  /\ event_checks 2 (bs "10") false 65536 (repeat 97 255) None (bs "@u:x") (bs "!r:x") = VOk
  /\ event_checks 2 (bs "10") false 65537 (repeat 97 255) None (bs "@u:x") (bs "!r:x") = VTooLarge false
  (* type over the byte limit only, sender over the code-point limit: refused (F43) *)
  /\ event_checks 2 (bs "10") false 500 (concat (repeat [195; 169] 128)) None
       (64 :: repeat 97 300 ++ bs ":x") (bs "!r:x") = VTooLarge false
  (* room ID over the byte limit only: persistable, also in an eventV3 (F42) *)
  /\ event_checks 3 (bs "12") false 500 (bs "m.x") None (bs "@u:x")
       (33 :: concat (repeat [195; 169] 130) ++ bs ":x") = VTooLarge true.
Proof. repeat split; vm_compute; reflexivity. Qed.

Example version_table_concrete :
  field_value gen_versions (bs "org.matrix.msc3787") (bs "checkRestrictedJoinAllowedFunc")
  = bs "allowRestrictedJoins".
Proof. vm_compute. reflexivity. Qed.

Print Assumptions server_name_grammar_decided.
Print Assumptions user_id_grammar_decided.
Print Assumptions room_id_grammar_decided.
Print Assumptions ipv6_text_accept_iff_grammar.
Print Assumptions server_name_accept_iff_grammar_upto.
Print Assumptions user_id_accept_iff_grammar_upto.
Print Assumptions room_id_accept_iff_grammar_upto.
Print Assumptions server_name_grammar_accepted.
Print Assumptions user_id_grammar_accepted.
Print Assumptions room_id_grammar_accepted.
Print Assumptions server_name_accept_iff_grammar_refuted.
Print Assumptions user_id_accept_iff_grammar_refuted.
Print Assumptions room_id_accept_iff_grammar_refuted.
Print Assumptions strict_user_id_only_domain_departures.
Print Assumptions parts_reassemble_user.
Print Assumptions parts_reassemble_room.
Print Assumptions parts_reassemble_server_name.
Print Assumptions server_name_port_number_reassembles_refuted.
Print Assumptions base64_roundtrip.
Print Assumptions base64bytes_roundtrip.
Print Assumptions base64bytes_reads_url_safe.
Print Assumptions base64bytes_reencode_same_value.
Print Assumptions code_points_at_most_bytes.
Print Assumptions check_fields_hard_limits.
Print Assumptions check_id_table.
Print Assumptions check_fields_table.
Print Assumptions event_size_verdict_is_spec_class.
Print Assumptions rune_count_is_code_points_on_utf8.
Print Assumptions sender_well_formed_is_shape.
Print Assumptions version_table_matches_spec.
Print Assumptions version_table_complete.
Print Assumptions lenient_versions_are_all_registered.
Print Assumptions built_events_have_version_format.
