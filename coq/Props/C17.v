(* C17 property theorems (work in progress) *)
From Verif Require Import Lib.Bytes Ident.Versions Ident.VersionSpec Gen.GenVersions.

Theorem version_table_matches_spec : table_matches_spec gen_versions gen_version_fields = true.
Proof. vm_compute. reflexivity. Qed.

Print Assumptions version_table_matches_spec.
