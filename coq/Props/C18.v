(* C18 — No input from the network can crash the library (partial proof; see props/C18.json).
   (1) every expression that can panic by itself, as enumerated from the CURRENT source with
       full type information, has a row in the audited classification table, and no row is
       stale; (2) no function-typed field of any registered room version is nil;
   (3) the index-level models of the identifier / header splitting functions never crash,
       for all byte strings and every behaviour of the abstracted helpers. *)
From Verif Require Import Lib.Bytes Crash.Outcome Crash.IdModels Crash.IdProofs Crash.Sites
     Gen.GenSites Gen.GenVersions Crash.SitesSpec.
From Coq Require Import Arith.
From Verif Require Import Crash.Nesting.
From Verif Require Import Json.Ast Json.Parse Json.Render Json.CanonC01 Json.CompactModelC01
     Json.CompactProofsC01 Json.CompactValidC01.

Theorem all_sites_classified : all_sites_classified_b = true.
Proof. vm_compute. reflexivity. Qed.

Theorem no_stale_classification : no_stale_rows_b = true.
Proof. vm_compute. reflexivity. Qed.

Theorem every_current_site_has_a_class : forall s, In s gen_sites ->
  exists r, In r classified_sites /\ site_key_eqb s (key_of r) = true.
Proof.
  intros s Hs. pose proof all_sites_classified as H. unfold all_sites_classified_b in H.
  rewrite forallb_forall in H. specialize (H s Hs). apply existsb_exists in H as (k & Hk & He).
  unfold classified_keys in Hk. apply in_map_iff in Hk as (r & <- & Hr). eauto.
Qed.

(* the rows classified as findings are the six sites of the recorded findings F30 (Sign on a
   malformed signatures member, 2 rows) and F31 (case-variant member names, 4 rows); a further
   finding row has to be recorded deliberately *)
Theorem findings_accounted : length findings = 6%nat.
Proof. vm_compute. reflexivity. Qed.

Theorem version_table_complete : version_table_complete_b = true.
Proof. vm_compute. reflexivity. Qed.

Theorem no_version_field_is_nil : forall v f, In v gen_versions -> In f gen_version_func_fields ->
  exists value, In (f, value) (snd v).
Proof.
  intros v f Hv Hf. pose proof version_table_complete as H. unfold version_table_complete_b in H.
  rewrite forallb_forall in H. specialize (H v Hv). unfold version_complete in H.
  rewrite forallb_forall in H. specialize (H f Hf). apply existsb_exists in H as ([k value] & Hin & He).
  apply bytes_eqb_eq in He. simpl in He. subst k. eauto.
Qed.

Theorem split_id_total : forall sigil id, sigil <> colon -> split_id sigil id <> Crash.
Proof. exact split_id_no_crash. Qed.
Theorem check_id_total : forall count_runes max id sigil, check_id count_runes max id sigil <> Crash.
Proof. exact check_id_no_crash. Qed.
Theorem domain_from_id_total : forall id, domain_from_id id <> Crash.
Proof. exact domain_from_id_no_crash. Qed.
Theorem server_name_total : forall parse_port is_ip is_ip4 dns_ok name,
  parse_server_name parse_port is_ip is_ip4 dns_ok name <> Crash.
Proof. exact parse_server_name_no_crash. Qed.
Theorem user_id_total : forall rest_ok id, parse_user_id rest_ok id <> Crash.
Proof. exact parse_user_id_no_crash. Qed.
Theorem room_id_total : forall domainless_ok rest_ok id, parse_room_id domainless_ok rest_ok id <> Crash.
Proof. exact parse_room_id_no_crash. Qed.
Theorem sender_is_user_id_total : forall s, sender_is_user_id s <> Crash.
Proof. exact sender_is_user_id_no_crash. Qed.
Theorem parse_authorization_total : forall header, parse_authorization_pairs header <> Crash.
Proof. exact parse_authorization_no_crash. Qed.
Theorem after_prefix_total : forall prefix caveat, after_prefix prefix caveat <> Crash.
Proof. exact after_prefix_no_crash. Qed.
Theorem two_parts_total : forall (parts : list bytes), two_parts parts <> Crash.
Proof. exact (@two_parts_no_crash bytes). Qed.
Theorem srv_target_total : forall target, target <> [] -> trim_srv_target target <> Crash.
Proof. exact trim_srv_target_no_crash. Qed.

(* CompactJSON / compactUnicodeEscape / readHexDigits, modelled byte by byte with every index
   read explicit: no crash on any text the validity gate of CanonicalJSON lets through (the
   reference parser accepts it; its agreement with gjson.Valid is what C01's correspondence
   compares), and the crashing byte strings are exactly those the scanner compact_safe refuses
   (the exported CompactJSON / CanonicalJSONAssumeValid do crash on them: precondition, not defect) *)
Theorem compact_json_total_on_valid : forall t, json_valid t = true -> compact_model t <> Crash.
Proof. exact CompactValidC01.compact_no_panic. Qed.
Theorem compact_json_total_on_renderings : forall v t, RendersText v t -> compact_model t <> Crash.
Proof. exact compact_no_panic_renders. Qed.
Theorem compact_json_crashes_exactly_when_unsafe :
  forall t, compact_model t = Crash <-> compact_safe t = false.
Proof. exact compact_crash_iff. Qed.

(* non-vacuity / sharpness: the guards in the statements above are needed *)
Example split_id_needs_its_guard : split_id colon [colon; 120%N] = Crash.
Proof. reflexivity. Qed.
Example srv_target_needs_its_guard : trim_srv_target [] = Crash.
Proof. reflexivity. Qed.
Example concrete_split : split_id 64%N (bs "@alice:example.org") = Ret (Some (bs "alice", bs "example.org")).
Proof. reflexivity. Qed.

(* the nesting guard of the repair of F48 reads input[i] only under the loop condition, also
   after the extra i++ that skips the byte behind a backslash *)
Theorem json_nesting_guard_total : forall input limit, json_nesting_exceeds input limit <> Crash.
Proof. exact json_nesting_exceeds_total. Qed.

Print Assumptions all_sites_classified.
Print Assumptions no_stale_classification.
Print Assumptions every_current_site_has_a_class.
Print Assumptions findings_accounted.
Print Assumptions version_table_complete.
Print Assumptions no_version_field_is_nil.
Print Assumptions split_id_total.
Print Assumptions check_id_total.
Print Assumptions domain_from_id_total.
Print Assumptions server_name_total.
Print Assumptions user_id_total.
Print Assumptions room_id_total.
Print Assumptions sender_is_user_id_total.
Print Assumptions parse_authorization_total.
Print Assumptions after_prefix_total.
Print Assumptions two_parts_total.
Print Assumptions srv_target_total.
Print Assumptions compact_json_total_on_valid.
Print Assumptions compact_json_total_on_renderings.
Print Assumptions compact_json_crashes_exactly_when_unsafe.
Print Assumptions json_nesting_guard_total.
