(* C18 — placeholder until the index-safety models land. *)
From Verif Require Import Lib.Bytes.
Theorem c18_placeholder : True. Proof. exact I. Qed.
Print Assumptions c18_placeholder.
