(* C19 — Shared caches and parallel key fetching are safe under concurrency.
   Only statements here; proofs in Net/DnsCacheProofs.v and Keys/FetchPoolProofs.v.

   What these theorems are about: transition systems whose atomic steps are the critical
   sections of fclient/dnscache.go and of keyring.go DirectKeyFetcher.FetchKeys, interleaved
   arbitrarily (the theorems are inductions over all reachable states / all merge orders).
   What they cannot be about: data races and the Go memory model (an unsynchronised access
   has no counterpart in a model whose steps are atomic by construction) and real scheduling.
   Those are addressed only by the stress runs of the harness, which are tests. *)
From Coq Require Import Permutation.
From Verif Require Import Lib.Bytes Net.DnsCache Net.DnsCacheProofs Keys.FetchPool Keys.FetchPoolProofs
     Net.TransportCache Net.TransportCacheProofs.
Open Scope Z_scope.

Section DNS.
  Variable size : nat.
  Variable dur : Z.
  Hypothesis size_pos : (1 <= size)%nat.

  (* never more entries than the configured size, in every reachable state of every schedule
     of any number of threads, whatever the resolver answers and whenever entries are deleted *)
  Theorem dns_size_bounded : forall strict t0 s,
    reachable size dur strict t0 s -> (length (entries s) <= size)%nat.
  Proof. intros strict t0 s H. apply (inv_size size dur s (inv_reachable size dur size_pos strict t0 s H)). Qed.

  (* the entry map stays a map: one entry per host *)
  Theorem dns_one_entry_per_host : forall strict t0 s,
    reachable size dur strict t0 s -> NoDup (map e_host (entries s)).
  Proof. intros strict t0 s H. apply (inv_nodup size dur s (inv_reachable size dur size_pos strict t0 s H)). Qed.

  (* an answer is served from the cache only while its entry has not expired at the clock
     reading taken under the lock, and it is the entry of the host asked for *)
  Theorem dns_never_serves_expired : forall strict s i h t s' h' a c,
    step size dur strict s (LCheck i h t) s' -> threads s' i = Finished h' (Some (a, c)) ->
    h' = h /\ c = true /\
    exists e, In e (entries s) /\ e_host e = h /\ e_addrs e = a /\ t < e_exp e.
  Proof. intros. eapply served_is_unexpired; eauto. Qed.

  (* no entry outlives its validity: expiry is at most duration after the latest clock reading *)
  Theorem dns_entries_expire_within_duration : forall strict t0 s e,
    reachable size dur strict t0 s -> In e (entries s) -> e_exp e <= clock s + dur.
  Proof. intros strict t0 s e H. apply (inv_exp size dur s (inv_reachable size dur size_pos strict t0 s H)). Qed.

  (* host isolation: whatever a caller asking for h is handed, the resolver answered it for h *)
  Theorem dns_host_isolation : forall strict t0 s i h a c,
    reachable size dur strict t0 s -> threads s i = Finished h (Some (a, c)) ->
    In (h, a) (answers s).
  Proof.
    intros strict t0 s i h a c H Hf.
    apply (inv_threads_known size dur s (inv_reachable size dur size_pos strict t0 s H) i).
    right. exists c. exact Hf.
  Qed.

  (* the eviction loop ends in every reachable state, provided clock readings under the lock
     strictly increase (with equal readings the loop finds nothing to evict and spins with
     the mutex held: the model has that transition, S_insert_spin) *)
  Theorem dns_eviction_terminates : forall t0 s,
    reachable size dur true t0 s -> spinning s = false.
  Proof. intros. eapply strict_never_spins; eauto. Qed.

  (* one lock, never nested, released at the end of each section: every thread can always
     take its next step *)
  Theorem no_deadlock_model : forall t0 s (i : nat),
    reachable size dur true t0 s ->
    exists l s', step size dur true s l s' /\ label_thread l = i.
  Proof.
    intros t0 s i H. apply thread_can_move. eapply strict_never_spins; eauto.
  Qed.

  (* sequential refinement, for a resolver whose answers do not change during the run: every
     caller of every interleaving is handed exactly R h, which is also what the sequential
     semantics hands out.  (Without that premise two overlapping lookups of one host both
     ask the resolver and may hand out different answers where a sequential execution would
     serve the second from the cache: the cache is not linearizable in the strict sense; what
     holds unconditionally is dns_host_isolation and dns_never_serves_expired.) *)
  Theorem dns_sequential_refinement : forall strict (R : bytes -> option bytes) t0 s i h r,
    reachable_R size dur strict R t0 s -> threads s i = Finished h r -> option_map fst r = R h.
  Proof. intros. eapply stable_results; eauto. Qed.

  Theorem dns_sequential_semantics_same : forall (R : bytes -> option bytes) t1 t3 h es es' r,
    (forall e, In e es -> R (e_host e) = Some (e_addrs e)) ->
    seq_lookup size dur t1 t3 h (R h) es = Some (es', r) -> option_map fst r = R h.
  Proof. intros. eapply seq_lookup_result; eauto. Qed.
End DNS.

(* size 0 (the zero value of an unset configuration field; negative sizes are treated alike):
   since the repair of F94 such a cache holds nothing and never spins, in every reachable state *)
Theorem dns_size_zero_caches_nothing : forall dur strict t0 s,
  reachable 0 dur strict t0 s -> entries s = [] /\ spinning s = false.
Proof. exact size_zero_caches_nothing. Qed.

Open Scope N_scope.

(* parallel key fetching: every complete run of the pool, whatever the schedule, returns for
   every key the value of the one successful per-server result that has it, else the local
   entry: the union, which is also what fetching the servers one after the other returns *)
Theorem fetch_keys_union : forall fetch jobs local s k,
  pinned fetch -> NoDup jobs -> preachable fetch jobs local s -> pfinal s ->
  union_at k (outcome_maps fetch jobs) local (mget k (results s)) /\
  mget k (results s) = mget k (fetch_sequential fetch jobs local).
Proof. intros. apply pool_result_is_union; assumption. Qed.

Theorem fetch_keys_any_merge_order : forall rs rs' init k,
  pairwise_disjoint rs -> Permutation rs rs' -> union_at k rs init (mget k (merge_all init rs')).
Proof. intros. apply any_merge_order_gives_union; assumption. Qed.

(* per-server results cannot share a key: CheckKeys pins the server name, job names are distinct *)
Theorem fetch_keys_results_disjoint : forall fetch servers,
  pinned fetch -> NoDup servers -> pairwise_disjoint (outcome_maps fetch servers).
Proof. exact pinned_disjoint. Qed.

Theorem fetch_pool_no_deadlock : forall fetch s, ~ pfinal s -> exists s', pstep fetch s s'.
Proof. exact pool_progress. Qed.

Theorem fetch_pool_terminates : forall fetch s s', pstep fetch s s' -> (unfinished s' < unfinished s)%nat.
Proof. exact pool_terminates. Qed.

(* ---------------- transport cache (destinationTripper.transports) ---------------- *)
Open Scope Z_scope.

(* getTransport stores lastUsed inside its critical section; therefore, in every reachable
   state of every interleaving of getTransport calls and reaper passes, a reaper pass finds a
   stored lastUsed in every entry it can see (its type assertion cannot panic) *)
Theorem transport_reaper_never_panics : forall lifetime t0 s t,
  treachable lifetime false t0 s ->
  tpanicked s = false /\ reap_section lifetime t (tentries s) <> None.
Proof. exact reaper_never_panics. Qed.

(* every entry visible under the lock has a stored lastUsed, one entry per name, one name per
   transport, lastUsed never ahead of the clock *)
Theorem transport_entries_well_formed : forall lifetime t0 s,
  treachable lifetime false t0 s ->
  Forall stored (tentries s) /\ NoDup (tnames (tentries s)) /\ NoDup (map t_id (tentries s)).
Proof.
  intros lifetime t0 s H. apply tinv_reachable in H.
  destruct H as [I1 I2 _ I4 _ _]. auto.
Qed.

Theorem transport_same_for_name : forall now n next es e,
  tfind n es = Some e -> snd (get_section now n next es) = t_id e.
Proof. exact same_transport_for_name. Qed.

Theorem transport_new_is_fresh : forall lifetime t0 s now n,
  treachable lifetime false t0 s -> tfind n (tentries s) = None ->
  forall e, In e (tentries s) -> t_id e <> snd (get_section now n (tnext s) (tentries s)).
Proof. exact new_transport_is_fresh. Qed.

Theorem transport_recently_used_survives : forall lifetime now es es' e t,
  reap_section lifetime now es = Some es' -> In e es -> t_last e = Some t -> now - t <= lifetime ->
  In e es'.
Proof. exact recently_used_survives. Qed.

(* what the invariant rests on: were the entry published in one critical section and lastUsed
   stored afterwards outside the lock, a reaper pass in between would panic *)
Theorem transport_split_store_would_panic : forall lifetime,
  exists s, treachable lifetime true 0 s /\ tpanicked s = true.
Proof. exact split_variant_reaper_can_panic. Qed.

(* ---------------- non-vacuity ---------------- *)
(* two threads miss the same host, both resolve (different answers), both insert: reachable,
   and the second insertion replaces the first *)
Example two_overlapping_lookups :
  exists s, reachable 2 10 true 0 s /\
            threads s 0%nat = Finished (bs "h") (Some (bs "a1", false)) /\
            threads s 1%nat = Finished (bs "h") (Some (bs "a2", false)) /\
            map e_addrs (entries s) = [bs "a2"].
Proof.
  eexists. split.
  - eapply R_step. eapply R_step. eapply R_step. eapply R_step. eapply R_step. eapply R_step.
    apply R_init.
    + apply (S_check_miss 2 10 true _ 0%nat (bs "h") 1 []); try reflexivity.
    + eapply (S_check_miss 2 10 true _ 1%nat (bs "h") 2 []); try reflexivity.
    + eapply (S_resolve_ok 2 10 true _ 0%nat (bs "h") (bs "a1")). reflexivity.
    + eapply (S_resolve_ok 2 10 true _ 1%nat (bs "h") (bs "a2")). reflexivity.
    + eapply (S_insert 2 10 true _ 0%nat (bs "h") (bs "a1") 3); try reflexivity.
    + eapply (S_insert 2 10 true _ 1%nat (bs "h") (bs "a2") 4); try reflexivity.
  - repeat split; reflexivity.
Qed.

Example eviction_instance :
  option_map (map e_host)
    (insert_section 2 10 5 (bs "c") (bs "x")
       [ {| e_host := bs "a"; e_addrs := bs "1"; e_exp := 12 |};
         {| e_host := bs "b"; e_addrs := bs "2"; e_exp := 11 |} ])
  = Some [bs "a"; bs "c"]
  /\ insert_section 2 10 1 (bs "c") (bs "x")
       [ {| e_host := bs "a"; e_addrs := bs "1"; e_exp := 11 |};
         {| e_host := bs "b"; e_addrs := bs "2"; e_exp := 11 |} ] = None.
Proof. split; vm_compute; reflexivity. Qed.

Example pool_instance :
  let fetch := fun s : bytes => if bytes_eqb s (bs "a") then Some [((bs "a", bs "k1"), bs "cur")]
                                else if bytes_eqb s (bs "b") then None
                                else Some [((s, bs "k2"), bs "cur")] in
  pinned fetch /\
  mget (bs "c", bs "k2") (fetch_sequential fetch [bs "a"; bs "b"; bs "c"] []) = Some (bs "cur") /\
  mget (bs "b", bs "k2") (fetch_sequential fetch [bs "a"; bs "b"; bs "c"] []) = None.
Proof.
  split; [|split; vm_compute; reflexivity].
  intros s r k v Hf Hin. simpl in Hf.
  destruct (bytes_eqb s (bs "a")) eqn:Ea.
  - apply bytes_eqb_eq in Ea. inversion Hf; subst. destruct Hin as [E|[]]. inversion E. reflexivity.
  - destruct (bytes_eqb s (bs "b")); [discriminate|]. inversion Hf; subst.
    destruct Hin as [E|[]]. inversion E. reflexivity.
Qed.

Print Assumptions dns_size_bounded.
Print Assumptions dns_one_entry_per_host.
Print Assumptions dns_never_serves_expired.
Print Assumptions dns_entries_expire_within_duration.
Print Assumptions dns_host_isolation.
Print Assumptions dns_eviction_terminates.
Print Assumptions no_deadlock_model.
Print Assumptions dns_sequential_refinement.
Print Assumptions dns_sequential_semantics_same.
Print Assumptions dns_size_zero_caches_nothing.
Print Assumptions fetch_keys_union.
Print Assumptions fetch_keys_any_merge_order.
Print Assumptions fetch_keys_results_disjoint.
Print Assumptions fetch_pool_no_deadlock.
Print Assumptions fetch_pool_terminates.
Print Assumptions transport_reaper_never_panics.
Print Assumptions transport_entries_well_formed.
Print Assumptions transport_same_for_name.
Print Assumptions transport_new_is_fresh.
Print Assumptions transport_recently_used_survives.
Print Assumptions transport_split_store_would_panic.
