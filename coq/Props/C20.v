(* C20 — Login tokens authenticate the issuing server and user, and expire.
   Only statements here; proofs live in Tokens/Proofs.v.  The HMAC chain of the macaroon
   library is a premise (ideal_chain), never an axiom; Tokens/Instance.v shows it satisfiable. *)
From Verif Require Import Lib.Bytes Tokens.Model Tokens.Proofs Tokens.Instance Gen.GenConsts.
Open Scope Z_scope.

(* the constants of the model are the constants of the source (regenerated every run) *)
Theorem C20_constants_match_source :
  gen_tokens_default_duration = default_duration /\
  gen_tokens_user_prefix = user_prefix /\
  gen_tokens_time_prefix = time_prefix /\
  gen_tokens_gen = gen_caveat.
Proof. repeat split; reflexivity. Qed.

Section C20.
  Context {sigT : Type} (mac0 : bytes -> bytes -> sigT) (macS : sigT -> bytes -> sigT)
          (sig_eqb : sigT -> sigT -> bool) (IC : ideal_chain mac0 macS sig_eqb).
  Notation validate := (validate sigT mac0 macS sig_eqb).
  Notation issue := (issue sigT mac0 macS).

  (* a token issued at t0 for d seconds validates exactly under the issuing key, for the
     user it was issued for, strictly before t0 + d (120 if d = 0) *)
  Theorem token_validates_iff : forall key user t0 d key' user' now,
    in_int64 (t0 + duration_of d) ->
    validate key' user' now (issue key user t0 d) = true <->
    key' = key /\ user' = user /\ now < t0 + duration_of d.
  Proof. destruct IC. intros. apply issued_validates_iff; assumption. Qed.

  Theorem token_expires : forall key user t0 d key' user' now,
    in_int64 (t0 + duration_of d) -> t0 + duration_of d <= now ->
    validate key' user' now (issue key user t0 d) = false.
  Proof. destruct IC. intros. apply issued_expires; assumption. Qed.

  (* the same without a premise on the sum's upper end: a duration that would carry the expiry
     past the largest instant gives a token that expires there (repair of F97); the premise left
     excludes only durations below -2^63 + t0 *)
  Theorem token_validates_iff_every_duration : forall key user t0 d key' user' now,
    - 2 ^ 63 <= t0 + duration_of d ->
    validate key' user' now (issue key user t0 d) = true <->
    key' = key /\ user' = user /\ now < expiry_of t0 d.
  Proof. destruct IC. intros. apply issued_validates_iff_gen; assumption. Qed.

  (* the issuing server (repair of F96): the server name travels as the macaroon's location, which
     the signature does not cover; a validating server that gives its name refuses every token
     whose location is another name, and accepts nothing that validation by key, user and time
     refuses *)
  Theorem token_of_another_server_refused : forall srv loc key user now t,
    srv <> [] -> loc <> srv -> validate_at sigT mac0 macS sig_eqb srv loc key user now t = false.
  Proof. destruct IC. intros. apply validate_at_other_server; assumption. Qed.

  Theorem server_check_only_restricts : forall srv loc key user now t,
    validate_at sigT mac0 macS sig_eqb srv loc key user now t = true ->
    validate key user now t = true /\ (srv = [] \/ loc = srv).
  Proof. destruct IC. intros. apply validate_at_sound; assumption. Qed.

  Theorem token_reveals_user : forall key user t0 d, user_of sigT (issue key user t0 d) = user.
  Proof. reflexivity. Qed.

  (* whatever validates has exactly the three required caveats, all satisfied, and a
     signature chained from the validating key *)
  Theorem validated_token_shape : forall key user now t,
    validate key user now t = true ->
    tsig t = chain sigT mac0 macS key (tid t) (tcavs t) /\
    length (tcavs t) = 3%nat /\
    Forall (good_caveat user now) (tcavs t) /\
    In gen_caveat (tcavs t) /\ In (user_prefix ++ user) (tcavs t) /\
    exists e, In (time_prefix ++ e) (tcavs t) /\ verify_expiry e now = true.
  Proof. destruct IC. intros. eapply validate_sound; eauto. Qed.

  (* conversely: minted under the validating key with exactly the three required caveats,
     in any order, with the expiry in the future, it validates *)
  Theorem well_formed_token_validates : forall key user now e cavs,
    in_int64 e -> now < e ->
    In cavs (perms3 gen_caveat (user_prefix ++ user) (time_prefix ++ print_int e)) ->
    validate key user now (mint sigT mac0 macS key user cavs) = true.
  Proof.
    destruct IC as [_ _ _ Heq]. intros. unfold Model.validate, Model.mint; cbn [tsig tid tcavs].
    apply andb_true_iff; split; [apply Heq; reflexivity|].
    eapply verify_caveats_complete_perm; eauto.
  Qed.

  Theorem minted_under_other_key_refused : forall key key' id cavs user now,
    key <> key' -> validate key' user now (mint sigT mac0 macS key id cavs) = false.
  Proof. destruct IC. intros. eapply other_key_refused; eauto. Qed.

  Theorem extended_token_refused : forall key user now t c key' user' now',
    validate key user now t = true ->
    validate key' user' now' (add_caveat sigT macS t c) = false.
  Proof. destruct IC. intros. eapply extended_refused; eauto. Qed.

  Theorem altered_token_refused : forall key user now t key' user' now' t',
    validate key user now t = true -> validate key' user' now' t' = true ->
    tsig t' = tsig t -> key' = key /\ tid t' = tid t /\ tcavs t' = tcavs t.
  Proof. destruct IC. intros. eapply altered_refused; eauto. Qed.

  Theorem unknown_caveat_token_refused : forall key user now t c,
    In c (tcavs t) -> classify c = CUnknown -> validate key user now t = false.
  Proof. destruct IC. intros. eapply unknown_caveat_refused; eauto. Qed.

  Theorem missing_caveat_token_refused : forall key user now t,
    (~ In gen_caveat (tcavs t) \/ ~ In (user_prefix ++ user) (tcavs t) \/
     (forall e, In (time_prefix ++ e) (tcavs t) -> verify_expiry e now = false)) ->
    validate key user now t = false.
  Proof. destruct IC. intros. eapply missing_caveat_refused; eauto. Qed.

  Theorem other_user_refused : forall key user now t user',
    validate key user now t = true -> user' <> user -> validate key user' now t = false.
  Proof. destruct IC. intros. eapply wrong_user_refused; eauto. Qed.
End C20.

(* non-vacuity: the premises hold for the free term algebra, and a concrete token validates *)
Example ideal_chain_inhabited : ideal_chain S0 SS sterm_eqb.
Proof.
  constructor.
  - intros k i k' i' H. inversion H. tauto.
  - intros s c s' c' H. inversion H. tauto.
  - intros k i s c H. discriminate.
  - intros a b. apply sterm_eqb_spec.
Qed.

Example concrete_token_validates :
  t_validate (bs "secret") (bs "@alice:example.org") 1700000100
             (t_issue (bs "secret") (bs "@alice:example.org") 1700000000 0) = true
  /\ t_validate (bs "secret") (bs "@alice:example.org") 1700000120
             (t_issue (bs "secret") (bs "@alice:example.org") 1700000000 0) = false.
Proof. split; vm_compute; reflexivity. Qed.

Print Assumptions C20_constants_match_source.
Print Assumptions token_validates_iff.
Print Assumptions token_expires.
Print Assumptions token_reveals_user.
Print Assumptions validated_token_shape.
Print Assumptions well_formed_token_validates.
Print Assumptions minted_under_other_key_refused.
Print Assumptions extended_token_refused.
Print Assumptions altered_token_refused.
Print Assumptions unknown_caveat_token_refused.
Print Assumptions missing_caveat_token_refused.
Print Assumptions other_user_refused.
Print Assumptions token_validates_iff_every_duration.
Print Assumptions token_of_another_server_refused.
Print Assumptions server_check_only_restricts.
