(* Shared JSON operations (used by several properties' correspondence checks and for testing). *)
From Verif Require Import Lib.Bytes Json.Ast Json.Parse Json.Print.
Open Scope N_scope.

Definition run_canonical (args : list bytes) : bytes :=
  match args with
  | [t] => match canonical t with Some c => bs "ok:" ++ c | None => bs "invalid" end
  | _ => bs "badargs"
  end.

Definition ops_C00 : list (bytes * (list bytes -> bytes)) :=
  [ (bs "json.canonical", run_canonical) ].
