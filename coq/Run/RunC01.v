(* Executable entry points for C01: correspondence ops (model) and specification oracles. *)
From Verif Require Import Lib.Bytes Json.Ast Json.Parse Json.Print Json.CanonC01 Json.CanonSpecC01 Crash.Outcome Json.CompactModelC01 Json.DepthC01.
Open Scope N_scope.

Definition show (r : option bytes) : bytes :=
  match r with Some c => bs "ok:" ++ c | None => bs "err" end.

(* [t] -> CanonicalJSON *)
Definition run_canonical_C01 (args : list bytes) : bytes :=
  match args with [t] => show (canonical_json t) | _ => bs "badargs" end.

(* [t] -> CanonicalJSONAssumeValid / CompactJSON+SortJSON on a valid text: no nesting test there *)
Definition run_canonical_unguarded (args : list bytes) : bytes :=
  match args with [t] => show (canonical t) | _ => bs "badargs" end.

(* [t] -> jsonNestingExceeds(t, maxJSONDepth) *)
Definition run_nesting (args : list bytes) : bytes :=
  match args with [t] => if nesting_exceeds t max_json_depth then bs "exceeds" else bs "within" | _ => bs "badargs" end.

(* [t; ver] -> EnforcedCanonicalJSON *)
(* verdicts only (very deep texts): [t] / [t; ver] *)
Definition run_accepts (args : list bytes) : bytes :=
  match args with [t] => if canonical_json_accepts t then bs "ok" else bs "err" | _ => bs "badargs" end.
Definition run_enforced_accepts (args : list bytes) : bytes :=
  match args with [t; ver] => if enforced_json_accepts ver t then bs "ok" else bs "err" | _ => bs "badargs" end.

(* [t; limit] -> jsonNestingExceeds(t, limit) for any limit *)
Definition run_nesting_lim (args : list bytes) : bytes :=
  match args with
  | [t; l] => match parse_int l with
              | Some z => if nesting_exceeds t z then bs "exceeds" else bs "within"
              | None => bs "badargs"
              end
  | _ => bs "badargs"
  end.

Definition run_enforced (args : list bytes) : bytes :=
  match args with [t; ver] => show (enforced_json ver t) | _ => bs "badargs" end.

(* [t] -> gjson.Valid *)
Definition run_valid (args : list bytes) : bytes :=
  match args with [t] => if json_valid t then bs "valid" else bs "invalid" | _ => bs "badargs" end.

(* [t1; t2] -> both canonical forms, and whether they are the same bytes *)
Definition run_pair (args : list bytes) : bytes :=
  match args with
  | [t1; t2] =>
      match canonical_json t1, canonical_json t2 with
      | Some c1, Some c2 => (if bytes_eqb c1 c2 then bs "same:" else bs "differ:") ++ c1 ++ [10] ++ c2
      | _, _ => bs "err"
      end
  | _ => bs "badargs"
  end.

(* [alphabet; n; prefix] -> listing of the valid texts *)
Definition run_enum (args : list bytes) : bytes :=
  match args with
  | [alpha; n; prefix] =>
      match parse_dec n with
      | Some k => enum_texts (N.to_nat k) alpha (rev prefix)
      | None => bs "badargs"
      end
  | _ => bs "badargs"
  end.

(* [t] -> CompactJSON(t, nil) through the byte-level model: the bytes, or PANIC when an index read
   leaves the input *)
Definition run_compact_raw (args : list bytes) : bytes :=
  match args with
  | [t] => match compact_model t with Ret b => bs "ok:" ++ b | Crash => bs "PANIC" end
  | _ => bs "badargs"
  end.

(* [alphabet; n; prefix] -> for EVERY text over the alphabet extending the prefix by at most n
   symbols: the text and what CompactJSON makes of it *)
Fixpoint enum_compact (n : nat) (alpha : bytes) (revp : bytes) : bytes :=
  (let t := rev revp in
   t ++ [62] ++ match compact_model t with Ret b => b | Crash => [33; 80] end ++ [10]) ++
  match n with
  | O => []
  | S n' => flat_map (fun c => enum_compact n' alpha (c :: revp)) alpha
  end.

Definition run_enum_compact (args : list bytes) : bytes :=
  match args with
  | [alpha; n; prefix] =>
      match parse_dec n with
      | Some k => enum_compact (N.to_nat k) alpha (rev prefix)
      | None => bs "badargs"
      end
  | _ => bs "badargs"
  end.

(* ---------------- specification oracles ---------------- *)
Definition strip_ok (obs : bytes) : option bytes :=
  if is_prefix (bs "ok:") obs then Some (drop 3 obs) else None.

(* output denotes the same value as the input; invalid input is refused.  [t; obs] *)
Definition prop_same_value (args : list bytes) : bytes :=
  match args with
  | [t; obs] =>
      match parse_json t, strip_ok obs with
      | None, None => bs "ok"
      | None, Some _ => bs "FAIL invalid input accepted"
      | Some v, None => if too_deep v then bs "ok" else bs "FAIL valid input refused"
      | Some v, Some out =>
          match parse_json out with
          | None => bs "FAIL output is not valid JSON"
          | Some v' =>
              if too_deep v then bs "FAIL document nested deeper than the limit accepted"
              else if negb (json_nodup v) then bs "ok" (* duplicate keys: outside the property's domain *)
              else if json_same v v' && json_same v' v then bs "ok" else bs "FAIL output denotes another value"
          end
      end
  | _ => bs "badargs"
  end.

(* output is in the canonical form.  [t; obs] *)
Definition prop_canonical_form (args : list bytes) : bytes :=
  match args with
  | [t; obs] =>
      match strip_ok obs with
      | None => bs "ok"
      | Some out =>
          match parse_json t with
          | Some v => if negb (json_nodup v) then bs "ok" (* duplicate keys: outside the domain *)
                      else if is_canonical_text out then bs "ok" else bs "FAIL output is not in canonical form"
          | None => bs "FAIL invalid input accepted"
          end
      end
  | _ => bs "badargs"
  end.

(* canonicalising the output again changes nothing.  [t; obs] *)
Definition prop_idempotent (args : list bytes) : bytes :=
  match args with
  | [t; obs] =>
      match strip_ok obs with
      | None => bs "ok"
      | Some out =>
          match canonical_json out with
          | Some out' => if bytes_eqb out out' then bs "ok" else bs "FAIL second canonicalisation differs"
          | None => bs "FAIL output refused by canonicalisation"
          end
      end
  | _ => bs "badargs"
  end.

(* CompactJSON on any bytes panics exactly on the texts the scanner refuses, and never on a text the
   validity gate accepts.  [t; obs] with obs from run_compact_raw *)
Definition prop_compact_safe (args : list bytes) : bytes :=
  match args with
  | [t; obs] =>
      let panicked := bytes_eqb obs (bs "PANIC") in
      if json_valid t && panicked then bs "FAIL CompactJSON panics on valid JSON"
      else if Bool.eqb panicked (negb (compact_safe t)) then bs "ok"
      else if panicked then bs "FAIL panic on a text the scanner calls safe"
      else bs "FAIL no panic on a text the scanner calls unsafe"
  | _ => bs "badargs"
  end.

(* the nesting limit, on the verdict alone: a JSON text is refused when its value nests deeper than
   the limit and accepted otherwise; anything else is refused.  [t; obs], obs = ok / ok:... / err *)
Definition prop_depth (args : list bytes) : bytes :=
  match args with
  | [t; obs] =>
      let accepted := is_prefix (bs "ok") obs in
      match parse_json t with
      | None => if accepted then bs "FAIL invalid input accepted" else bs "ok"
      | Some v =>
          if too_deep v then
            (if accepted then bs "FAIL document nested deeper than the limit accepted" else bs "ok")
          else if accepted then bs "ok" else bs "FAIL valid input within the limit refused"
      end
  | _ => bs "badargs"
  end.

Definition first_failure (rs : list bytes) : bytes :=
  fold_right (fun r acc => if bytes_eqb r (bs "ok") then acc else r) (bs "ok") rs.

(* the three together *)
Definition prop_all (args : list bytes) : bytes :=
  first_failure [prop_same_value args; prop_canonical_form args; prop_idempotent args].

(* uniqueness: identical canonical bytes only for texts of the same value (numbers by exact decimal
   value), and always for texts of the same value in the sense Matrix canonical JSON fixes a
   spelling for (integers by value, non-integer literals by their text).
   [t1; t2; obs] with obs as produced by run_pair *)
Definition prop_unique (args : list bytes) : bytes :=
  match args with
  | [t1; t2; obs] =>
      match parse_json t1, parse_json t2 with
      | Some v1, Some v2 =>
          let same := json_same v1 v2 && json_same v2 v1 in
          let same_matrix := json_same_matrix v1 v2 && json_same_matrix v2 v1 in
          if too_deep v1 || too_deep v2 then
            (if bytes_eqb obs (bs "err") then bs "ok" else bs "FAIL document nested deeper than the limit accepted")
          else if negb (json_nodup v1 && json_nodup v2) then bs "ok" (* outside the domain *)
          else if is_prefix (bs "same:") obs then
            if same then bs "ok" else bs "FAIL different values, identical canonical bytes"
          else if is_prefix (bs "differ:") obs then
            if same_matrix then bs "FAIL same value, different canonical bytes" else bs "ok"
          else bs "FAIL valid input refused"
      | _, _ => if bytes_eqb obs (bs "err") then bs "ok" else bs "FAIL invalid input accepted"
      end
  | _ => bs "badargs"
  end.

(* enforced variant.  [t; ver; obs] *)
Definition prop_enforced (args : list bytes) : bytes :=
  match args with
  | [t; ver; obs] =>
      let known := mem_bytes ver spec_enforcing_versions || mem_bytes ver spec_legacy_versions in
      match parse_json t, strip_ok obs with
      | None, None => bs "ok"
      | None, Some _ => bs "FAIL invalid input accepted"
      | Some v, None =>
          if negb known then bs "ok"
          else if too_deep v then bs "ok"
          else if mem_bytes ver spec_enforcing_versions && has_unsafe_number v then bs "ok"
          else if mem_bytes ver spec_enforcing_versions && has_neg_zero v then bs "ok" (* -0: refusing is permitted *)
          else bs "FAIL valid input refused"
      | Some v, Some out =>
          if negb known then bs "FAIL unknown room version accepted"
          else if too_deep v then bs "FAIL document nested deeper than the limit accepted"
          else if mem_bytes ver spec_enforcing_versions && has_unsafe_number v
          then bs "FAIL non-integer or out-of-range number accepted by an enforcing room version"
          else prop_all [t; obs]
      end
  | _ => bs "badargs"
  end.

Definition ops_C01 : list (bytes * (list bytes -> bytes)) :=
  [ (bs "C01.canonical", run_canonical_C01);
    (bs "C01.canonical_unguarded", run_canonical_unguarded);
    (bs "C01.nesting", run_nesting);
    (bs "C01.nesting_lim", run_nesting_lim);
    (bs "C01.accepts", run_accepts);
    (bs "C01.enforced_accepts", run_enforced_accepts);
    (bs "C01.prop.depth", prop_depth);
    (bs "C01.enforced", run_enforced);
    (bs "C01.valid", run_valid);
    (bs "C01.pair", run_pair);
    (bs "C01.enum", run_enum);
    (bs "C01.compact_raw", run_compact_raw);
    (bs "C01.enum_compact", run_enum_compact);
    (bs "C01.const_same", fun _ => bs "same");
    (bs "C01.prop.same_value", prop_same_value);
    (bs "C01.prop.canonical_form", prop_canonical_form);
    (bs "C01.prop.idempotent", prop_idempotent);
    (bs "C01.prop.all", prop_all);
    (bs "C01.prop.unique", prop_unique);
    (bs "C01.prop.compact_safe", prop_compact_safe);
    (bs "C01.prop.enforced", prop_enforced) ].
