(* Executable entry points of the C02 model (correspondence) and specification oracles. *)
From Verif Require Import Lib.Bytes Json.Ast Json.Parse Json.Print Crash.Outcome Json.CompactModelC01 Fed.Utf8C13 Sign.Base64 Sign.Model Sign.Instance Sign.Scenario.
Open Scope N_scope.

Definition err : bytes := bs "err".
Definition okb : bytes := bs "ok".
Definition sig_mask : json := JStr (bs "SIG").

(* a text as CanonicalJSON reads its strings: CompactJSON's treatment of escapes, through C01's
   byte-level model of it - in particular unpaired surrogate escapes are dropped (finding F68).
   The same as the text itself for every text without such escapes, up to spelling. *)
Definition code_view (t : bytes) : bytes :=
  match compact_model t with Ret b => b | Crash => t end.

(* ---- C02.sign: [name; kid; seed; text] -> err | ok:<output with the new signature masked> *)
Definition run_sign (args : list bytes) : bytes :=
  match args with
  | [name; kid; seed; t] =>
      if negb (utf8_valid t) then err else
      match parse_json t with
      | None => err
      | Some _ =>
      match parse_json (code_view t) with
      | None => err
      | Some v =>
          match s_sign_value name kid seed v with
          | None => err
          | Some o => bs "ok:" ++ canon_print (jset_path [k_signatures; name; kid] sig_mask o)
          end
      end
      end
  | _ => bs "badargs"
  end.

(* ---- C02.verify_text: [name; kid; key; text] -> ok | err (texts without genuine signatures) *)
Definition run_verify_text (args : list bytes) : bytes :=
  match args with
  | [name; kid; pk; t] => if s_verify_json name kid pk t then okb else err
  | _ => bs "badargs"
  end.

(* ---- C02.list: [name; text] -> err | canonical JSON array of the key IDs, sorted, no repeats *)
Fixpoint insert_bytes (x : bytes) (l : list bytes) : list bytes :=
  match l with
  | [] => [x]
  | y :: l' => match bytes_cmp x y with
               | Lt => x :: l
               | Eq => l
               | Gt => y :: insert_bytes x l'
               end
  end.
Definition sort_set (l : list bytes) : list bytes := fold_right insert_bytes [] l.

Definition run_list (args : list bytes) : bytes :=
  match args with
  | [name; t] =>
      match list_key_ids name t with
      | None => err
      | Some ks => canon_print (JArr (map JStr (sort_set ks)))
      end
  | _ => bs "badargs"
  end.

(* ---- C02.scenario: [text0; steps; pseed; queries] -> signerr | v1,v2,... *)
Definition parse_query (j : json) : option (bytes * bytes * bytes) :=
  match j with JArr [JStr n; JStr k; JStr p] => Some (n, k, p) | _ => None end.

Fixpoint parse_queries (l : list json) : option (list (bytes * bytes * bytes)) :=
  match l with
  | [] => Some []
  | j :: r => match parse_query j, parse_queries r with
              | Some q, Some qs => Some (q :: qs)
              | _, _ => None
              end
  end.

Definition verdicts (f : bytes -> bytes -> bytes -> bool) (qs : list (bytes * bytes * bytes)) : bytes :=
  join_bytes [44] (map (fun q => match q with (n, k, p) => if f n k p then okb else err end) qs).

Definition with_scenario (code : bool) (args : list bytes)
    (k : list step -> list json -> list (bytes * bytes * bytes) -> bytes) (onerr : bytes) : bytes :=
  match args with
  | t0 :: stepsT :: _ :: queriesT :: _ =>
      match parse_json (if code then code_view t0 else t0), parse_json stepsT, parse_json queriesT with
      | Some v0, Some (JArr sj), Some (JArr qj) =>
          match parse_steps sj, parse_queries qj with
          | Some steps, Some qs =>
              match run_trace code steps v0 with
              | Some tr => k steps tr qs
              | None => onerr
              end
          | _, _ => bs "badscenario"
          end
      | _, _, _ => bs "badscenario"
      end
  | _ => bs "badargs"
  end.

Definition run_scenario (args : list bytes) : bytes :=
  with_scenario true args
    (fun _ tr qs => verdicts (fun n k p => s_verify_value n k p (final_state tr)) qs)
    (bs "signerr").

(* ---- specification oracles (receive the arguments followed by the implementation's observable) *)

(* verdicts demanded by the specification of a genuine signature (Scenario.spec_verdict) *)
Definition prop_scenario (args : list bytes) : bytes :=
  match args with
  | [_; _; _; _; obs] =>
      let want := with_scenario false args (fun steps tr qs => verdicts (spec_verdict steps tr) qs) (bs "signerr") in
      if bytes_eqb obs want then okb
      else
        (* a recorded finding is named only when the implementation does exactly what the model of
           the code does with the feature in question; anything else is a plain FAIL *)
        let code := run_scenario (firstn 4 args) in
        let surr := with_scenario false args (fun steps _ _ => if has_surr steps then bs "y" else bs "n") (bs "n") in
        let rept := with_scenario false args (fun _ tr _ => if existsb has_repeats tr then bs "y" else bs "n") (bs "n") in
        let tag :=
          if bytes_eqb obs code && bytes_eqb surr (bs "y") then bs "FAIL-UNPAIRED-SURROGATE"
          else if bytes_eqb obs code && bytes_eqb rept (bs "y") then bs "FAIL-REPEATED-MEMBER"
          else bs "FAIL" in
        tag ++ bs " want=" ++ want ++ bs " impl=" ++ obs
  | _ => bs "badargs"
  end.

(* all (entity, key id, decoded signature) triples of a signatures value with string entries *)
Definition entries_of (j : json) : list (bytes * bytes * json) :=
  match j with
  | JObj sm =>
      flat_map (fun ne => match snd ne with
                          | JObj inner => map (fun ks => (fst ne, fst ks, snd ks)) inner
                          | _ => []
                          end) sm
  | _ => []
  end.

Definition same_sig (a b : json) : bool :=
  match decode_sig a, decode_sig b with
  | Some x, Some y => bytes_eqb x y
  | _, _ => false
  end.

Definition opt_canon_eqb (a b : option json) : bool :=
  match a, b with
  | None, None => true
  | Some x, Some y => bytes_eqb (canon_print x) (canon_print y)
  | _, _ => false
  end.

(* strict reading of the wire format: signatures absent or an object of objects of base64 strings *)
Definition strictly_signable (v : json) : bool :=
  match v with
  | JObj m =>
      match assoc_last k_signatures m with
      | None => true
      | Some (JObj sm) =>
          forallb (fun ne => match snd ne with
                             | JObj inner => forallb (fun ks => match snd ks with
                                                                | JStr s => match b64_decode s with Some _ => true | None => false end
                                                                | _ => false
                                                                end) inner
                             | _ => false
                             end) sm
      | Some _ => false
      end
  | _ => false
  end.

Definition check (b : bool) (msg : string) (rest : bytes) : bytes :=
  if b then rest else bs "FAIL " ++ bs msg.

(* [name; kid; seed; text; obs]: what SignJSON must do, judged on its own output *)
Definition prop_sign (args : list bytes) : bytes :=
  match args with
  | [name; kid; _; t; obs] =>
      if negb (utf8_valid t) then check (bytes_eqb obs err) "signed a text that is not UTF-8" okb else
      match parse_json t with
      | None => check (bytes_eqb obs err) "signed an invalid text" okb
      | Some v =>
          if bytes_eqb obs err then check (negb (strictly_signable v)) "refused a signable object" okb
          else if is_prefix (bs "ok:") obs then
            let out := drop 3 obs in
            match parse_json out with
            | None => bs "FAIL output is not JSON"
            | Some o =>
                let old_sigs := match jget k_signatures v with Some j => entries_of j | None => [] end in
                let new_sigs := match jget k_signatures o with Some j => entries_of j | None => [] end in
                let is_new := fun (e : bytes * bytes * json) => bytes_eqb (fst (fst e)) name && bytes_eqb (snd (fst e)) kid in
                check (match v with JObj _ => true | JNull => true | _ => false end) "signed a non-object"
               (check (bytes_eqb out (canon_print o)) "output not canonical"
               (if negb (bytes_eqb (canon_print (strip o)) (canon_print (strip v)) || (match v with JNull => true | _ => false end))
                then (if has_unpaired_surrogate t
                      then bs "FAIL-UNPAIRED-SURROGATE signed content changed"
                      else bs "FAIL signed content changed") else
               (if negb (opt_canon_eqb (jget k_unsigned o) (jget k_unsigned v))
                then (if has_unpaired_surrogate t
                      then bs "FAIL-UNPAIRED-SURROGATE unsigned changed"
                      else bs "FAIL unsigned changed") else
               (check (match jpath [k_signatures; name; kid] o with Some j => json_eqb j sig_mask | None => false end)
                      "new signature missing"
               (check (forallb (fun e => is_new e ||
                                  match jpath [k_signatures; fst (fst e); snd (fst e)] o with
                                  | Some j => same_sig j (snd e) || negb (match decode_sig (snd e) with Some _ => true | None => false end)
                                  | None => false
                                  end) old_sigs) "earlier signature lost or altered"
               (check (forallb (fun e => is_new e ||
                                  match jpath [k_signatures; fst (fst e); snd (fst e)] v with
                                  | Some _ => true
                                  | None => false
                                  end) new_sigs) "signature entry invented"
                okb))))))
            end
          else bs "FAIL observable"
      end
  | _ => bs "badargs"
  end.

(* [name; text; obs]: ListKeyIDs lists exactly the members of signatures.<name> *)
Definition prop_list (args : list bytes) : bytes :=
  match args with
  | [name; t; obs] =>
      match parse_json t with
      | None => check (bytes_eqb obs err) "listed an invalid text" okb
      | Some v =>
          if bytes_eqb obs err then
            (* an error is in order only when signatures, or the entry of the named entity, is
               neither an object nor null; other entities' entries must not matter (F61) *)
            check (negb (match v with
                         | JObj m =>
                             match assoc_last k_signatures m with
                             | None => true
                             | Some JNull => true
                             | Some (JObj sm) =>
                                 match assoc_last name sm with
                                 | None => true
                                 | Some JNull => true
                                 | Some (JObj _) => true
                                 | Some _ => false
                                 end
                             | Some _ => false
                             end
                         | JNull => true
                         | _ => false
                         end)) "refused although the entry asked about is readable" okb
          else
            match parse_json obs with
            | Some (JArr l) =>
                match strs l with
                | Some ks =>
                    let have := match jpath [k_signatures; name] v with Some (JObj inner) => map fst inner | _ => [] end in
                    check (forallb (fun k => mem_bytes k have) ks) "lists a key ID that is not there"
                   (check (forallb (fun k => mem_bytes k ks) have) "misses a key ID"
                   (check (bytes_eqb (canon_print (JArr (map JStr (sort_set ks)))) obs) "not a sorted set" okb))
                | None => bs "FAIL observable"
                end
            | _ => bs "FAIL observable"
            end
      end
  | _ => bs "badargs"
  end.

Definition ops_C02 : list (bytes * (list bytes -> bytes)) :=
  [ (bs "C02.sign", run_sign);
    (bs "C02.verify_text", run_verify_text);
    (bs "C02.list", run_list);
    (bs "C02.scenario", run_scenario);
    (bs "C02.prop.scenario", prop_scenario);
    (bs "C02.prop.sign", prop_sign);
    (bs "C02.prop.list", prop_list) ].
