(* Executable entry points of the C03 model (correspondence) and the specification oracles.

   Hash and signature are finite tables handed over by the harness: trailing arguments come in
   triples (tag, key, value); tag h: key = preimage, value = SHA-256 digest; tag s: key =
   server name, 0, key ID, 0, message, value = ed25519 signature.  The harness computed every
   digest / checked every signature with the real primitives against what the library emitted,
   so a model preimage that differs from the library's in one byte finds no entry and the
   outputs disagree. *)
From Verif Require Import Lib.Bytes Json.Ast Json.Parse Json.Print.
From Verif Require Import Event.Redact Event.RedactSpec Event.ModelC03.
Open Scope N_scope.

Definition nl : bytes := [10].
Definition z_of (s : bytes) : Z := match parse_int s with Some z => z | None => 0%Z end.

(* ---------- tables ---------- *)
Fixpoint tab_of (args : list bytes) : list (bytes * bytes * bytes) :=
  match args with
  | t :: k :: v :: r => (t, k, v) :: tab_of r
  | _ => []
  end.

Fixpoint tab_find (tag key : bytes) (tab : list (bytes * bytes * bytes)) : option bytes :=
  match tab with
  | [] => None
  | (t, k, v) :: r => if bytes_eqb t tag && bytes_eqb k key then Some v else tab_find tag key r
  end.

Definition H_tab (tab : list (bytes * bytes * bytes)) (x : bytes) : bytes :=
  match tab_find (bs "h") x tab with Some d => d | None => bs "no-table-entry-for-this-preimage" end.
Definition sgn_tab (tab : list (bytes * bytes * bytes)) (name keyid msg : bytes) : bytes :=
  match tab_find (bs "s") (name ++ [0] ++ keyid ++ [0] ++ msg) tab with
  | Some d => d
  | None => bs "no-table-entry-for-this-message"
  end.

(* ---------- printing ---------- *)
Definition hexd (n : N) : N := if n <? 10 then 48 + n else 55 + n.
Definition pct_byte (c : N) : bytes :=
  if (32 <=? c) && (c <=? 126) && negb (c =? 37) && negb (c =? 44) then [c]
  else [37; hexd (c / 16); hexd (c mod 16)].
Definition pct (s : bytes) : bytes := flat_map pct_byte s.

Definition pct_list (o : option (list bytes)) : bytes :=
  match o with
  | None => bs "nil"
  | Some l => 91 :: join_bytes [44] (map pct l) ++ [93]
  end.
Definition show_bool (b : bool) : bytes := if b then bs "true" else bs "false".
Definition show_raw (o : option json) : bytes := match o with Some j => pct (canon_print j) | None => [] end.

Section Dump.
  Variable tab : list (bytes * bytes * bytes).
  Notation H := (H_tab tab).
  Notation sgn := (sgn_tab tab).

  (* ID of a fresh trusted parse of the event's JSON (no cached ID involved) *)
  Definition reparse_id (e : ev) : bytes :=
    match parse_trusted (e_ver e) (e_json e) (e_redacted e) with
    | Some e' => event_id H e'
    | None => bs "ERR"
    end.

  Definition dump (e : ev) : bytes :=
    join_bytes nl
      [ bs "id=" ++ pct (event_id H e);
        bs "reid=" ++ pct (reparse_id e);
        bs "type=" ++ pct (f_type e);
        bs "sender=" ++ pct (f_sender e);
        bs "room=" ++ pct (room_id H e);
        bs "skey=" ++ match f_skey e with Some k => 43 :: pct k | None => [45] end;
        bs "content=" ++ show_raw (f_content e);
        bs "depth=" ++ print_int (f_depth e);
        bs "ts=" ++ print_int (f_ts e);
        bs "prev=" ++ pct_list (prev_ids e);
        bs "auth=" ++ pct_list (auth_ids e);
        bs "redacts=" ++ pct (f_redacts e);
        bs "redacted=" ++ show_bool (e_redacted e);
        bs "unsigned=" ++ show_raw (f_unsigned e);
        bs "check=" ++ (if check_fields e then bs "ok" else bs "err");
        bs "json=" ++ pct (canon_print (e_json e));
        (* read-only accessors leave the event value as it is (after EventID() filled its cache) *)
        bs "pure=ok" ].

  (* ---------- arguments ---------- *)
  Definition parse_idlist (t : bytes) : option idlist :=
    if bytes_eqb t (bs "nil") then Some IdsNil
    else if bytes_eqb t (bs "null") then Some IdsTypedNil
    else match parse_json t with
         | Some (JArr l) => option_map Ids (dec_all jstr l)
         | _ => None
         end.

  Definition parse_opt_json (t : bytes) : option (option json) :=
    match t with
    | [] => Some None
    | _ => match parse_json t with Some j => Some (Some j) | None => None end
    end.

  Record bargs := mkB { b_ver : bytes; b_proto : proto; b_eid : bytes; b_ts : Z; b_origin : bytes; b_keyid : bytes }.

  (* [ver; sender; room; type; skflag; skey; prev; auth; redacts; depth; sigs; content; unsigned;
      eid; ts; origin; keyid] *)
  Definition parse_bargs (a : list bytes) : option (bargs * list bytes) :=
    match a with
    | ver :: sender :: room :: type :: skflag :: skey :: prev :: auth :: redacts :: depth :: sigs
        :: content :: unsigned :: eid :: ts :: origin :: keyid :: rest =>
        match parse_idlist prev, parse_idlist auth, parse_opt_json sigs, parse_json content, parse_opt_json unsigned with
        | Some pv, Some au, Some sg, Some ct, Some un =>
            Some (mkB ver (mkProto sender room type (if bytes_eqb skflag (bs "1") then Some skey else None)
                                   pv au redacts (z_of depth) sg ct un)
                      eid (z_of ts) origin keyid, rest)
        | _, _, _, _, _ => None
        end
    | _ => None
    end.

  Definition do_build (b : bargs) : bresult :=
    build H sgn (b_ver b) (b_proto b) (b_eid b) (b_ts b) (b_origin b) (b_keyid b).

  Definition section_of (name : bytes) (body : bytes) : bytes := bs "--" ++ name ++ nl ++ body.

  Definition show_presult (r : presult) : bytes :=
    match r with
    | PErr => bs "err"
    | POk e ok => dump e
    end.
  Definition show_optev (r : option ev) : bytes :=
    match r with None => bs "err" | Some e => dump e end.

  (* through the bytes: what the library is handed is the printed event *)
  Definition reparse_value (j : json) : option json := parse_json (canon_print j).

  Definition roundtrip_of (e : ev) : bytes :=
    let j := reparse_value (e_json e) in
    let hj := reparse_value (to_headered H e) in
    join_bytes nl
      [ section_of (bs "built") (dump e);
        section_of (bs "untrusted") (match j with Some j => show_presult (parse_untrusted H (e_ver e) j) | None => bs "err" end);
        section_of (bs "trusted") (match j with Some j => show_optev (parse_trusted (e_ver e) j false) | None => bs "err" end);
        section_of (bs "headered") (match hj with Some hj => show_optev (parse_headered hj false) | None => bs "err" end) ].

  Definition run_roundtrip_b (b : bargs) : bytes :=
    match do_build b with
    | BErr => bs "builderr"
    | BOk e false => bs "builderr"
    | BOk e true => roundtrip_of e
    end.

  (* build args ++ [unsigned value; unsigned-field key; unsigned-field value; name2; keyid2] *)
  Definition run_edits_b (b : bargs) (rest : list bytes) : bytes :=
    match rest with
    | u :: fk :: fv :: name2 :: keyid2 :: _ =>
        match do_build b, parse_json u, parse_json fv with
        | BOk e0 true, Some uj, Some fvj =>
            let e0 := cache_id H e0 in
            let s0 := section_of (bs "built") (dump e0) in
            match set_unsigned uj e0 with
            | None => join_bytes nl [s0; section_of (bs "set_unsigned") (bs "err")]
            | Some e1 =>
                let e1 := cache_id H e1 in
                let e2 := cache_id H (set_unsigned_field fk fvj e1) in
                match sign sgn name2 keyid2 e2 with
                | None => bs "signerr"
                | Some e3 =>
                    let e3 := cache_id H e3 in
                    match redact_ev e3, parse_trusted (e_ver e0) (e_json e0) false with
                    | Some e4, Some f =>
                        match redact_ev f with
                        | Some e5 =>
                            join_bytes nl
                              [ s0;
                                section_of (bs "set_unsigned") (dump e1);
                                section_of (bs "set_unsigned_field") (dump e2);
                                section_of (bs "sign") (dump e3);
                                section_of (bs "redact") (dump e4);
                                section_of (bs "fresh_redact") (dump e5) ]
                        | None => bs "redacterr"
                        end
                    | _, _ => bs "redacterr"
                    end
                end
            end
        | BOk _ true, _, _ => bs "badargs"
        | _, _, _ => bs "builderr"
        end
    | _ => bs "badargs"
    end.

  (* [ver; event JSON text]: untrusted parse, then Redact() *)
  Definition run_untrusted_b (ver t : bytes) : bytes :=
    match parse_json t with
    | None => bs "err"
    | Some j =>
        match parse_untrusted H ver j with
        | PErr | POk _ false => bs "err"
        | POk e true =>
            let e := cache_id H e in
            join_bytes nl
              [ section_of (bs "parsed") (dump e);
                section_of (bs "redact") (match redact_ev e with Some e' => dump e' | None => PANIC end) ]
        end
    end.

  Definition id_of_build (b : bargs) : bytes :=
    match do_build b with
    | BOk e true => pct (event_id H e)
    | _ => bs "builderr"
    end.
End Dump.

Definition run_roundtrip (args : list bytes) : bytes :=
  match parse_bargs args with
  | Some (b, rest) => run_roundtrip_b (tab_of rest) b
  | None => bs "badargs"
  end.

Definition run_edits (args : list bytes) : bytes :=
  match parse_bargs args with
  | Some (b, rest) => run_edits_b (tab_of (skipn 5 rest)) b rest
  | None => bs "badargs"
  end.

Definition run_untrusted (args : list bytes) : bytes :=
  match args with
  | ver :: t :: rest => run_untrusted_b (tab_of rest) ver t
  | _ => bs "badargs"
  end.

(* two builds: 17 args, 17 args, tables *)
Definition run_variants (args : list bytes) : bytes :=
  match parse_bargs args with
  | Some (a, rest) =>
      match parse_bargs rest with
      | Some (b, rest') =>
          let tab := tab_of rest' in
          id_of_build tab a ++ nl ++ id_of_build tab b
      | None => bs "badargs"
      end
  | None => bs "badargs"
  end.

(* ======================= specification oracles ======================= *)
(* They read the implementation's observable only; nothing of the model's Build or parse
   functions is used (only the generated version table for the ID format and the flags). *)

Fixpoint split_lines_acc (s : bytes) (cur : bytes) : list bytes :=
  match s with
  | [] => [rev_append cur []]
  | c :: r => if c =? 10 then rev_append cur [] :: split_lines_acc r [] else split_lines_acc r (c :: cur)
  end.
Definition split_lines (s : bytes) : list bytes := split_lines_acc s [].

(* lines of the section called name *)
Fixpoint in_section (name : bytes) (ls : list bytes) (inside : bool) : list bytes :=
  match ls with
  | [] => []
  | l :: r =>
      if is_prefix (bs "--") l then in_section name r (bytes_eqb l (bs "--" ++ name))
      else if inside then l :: in_section name r inside else in_section name r inside
  end.
Definition section (name : bytes) (out : bytes) : list bytes := in_section name (split_lines out) false.

Fixpoint field (k : bytes) (ls : list bytes) : option bytes :=
  match ls with
  | [] => None
  | l :: r => if is_prefix (k ++ [61]) l then Some (drop (length k + 1) l) else field k r
  end.

Definition same_field (k : bytes) (a b : list bytes) : bool :=
  match field k a, field k b with
  | Some x, Some y => bytes_eqb x y
  | _, _ => false
  end.
Definition field_is (k v : bytes) (a : list bytes) : bool :=
  match field k a with Some x => bytes_eqb x v | None => false end.

Definition compared_fields : list bytes :=
  [bs "id"; bs "type"; bs "sender"; bs "room"; bs "skey"; bs "content"; bs "depth"; bs "ts"; bs "prev"; bs "auth"].

Fixpoint first_bad (ks : list bytes) (a b : list bytes) : option bytes :=
  match ks with
  | [] => None
  | k :: r => if same_field k a b then first_bad r a b else Some k
  end.

Definition norm_ids (t : bytes) : option (list bytes) :=
  if bytes_eqb t (bs "nil") || bytes_eqb t (bs "null") then Some []   (* a built event had an empty list *)
  else match parse_json t with
       | Some (JArr l) => dec_all jstr l
       | _ => None
       end.

Definition ok : bytes := bs "ok".
Definition fail (why : bytes) : bytes := bs "FAIL " ++ why.

(* the event the property speaks of exists and is what the proto-event said *)
Definition check_built_against_proto (a : list bytes) (built : list bytes) : option bytes :=
  match a with
  | ver :: sender :: room :: type :: skflag :: skey :: prev :: auth :: redacts :: depth :: sigs
      :: content :: unsigned :: eid :: ts :: origin :: keyid :: _ =>
      let v12create := domainless ver && bytes_eqb type create_type && bytes_eqb skflag (bs "1") && bytes_eqb skey [] in
      if negb (field_is (bs "type") (pct type) built) then Some (bs "type")
      else if negb (field_is (bs "sender") (pct sender) built) then Some (bs "sender")
      else if negb v12create && negb (field_is (bs "room") (pct room) built) then Some (bs "room")
      else if negb (field_is (bs "skey") (if bytes_eqb skflag (bs "1") then 43 :: pct skey else [45]) built) then Some (bs "skey")
      else if negb (field_is (bs "content") (match canonical content with Some c => pct c | None => [] end) built) then Some (bs "content")
      else if negb (field_is (bs "depth") (print_int (z_of depth)) built) then Some (bs "depth")
      else if negb (field_is (bs "ts") (print_int (z_of ts)) built) then Some (bs "ts")
      else if negb (field_is (bs "prev") (pct_list (norm_ids prev)) built) then Some (bs "prev")
      else if negb (field_is (bs "auth")
                      (match norm_ids auth with
                       | Some l => pct_list (Some (if domainless ver then (if v12create then [] else (36 :: tl room) :: l) else l))
                       | None => bs "nil" end) built) then Some (bs "auth")
      else if id_format ver =? 1 then (if field_is (bs "id") (pct eid) built then None else Some (bs "id")) else None
  | _ => Some (bs "args")
  end.

Definition check_reparsed (name : bytes) (built : list bytes) (out : bytes) : option bytes :=
  let s := section name out in
  match first_bad compared_fields built s with
  | Some k => Some (name ++ bs ":" ++ k)
  | None =>
      if negb (field_is (bs "redacted") (bs "false") s) then Some (name ++ bs ":redacted")
      else if negb (field_is (bs "check") (bs "ok") s) then Some (name ++ bs ":check")
      else if negb (field_is (bs "pure") (bs "ok") s) then Some (name ++ bs ":an accessor changed the event")
      else None
  end.

(* args ++ [observable] *)
Definition prop_roundtrip (args : list bytes) : bytes :=
  match rev args with
  | out :: _ =>
      if bytes_eqb out (bs "builderr") then ok    (* no event was produced *)
      else
        let built := section (bs "built") out in
        match check_built_against_proto args built with
        | Some k => fail (bs "built:" ++ k)
        | None =>
            if negb (field_is (bs "redacted") (bs "false") built) then fail (bs "built:redacted")
            else if negb (field_is (bs "check") (bs "ok") built) then fail (bs "built:check")
            else if negb (field_is (bs "pure") (bs "ok") built) then fail (bs "built:an accessor changed the event")
            else match check_reparsed (bs "untrusted") built out with
                 | Some k => fail k
                 | None =>
                     match check_reparsed (bs "trusted") built out with
                     | Some k => fail k
                     | None =>
                         match check_reparsed (bs "headered") built out with
                         | Some k => fail k
                         | None => ok
                         end
                     end
                 end
        end
  | [] => bs "badargs"
  end.

(* the alphabet the version prescribes: $ then 43 characters *)
Definition is_b64std_char (c : N) : bool :=
  ((65 <=? c) && (c <=? 90)) || ((97 <=? c) && (c <=? 122)) || is_digit c || (c =? 43) || (c =? 47).
Definition id_alphabet_ok (ver id : bytes) : bool :=
  if id_format ver =? 1 then true
  else match id with
       | c :: r => (c =? 36) && (len r =? 43)
                   && forallb (if id_format ver =? 2 then is_b64std_char else is_b64url_char) r
       | [] => false
       end.

(* the dump shows identifiers percent-encoded; IDs of format 2 and 3 contain only characters
   that are shown as they are *)
Definition edit_sections : list bytes :=
  [bs "set_unsigned"; bs "set_unsigned_field"; bs "sign"; bs "redact"; bs "fresh_redact"].

(* after Redact(): no unsigned, neither through Unsigned() nor in JSON() *)
Definition unhexd0 (c : N) : N := if c <? 58 then c - 48 else c - 55.
Fixpoint unpct0 (s : bytes) : bytes :=
  match s with
  | 37 :: a :: b :: r => (unhexd0 a * 16 + unhexd0 b) :: unpct0 r
  | c :: r => c :: unpct0 r
  | [] => []
  end.
Definition redacted_has_no_unsigned (sec : list bytes) : bool :=
  field_is (bs "unsigned") [] sec && field_is (bs "redacted") (bs "true") sec &&
  match field (bs "json") sec with
  | Some t => match parse_json (unpct0 t) with
              | Some e => negb (mem_bytes (bs "unsigned") (jkeys e))
              | None => false
              end
  | None => false
  end.

Fixpoint check_edit_sections (ver : bytes) (v12 : bool) (built : list bytes) (out : bytes) (names : list bytes) : option bytes :=
  match names with
  | [] => None
  | n :: r =>
      let s := section n out in
      if negb (same_field (bs "id") built s) then Some (n ++ bs ":id")
      else if negb (match field (bs "id") built, field (bs "reid") s with
                    | Some x, Some y => bytes_eqb x y
                    | _, _ => false
                    end) then Some (n ++ bs ":reid")
      else if v12 && negb (same_field (bs "room") built s) then Some (n ++ bs ":room")
      else if v12 && negb (same_field (bs "auth") built s) then Some (n ++ bs ":auth")
      else if negb (field_is (bs "pure") (bs "ok") s) then Some (n ++ bs ":an accessor changed the event")
      else if (bytes_eqb n (bs "redact") || bytes_eqb n (bs "fresh_redact")) && negb (redacted_has_no_unsigned s)
      then Some (n ++ bs ":the redacted event still carries unsigned")
      else check_edit_sections ver v12 built out r
  end.

(* first element of a printed list *)
Definition first_of_list (t : bytes) : bytes :=
  match t with
  | 91 :: r => match split_at 44 r with
               | Some (a, _) => a
               | None => match split_at 93 r with Some (a, _) => a | None => [] end
               end
  | _ => []
  end.

Definition prop_edits (args : list bytes) : bytes :=
  match rev args, args with
  | out :: _, ver :: _ :: _ :: type :: skflag :: skey :: _ =>
      if bytes_eqb out (bs "builderr") then ok
      else
        let built := section (bs "built") out in
        let id := match field (bs "id") built with Some i => i | None => [] end in
        let room := match field (bs "room") built with Some i => i | None => [] end in
        let v12 := domainless ver in
        let create := bytes_eqb type create_type && bytes_eqb skflag (bs "1") && bytes_eqb skey [] in
        if negb (id_alphabet_ok ver id) then fail (bs "alphabet")
        else if negb (field_is (bs "pure") (bs "ok") built) then fail (bs "built:an accessor changed the event")
        else if match section (bs "set_unsigned") out with [l] => bytes_eqb l (bs "err") | _ => false end then ok
        else
          match check_edit_sections ver v12 built out edit_sections with
          | Some k => fail k
          | None =>
              if v12 && create && negb (bytes_eqb room (33 :: tl id)) then fail (bs "v12 create room id")
              else if v12 && negb create
                      && negb (bytes_eqb (first_of_list (match field (bs "auth") built with Some a => a | None => [] end))
                                         (36 :: tl room)) then fail (bs "v12 first auth event")
              else ok
          end
  | _, _ => bs "badargs"
  end.

(* do two build-argument lists describe different events (anything but unsigned, signatures
   and the key ID differs)? *)
Definition same_text (a b : bytes) : bool := bytes_eqb a b.
Definition same_json_text (a b : bytes) : bool :=
  match canonical a, canonical b with
  | Some x, Some y => bytes_eqb x y
  | _, _ => bytes_eqb a b
  end.
(* a typed nil slice is marshalled as null, an untyped nil or empty list as []: different events
   where Build lets the former through (room version 12 auth events) *)
Definition same_ids_text (a b : bytes) : bool :=
  if bytes_eqb a (bs "null") || bytes_eqb b (bs "null") then bytes_eqb a b
  else match norm_ids a, norm_ids b with
       | Some x, Some y => bytes_eqb (pct_list (Some x)) (pct_list (Some y))
       | None, None => true
       | _, _ => false
       end.

Definition same_event_args (a b : list bytes) : bool :=
  match a, b with
  | ver :: sender :: room :: type :: skflag :: skey :: prev :: auth :: redacts :: depth :: _
      :: content :: _ :: _ :: ts :: origin :: _ :: _,
    ver' :: sender' :: room' :: type' :: skflag' :: skey' :: prev' :: auth' :: redacts' :: depth' :: _
      :: content' :: _ :: _ :: ts' :: origin' :: _ :: _ =>
      same_text ver ver' && same_text sender sender' && same_text room room' && same_text type type'
      && same_text skflag skflag' && (bytes_eqb skflag (bs "0") || same_text skey skey')
      && same_ids_text prev prev' && same_ids_text auth auth' && same_text redacts redacts'
      && Z.eqb (z_of depth) (z_of depth') && same_json_text content content'
      && Z.eqb (z_of ts) (z_of ts') && same_text origin origin'
  | _, _ => false
  end.

Definition prop_variants (args : list bytes) : bytes :=
  match rev args, args with
  | out :: _, ver :: _ =>
      match split_lines out with
      | [ida; idb] =>
          if bytes_eqb ida (bs "builderr") || bytes_eqb idb (bs "builderr") then ok
          else if id_format ver =? 1 then ok       (* random IDs: the claim is about versions 3 and later *)
          else
            let same := same_event_args args (skipn 17 args) in
            if same && negb (bytes_eqb ida idb) then fail (bs "same event, different IDs")
            else if negb same && bytes_eqb ida idb then fail (bs "different events, same ID")
            else ok
      | _ => fail (bs "shape")
      end
  | _, _ => bs "badargs"
  end.

(* events that parsing accepted can be used: no accessor, and not Redact(), crashes *)
Fixpoint has_infix (p s : bytes) : bool :=
  match s with
  | [] => is_prefix p []
  | _ :: r => is_prefix p s || has_infix p r
  end.
(* undo the percent-encoding of the dumps *)
Definition unhexd (c : N) : N := if c <? 58 then c - 48 else c - 55.
Fixpoint unpct (s : bytes) : bytes :=
  match s with
  | 37 :: a :: b :: r => (unhexd a * 16 + unhexd b) :: unpct r
  | c :: r => c :: unpct r
  | [] => []
  end.

(* what an accepted event shows of the keys a receiver discards (outlier, destinations, age_ts,
   unsigned, and event_id where the ID is a hash): nothing, whether or not its hash matched *)
Definition discarded_keys_absent (ver : bytes) (sec : list bytes) : bool :=
  match field (bs "json") sec with
  | Some t =>
      match parse_json (unpct t) with
      | Some e => forallb (fun k => negb (mem_bytes k (jkeys e))) (strip_keys (class_untrusted ver))
      | None => false
      end
  | None => true
  end.

(* a top-level member whose name is not one the event struct or the redaction keep-lists read,
   but that encoding/json matches to one of them (ASCII case, U+017F for s, U+212A for k):
   the recorded findings F66 / F67 *)
Definition lower_ascii (s : bytes) : bytes := map (fun c => if (65 <=? c) && (c <=? 90) then c + 32 else c) s.
Definition read_names : list bytes := top_v1 ++ [bs "redacts"; bs "unsigned"].
Definition folded_key (k : bytes) : bool :=
  negb (mem_bytes k read_names) && mem_bytes (lower_ascii (fold_name k)) read_names.
Definition has_folded_member (j : json) : bool := existsb folded_key (jkeys j).

(* string values the sender wrote under any spelling of event_id *)
Definition written_event_ids (j : json) : list bytes :=
  match j with
  | JObj m => flat_map (fun kv => if bytes_eqb (lower_ascii (fst kv)) (bs "event_id")
                                  then match snd kv with JStr s => [s] | _ => [] end else []) m
  | _ => []
  end.

Definition prop_untrusted (args : list bytes) : bytes :=
  match rev args, args with
  | out :: _, ver :: txt :: _ =>
      let input := match parse_json txt with Some j => j | None => JNull end in
      let sec := section (bs "parsed") out in
      let id := match field (bs "id") sec with Some i => unpct i | None => [] end in
      if has_infix PANIC out then fail (bs "an accepted event crashes an accessor or Redact")
      else if has_infix (bs "pure=CHANGED") out then fail (bs "a read-only accessor changed the event")
      else if bytes_eqb out (bs "err") then ok
      else if negb (class_untrusted ver =? 1) && mem_bytes id (written_event_ids input) then
        bs "FAIL-SENDER-CHOSEN-ID EventID() is a value the sender wrote into the event"
      else if negb (field_is (bs "unsigned") [] sec) then
        fail (bs "unsigned from the wire is observable through Unsigned()")
      else if negb (discarded_keys_absent ver sec) then
        (if has_folded_member input
         then bs "FAIL-FOLDED-MEMBER the accepted event carries a key that is discarded on receipt (redaction renamed a case variant of it)"
         else fail (bs "the accepted event still carries a key that is discarded on receipt"))
      else ok
  | _, _ => bs "badargs"
  end.

(* [ver; wire text; observable]: the accessors of the parsed event are those of its own JSON() *)
Definition own_json_fields : list bytes :=
  [bs "id"; bs "type"; bs "sender"; bs "room"; bs "skey"; bs "content"; bs "depth"; bs "ts"; bs "prev";
   bs "auth"; bs "redacts"].
Definition prop_own_json (args : list bytes) : bytes :=
  match args with
  | [ver; txt; out] =>
      if bytes_eqb out (bs "err") then ok
      else if has_infix PANIC out then fail (bs "an accepted event crashes an accessor")
      else
        let input := match parse_json txt with Some j => j | None => JNull end in
        match first_bad own_json_fields (section (bs "parsed") out) (section (bs "own_json") out) with
        | None => ok
        | Some k =>
            if has_folded_member input
            then bs "FAIL-FOLDED-MEMBER the accessors differ from those of the event's own JSON(): " ++ k
            else fail (bs "the accessors differ from those of the event's own JSON(): " ++ k)
        end
  | _ => bs "badargs"
  end.

Definition ops_C03 : list (bytes * (list bytes -> bytes)) :=
  [ (bs "C03.roundtrip", run_roundtrip);
    (bs "C03.edits", run_edits);
    (bs "C03.variants", run_variants);
    (bs "C03.untrusted", run_untrusted);
    (bs "C03.prop.untrusted", prop_untrusted);
    (bs "C03.prop.own_json", prop_own_json);
    (bs "C03.prop.roundtrip", prop_roundtrip);
    (bs "C03.prop.edits", prop_edits);
    (bs "C03.prop.variants", prop_variants) ].
