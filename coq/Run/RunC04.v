(* Executable entry points of the C04 model (correspondence) and specification oracle. *)
From Verif Require Import Lib.Bytes Json.Ast Json.Parse Json.Print.
From Verif Require Import Event.Redact Event.RedactSpec Event.Untrusted.
Open Scope N_scope.

Definition nl : bytes := [10].
Definition flag (b : bool) : bytes := if b then bs "true" else bs "false".

Definition show_event (redacted : bool) (j : json) : bytes :=
  bs "redacted=" ++ flag redacted ++ nl ++ canon_print j ++ nl ++
  match jget content_key j with Some c => canon_print c | None => [] end.

Definition all_numbers_safe (j : json) : bool := content_numbers_safe j.

Definition class_name (c : fclass) : bytes :=
  match c with
  | FTooLarge => bs "err-toolarge"
  | FPersist => bs "err-persistable"
  | _ => bs "err"
  end.

(* a refusal: its class; a persistable refusal by CheckFields also hands the event back *)
Definition show_full (u : ufull) : bytes :=
  match u with
  | FullOk fl e => show_event fl e
  | FullErr FPersist (Some (fl, e)) => class_name FPersist ++ nl ++ show_event fl e
  | FullErr c _ => class_name c
  end.

(* the verdict of checkEventContentHash, given the real SHA-256 of the hashed form *)
Definition hok_of (ver : bytes) (j : json) (real : bytes) : bool := hash_matches real (strip ver j).

(* [ver; event text; SHA-256 of its hashed form] *)
Definition run_parse (args : list bytes) : bytes :=
  match args with
  | [ver; txt; real] =>
      match parse_json txt with
      | None => bs "err"
      | Some j =>
          if negb (all_numbers_safe j) then bs "unmodelled-number" else
          show_full (parse_untrusted_full ver j (hok_of ver j real))
      end
  | _ => bs "badargs"
  end.

Definition format_v1 (ver : bytes) : bool :=
  match version_field format_field ver with
  | Some f => bytes_eqb f (bs "EventFormatV1")
  | None => false
  end.

Definition opt_canon (o : option json) : bytes :=
  match o with Some j => canon_print j | None => bs "none" end.

(* the event ID as far as equality goes: the event_id field (format 1) or the reference object *)
Definition id_token (ver : bytes) (e : json) : bytes :=
  if format_v1 ver then opt_canon (jget (bs "event_id") e) else opt_canon (reference_json ver e).

(* what the signature check sees: the redacted event without unsigned (signatures included) *)
Definition sig_token (ver : bytes) (e : json) : bytes :=
  opt_canon (option_map (jdel (bs "unsigned")) (redact ver e)).

(* [ver; original (validly signed, hash ok); tampered; SHA-256 of the tampered text's hashed form] *)
Definition run_tamper (args : list bytes) : bytes :=
  match args with
  | ver :: otxt :: ttxt :: real :: _ =>
      match parse_json otxt, parse_json ttxt with
      | Some o, Some t =>
          if negb (all_numbers_safe o && all_numbers_safe t) then bs "unmodelled-number" else
          match parse_untrusted ver o true, parse_untrusted_full ver t (hok_of ver t real) with
          | UOk _ eo, FullOk r et =>
              show_event r et ++ nl ++
              bs "id=" ++ (if bytes_eqb (id_token ver eo) (id_token ver et) then bs "same" else bs "diff") ++ nl ++
              bs "sig=" ++ (if bytes_eqb (sig_token ver eo) (sig_token ver et) then bs "ok" else bs "bad")
          | UOk _ _, u => show_full u
          | UErr, _ => bs "original-rejected"
          end
      | _, _ => bs "err"
      end
  | _ => bs "badargs"
  end.

(* [ver; -; event text; SHA-256 of its hashed form; class] *)
Definition run_limits (args : list bytes) : bytes :=
  match args with
  | ver :: _ :: txt :: real :: _ =>
      match parse_json txt with
      | None => bs "err"
      | Some j =>
          if negb (all_numbers_safe j) then bs "unmodelled-number" else
          match parse_untrusted_full ver j (hok_of ver j real) with
          | FullOk fl e => show_event fl e ++ nl ++ bs "id=-" ++ nl ++ bs "sig=-"
          | u => show_full u
          end
      end
  | _ => bs "badargs"
  end.

(* ---------- specification oracle ---------- *)
Fixpoint split_lines (s : bytes) (cur : bytes) : list bytes :=
  match s with
  | [] => [rev cur]
  | c :: r => if c =? 10 then rev cur :: split_lines r [] else split_lines r (c :: cur)
  end.

(* keys other servers may add, which a receiving server discards (hand-written):
   outlier, destinations, age_ts, unsigned; and event_id where the ID is a hash (v3+) *)
Definition spec_stripped (ver : bytes) : list bytes :=
  keys ["outlier"; "destinations"; "age_ts"; "unsigned"]%string ++
  (if bytes_eqb ver (bs "1") || bytes_eqb ver (bs "2") then [] else [bs "event_id"]).

Definition subset_b (a b : list bytes) : bool := forallb (fun x => mem_bytes x b) a.

(* content keys the specification lets survive for this type *)
Definition content_keys_allowed (sp : rspec) (ty : bytes) (c : json) : bool :=
  match assoc_first ty (sp_content sp) with
  | Some KeepAll => true
  | Some (KeepPaths ps) =>
      subset_b (jkeys c) (flat_map (fun p => match p with k :: _ => [k] | [] => [] end) ps)
  | None => match jkeys c with [] => true | _ => false end
  end.

(* [ver; original; tampered; SHA-256 of the tampered text's hashed form; class; observable]
   class: r = only redactable material / stripped keys / unsigned altered (or nothing)
          p = protected material altered (incl. the hash replaced by another value)
          m = hashes.sha256 spelled differently, SAME decoded bytes: the hash still matches
          x = hashes.sha256 altered so that the decoded bytes differ (or do not decode): mismatch
          e:ok / e:toolarge / e:persistable = a length fault was planted (possibly together with
              a hash fault): accepted / refused / refused-but-persistable, as the size class of
              what surfaces demands (more than 255 code points or 65536 bytes: refused; more
              than 255 bytes only: persistable) *)
Definition starts_with (p s : bytes) : bool := is_prefix p s.

(* what may surface of a received event t whose hash does (hok) or does not match: the flag,
   JSON() and Content() lines of the event that was handed back -- also when it was handed back
   together with a persistable size error.  A hash mismatch surfaces only the redacted form:
   flagged redacted, top-level keys within the version's keep list, NONE of the keys a receiver
   discards (so no sender-chosen event_id where the ID is a hash), content keys within the
   keep list of the type. *)
Definition surface_verdict (ver : bytes) (sp : rspec) (t : json) (hok : bool) (l1 l2 l3 : bytes) : bytes :=
  match parse_json l2 with
  | Some e =>
      let ty := match jget type_key e with Some (JStr s) => s | _ => [] end in
      let c := match jget content_key e with Some c => c | None => JObj [] end in
      let surface_ok :=
        if hok then
          bytes_eqb l1 (bs "redacted=false") &&
          bytes_eqb l2 (canon_print (strip_with (spec_stripped ver) t))
        else
          bytes_eqb l1 (bs "redacted=true") &&
          subset_b (jkeys e) (sp_top sp) && content_keys_allowed sp ty c in
      let stripped_ok := forallb (fun k => negb (mem_bytes k (jkeys e))) (spec_stripped ver) in
      let content_line_ok := bytes_eqb l3 (canon_print c) in
      if surface_ok && stripped_ok && content_line_ok then bs "ok"
      else bs "FAIL surface=" ++ flag surface_ok ++ bs " discarded-keys-absent=" ++ flag stripped_ok
             ++ bs " content=" ++ flag content_line_ok
  | None => bs "FAIL unparsable JSON()"
  end.

Definition prop_surface0 (args : list bytes) : bytes :=
  match args with
  | [ver; otxt; ttxt; real; class; obs] =>
      match spec_of_version ver, parse_json ttxt, split_lines obs [] with
      | Some sp, Some t, l1 :: rest =>
          let hok := hash_matches real (strip_with (spec_stripped ver) t) in
          let label_ok :=
            if bytes_eqb class (bs "m") then hok
            else if bytes_eqb class (bs "x") then negb hok else true in
          if negb label_ok then bs "FAIL label: the decoded hash does not behave as the variant was built" else
          if bytes_eqb class (bs "e:toolarge") then
            (if bytes_eqb obs (bs "err-toolarge") then bs "ok" else bs "FAIL wanted err-toolarge")
          else if bytes_eqb class (bs "e:persistable") then
            (if bytes_eqb l1 (bs "err-persistable") then
               (* the event handed back with the error is subject to the same rule *)
               match rest with
               | [] => bs "ok"
               | [f; j; c] => surface_verdict ver sp t hok f j c
               | _ => bs "FAIL shape"
               end
             else bs "FAIL wanted err-persistable")
          else if starts_with (bs "err") l1 then
            (* altering protected material may make the event unacceptable altogether *)
            (if bytes_eqb class (bs "p") then bs "ok" else bs "FAIL rejected")
          else
          match rest with
          | [l2; l3; l4; l5] =>
              let same_ok :=
                if bytes_eqb class (bs "r") then bytes_eqb l4 (bs "id=same") && bytes_eqb l5 (bs "sig=ok")
                else true in
              let v := surface_verdict ver sp t hok l1 l2 l3 in
              if negb (bytes_eqb v (bs "ok")) then v
              else if same_ok then bs "ok" else bs "FAIL same=no (event ID or signature verdict changed)"
          | _ => bs "FAIL shape"
          end
      | None, _, _ => bs "unknown-version"
      | _, _, _ => bs "FAIL shape"
      end
  | _ => bs "badargs"
  end.

(* F66: a member outside every keep-list whose name encoding/json matches to a kept one (ASCII
   case, U+017F for s, U+212A for k) is redactable material for the specification; the library's
   redaction lets it replace or add protected members.  Failures on such inputs carry their own
   prefix (the recorded finding), any other failure keeps the plain one. *)
Definition lower_ascii (s : bytes) : bytes := map (fun c => if (65 <=? c) && (c <=? 90) then c + 32 else c) s.
Definition folded_top (k : bytes) : bool :=
  negb (mem_bytes k top_v1) && mem_bytes (lower_ascii (fold_name k)) top_v1.

Fixpoint has_infix (p s : bytes) : bool :=
  match s with
  | [] => is_prefix p []
  | _ :: r => is_prefix p s || has_infix p r
  end.

Definition prop_surface (args : list bytes) : bytes :=
  let v := prop_surface0 args in
  match args with
  | [_; _; ttxt; _; _; obs] =>
      if has_infix (bs "LEAK sender-chosen event ID") obs
      then bs "FAIL-SENDER-CHOSEN-ID EventID() is a value the sender wrote into the event"
      else
      if is_prefix (bs "FAIL ") v &&
         match parse_json ttxt with Some t => existsb folded_top (jkeys t) | None => false end
      then bs "FAIL-FOLDED-MEMBER " ++ v else v
  | _ => v
  end.

Definition ops_C04 : list (bytes * (list bytes -> bytes)) :=
  [ (bs "C04.parse", run_parse);
    (bs "C04.tamper", run_tamper);
    (bs "C04.limits", run_limits);
    (bs "C04.prop.surface", prop_surface) ].
