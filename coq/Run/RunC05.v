(* Executable entry points of the C05 model (correspondence) and specification oracles. *)
From Verif Require Import Lib.Bytes Json.Ast Json.Parse Json.Print Event.Redact Event.RedactSpec.
Open Scope N_scope.

Definition show_outcome (o : outcome) : bytes :=
  match o with
  | ROk r => canon_print r
  | RErr => bs "err"
  | RCrash => bs "crash"
  end.

(* [ver; event text] -> canonical JSON of RedactEventJSON's output, or err *)
Definition run_redact (args : list bytes) : bytes :=
  match args with
  | ver :: txt :: _ =>
      match parse_json txt with
      | None => bs "err"
      | Some j =>
          if content_numbers_safe j then show_outcome (redact_outcome ver j)
          else bs "unmodelled-number"
      end
  | _ => bs "badargs"
  end.

(* [ver; event text; raw output of the library] -> ok when the raw output, parsed and printed
   canonically HERE, is the model's output (no library canonicaliser involved) *)
Definition prop_model_raw (args : list bytes) : bytes :=
  match args with
  | [ver; txt; out] =>
      let want := run_redact [ver; txt] in
      let got := match parse_json out with
                 | Some o => canon_print o
                 | None => out
                 end in
      if bytes_eqb want got then bs "ok"
      else bs "FAIL model=" ++ want ++ bs " impl=" ++ got
  | _ => bs "badargs"
  end.

(* ---------- specification oracle ---------- *)
Definition lower (s : bytes) : bytes := map (fun c => if in_rng 65 90 c then c + 32 else c) s.

(* an event: an object with unique keys none of which differs from a keep-list key only by
   case (or by the two non-ASCII letters Go folds), a string type and an object content when present *)
Definition spec_domain (sp : rspec) (j : json) : bool :=
  match j with
  | JObj m =>
      nodup_keys [] m &&
      forallb (fun kv => let k := fst kv in
                         bytes_eqb (utf8_sanitize k) k &&
                         (mem_bytes k top_v1 || negb (mem_bytes (lower (fold_name k)) top_v1))) m &&
      match assoc_first type_key m with Some (JStr s) => bytes_eqb (utf8_sanitize s) s | None => true | _ => false end &&
      match assoc_first content_key m with Some (JObj c) => plain_value (JObj c) | None => true | _ => false end
  | _ => false
  end.

(* [ver; event text; raw output] *)
Definition prop_spec (args : list bytes) : bytes :=
  match args with
  | [ver; txt; out] =>
      match spec_of_version ver, parse_json txt with
      | Some sp, Some (JObj m) =>
          if spec_domain sp (JObj m) then
            let want := canon_print (JObj (spec_redact sp m)) in
            let got := match parse_json out with Some o => canon_print o | None => out end in
            if bytes_eqb want got then bs "ok"
            else if bytes_eqb (canon_print (JObj (spec_redact (without_tpi_signed sp) m))) got
            then bs "FAIL-TPI-SIGNED the signed key of third_party_invite was dropped"
            else bs "FAIL spec=" ++ want ++ bs " impl=" ++ got
          else bs "outside-domain"
      | None, _ => bs "unknown-version"
      | _, _ => bs "outside-domain"
      end
  | _ => bs "badargs"
  end.

(* [ver] -> name of the redaction function the version table selects *)
Definition run_algorithm (args : list bytes) : bytes :=
  match args with
  | [ver] => match redact_fn_of_version ver with Some f => f | None => bs "none" end
  | _ => bs "badargs"
  end.

(* [ver; event text] -> what PDU.Redact() leaves: canonical JSON, newline, canonical content *)
Definition run_redact_pdu (args : list bytes) : bytes :=
  match args with
  | ver :: txt :: _ =>
      match parse_json txt with
      | None => bs "err"
      | Some j =>
          if content_numbers_safe j then
            match redact ver j with
            | Some r =>
                canon_print r ++ [10] ++
                match jget content_key r with Some c => canon_print c | None => [] end
            | None => bs "err"
            end
          else bs "unmodelled-number"
      end
  | _ => bs "badargs"
  end.

Definition ops_C05 : list (bytes * (list bytes -> bytes)) :=
  [ (bs "C05.redact", run_redact);
    (bs "C05.redact_pdu", run_redact_pdu);
    (bs "C05.algorithm", run_algorithm);
    (bs "C05.const_ok", fun _ => bs "ok");
    (bs "C05.prop.model_raw", prop_model_raw);
    (bs "C05.prop.spec", prop_spec) ].
