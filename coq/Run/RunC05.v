(* Executable entry points of the C05 model (correspondence) and specification oracles. *)
From Verif Require Import Lib.Bytes Json.Ast Json.Parse Json.Print Event.Redact Event.RedactSpec Event.Untrusted.
Open Scope N_scope.

Definition show_outcome (o : outcome) : bytes :=
  match o with
  | ROk r => canon_print r
  | RErr => bs "err"
  | RCrash => bs "crash"
  end.

(* [ver; event text] -> canonical JSON of RedactEventJSON's output, or err *)
Definition run_redact (args : list bytes) : bytes :=
  match args with
  | ver :: txt :: _ =>
      match parse_json txt with
      | None => bs "err"
      | Some j =>
          if content_numbers_safe j then show_outcome (redact_outcome ver j)
          else bs "unmodelled-number"
      end
  | _ => bs "badargs"
  end.

(* [ver; event text; raw output of the library] -> ok when the raw output, parsed and printed
   canonically HERE, is the model's output (no library canonicaliser involved) *)
Definition prop_model_raw (args : list bytes) : bytes :=
  match args with
  | [ver; txt; out] =>
      let want := run_redact [ver; txt] in
      let got := match parse_json out with
                 | Some o => canon_print o
                 | None => out
                 end in
      if bytes_eqb want got then bs "ok"
      else bs "FAIL model=" ++ want ++ bs " impl=" ++ got
  | _ => bs "badargs"
  end.

(* ---------- specification oracle ---------- *)
Definition lower (s : bytes) : bytes := map (fun c => if in_rng 65 90 c then c + 32 else c) s.

(* an event: an object with unique keys none of which differs from a keep-list key only by
   case (or by the two non-ASCII letters Go folds), a string type and an object content when present *)
Definition spec_domain (sp : rspec) (j : json) : bool :=
  match j with
  | JObj m =>
      nodup_keys [] m &&
      forallb (fun kv => let k := fst kv in
                         bytes_eqb (utf8_sanitize k) k &&
                         (mem_bytes k top_v1 || negb (mem_bytes (lower (fold_name k)) top_v1))) m &&
      match assoc_first type_key m with Some (JStr s) => bytes_eqb (utf8_sanitize s) s | None => true | _ => false end &&
      match assoc_first content_key m with Some (JObj c) => plain_value (JObj c) | None => true | _ => false end
  | _ => false
  end.

(* the same domain without the exclusion of look-alike names: a member whose name differs from a
   keep-list name by case (or by the two non-ASCII letters encoding/json folds) is, for the
   specification, just another member outside the list; a member written more than once counts
   with its last value (what every map-based reader sees).  Finding F66. *)
Definition folded_top (k : bytes) : bool :=
  negb (mem_bytes k top_v1) && mem_bytes (lower (fold_name k)) top_v1.

Fixpoint last_wins (m : list (bytes * json)) : list (bytes * json) :=
  match m with
  | [] => []
  | (k, v) :: r => if mem_bytes k (map fst r) then last_wins r else (k, v) :: last_wins r
  end.

Definition spec_domain_wide (sp : rspec) (j : json) : bool :=
  match j with
  | JObj m =>
      nodup_keys [] m &&
      forallb (fun kv => bytes_eqb (utf8_sanitize (fst kv)) (fst kv)) m &&
      match assoc_first type_key m with Some (JStr s) => bytes_eqb (utf8_sanitize s) s | None => true | _ => false end &&
      match assoc_first content_key m with Some (JObj c) => plain_value (JObj c) | None => true | _ => false end
  | _ => false
  end.

(* [ver; event text; raw output] *)
Definition prop_spec (args : list bytes) : bytes :=
  match args with
  | [ver; txt; out] =>
      match spec_of_version ver, parse_json txt with
      | Some sp, Some (JObj m) =>
          let got := match parse_json out with Some o => canon_print o | None => out end in
          if spec_domain sp (JObj m) then
            let want := canon_print (JObj (spec_redact sp m)) in
            if bytes_eqb want got then bs "ok"
            else if bytes_eqb (canon_print (JObj (spec_redact (without_tpi_signed sp) m))) got
            then bs "FAIL-TPI-SIGNED the signed key of third_party_invite was dropped"
            else bs "FAIL spec=" ++ want ++ bs " impl=" ++ got
          else
            let m1 := last_wins m in
            let odd := negb (nodup_keys [] m) || existsb (fun kv => folded_top (fst kv)) m in
            if odd && spec_domain_wide sp (JObj m1) then
              let want := canon_print (JObj (spec_redact sp m1)) in
              if bytes_eqb want got then bs "ok"
              else if bytes_eqb (canon_print (JObj (spec_redact (without_tpi_signed sp) m1))) got
              then bs "FAIL-TPI-SIGNED the signed key of third_party_invite was dropped"
              else if bytes_eqb got (run_redact [ver; txt])
              then bs "FAIL-FOLDED-MEMBER a member outside the keep-list (look-alike name or repetition) reached the redacted form"
              else bs "FAIL spec=" ++ want ++ bs " impl=" ++ got
            else bs "outside-domain"
      | None, _ => bs "unknown-version"
      | _, _ => bs "outside-domain"
      end
  | _ => bs "badargs"
  end.

(* [ver] -> name of the redaction function the version table selects *)
Definition run_algorithm (args : list bytes) : bytes :=
  match args with
  | [ver] => match redact_fn_of_version ver with Some f => f | None => bs "none" end
  | _ => bs "badargs"
  end.

(* ---------- the accessors of the PDU after Redact(), derived from the redacted JSON ---------- *)
(* the event structs are populated from the redacted JSON only: a field whose key the redaction
   removed has its zero value (Redacts "", Unsigned empty, StateKey nil, Depth 0, ...) *)
Definition acc_str (k : bytes) (r : json) : bytes :=
  match str_field k r with Some s => s | None => [] end.
Definition acc_int (k : bytes) (r : json) : bytes :=
  match jget_last k r with
  | Some (JNum raw) => match num_int raw with Some z => print_int z | None => bs "?" end
  | _ => bs "0"
  end.
Definition acc_ids_v2 (k : bytes) (r : json) : list bytes :=
  match strs_field k r with Some (Some l) => l | _ => [] end.
(* event format 1: [event ID, {sha256}] pairs *)
Definition acc_ids_v1 (k : bytes) (r : json) : list bytes :=
  match jget_last k r with
  | Some (JArr l) => map (fun x => match x with JArr (JStr s :: _) => s | _ => [] end) l
  | _ => []
  end.
Definition hex_list (l : list bytes) : bytes := join_bytes (bs ",") (map hex_of_bytes l).

Definition accessor_line (ver : bytes) (r : json) : bytes :=
  let p := match parser_of_version ver with Some (p, _) => p | None => PV2 end in
  let ty := acc_str (bs "type") r in
  let sk := match optstr_field (bs "state_key") r with Some o => o | None => None end in
  let room := acc_str (bs "room_id") r in
  let is_create := bytes_eqb ty create_type && match sk with Some [] => true | _ => false end in
  let hydra := match p with PV3 => true | _ => false end in
  let ids := match p with PV1 => acc_ids_v1 | _ => acc_ids_v2 end in
  let auth :=
    if hydra then
      if is_create then []
      else (36 :: match room with _ :: t => t | [] => [] end) :: ids (bs "auth_events") r
    else ids (bs "auth_events") r in
  let membership :=
    match jget content_key r with
    | Some (JObj c) =>
        (* json.Unmarshal into struct{Membership string}: every member whose key matches
           case-insensitively is decoded in turn; null leaves the value, a non-string is an error *)
        let folded := fold_name (bs "membership") in
        let res := fold_left (fun acc kv =>
                     match acc with
                     | None => None
                     | Some cur =>
                         if bytes_eqb (fold_name (utf8_sanitize (fst kv))) folded then
                           match snd kv with
                           | JStr s => Some (utf8_sanitize s)
                           | JNull => Some cur
                           | _ => None
                           end
                         else Some cur
                     end) c (Some []) in
        match res, sk with
        | Some s, Some _ => hex_of_bytes s
        | _, _ => bs "err"
        end
    | _ => bs "err"
    end in
  bs "acc redacted=true" ++
  bs " type=" ++ hex_of_bytes ty ++
  bs " sender=" ++ hex_of_bytes (acc_str (bs "sender") r) ++
  bs " room=" ++ (if hydra && is_create then bs "-" else hex_of_bytes room) ++
  bs " sk=" ++ (match sk with Some s => hex_of_bytes s | None => bs "nil" end) ++
  bs " redacts=" ++ hex_of_bytes (acc_str (bs "redacts") r) ++
  bs " unsigned=" ++ hex_of_bytes (match jget (bs "unsigned") r with Some u => canon_print u | None => [] end) ++
  bs " depth=" ++ acc_int (bs "depth") r ++
  bs " ts=" ++ acc_int (bs "origin_server_ts") r ++
  bs " prev=" ++ hex_list (ids (bs "prev_events") r) ++
  bs " auth=" ++ hex_list auth ++
  bs " membership=" ++ membership.

(* [ver; event text] -> what PDU.Redact() leaves: canonical JSON, newline, canonical content,
   newline, the accessors *)
Definition run_redact_pdu (args : list bytes) : bytes :=
  match args with
  | ver :: txt :: _ =>
      match parse_json txt with
      | None => bs "err"
      | Some j =>
          if content_numbers_safe j then
            match redact ver j with
            | Some r =>
                canon_print r ++ [10] ++
                match jget content_key r with Some c => canon_print c | None => [] end ++ [10] ++
                accessor_line ver r
            | None => bs "err"
            end
          else bs "unmodelled-number"
      end
  | _ => bs "badargs"
  end.

(* specification oracle for PDU.Redact(): [ver; event text; observable].  Judged on the
   implementation's outputs alone: the event's JSON() has only top-level keys the specification
   keeps, Content() is its content, and every accessor reports what that JSON carries -- nothing
   that redaction removed is observable through an accessor *)
Fixpoint lines_of (s : bytes) (cur : bytes) : list bytes :=
  match s with
  | [] => [rev cur]
  | c :: r => if c =? 10 then rev cur :: lines_of r [] else lines_of r (c :: cur)
  end.

Definition prop_accessors (args : list bytes) : bytes :=
  match args with
  | [ver; txt; obs] =>
      match spec_of_version ver, lines_of obs [] with
      | Some sp, [l1; l2; l3] =>
          match parse_json l1 with
          | Some e =>
              let keys_ok := forallb (fun k => mem_bytes k (sp_top sp)) (jkeys e) in
              let content_ok := bytes_eqb l2 (match jget content_key e with Some c => canon_print c | None => [] end) in
              let acc_ok := bytes_eqb l3 (accessor_line ver e) in
              if keys_ok && content_ok && acc_ok then bs "ok"
              else bs "FAIL keys=" ++ (if keys_ok then bs "ok" else bs "bad") ++
                   bs " content=" ++ (if content_ok then bs "ok" else bs "bad") ++
                   bs " accessors=" ++ (if acc_ok then bs "ok" else bs "stale; from JSON: " ++ accessor_line ver e)
          | None => bs "FAIL JSON() does not parse"
          end
      | Some _, _ :: _ :: _ :: l4 :: _ => bs "FAIL " ++ l4
      | Some _, _ => bs "FAIL shape"
      | None, _ => bs "unknown-version"
      end
  | _ => bs "badargs"
  end.

Definition ops_C05 : list (bytes * (list bytes -> bytes)) :=
  [ (bs "C05.redact", run_redact);
    (bs "C05.redact_pdu", run_redact_pdu);
    (bs "C05.algorithm", run_algorithm);
    (bs "C05.const_ok", fun _ => bs "ok");
    (bs "C05.prop.model_raw", prop_model_raw);
    (bs "C05.prop.accessors", prop_accessors);
    (bs "C05.prop.spec", prop_spec) ].
