(* Executable entry points of the C06 model and of its specification oracles. *)
From Verif Require Import Lib.Bytes Json.Ast Json.Parse Json.Print Event.Redact Event.RedactSpec Event.VerifySig Event.RequiredSpec.
Open Scope N_scope.

Definition nl : bytes := [10].

(* lookup argument: E (error) | N (nil, nil) | D<domain> *)
Definition lookup_of_arg (a : bytes) : lookup :=
  match a with
  | c :: r => if c =? 68 then LDom r else if c =? 78 then LNil else LErr
  | [] => LErr
  end.

Definition fmt_requests (rs : list request) : bytes :=
  match rs with
  | [] => bs "asked"
  | r :: _ =>
      bs "asked " ++ join_bytes (bs ",") (map hex_of_bytes (needed_set (map r_server rs)))
      ++ bs " ts=" ++ print_dec (r_ts r) ++ (if r_strict r then bs " strict" else bs " lax")
      ++ bs " msg=" ++ canon_print (r_msg r)
  end.

Definition fmt_set (tag : bytes) (o : option (list bytes)) : bytes :=
  match o with
  | None => bs "no" ++ tag
  | Some l => tag ++ bs " " ++ join_bytes (bs ",") (map hex_of_bytes (needed_set l))
  end.

Definition verdict (b : bool) : bytes := if b then bs "ok" else bs "err".

(* [flag; ver; event json; lookup; mode (ok|verr); valid servers...] *)
Definition run_verify (args : list bytes) : bytes :=
  match args with
  | _ :: ver :: ev :: lk :: mode :: valids =>
      match parse_json ev with
      | None => bs "badjson"
      | Some j =>
          match read_event j with
          | None => bs "noparse"
          | Some _ =>
              let verifier := fun r => mem_bytes (r_server r) valids in
              let verr := negb (bytes_eqb mode (bs "ok")) in
              let l := lookup_of_arg lk in
              verdict (verify_event ver l j verifier verr) ++ nl ++
              match verify_requests ver l j with
              | None => bs "nocall"
              | Some rs => fmt_requests rs
              end
          end
      end
  | _ => bs "badargs"
  end.

(* the bytes every request must carry: the canonical form of the SPECIFICATION's redaction of the
   event (hand-written keep-lists of Event/RedactSpec.v, not the generated table).
   exception = true: the specification without content.third_party_invite.signed for v11+
   (recorded finding F17), used only to name that known difference in the failure message *)
Definition spec_message (exception : bool) (ver : bytes) (j : json) : bytes :=
  match spec_of_version ver, j with
  | Some sp, JObj m => canon_print (JObj (spec_redact (if exception then without_tpi_signed sp else sp) m))
  | _, _ => bs "?"
  end.

(* the observable the SPECIFICATION demands for a well-formed event *)
Definition spec_observable_x (exception : bool) (ver : bytes) (j : json) (verr : bool) (valid : bytes -> bool) : bytes :=
  let req := required_spec ver j in
  let ts := s_ts j in
  verdict (negb verr && forallb valid req) ++ nl ++
  match req with
  | [] => bs "asked"
  | _ => bs "asked " ++ join_bytes (bs ",") (map hex_of_bytes (needed_set req))
         ++ bs " ts=" ++ print_dec ts ++ (if required_rule_strict ver then bs " strict" else bs " lax")
         ++ bs " msg=" ++ spec_message exception ver j
  end.
Definition spec_observable := spec_observable_x false.

(* compare; a difference that is exactly F17 gets its own tag *)
Definition judge (tag : bytes) (ver : bytes) (j : json) (verr : bool) (valid : bytes -> bool) (obs : bytes) : bytes :=
  let want := spec_observable ver j verr valid in
  if bytes_eqb obs want then bs "ok"
  else if bytes_eqb obs (spec_observable_x true ver j verr valid)
  then bs "FAIL-TPI-SIGNED want=" ++ want ++ bs " got=" ++ obs
  else tag ++ bs " want=" ++ want ++ bs " got=" ++ obs.

Definition lookup_consistent (j : json) (lk : bytes) : bool :=
  match sender_server j with
  | Some d => bytes_eqb lk (68 :: d)
  | None => false
  end.

(* [flag (wf|any); ver; event json; lookup; mode; valid servers...; observable] *)
Definition prop_verify (args : list bytes) : bytes :=
  match args with
  | flag :: ver :: ev :: lk :: mode :: rest =>
      match rev rest with
      | obs :: rvalids =>
          let valids := rev rvalids in
          match parse_json ev with
          | None => if bytes_eqb flag (bs "wf") then bs "FAIL generator: unparsable" else bs "ok"
          | Some j =>
              if wf_event ver j && lookup_consistent j lk then
                judge (bs "FAIL") ver j (negb (bytes_eqb mode (bs "ok"))) (fun s => mem_bytes s valids) obs
              else if bytes_eqb flag (bs "wf") then bs "FAIL generator: event claimed well-formed is not"
              else bs "ok"
          end
      | [] => bs "badargs"
      end
  | _ => bs "badargs"
  end.

(* ---------- real key ring: fault script ---------- *)
(* script entries  server=kind ; servers without entry carry no signature *)
Fixpoint kind_of (s : bytes) (script : list bytes) : bytes :=
  match script with
  | [] => bs "absent"
  | x :: r => match split_at 61 x with
              | Some (a, k) => if bytes_eqb a s then k else kind_of s r
              | None => kind_of s r
              end
  end.

(* does a signer with this fault kind count as validly signed (see harness/c06.go for what each
   kind sets up): strict = the version's validity rule, future = event dated 8 days ahead *)
Definition fault_valid (strict future : bool) (kind : bytes) : bool :=
  if bytes_eqb kind (bs "good") || bytes_eqb kind (bs "two") || bytes_eqb kind (bs "goodjunk") then negb (strict && future)
  else if bytes_eqb kind (bs "expiredlater") then true
  else if bytes_eqb kind (bs "until") then negb strict
  else if bytes_eqb kind (bs "untileq") then negb (strict && future)
  else false.

(* [flag; ver; signed event json; lookup; tsmode (past|future); server=kind ...] *)
Definition run_keyring (args : list bytes) : bytes :=
  match args with
  | _ :: ver :: ev :: lk :: tsmode :: script =>
      match parse_json ev with
      | None => bs "badjson"
      | Some j =>
          match read_event j with
          | None => bs "noparse"
          | Some _ =>
              let future := negb (bytes_eqb tsmode (bs "past")) in
              verdict (verify_event ver (lookup_of_arg lk) j
                         (fun r => fault_valid (r_strict r) future (kind_of (r_server r) script)) false)
          end
      end
  | _ => bs "badargs"
  end.

Definition prop_keyring (args : list bytes) : bytes :=
  match args with
  | flag :: ver :: ev :: lk :: tsmode :: rest =>
      match rev rest with
      | obs :: rscript =>
          let script := rev rscript in
          match parse_json ev with
          | None => if bytes_eqb flag (bs "wf") then bs "FAIL generator: unparsable" else bs "ok"
          | Some j =>
              if wf_event ver j && lookup_consistent j lk then
                let future := negb (bytes_eqb tsmode (bs "past")) in
                let want := verdict (forallb (fun s => fault_valid (required_rule_strict ver) future (kind_of s script))
                                             (required_spec ver j)) in
                if bytes_eqb obs want then bs "ok"
                else bs "FAIL want=" ++ want ++ bs " got=" ++ obs
              else if bytes_eqb flag (bs "wf") then bs "FAIL generator: event claimed well-formed is not"
              else bs "ok"
          end
      | [] => bs "badargs"
      end
  | _ => bs "badargs"
  end.

(* ---------- pseudo-ID version ---------- *)
(* [ver; event json; mode; n; n valid servers (mapping); self-valid names...] *)
Fixpoint take_n (n : nat) (l : list bytes) : list bytes * list bytes :=
  match n, l with
  | S n', x :: r => let (a, b) := take_n n' r in (x :: a, b)
  | _, _ => ([], l)
  end.

Definition run_verify_pseudoid (args : list bytes) : bytes :=
  match args with
  | ver :: ev :: mode :: n :: rest =>
      match parse_json ev, parse_dec n with
      | Some j, Some k =>
          match read_event j with
          | None => bs "noparse"
          | Some _ =>
              let (valids, selfs) := take_n (N.to_nat k) rest in
              let verr := negb (bytes_eqb mode (bs "ok")) in
              match pseudoid_trace ver j (fun s => mem_bytes s valids) (fun s => mem_bytes s selfs) verr with
              | (v, asked, _) =>
                  verdict v ++ nl ++ fmt_set (bs "mapping") asked
              end
          end
      | _, _ => bs "badjson"
      end
  | _ => bs "badargs"
  end.

(* ---------- twin oracle: members the specification does not know must not matter ---------- *)
(* ev is twin with additional content members whose names are new (exactly different from every
   name of the twin's content): per the Matrix specification (member names are case-sensitive,
   unknown members are ignored) both have the same required servers and the same redacted form *)
Fixpoint nodup_keys (l : list bytes) : bool :=
  match l with [] => true | k :: r => negb (mem_bytes k r) && nodup_keys r end.

Definition content_extension (twin ev : json) : bool :=
  match twin, ev with
  | JObj mt, JObj me =>
      bytes_eqb (concat_bytes (map (fun kv => fst kv ++ [0]) mt)) (concat_bytes (map (fun kv => fst kv ++ [0]) me))
      && forallb (fun kv => if bytes_eqb (fst kv) (bs "content") then true
                            else match assoc_first (fst kv) me with Some v => json_eqb v (snd kv) | None => false end) mt
      && match assoc_first (bs "content") mt, assoc_first (bs "content") me with
         | Some (JObj ct), Some (JObj ce) =>
             nodup_keys (map fst ce)
             && forallb (fun kv => match assoc_first (fst kv) ce with Some v => json_eqb v (snd kv) | None => false end) ct
         | _, _ => false
         end
  | _, _ => false
  end.

(* [ver; event json; twin json; lookup; mode; valid servers...] : the model looks at the event only *)
Definition run_verify_twin (args : list bytes) : bytes :=
  match args with
  | ver :: ev :: _ :: rest => run_verify (bs "any" :: ver :: ev :: rest)
  | _ => bs "badargs"
  end.

Definition prop_twin (args : list bytes) : bytes :=
  match args with
  | ver :: ev :: twin :: lk :: mode :: rest =>
      match rev rest with
      | obs :: rvalids =>
          let valids := rev rvalids in
          match parse_json ev, parse_json twin with
          | Some j, Some jt =>
              if wf_event ver jt && lookup_consistent jt lk && content_extension jt j then
                judge (bs "FAIL-UNKNOWN-MEMBER-MATTERS") ver jt (negb (bytes_eqb mode (bs "ok"))) (fun s => mem_bytes s valids) obs
              else bs "FAIL generator: not a content extension of a well-formed twin"
          | _, _ => bs "FAIL generator: unparsable"
          end
      | [] => bs "badargs"
      end
  | _ => bs "badargs"
  end.

(* ---------- repeated / case-variant join_authorised_via_users_server members (F49) ---------- *)
(* ev is twin (well-formed, no member that could be taken for join_authorised_via_users_server)
   with such members added to the content *)
Definition via_extension (twin ev : json) : bool :=
  match twin, ev with
  | JObj mt, JObj me =>
      bytes_eqb (concat_bytes (map (fun kv => fst kv ++ [0]) mt)) (concat_bytes (map (fun kv => fst kv ++ [0]) me))
      && forallb (fun kv => if bytes_eqb (fst kv) (bs "content") then true
                            else match assoc_first (fst kv) me with Some v => json_eqb v (snd kv) | None => false end) mt
      && match assoc_first (bs "content") mt, assoc_first (bs "content") me with
         | Some (JObj ct), Some (JObj ce) =>
             forallb (fun kv => negb (via_like (fst kv))) ct
             && json_eqb (JObj (filter (fun kv => negb (via_like (fst kv))) ce)) (JObj ct)
         | _, _ => false
         end
  | _, _ => false
  end.

(* prefix of s before the first occurrence of pat *)
Fixpoint cut_at (pat s : bytes) : bytes :=
  match s with
  | [] => []
  | c :: r => if is_prefix pat s then [] else c :: cut_at pat r
  end.

(* [ver; event json; twin json; lookup; mode; valid servers...; observable] *)
Definition prop_dup (args : list bytes) : bytes :=
  match args with
  | ver :: ev :: twin :: lk :: mode :: rest =>
      match rev rest with
      | obs :: rvalids =>
          let valids := rev rvalids in
          match parse_json ev, parse_json twin with
          | Some j, Some jt =>
              if wf_event ver jt && lookup_consistent jt lk && via_extension jt j then
                let reading :=
                  if s_is_member jt && bytes_eqb (s_membership jt) (bs "join") && spec_restricted_joins ver
                  then match jget (bs "content") j with Some (JObj ce) => auth_authoriser ce | _ => AUnparseable end
                  else ANobody in
                let base := required_spec ver jt in
                let expect_req := fun req =>
                  let verr := negb (bytes_eqb mode (bs "ok")) in
                  let want := verdict (negb verr && forallb (fun s => mem_bytes s valids) req) ++ nl ++
                              bs "asked " ++ join_bytes (bs ",") (map hex_of_bytes (needed_set req))
                              ++ bs " ts=" ++ print_dec (s_ts jt) ++ (if required_rule_strict ver then bs " strict" else bs " lax") in
                  let got := cut_at (bs " msg=") obs in
                  if bytes_eqb got want then bs "ok"
                  else bs "FAIL-AUTHORISER-READING want=" ++ want ++ bs " got=" ++ got in
                let expect_err :=
                  if is_prefix (bs "err" ++ nl) obs then bs "ok"
                  else bs "FAIL-AUTHORISER-READING want=err (the auth rules cannot authorise this event) got=" ++ cut_at (bs " msg=") obs in
                match reading with
                | AUnparseable => expect_err
                | ANobody => expect_req base
                | AUser u => if proper_id 64 u then expect_req (base ++ server_of u) else expect_err
                end
              else bs "FAIL generator: not a via-extension of a well-formed twin"
          | _, _ => bs "FAIL generator: unparsable"
          end
      | [] => bs "badargs"
      end
  | _ => bs "badargs"
  end.

(* ---------- received bytes versus JSON() (hunt C/1, F63) ---------- *)
(* [ver; event as received; e.JSON(); lookup; mode; valid servers...] : the struct is read from the
   bytes as received, the message is the redaction of JSON() *)
Definition run_verify_wire (args : list bytes) : bytes :=
  match args with
  | ver :: wire :: canon :: lk :: mode :: valids =>
      match parse_json wire, parse_json canon with
      | Some jf, Some jb =>
          match read_event jf with
          | None => bs "noparse"
          | Some _ =>
              let verr := negb (bytes_eqb mode (bs "ok")) in
              match verify_requests_wire ver (lookup_of_arg lk) jf jb with
              | None => bs "err" ++ nl ++ bs "nocall"
              | Some rs => verdict (negb verr && forallb (fun r => mem_bytes (r_server r) valids) rs) ++ nl ++ fmt_requests rs
              end
          end
      | _, _ => bs "badjson"
      end
  | _ => bs "badargs"
  end.

(* the signers demanded must be those of the bytes that are signed, hashed, stored and served:
   the verdict for the PDU parsed from the wire must be the verdict for the PDU read back from its
   own JSON() (sender resolved the same way: the user named in those bytes) *)
Definition prop_wire (args : list bytes) : bytes :=
  match args with
  | ver :: wire :: canon :: lk :: mode :: rest =>
      match rev rest with
      | obs :: rvalids =>
          let valids := rev rvalids in
          match parse_json canon with
          | Some jb =>
              let lk' := match read_event jb with
                         | Some e => match id_domain 64 (e_sender e) with Some d => 68 :: d | None => bs "E" end
                         | None => bs "E"
                         end in
              let want := run_verify (bs "any" :: ver :: canon :: lk' :: mode :: valids) in
              if bytes_eqb obs want then bs "ok"
              else bs "FAIL-FIELDS-VS-BYTES want=" ++ want ++ bs " got=" ++ obs
          | None => bs "FAIL generator: unparsable"
          end
      | [] => bs "badargs"
      end
  | _ => bs "badargs"
  end.

(* ---------- pseudo-ID version: specification oracle (F60) ---------- *)
(* MSC4014: the event is signed with the sender's room key (and an invite also with the invited
   room key); the mxid_mapping of a join is for that room key and signed by the homeserver of the
   user it names.  Plain reading of the event; events outside the plain shape are not judged.
   [ver; event; mode; n; n valid mapping servers; self-valid names...; observable] *)
Definition prop_pseudoid (args : list bytes) : bytes :=
  match args with
  | ver :: ev :: mode :: n :: rest =>
      match rev rest, parse_json ev, parse_dec n with
      | obs :: rrest, Some j, Some k =>
          let (valids, selfs) := take_n (N.to_nat k) (rev rrest) in
          let sender := s_str (bs "sender") j in
          let self_ok := fun x => mem_bytes x selfs in
          let got := cut_at nl obs in
          let judge := fun want : bool =>
            if bytes_eqb got (verdict want) then bs "ok"
            else bs "FAIL-PSEUDOID want=" ++ verdict want ++ bs " got=" ++ obs in
          match jget (bs "content") j with
          | Some (JObj c) =>
              if negb (s_is_member j) then judge (self_ok sender)
              else
                match jget (bs "state_key") j, assoc_first (bs "membership") c with
                | Some (JStr sk), Some (JStr ms) =>
                    if bytes_eqb ms (bs "invite") then judge (self_ok sender && self_ok sk)
                    else if bytes_eqb ms (bs "join") then
                      match assoc_first (bs "join_authorised_via_users_server") c with
                      | Some _ => bs "ok"      (* authorising server in a pseudo-ID room: not specified here *)
                      | None =>
                          match assoc_first (bs "mxid_mapping") c with
                          | Some (JObj mm) =>
                              match assoc_first (bs "user_room_key") mm, assoc_first (bs "user_id") mm,
                                    assoc_first (bs "signatures") mm with
                              | Some (JStr key), Some (JStr uid), sigs =>
                                  let sigs_plain :=
                                    match sigs with
                                    | None => true
                                    | Some (JObj m) => forallb (fun kv => match snd kv with JObj _ => true | _ => false end) m
                                    | Some _ => false
                                    end in
                                  if sigs_plain then
                                    judge (bytes_eqb mode (bs "ok") && bytes_eqb key sender && proper_id 64 uid
                                           && forallb (fun d => mem_bytes d valids) (server_of uid)
                                           && self_ok sender)
                                  else bs "ok"
                              | _, _, _ => judge false
                              end
                          | _ => judge false          (* a join without a mapping cannot be tied to a user *)
                          end
                      end
                    else judge (self_ok sender)
                | _, _ => bs "ok"
                end
          | _ => bs "ok"
          end
      | _, _, _ => bs "badargs"
      end
  | _ => bs "badargs"
  end.

Definition ops_C06 : list (bytes * (list bytes -> bytes)) :=
  [ (bs "C06.verify", run_verify);
    (bs "C06.keyring", run_keyring);
    (bs "C06.verify_pseudoid", run_verify_pseudoid);
    (bs "C06.verify_twin", run_verify_twin);
    (bs "C06.prop.twin", prop_twin);
    (bs "C06.prop.dup", prop_dup);
    (bs "C06.verify_wire", run_verify_wire);
    (bs "C06.prop.wire", prop_wire);
    (bs "C06.prop.pseudoid", prop_pseudoid);
    (bs "C06.prop.verify", prop_verify);
    (bs "C06.prop.keyring", prop_keyring) ].
