(* Executable entry points of the authorisation model for the correspondence check (C07, C08).
   C07.allowed  [version; signature table; event; auth event ...]  ->  ok | notallowed | err | panic
   The signature table is a JSON array of [public key text, server, key id] triples for which
   VerifyJSON succeeds on the invite's signed object (computed by the harness with real keys);
   it instantiates the sig_ok oracle of Auth/Abs.v. *)
From Verif Require Import Lib.Bytes Json.Ast Json.Parse Auth.Types Auth.Versions Auth.Abs Auth.Decide Auth.Model.
Open Scope N_scope.

Definition sig_table (j : json) : list (bytes * bytes * bytes) :=
  match j with
  | JArr l =>
      flat_map (fun t => match t with
                         | JArr [JStr pk; JStr d; JStr k] => [(pk, d, k)]
                         | _ => []
                         end) l
  | _ => []
  end.

Definition table_oracle (tbl : list (bytes * bytes * bytes)) (pk d k : bytes) : bool :=
  existsb (fun t => match t with (pk', d', k') => bytes_eqb pk pk' && bytes_eqb d d' && bytes_eqb k k' end) tbl.

Definition with_case {A} (args : list bytes)
           (k : (bytes -> bytes -> bytes -> bool) -> bytes -> json -> list json -> A) (bad : A) : A :=
  match args with
  | ver :: sigs :: ev :: auths =>
      match parse_json sigs, parse_json ev, parse_all auths with
      | Some s, Some e, Some al => k (table_oracle (sig_table s)) ver e al
      | _, _, _ => bad
      end
  | _ => bad
  end.

Definition run_allowed (args : list bytes) : bytes :=
  with_case args (fun so ver e al => verdict_bytes (allowed_model so ver e al)) (bs "badargs").

Definition ops_C07 : list (bytes * (list bytes -> bytes)) :=
  [ (bs "C07.allowed", run_allowed) ].
