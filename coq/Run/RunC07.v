(* Executable entry points of the authorisation model for the correspondence check (C07, C08).
   C07.allowed  [version; signature table; event; auth event ...]  ->  ok | notallowed | err | panic
   The signature table is a JSON array of [public key text, server, key id] triples for which
   VerifyJSON succeeds on the invite's signed object (computed by the harness with real keys);
   it instantiates the sig_ok oracle of Auth/Abs.v. *)
From Verif Require Import Lib.Bytes Json.Ast Json.Parse Auth.Types Auth.Versions Auth.Abs Auth.Decide Auth.Model Auth.AllowedSpec.
Open Scope N_scope.

Definition sig_table (j : json) : list (bytes * bytes * bytes) :=
  match j with
  | JArr l =>
      flat_map (fun t => match t with
                         | JArr [JStr pk; JStr d; JStr k] => [(pk, d, k)]
                         | _ => []
                         end) l
  | _ => []
  end.

Definition table_oracle (tbl : list (bytes * bytes * bytes)) (pk d k : bytes) : bool :=
  existsb (fun t => match t with (pk', d', k') => bytes_eqb pk pk' && bytes_eqb d d' && bytes_eqb k k' end) tbl.

Definition with_case {A} (args : list bytes)
           (k : (bytes -> bytes -> bytes -> bool) -> bytes -> json -> list json -> A) (bad : A) : A :=
  match args with
  | ver :: sigs :: ev :: auths =>
      match parse_json sigs, parse_json ev, parse_all auths with
      | Some s, Some e, Some al => k (table_oracle (sig_table s)) ver e al
      | _, _, _ => bad
      end
  | _ => bad
  end.

Definition run_allowed (args : list bytes) : bytes :=
  with_case args (fun so ver e al => verdict_bytes (allowed_model so ver e al)) (bs "badargs").

Fixpoint split_last_arg (l : list bytes) : option (list bytes * bytes) :=
  match l with
  | [] => None
  | [x] => Some ([], x)
  | x :: r => match split_last_arg r with Some (a, b) => Some (x :: a, b) | None => None end
  end.

(* specification oracle: decide_spec on the abstract record against the implementation's verdict
   [version; signature table; event; auth event ...; verdict].
   The events are read with the switches of the hand-written specification matrix
   (AllowedSpec.spec_flags_of), not with the ones generated from eventversion.go. *)
Definition prop_allowed (args : list bytes) : bytes :=
  match split_last_arg args with
  | None => bs "badargs"
  | Some (args', impl) =>
      with_case args'
        (fun so ver e al =>
           match spec_flags_of ver, spec_rules_of ver with
           | Some sf, Some sv =>
               let a := abs so sf e al in
               let want := decide_spec sv a in
               let got := bytes_eqb impl (bs "ok") in
               if negb (ai_provider_ok a) then bs "ok"   (* NewAuthEvents failed: Allowed was not reached *)
               else if Bool.eqb want got then bs "ok"
               else if want then bs "FAIL the rules accept, the library answered " ++ impl
               else bs "FAIL the rules reject, the library answered " ++ impl
           | _, _ => bs "FAIL unknown version"
           end)
        (bs "badargs")
  end.

(* the model of Allowed when the UserIDForSender callback answers (nil, nil) instead of an error
   for a sender it cannot resolve *)
Definition run_allowed_nilq (args : list bytes) : bytes :=
  with_case args (fun so ver e al => verdict_bytes (allowed_model_nilq so ver e al)) (bs "badargs").

Definition ops_C07 : list (bytes * (list bytes -> bytes)) :=
  [ (bs "C07.allowed", run_allowed); (bs "C07.allowed_nilq", run_allowed_nilq);
    (bs "C07.prop.allowed", prop_allowed) ].
