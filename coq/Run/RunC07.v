(* Executable entry points of the authorisation model for the correspondence check (C07, C08).
   C07.allowed  [version; signature table; event; auth event ...]  ->  ok | notallowed | err | panic
   The signature table is a JSON array of [public key text, server, key id] triples for which
   VerifyJSON succeeds on the invite's signed object (computed by the harness with real keys);
   it instantiates the sig_ok oracle of Auth/Abs.v. *)
From Verif Require Import Lib.Bytes Json.Ast Json.Parse Auth.Types Auth.Versions Auth.Abs Auth.Decide Auth.Model Auth.AllowedSpec Auth.Departures Auth.SpecRead Auth.Ids Auth.AbsQuerier.
Open Scope N_scope.

Definition sig_table (j : json) : list (bytes * bytes * bytes) :=
  match j with
  | JArr l =>
      flat_map (fun t => match t with
                         | JArr [JStr pk; JStr d; JStr k] => [(pk, d, k)]
                         | _ => []
                         end) l
  | _ => []
  end.

(* the signature argument is either one table (the library's reading) or an object
   {lib: table, raw: table}: raw lists the triples for which VerifyJSON accepts the signed object
   of the event as it stands (the specification's reading, Auth/SpecRead.v) *)
Definition sig_tables (j : json) : list (bytes * bytes * bytes) * list (bytes * bytes * bytes) :=
  match j with
  | JObj m =>
      (match assoc_first (bs "lib") m with Some t => sig_table t | None => [] end,
       match assoc_first (bs "raw") m with Some t => sig_table t | None => [] end)
  | _ => (sig_table j, sig_table j)
  end.

Definition table_oracle (tbl : list (bytes * bytes * bytes)) (pk d k : bytes) : bool :=
  existsb (fun t => match t with (pk', d', k') => bytes_eqb pk pk' && bytes_eqb d d' && bytes_eqb k k' end) tbl.

Definition with_case {A} (args : list bytes)
           (k : (bytes -> bytes -> bytes -> bool) -> bytes -> json -> list json -> A) (bad : A) : A :=
  match args with
  | ver :: sigs :: ev :: auths =>
      match parse_json sigs, parse_json ev, parse_all auths with
      | Some s, Some e, Some al => k (table_oracle (fst (sig_tables s))) ver e al
      | _, _, _ => bad
      end
  | _ => bad
  end.

Definition with_case2 {A} (args : list bytes)
           (k : (bytes -> bytes -> bytes -> bool) -> (bytes -> bytes -> bytes -> bool) ->
                bytes -> json -> list json -> A) (bad : A) : A :=
  match args with
  | ver :: sigs :: ev :: auths =>
      match parse_json sigs, parse_json ev, parse_all auths with
      | Some s, Some e, Some al =>
          k (table_oracle (fst (sig_tables s))) (table_oracle (snd (sig_tables s))) ver e al
      | _, _, _ => bad
      end
  | _ => bad
  end.

Definition run_allowed (args : list bytes) : bytes :=
  with_case args (fun so ver e al => verdict_bytes (allowed_model so ver e al)) (bs "badargs").

Fixpoint split_last_arg (l : list bytes) : option (list bytes * bytes) :=
  match l with
  | [] => None
  | [x] => Some ([], x)
  | x :: r => match split_last_arg r with Some (a, b) => Some (x :: a, b) | None => None end
  end.

(* specification oracle: decide_spec on the abstract record against the implementation's verdict
   [version; signature table; event; auth event ...; verdict].
   The events are read with the switches of the hand-written specification matrix
   (AllowedSpec.spec_flags_of), not with the ones generated from eventversion.go. *)
Definition prop_allowed (args : list bytes) : bytes :=
  match split_last_arg args with
  | None => bs "badargs"
  | Some (args', impl) =>
      with_case2 args'
        (fun so sr ver e al =>
           match spec_flags_of ver, spec_rules_of ver with
           | Some sf, Some sv =>
               let a := abs_spec so sr sf e al in
               let want := decide_spec sv a in
               let got := bytes_eqb impl (bs "ok") in
               if negb (ai_provider_ok a) then bs "ok"   (* NewAuthEvents failed: Allowed was not reached *)
               else if Bool.eqb want got then bs "ok"
               else if want then bs "FAIL the rules accept, the library answered " ++ impl
               else bs "FAIL the rules reject, the library answered " ++ impl
           | _, _ => bs "FAIL unknown version"
           end)
        (bs "badargs")
  end.

(* the model of Allowed when the UserIDForSender callback answers (nil, nil) instead of an error
   for a sender it cannot resolve *)
Definition run_allowed_nilq (args : list bytes) : bytes :=
  with_case args (fun so ver e al => verdict_bytes (allowed_model_nilq so ver e al)) (bs "badargs").

(* ---------- the literal text of the specification and the 13 departures ---------- *)
Definition dep_label (k : N) : bytes :=
  if k =? 1 then bs "01" else if k =? 2 then bs "02" else if k =? 3 then bs "03"
  else if k =? 4 then bs "04" else if k =? 5 then bs "05" else if k =? 6 then bs "06"
  else if k =? 7 then bs "07" else if k =? 8 then bs "08" else if k =? 9 then bs "09"
  else if k =? 10 then bs "10" else if k =? 11 then bs "11" else if k =? 12 then bs "12"
  else if k =? 13 then bs "13" else bs "??".

Fixpoint join_nums (l : list N) : bytes :=
  match l with
  | [] => []
  | [k] => dep_label k
  | k :: r => dep_label k ++ [44] ++ join_nums r
  end.

(* which departures explain the difference between the library's verdict and the literal text:
   same | dep:<numbers of the departures that decide the verdict alone> |
   joint:<numbers of the departures whose condition holds> | finding | unexplained *)
Definition literal_class (sv : spec_rules) (a : auth_input) (x : Departures.spec_extra) (got : bool) : bytes :=
  let lit := decide_spec_with all_off sv a x in
  let rules := decide_spec_with all_on sv a x in
  if Bool.eqb got lit then bs "same"
  else if negb (Bool.eqb got rules) then bs "finding"
  else let dec := decisive_departures sv a x in
       let hold := holding_conditions sv a x in
       match dec, hold with
       | _ :: _, _ => bs "dep:" ++ join_nums dec
       | [], _ :: _ => bs "joint:" ++ join_nums hold
       | [], [] => bs "unexplained"
       end.

Definition with_literal (args : list bytes) (k : spec_rules -> auth_input -> Departures.spec_extra -> bool -> bytes -> bytes) : bytes :=
  match split_last_arg args with
  | None => bs "badargs"
  | Some (args', impl) =>
      with_case2 args'
        (fun so sr ver e al =>
           match spec_flags_of ver, spec_rules_of ver with
           | Some sf, Some sv =>
               k sv (abs_spec so sr sf e al) (extra_of ver e al) (bytes_eqb impl (bs "ok")) impl
           | _, _ => bs "FAIL unknown version"
           end)
        (bs "badargs")
  end.

(* C07.literal_report [version; signature table; event; auth event ...; verdict] -> class (for the
   histogram of exercised departures in the evidence) *)
Definition run_literal_report (args : list bytes) : bytes :=
  with_literal args (fun sv a x got _ => if negb (ai_provider_ok a) then bs "same" else literal_class sv a x got).

(* C07.prop.literal: the library's verdict may differ from the literal text of the specification
   only where one of the 13 departures applies (and then it must be the rules' verdict) *)
Definition prop_literal (args : list bytes) : bytes :=
  with_literal args
    (fun sv a x got impl =>
       if negb (ai_provider_ok a) then bs "ok" else
       let lit := decide_spec_with all_off sv a x in
       let rules := decide_spec_with all_on sv a x in
       if Bool.eqb got lit then bs "ok"
       else if Bool.eqb got rules then
         match holding_conditions sv a x with
         | _ :: _ => bs "ok"
         | [] => bs "FAIL differs from the literal text although no departure applies"
         end
       else if rules then bs "FAIL the rules accept, the library answered " ++ impl
       else bs "FAIL the rules reject, the library answered " ++ impl).

(* ---------- pseudo-ID rooms: the UserIDForSender callback resolves sender IDs through a table ----------
   the signature argument is an object whose member users maps sender IDs to user IDs; a sender ID
   that is not listed makes the callback fail *)
Definition user_table (j : json) : list (bytes * bytes) :=
  match j with
  | JObj m => match assoc_first (bs "users") m with
              | Some (JObj us) => flat_map (fun kv => match snd kv with JStr u => [(fst kv, u)] | _ => [] end) us
              | _ => []
              end
  | _ => []
  end.

Definition table_querier (tbl : list (bytes * bytes)) (sender : bytes) : option bytes :=
  match assoc_first sender tbl with
  | Some uid => user_domain uid
  | None => None
  end.

Definition with_pseudo {A} (args : list bytes)
           (k : (bytes -> option bytes) -> (bytes -> bytes -> bytes -> bool) -> bytes -> json -> list json -> A)
           (bad : A) : A :=
  match args with
  | ver :: sigs :: ev :: auths =>
      match parse_json sigs, parse_json ev, parse_all auths with
      | Some s, Some e, Some al =>
          k (table_querier (user_table s)) (table_oracle (fst (sig_tables s))) ver e al
      | _, _, _ => bad
      end
  | _ => bad
  end.

Definition run_allowed_pseudo (args : list bytes) : bytes :=
  with_pseudo args
    (fun q so ver e al =>
       verdict_bytes (match flags_of_version ver with
                      | Some f => Some (decide_model (abs_q q so f e al))
                      | None => None
                      end))
    (bs "badargs").

Definition prop_allowed_pseudo (args : list bytes) : bytes :=
  match split_last_arg args with
  | None => bs "badargs"
  | Some (args', impl) =>
      with_pseudo args'
        (fun q so ver e al =>
           match spec_flags_of ver, spec_rules_of ver with
           | Some sf, Some sv =>
               let a := abs_q q so sf e al in
               let want := decide_spec sv a in
               let got := bytes_eqb impl (bs "ok") in
               if negb (ai_provider_ok a) then bs "ok"
               else if Bool.eqb want got then bs "ok"
               else if want then bs "FAIL the rules accept, the library answered " ++ impl
               else bs "FAIL the rules reject, the library answered " ++ impl
           | _, _ => bs "FAIL unknown version"
           end)
        (bs "badargs")
  end.

Definition ops_C07 : list (bytes * (list bytes -> bytes)) :=
  [ (bs "C07.allowed", run_allowed); (bs "C07.allowed_nilq", run_allowed_nilq);
    (bs "C07.prop.allowed", prop_allowed); (bs "C07.prop.literal", prop_literal);
    (bs "C07.literal_report", run_literal_report);
    (bs "C07.allowed_pseudo", run_allowed_pseudo); (bs "C07.prop.allowed_pseudo", prop_allowed_pseudo) ].
