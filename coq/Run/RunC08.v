(* C08 oracle: C08.prop.no_escalation [version; signature table; event; auth event ...; verdict]
   answers ok unless the event is an accepted m.room.power_levels event whose old and new contents
   violate one of the five clauses of the property (computed by Auth/PLSpec.v no_escalation_b
   directly from the contents; the model's check loops are not used), or, in a version that
   parses integers only, the new content spells a level otherwise than as an integer literal. *)
From Verif Require Import Lib.Bytes Json.Ast Json.Parse Auth.GoJson Auth.Types Auth.Versions Auth.Abs
     Auth.Decide Auth.Model Auth.PLSpec Auth.AllowedSpec Auth.SpecRead.
From Verif Require Import Run.RunC07.
Open Scope N_scope.

Definition is_int_literal (j : json) : bool :=
  match j with JNum raw => match num_int raw with Some _ => true | None => false end | _ => false end.

Definition level_members_integer (o : list (bytes * json)) : bool :=
  forallb (fun k => match field k o with Some j => is_int_literal j | None => true end)
          [k_ban; k_invite; k_kick; k_redact; k_users_default; k_events_default; k_state_default]
  && forallb (fun mk => match field mk o with
                        | Some (JObj m) => forallb (fun kv => is_int_literal (snd kv)) m
                        | Some _ => false
                        | None => true
                        end) [k_users; k_events; k_notifications].

Fixpoint split_last {A} (l : list A) : option (list A * A) :=
  match l with
  | [] => None
  | [x] => Some ([], x)
  | x :: r => match split_last r with Some (a, b) => Some (x :: a, b) | None => None end
  end.

Definition prop_no_escalation (args : list bytes) : bytes :=
  match split_last args with
  | None => bs "badargs"
  | Some (args', impl) =>
      if negb (bytes_eqb impl (bs "ok")) then bs "ok" else
      with_case2 args'
        (fun so sr ver e al =>
           (* the version's switches come from the hand-written specification matrix
              (AllowedSpec.spec_flags_of / spec_int_levels), never from the generated table *)
           match spec_flags_of ver with
           | None => bs "FAIL unknown version"
           | Some f =>
               if match kind_of (ev_type e) with KPowerLevels => false | _ => true end then bs "ok"
               else
               let non_integer :=
                 spec_int_levels ver &&
                 negb (match content_of e with
                       | CoObj o => level_members_integer o
                       | _ => true end) in
               let a := abs_spec so sr f e al in
               match ai_create a, ai_new_pl a with
               | Some c, Some new =>
                   (* the escalation clauses first, so that an escalation is never reported as a
                      mere spelling matter *)
                   let L := user_power_level f c (ai_pl_present a) (ai_pl a) (ai_sender a) in
                   if negb (no_escalation_b f c L (ai_sender a) (ai_pl a) new)
                   then bs "FAIL escalation: accepted change violates clauses 1-5"
                   else if non_integer
                   then bs "FAIL non-integer level accepted in an integer-only version"
                   else bs "ok"
               | _, _ =>
                   if non_integer then bs "FAIL non-integer level accepted in an integer-only version"
                   else bs "FAIL accepted power-levels event without create or content"
               end
           end)
        (bs "badargs")
  end.

Definition ops_C08 : list (bytes * (list bytes -> bytes)) :=
  [ (bs "C08.prop.no_escalation", prop_no_escalation) ].
