(* Executable entry points of the C09 model and specification oracles. *)
From Verif Require Import Lib.Bytes Json.Ast Json.Parse Auth.StateNeeded Auth.Checker.
From Verif Require Import Auth.Types Auth.Versions Auth.Abs Auth.Model Auth.CheckerAuth Auth.C09Needed.
(* the unqualified event accessors below are the ones of Auth/StateNeeded.v *)
From Verif Require Import Auth.StateNeeded.
Open Scope N_scope.

Definition nl : bytes := [10].
Definition comma : bytes := [44].

Definition print_tuples (ts : list (bytes * bytes)) : bytes :=
  join_bytes nl (map (fun t => fst t ++ [32] ++ hex_of_bytes (snd t)) ts).

Fixpoint parse_all (l : list bytes) : option (list json) :=
  match l with
  | [] => Some []
  | t :: l' => match parse_json t, parse_all l' with
               | Some j, Some js => Some (j :: js)
               | _, _ => None
               end
  end.

(* [ver; event...] -> StateNeededForAuth(events).Tuples() *)
Definition run_state_needed (args : list bytes) : bytes :=
  match args with
  | _ver :: evs =>
      match parse_all evs with
      | Some es => print_tuples (tuples (state_needed_list es))
      | None => bs "badargs"
      end
  | _ => bs "badargs"
  end.

Definition sk_of (flag sk : bytes) : option bytes :=
  if bytes_eqb flag (bs "1") then Some sk else None.

(* [type; sender; has state key 0/1; state key; content text] *)
Definition run_needed_proto (args : list bytes) : bytes :=
  match args with
  | [typ; sender; flag; sk; content] =>
      match state_needed_proto typ sender (sk_of flag sk) (parse_json content) with
      | Some n => print_tuples (tuples n)
      | None => bs "err"
      end
  | _ => bs "badargs"
  end.

(* [ver; room id; type; sender; has state key; state key; content text; provider event ...] *)
Definition run_add_auth_events (args : list bytes) : bytes :=
  match args with
  | ver :: room :: typ :: sender :: flag :: sk :: content :: evs =>
      match parse_all evs with
      | Some st =>
          match add_auth_events ver room typ sender (sk_of flag sk) (parse_json content) st with
          | Some ids => join_bytes comma ids
          | None => bs "err"
          end
      | None => bs "badargs"
      end
  | _ => bs "badargs"
  end.

(* ---- specification oracles ---- *)

Fixpoint split_on (c : N) (fuel : nat) (s : bytes) : list bytes :=
  match fuel with
  | O => [s]
  | S f => match split_at c s with
           | Some (a, b) => a :: split_on c f b
           | None => [s]
           end
  end.
Definition split_commas (s : bytes) : list bytes :=
  match s with [] => [] | _ => split_on 44 (length s) s end.

Definition last_arg (args : list bytes) : option (list bytes * bytes) :=
  match rev args with
  | obs :: r => Some (rev r, obs)
  | [] => None
  end.

(* add_auth_events_covers_needed, decided on the implementation's own output:
   every needed tuple the provider has an event for is referenced (the create event of a
   domainless room excepted: its ID is the room ID), and nothing else is referenced. *)
Definition prop_add_auth_events_covers (args : list bytes) : bytes :=
  match last_arg args with
  | Some (ver :: room :: typ :: sender :: flag :: sk :: content :: evs, obs) =>
      match parse_all evs with
      | Some st =>
          match state_needed_proto typ sender (sk_of flag sk) (parse_json content) with
          | None => if bytes_eqb obs (bs "err") then bs "ok" else bs "FAIL error expected"
          | Some n =>
              let ids := split_commas obs in
              let implied := if domainless_room_ids ver then [36 :: tl room] else [] in
              let covered :=
                forallb (fun k => match lookup st k with
                                  | Some e => mem_bytes (ev_id e) ids || mem_bytes (ev_id e) implied
                                  | None => true
                                  end) (tuples n) in
              let only_needed :=
                forallb (fun id => existsb (fun k => match lookup st k with
                                                     | Some e => bytes_eqb (ev_id e) id
                                                     | None => false
                                                     end) (tuples n)) ids in
              if bytes_eqb obs (bs "err") then bs "FAIL unexpected error"
              else if covered && only_needed then bs "ok"
              else if covered then bs "FAIL references an event that is not needed"
              else bs "FAIL a needed event is not referenced"
          end
      | None => bs "badargs"
      end
  | _ => bs "badargs"
  end.

(* [.. ; observable] where observable = v0,v1,...: all evaluations must agree with the first *)
Definition prop_all_equal (args : list bytes) : bytes :=
  match last_arg args with
  | Some (_, obs) =>
      match split_commas obs with
      | v :: vs => if forallb (bytes_eqb v) vs then bs "ok" else bs "FAIL verdicts differ: " ++ obs
      | [] => bs "badargs"
      end
  | None => bs "badargs"
  end.

Fixpoint firstn_skipn {A} (n : nat) (l : list A) : list A * list A :=
  match n, l with
  | O, _ => ([], l)
  | S n', x :: l' => let (a, b) := firstn_skipn n' l' in (x :: a, b)
  | S _, [] => ([], [])
  end.

Fixpoint keys_distinct (ks : list (bytes * bytes)) : bool :=
  match ks with
  | [] => true
  | k :: ks' => negb (existsb (tuple_eqb k) ks') && keys_distinct ks'
  end.

(* [ver; event; perms; nBase; base...; extra...; observable]:
   the hypotheses of the claim are checked on the inputs (the base state has one event per key,
   every extra event is state the event does not need), then all evaluations must agree *)
Definition prop_invariance (args : list bytes) : bytes :=
  match last_arg args with
  | Some (_ver :: ev :: _perms :: nbase :: rest, obs) =>
      match parse_json ev, parse_dec nbase, parse_all rest with
      | Some e, Some nb, Some sts =>
          let (base, extra) := firstn_skipn (N.to_nat nb) sts in
          let needed := tuples (state_needed e) in
          if negb (keys_distinct (map ev_key base)) then bs "badargs"
          else if existsb (fun x => existsb (tuple_eqb (ev_key x)) needed) extra then bs "badargs"
          else prop_all_equal [obs]
      | _, _, _ => bs "badargs"
      end
  | _ => bs "badargs"
  end.

(* ---- the reused checker over the auth model ---- *)
Definition sig_table (j : json) : list (bytes * bytes * bytes) :=
  match j with
  | JArr l =>
      flat_map (fun t => match t with
                         | JArr [JStr pk; JStr d; JStr k] => [(pk, d, k)]
                         | _ => []
                         end) l
  | _ => []
  end.
Definition table_oracle (tbl : list (bytes * bytes * bytes)) (pk d k : bytes) : bool :=
  existsb (fun t => match t with (pk', d', k') => bytes_eqb pk pk' && bytes_eqb d d' && bytes_eqb k k' end) tbl.

(* signature tables are supplied per pool event (aligned with the pool), looked up by event ID *)
Definition sig_of_tables (evs : list json) (tbls : list json) (e : json) : bytes -> bytes -> bytes -> bool :=
  match find (fun p => bytes_eqb (ev_id (fst p)) (ev_id e)) (combine evs tbls) with
  | Some (_, t) => table_oracle (sig_table t)
  | None => fun _ _ _ => false
  end.

Definition jnat (j : json) : nat := match jint j with Some z => Z.to_nat z | None => O end.

Fixpoint decode_steps (evs : list json) (i : N) (sts : list json) : list (provider * json) :=
  match sts with
  | [] => []
  | st :: r =>
      let same := match jget_str (bs "p") st with Some s => bytes_eqb s (bs "same") | None => false end in
      let set := match jget (bs "set") st with Some (JArr l) => map jnat l | _ => [] end in
      let ev := match jget (bs "ev") st with Some j => jnat j | None => O end in
      ({| p_id := if same then 0 else i + 1;
          p_events := map (fun k => (N.of_nat k, nth k evs JNull)) set |}, nth ev evs JNull)
      :: decode_steps evs (i + 1) r
  end.

(* [ver; steps; signature tables; pool...; observable], observable = reused verdicts | one-shot
   (Allowed) verdicts. Specification side of checker reuse: at every step the verdict obtained
   through the reused checker is the verdict of the one-shot evaluation. Allowed first applies
   AuthEvents.Valid() (all auth events of one room), which a context fed by state resolution does
   not: the claim is demanded at the steps whose provider holds events of one room. *)
Fixpoint verdicts_agree (f : ver_flags) (seq : list (provider * json)) (a b : list bytes) : bool :=
  match seq, a, b with
  | [], [], [] => true
  | pe :: seq', x :: a', y :: b' =>
      (negb (valid9 f (p_auths (fst pe))) || bytes_eqb x y) && verdicts_agree f seq' a' b'
  | _, _, _ => false
  end.

Definition prop_reuse_transparent (args : list bytes) : bytes :=
  match last_arg args with
  | Some (ver :: steps :: _sigs :: pool, obs) =>
      match flags_of_version ver, parse_json steps, parse_all pool, split_at 124 obs with
      | Some f, Some (JArr sts), Some evs, Some (reused, oneshot) =>
          if verdicts_agree f (decode_steps evs 0 sts) (split_commas reused) (split_commas oneshot)
          then bs "ok"
          else bs "FAIL reused=" ++ reused ++ bs " oneshot=" ++ oneshot
      | _, _, _, _ => bs "badargs"
      end
  | _ => bs "badargs"
  end.

(* [ver; steps; signature tables; pool event ...] -> reused verdicts | one-shot (Allowed) verdicts *)
Definition run_sequence (args : list bytes) : bytes :=
  match args with
  | ver :: steps :: sigs :: pool =>
      match flags_of_version ver, parse_json steps, parse_json sigs, parse_all pool with
      | Some f, Some (JArr sts), Some (JArr tbls), Some evs =>
          let so := sig_of_tables evs tbls in
          let seq := decode_steps evs 0 sts in
          let shared0 := {| p_id := 0; p_events := [] |} in
          let reused := run_checker9 so f (new_context9 f shared0) seq in
          let alone := map (fun pe => allowed9 so f (snd pe) (p_auths (fst pe))) seq in
          join_bytes comma (map (fun v => verdict_bytes (Some v)) reused) ++ [124] ++
          join_bytes comma (map (fun v => verdict_bytes (Some v)) alone)
      | _, _, _, _ => bs "badargs"
      end
  | _ => bs "badargs"
  end.

(* [ver; event; observable = StateNeededForAuth tuples of the implementation]:
   every (type, state_key) pair under which the check consults the provider (needed7, the
   read-set proved sufficient in Props/C09.v) is among the tuples the implementation names.
   Demanded on the domain of the auth model (member names spelled exactly, exact_keys).
   Not demanded for a member event whose content is null: the needed-state computation fails
   for it, the check rejects it whatever the state, and only the class of the rejection
   (not allowed / error from the user ID lookup) depends on whether a create event is supplied. *)
Definition prop_readset_within_needed (args : list bytes) : bytes :=
  match args with
  | [_ver; ev; obs] =>
      match parse_json ev with
      | Some e =>
          let lines := split_on 10 (length obs) obs in
          let line (k : bytes * bytes) := fst k ++ [32] ++ hex_of_bytes (snd k) in
          let null_member :=
            match Abs.kind_of (Abs.ev_type e), Abs.content_of e with
            | KMember, Abs.CoNull => true
            | _, _ => false
            end in
          if null_member || negb (exact_keys e) then bs "ok"
          else match filter (fun k => negb (mem_bytes (line k) lines)) (needed7 e) with
               | [] => bs "ok"
               | k :: _ => bs "FAIL the check reads a tuple that is not needed: " ++ line k
               end
      | None => bs "badargs"
      end
  | _ => bs "badargs"
  end.

(* [ver; plan; signature tables; pool event ...] -> the verdict of every (provider, event) pair of
   the plan: the model is a function, so a pair has one verdict however often and after whatever it
   is evaluated *)
Definition run_repeat (args : list bytes) : bytes :=
  match args with
  | ver :: steps :: sigs :: pool =>
      match flags_of_version ver, parse_json steps, parse_json sigs, parse_all pool with
      | Some f, Some (JArr sts), Some (JArr tbls), Some evs =>
          let so := sig_of_tables evs tbls in
          join_bytes comma (map (fun pe => verdict_bytes (Some (allowed9 so f (snd pe) (p_auths (fst pe)))))
                                (decode_steps evs 0 sts))
      | _, _, _, _ => bs "badargs"
      end
  | _ => bs "badargs"
  end.

(* the same plan through one provider object cleared and refilled per step, and through a new
   provider per step: the model has no provider objects, both halves are the verdicts of the pairs *)
Definition run_refill (args : list bytes) : bytes :=
  let r := run_repeat args in r ++ [124] ++ r.

(* specification side, decided on the implementation's verdicts alone: two entries of the plan
   that name the same auth events (same order) and the same event carry the same verdict *)
Fixpoint same_verdicts (sts : list json) (vs : list bytes) : bool :=
  match sts, vs with
  | st :: sts', v :: vs' =>
      (fix scan (l : list json) (ws : list bytes) : bool :=
         match l, ws with
         | st2 :: l', w :: ws' => (negb (json_eqb st st2) || bytes_eqb v w) && scan l' ws'
         | _, _ => true
         end) sts' vs' && same_verdicts sts' vs'
  | [], [] => true
  | _, _ => false
  end.

Definition prop_same_on_every_evaluation (args : list bytes) : bytes :=
  match last_arg args with
  | Some (_ver :: steps :: _, obs) =>
      match parse_json steps with
      | Some (JArr sts) =>
          if same_verdicts sts (split_commas obs) then bs "ok"
          else bs "FAIL the same (auth events, event) pair got different verdicts: " ++ obs
      | _ => bs "badargs"
      end
  | _ => bs "badargs"
  end.

(* ---- insertion order with a (type, state_key) supplied more than once ---- *)
Definition decode_orders (j : json) : list (list nat) :=
  match j with
  | JArr l => map (fun o => match o with JArr is => map jnat is | _ => [] end) l
  | _ => []
  end.

(* [ver; event; orders; signature table of the event; inserted event ...] -> allowed9 for the
   list in every order (find_auth: the later event of a key wins; valid9: the entries held) *)
Definition run_order (args : list bytes) : bytes :=
  match args with
  | ver :: ev :: orders :: sigs :: pool =>
      match flags_of_version ver, parse_json ev, parse_json orders, parse_json sigs, parse_all pool with
      | Some f, Some e, Some os, Some tbl, Some evs =>
          let so := fun (_ : json) => table_oracle (sig_table tbl) in
          join_bytes comma
            (map (fun o => verdict_bytes (Some (allowed9 so f e (map (fun k => nth k evs JNull) o))))
                 (decode_orders os))
      | _, _, _, _, _ => bs "badargs"
      end
  | _ => bs "badargs"
  end.

(* the indices whose event the provider holds after inserting in this order: the last of each key *)
Fixpoint winners (key : nat -> bytes * bytes) (o : list nat) : list nat :=
  match o with
  | [] => []
  | i :: r => if existsb (fun j => tuple_eqb (key i) (key j)) r then winners key r else i :: winners key r
  end.
(* the same, next to the verdict for the entries held in the end alone *)
Definition run_replace (args : list bytes) : bytes :=
  match args with
  | ver :: ev :: orders :: sigs :: pool =>
      match flags_of_version ver, parse_json ev, parse_json orders, parse_json sigs, parse_all pool with
      | Some f, Some e, Some os, Some tbl, Some evs =>
          let so := fun (_ : json) => table_oracle (sig_table tbl) in
          let key := fun i => ev_key (nth i evs JNull) in
          let verdict := fun o => verdict_bytes (Some (allowed9 so f e (map (fun k => nth k evs JNull) o))) in
          join_bytes comma (map verdict (decode_orders os)) ++ [124] ++
          join_bytes comma (map (fun o => verdict (winners key o)) (decode_orders os))
      | _, _, _, _, _ => bs "badargs"
      end
  | _ => bs "badargs"
  end.

Definition same_set (a b : list nat) : bool :=
  forallb (fun x => existsb (Nat.eqb x) b) a && forallb (fun x => existsb (Nat.eqb x) a) b.

Fixpoint orders_agree (key : nat -> bytes * bytes) (os : list (list nat)) (vs : list bytes) : bool :=
  match os, vs with
  | o :: os', v :: vs' =>
      (fix scan (l : list (list nat)) (ws : list bytes) : bool :=
         match l, ws with
         | o2 :: l', w :: ws' =>
             (negb (same_set o o2 && (length o =? length o2)%nat
                    && same_set (winners key o) (winners key o2)) || bytes_eqb v w) && scan l' ws'
         | _, _ => true
         end) os' vs' && orders_agree key os' vs'
  | [], [] => true
  | _, _ => false
  end.

(* specification side, on the implementation's verdicts: two insertion orders of the same events
   that leave the provider holding the same events carry the same verdict *)
Definition prop_order_of_duplicates (args : list bytes) : bytes :=
  match last_arg args with
  | Some (_ver :: _ev :: orders :: _sigs :: pool, obs) =>
      match parse_json orders, parse_all pool with
      | Some os, Some evs =>
          let key := fun i => ev_key (nth i evs JNull) in
          if orders_agree key (decode_orders os) (split_commas obs) then bs "ok"
          else bs "FAIL the verdict depends on the insertion order: " ++ obs
      | _, _ => bs "badargs"
      end
  | _ => bs "badargs"
  end.

(* [...; observable = a | b]: the state after the real authAndApplyEvents loop is the state after
   checking every event on its own *)
Definition prop_halves_equal (args : list bytes) : bytes :=
  match last_arg args with
  | Some (_, obs) =>
      match split_at 124 obs with
      | Some (a, b) => if bytes_eqb a b then bs "ok" else bs "FAIL loop=" ++ a ++ bs " alone=" ++ b
      | None => bs "badargs"
      end
  | None => bs "badargs"
  end.

Definition ops_C09 : list (bytes * (list bytes -> bytes)) :=
  [ (bs "C09.state_needed", run_state_needed);
    (bs "C09.needed_proto", run_needed_proto);
    (bs "C09.add_auth_events", run_add_auth_events);
    (bs "C09.sequence", run_sequence);
    (bs "C09.repeat", run_repeat);
    (bs "C09.refill", run_refill);
    (bs "C09.order", run_order);
    (bs "C09.replace", run_replace);
    (bs "C09.prop.order_of_duplicates", prop_order_of_duplicates);
    (bs "C09.prop.halves_equal", prop_halves_equal);
    (bs "C09.prop.same_on_every_evaluation", prop_same_on_every_evaluation);
    (bs "C09.prop.add_auth_events_covers", prop_add_auth_events_covers);
    (bs "C09.prop.reuse_transparent", prop_reuse_transparent);
    (bs "C09.prop.invariance", prop_invariance);
    (bs "C09.prop.readset_within_needed", prop_readset_within_needed);
    (bs "C09.prop.all_equal", prop_all_equal) ].
