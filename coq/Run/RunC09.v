(* Executable entry points of the C09 model and specification oracles. *)
From Verif Require Import Lib.Bytes Json.Ast Json.Parse.
Open Scope N_scope.

(* [ver; steps; pool...; observable] where observable = reused verdicts | one-shot verdicts.
   Specification side of checker reuse: the verdict list obtained through one reused checker
   must be the verdict list of the one-shot evaluations. *)
Definition prop_reuse_transparent (args : list bytes) : bytes :=
  match rev args with
  | obs :: _ =>
      match split_at 124 obs with
      | Some (reused, oneshot) =>
          if bytes_eqb reused oneshot then bs "ok"
          else bs "FAIL reused=" ++ reused ++ bs " oneshot=" ++ oneshot
      | None => bs "badargs"
      end
  | [] => bs "badargs"
  end.

Definition ops_C09 : list (bytes * (list bytes -> bytes)) :=
  [ (bs "C09.prop.reuse_transparent", prop_reuse_transparent) ].
