(* Executable entry points of the state-resolution model (C10) for the correspondence check.

   Common argument encodings: universe = the events of the case (StateRes/Event.v wire format);
   id lists are comma separated, state sets are separated by semicolons; the table lists the
   verdicts of the real auth rules for (event, provider contents) pairs, one per line:
   event id, a bar, the sorted provider ids, a bar, 1 or 0. *)
From Verif Require Import Lib.Bytes StateRes.Event StateRes.Kahn StateRes.V2 StateRes.V1 StateRes.Entry StateRes.V2Spec StateRes.V2SpecResolve StateRes.V1Spec StateRes.Wf.
From Verif Require Import Json.Ast Json.Parse Auth.Types Auth.Versions Auth.Abs Auth.Decide Auth.Model.
Open Scope N_scope.

Definition idsort (l : list bytes) : list bytes := ssort bytes_cmp l.
Definition join_ids (l : list bytes) : bytes := join_bytes [c_comma] l.
Definition out_sorted (l : list event) : bytes := join_ids (idsort (ids_of l)).
Definition out_ordered (l : list event) : bytes := join_ids (ids_of l).

Definition parse_ids (s : bytes) : list bytes := split_list c_comma s.
Definition parse_sets (u : list event) (s : bytes) : list (list event) :=
  map (fun x => lookup_ids u (parse_ids x)) (split_list c_semi s).

(* ---------- the verdict table ---------- *)
Definition table := list (bytes * bytes * bool).

Definition parse_table_line (l : bytes) : option (bytes * bytes * bool) :=
  match split_at c_bar l with
  | Some (ev, r) => match split_at c_bar r with
                    | Some (ids, v) => Some (ev, ids, bytes_eqb v (bs "1"))
                    | None => None
                    end
  | None => None
  end.

Fixpoint parse_table_lines (ls : list bytes) : table :=
  match ls with
  | [] => []
  | l :: r => match parse_table_line l with
              | Some x => x :: parse_table_lines r
              | None => parse_table_lines r
              end
  end.
Definition parse_table (s : bytes) : table := parse_table_lines (split_list c_nl s).

Definition query_key (ids : list bytes) : bytes := join_ids (idsort ids).

Fixpoint table_lookup (t : table) (ev key : bytes) : option bool :=
  match t with
  | [] => None
  | (e, k, v) :: r => if bytes_eqb e ev && bytes_eqb k key then Some v else table_lookup r ev key
  end.

Definition allowed_of_table (t : table) (e : event) (prov : list event) : bool :=
  match table_lookup t (e_id e) (query_key (ids_of prov)) with
  | Some v => v
  | None => false
  end.

Fixpoint missing_queries (t : table) (log : list query) (seen : list bytes) : list bytes :=
  match log with
  | [] => []
  | (ev, ids) :: r =>
      let line := ev ++ [c_bar] ++ query_key ids in
      match table_lookup t ev (query_key ids) with
      | Some _ => missing_queries t r seen
      | None => if mem_bytes line seen then missing_queries t r seen
                else line :: missing_queries t r (line :: seen)
      end
  end.

(* the result, or the queries the table does not answer yet *)
Definition answer (t : table) (res : option (list event * list query)) : bytes :=
  match res with
  | None => bs "err"
  | Some (evs, log) =>
      match missing_queries t log [] with
      | [] => out_sorted evs
      | m => bs "MISSING" ++ [c_nl] ++ join_bytes [c_nl] m
      end
  end.

Definition idE (l : list event) := l.
Definition idP (l : list pwrap) := l.
Definition idO (l : list owrap) := l.
Definition idG (l : list (tkey * list event)) := l.

Definition is_v1 (ver : bytes) : bool := match algo_of_version ver with Some AlgoV1 => true | _ => false end.
Definition is_v21 (ver : bytes) : bool := match algo_of_version ver with Some AlgoV2_1 => true | _ => false end.

(* [ver; universe; sets; event JSONs (unused)] - every op: version first, JSONs last *)
Definition run_split (args : list bytes) : bytes :=
  match args with
  | [ver; u; sets; _] =>
      let un := decode_universe u in
      let cu := split_conflicted idG (is_v1 ver) (parse_sets un sets) in
      out_sorted (fst cu) ++ [c_semi] ++ out_sorted (snd cu)
  | _ => bs "badargs"
  end.

(* [ver; universe; sets; auth] *)
Definition run_authdiff_new (args : list bytes) : bytes :=
  match args with
  | [ver; u; sets; auth; _] =>
      let un := decode_universe u in
      let ss := parse_sets un sets in
      let cu := split_conflicted idG false ss in
      out_sorted (auth_difference_new idE (is_v21 ver) (dedup_events (lookup_ids un (parse_ids auth))) (fst cu) ss)
  | _ => bs "badargs"
  end.

(* [universe; conflicted; auth] *)
Definition run_authdiff_old (args : list bytes) : bytes :=
  match args with
  | [_; u; conflicted; auth; _] =>
      let un := decode_universe u in
      out_sorted (auth_difference_old idE (dedup_events (lookup_ids un (parse_ids auth)))
                                      (dedup_events (lookup_ids un (parse_ids conflicted))))
  | _ => bs "badargs"
  end.

(* [universe] -> one digit per event *)
Definition run_control (args : list bytes) : bytes :=
  match args with
  | [_; u; _] => map (fun e => if is_control_event e then 49 else 48) (decode_universe u)
  | _ => bs "badargs"
  end.

Definition flag (b : bool) : N := if b then 49 else 48.

(* [universe] -> per event: create power join_rules flags, members, tokens *)
Definition run_needed (args : list bytes) : bytes :=
  match args with
  | [_; u; _] => join_bytes [c_nl]
             (map (fun e => let n := state_needed e in
                            [flag (n_create n); flag (n_power n); flag (n_join_rules n); c_bar]
                            ++ join_ids (idsort (n_member n)) ++ [c_bar] ++ join_ids (idsort (n_3pid n)))
                  (decode_universe u))
  | _ => bs "badargs"
  end.

(* [ver; universe; list; auth; create or empty] *)
Definition run_power_order (args : list bytes) : bytes :=
  match args with
  | [ver; u; l; auth; create; _] =>
      let un := decode_universe u in
      out_ordered (power_order idP (priv_of_version ver) GenConsts.gen_creator_power_level users_default0
                               (dedup_events (lookup_ids un (parse_ids auth)))
                               (find_event create un) (dedup_events (lookup_ids un (parse_ids l))))
  | _ => bs "badargs"
  end.

(* [universe; list; auth; resolved power levels or empty] *)
Definition run_mainline_order (args : list bytes) : bytes :=
  match args with
  | [_; u; l; auth; pl; _] =>
      let un := decode_universe u in
      out_ordered (mainline_order (dedup_events (lookup_ids un (parse_ids auth)))
                                  (find_event pl un) (lookup_ids un (parse_ids l)))
  | _ => bs "badargs"
  end.

(* [ver; universe; sets; auth; rejected; table] *)
Definition run_resolve_new (args : list bytes) : bytes :=
  match args with
  | [ver; u; sets; auth; rej; tbl; _] =>
      let un := decode_universe u in
      let t := parse_table tbl in
      let rejl := parse_ids rej in
      answer t (resolve_conflicts_new (allowed_of_table t) (fun k => mem_bytes k rejl) idE idP idG
                                      ver (parse_sets un sets) (lookup_ids un (parse_ids auth)))
  | _ => bs "badargs"
  end.

(* [ver; universe; events; auth; rejected; table] *)
Definition run_resolve_old (args : list bytes) : bytes :=
  match args with
  | [ver; u; evs; auth; rej; tbl; _] =>
      let un := decode_universe u in
      let t := parse_table tbl in
      let rejl := parse_ids rej in
      answer t (resolve_conflicts (allowed_of_table t) (fun k => mem_bytes k rejl) idE idP idG
                                  ver (lookup_ids un (parse_ids evs)) (lookup_ids un (parse_ids auth)))
  | _ => bs "badargs"
  end.

(* the stages of one resolution as the model computes them (harness-side generator of stage
   inputs): control list ; others list ; resolved power levels after the control events *)
Definition run_stages (args : list bytes) : bytes :=
  match args with
  | [ver; u; sets; auth; rej; tbl; _] =>
      let un := decode_universe u in
      let t := parse_table tbl in
      let rejl := parse_ids rej in
      let ss := parse_sets un sets in
      let authmap := dedup_events (lookup_ids un (parse_ids auth)) in
      let cu := split_conflicted idG false ss in
      let v21 := is_v21 ver in
      let full := fst cu ++ auth_difference_new idE v21 authmap (fst cu) ss in
      let skip := if v21 then [] else snd cu in
      let control := control_events (dedup_events (fst cu)) skip full in
      let others := other_events skip full control in
      let priv := priv_of_version ver in
      let unc := if v21 then snd cu else power_order idP priv GenConsts.gen_creator_power_level users_default0 authmap None (dedup_events (snd cu)) in
      let r0 := if v21 then mkR [] [] else r_apply (mkR [] []) unc in
      let create := smap_get (r_state r0) (t_create, []) in
      let csorted := power_order idP priv GenConsts.gen_creator_power_level users_default0 authmap create (dedup_events control) in
      let r1 := auth_and_apply (allowed_of_table t) (fun k => mem_bytes k rejl) authmap r0 csorted in
      out_ordered control ++ [c_semi] ++ out_ordered others ++ [c_semi]
      ++ match smap_get (r_state r1) (t_power, []) with Some p => e_id p | None => [] end
      ++ [c_semi] ++ match create with Some c => e_id c | None => [] end
  | _ => bs "badargs"
  end.


(* ---------- specification oracles (StateRes/V2Spec.v) on the implementation's stage outputs ---------- *)
Definition sets_are_lists_without_repeats (ss : list (list event)) : bool :=
  forallb (fun s => nodup_bytes (ids_of s)) ss.

Definition state_events (l : list event) : list event :=
  filter (fun e => match e_skey e with Some _ => true | None => false end) l.

(* v1: a key is conflicted when the sets hold different events for it *)
Definition spec_unconflicted_v1b (sets : list (list event)) (e : event) : bool :=
  match e_skey e with
  | None => false
  | Some _ => forallb (fun s => forallb (fun e' => negb (same_key e' e) || bytes_eqb (e_id e') (e_id e)) s) sets
  end.

Definition spec_split (v1 : bool) (ss : list (list event)) : list event * list event :=
  let all := state_events (dedup_events (concat ss)) in
  let unc := if v1 then spec_unconflicted_v1b ss else spec_unconflictedb ss in
  (filter (fun e => negb (unc e)) all, filter unc all).

(* [ver; universe; sets; event JSONs; observable] *)
Definition prop_split (args : list bytes) : bytes :=
  match args with
  | [ver; u; sets; _; obs] =>
      let un := decode_universe u in
      let ss := parse_sets un sets in
      let cu := spec_split (is_v1 ver) ss in
        let want := out_sorted (fst cu) ++ [c_semi] ++ out_sorted (snd cu) in
        if bytes_eqb want obs then bs "ok" else bs "FAIL spec says " ++ want
  | _ => bs "badargs"
  end.

(* [ver; universe; sets; auth; event JSONs; observable] *)
Definition prop_authdiff (args : list bytes) : bytes :=
  match args with
  | [ver; u; sets; auth; _; obs] =>
      let un := decode_universe u in
      let ss := parse_sets un sets in
      let authmap := dedup_events (lookup_ids un (parse_ids auth)) in
        let d := spec_auth_difference_list authmap ss in
        let all := if is_v21 ver
                   then union_events d (spec_conflicted_subgraph_list authmap (fst (spec_split false ss)) ss)
                   else d in
        let want := out_sorted all in
        if bytes_eqb want obs then bs "ok" else bs "FAIL spec says " ++ want
  | _ => bs "badargs"
  end.


(* ---------- 6.2 r1-r3 as an oracle on the implementation's power order ----------
   [ver; universe; list; auth; create; event JSONs; observable]; lists with repeated entries are
   outside this definition (the model covers them) *)
Definition prop_power_order (args : list bytes) : bytes :=
  match args with
  | [ver; u; l; auth; create; _; obs] =>
      let un := decode_universe u in
      let input := dedup_events (lookup_ids un (parse_ids l)) in
        let authmap := dedup_events (lookup_ids un (parse_ids auth)) in
        let items := map (fun e => (e, spec_sender_power (priv_of_version ver) GenConsts.gen_creator_power_level
                                                         users_default0 authmap (find_event create un) e)) input in
        let want := join_ids (map (fun x => e_id (fst x)) (spec_power_order (S (length items)) items)) in
        if bytes_eqb want obs then bs "ok" else bs "FAIL 6.2-r1 order is " ++ want
  | _ => bs "badargs"
  end.

(* ---------- 6.2 r4: the output is the input sorted by (position, steps, timestamp, ID) ----------
   [ver; universe; list; auth; resolved power levels; event JSONs; observable] *)
Definition prop_mainline_order (args : list bytes) : bytes :=
  match args with
  | [_; u; l; auth; pl; _; obs] =>
      let un := decode_universe u in
      let input := lookup_ids un (parse_ids l) in
      let authmap := dedup_events (lookup_ids un (parse_ids auth)) in
      let resolved := find_event pl un in
        let out := lookup_ids un (parse_ids obs) in
        if negb (Nat.eqb (length out) (length (parse_ids obs))) then bs "FAIL unknown-event"
        else if negb (bytes_eqb (join_ids (idsort (ids_of out))) (join_ids (idsort (ids_of input))))
        then bs "FAIL not-a-rearrangement-of-the-input"
        else if sorted_by_mainline authmap resolved out then bs "ok"
        else bs "FAIL not-sorted-by-mainline-key"
  | _ => bs "badargs"
  end.

(* ---------- 6.2 r7: the v1 winner of every conflicted key ----------
   [ver; universe; sets (or, deprecated entry point, one list of events); auth; rejected; table;
   event JSONs; observable] *)
Definition prop_v1_on (ver : bytes) (un : list event) (ss : list (list event)) (auth tbl obs : bytes) : bytes :=
  if negb (is_v1 ver) then bs "ok"
  else
    let cu := spec_split true ss in
    let authl := lookup_ids un (parse_ids auth) in
      let t := parse_table tbl in
      let want := out_sorted (spec_resolve_v1 (allowed_of_table t) (fst cu) authl ++ snd cu) in
      if bytes_eqb want obs then bs "ok" else bs "FAIL 6.2-r7 state is " ++ want.

Definition prop_v1 (args : list bytes) : bytes :=
  match args with
  | [ver; u; sets; auth; _; tbl; _; obs] =>
      let un := decode_universe u in prop_v1_on ver un (parse_sets un sets) auth tbl obs
  | _ => bs "badargs"
  end.

Definition prop_v1_old (args : list bytes) : bytes :=
  match args with
  | [ver; u; evs; auth; _; tbl; _; obs] =>
      let un := decode_universe u in prop_v1_on ver un [dedup_events (lookup_ids un (parse_ids evs))] auth tbl obs
  | _ => bs "badargs"
  end.


(* ====================================================================================
   End to end: the auth rules are C07's executable model (Auth.Model.allowed_bool) instead of
   the verdict table - the whole of state resolution runs inside the Coq model.
   ejson: one JSON text per line, every event of the case with its event_id member.
   ==================================================================================== *)
Fixpoint parse_ejson_lines (ls : list bytes) : list (bytes * json) :=
  match ls with
  | [] => []
  | l :: r => match parse_json l with
              | Some j => (ev_id j, j) :: parse_ejson_lines r
              | None => parse_ejson_lines r
              end
  end.
Definition parse_ejson (s : bytes) : list (bytes * json) := parse_ejson_lines (split_list c_nl s).

Fixpoint jsons_of (tbl : list (bytes * json)) (l : list event) : list json :=
  match l with
  | [] => []
  | e :: r => match assoc_bytes (e_id e) tbl with
              | Some j => j :: jsons_of tbl r
              | None => jsons_of tbl r
              end
  end.

Definition allowed_e2e (ver : bytes) (tbl : list (bytes * json)) (e : event) (prov : list event) : bool :=
  match assoc_bytes (e_id e) tbl with
  | Some j => allowed_bool ver j (jsons_of tbl prov)
  | None => false
  end.

Definition answer_e2e (res : option (list event * list query)) : bytes :=
  match res with Some (evs, _) => out_sorted evs | None => bs "err" end.

(* [ver; universe; sets; auth; rejected; ejson; event JSONs] *)
Definition run_resolve_new_e2e (args : list bytes) : bytes :=
  match args with
  | [ver; u; sets; auth; rej; ej; _] =>
      let un := decode_universe u in
      let tbl := parse_ejson ej in
      let rejl := parse_ids rej in
      answer_e2e (resolve_conflicts_new (allowed_e2e ver tbl) (fun k => mem_bytes k rejl) idE idP idG
                                        ver (parse_sets un sets) (lookup_ids un (parse_ids auth)))
  | _ => bs "badargs"
  end.

(* [ver; universe; events; auth; rejected; ejson; event JSONs] *)
Definition run_resolve_old_e2e (args : list bytes) : bytes :=
  match args with
  | [ver; u; evs; auth; rej; ej; _] =>
      let un := decode_universe u in
      let tbl := parse_ejson ej in
      let rejl := parse_ids rej in
      answer_e2e (resolve_conflicts (allowed_e2e ver tbl) (fun k => mem_bytes k rejl) idE idP idG
                                    ver (lookup_ids un (parse_ids evs)) (lookup_ids un (parse_ids auth)))
  | _ => bs "badargs"
  end.

(* the auth model against the real rules on the queries state resolution makes:
   [ver; universe; table; ejson; event JSONs] -> one digit per table row *)
Definition run_allowed_rows (args : list bytes) : bytes :=
  match args with
  | [ver; u; tblb; ej; _] =>
      let un := decode_universe u in
      let tbl := parse_ejson ej in
      map (fun row => match row with
                      | (ev, ids, _) =>
                          match find_event ev un with
                          | Some e => flag (allowed_e2e ver tbl e (lookup_ids un (parse_ids ids)))
                          | None => 63
                          end
                      end) (parse_table tblb)
  | _ => bs "badargs"
  end.


(* ---------- the unconflicted state is re-applied last (v2 AND v2.1) ----------
   [ver; universe; sets; auth; rejected; table; event JSONs; observable]: every event the
   specification calls unconflicted is in the implementation's result *)
Definition prop_unconflicted_kept (args : list bytes) : bytes :=
  match args with
  | [ver; u; sets; _; _; _; _; obs] =>
      let un := decode_universe u in
      let ss := parse_sets un sets in
      if is_v1 ver then bs "ok"
      else
        let unc := snd (spec_split false ss) in
        let got := parse_ids obs in
        match filter (fun e => negb (mem_bytes (e_id e) got)) unc with
        | [] => bs "ok"
        | l => bs "FAIL unconflicted events missing from the result: " ++ out_sorted l
        end
  | _ => bs "badargs"
  end.


(* ---------- the whole of v2 / v2.1 from the specification-side definitions ----------
   [ver; universe; sets; auth; rejected; table; event JSONs; observable] *)
Definition prop_v2 (args : list bytes) : bytes :=
  match args with
  | [ver; u; sets; auth; rej; tbl; _; obs] =>
      if is_v1 ver then bs "ok"
      else if negb (bytes_eqb (prop_unconflicted_kept args) (bs "ok")) then prop_unconflicted_kept args
      else
        let un := decode_universe u in
        let ss := parse_sets un sets in
        let authl := lookup_ids un (parse_ids auth) in
        match ss, authl with
             | [], _ => bs "ok"
             | _, _ =>
                 let t := parse_table tbl in
                 let rejl := parse_ids rej in
                 let want := out_sorted (spec_resolve_v2 (allowed_of_table t) (fun k => mem_bytes k rejl)
                                                         (priv_of_version ver) GenConsts.gen_creator_power_level users_default0
                                                         (is_v21 ver) ss authl) in
                 if bytes_eqb want obs then bs "ok" else bs "FAIL the specification resolves to " ++ want
             end
  | _ => bs "badargs"
  end.

(* ---------- ResolveStateConflictsV2 called directly (deprecated driver) ----------
   [ver; universe; conflicted; unconflicted; auth; rejected; table; event JSONs] *)
Definition run_resolve_v2_direct (args : list bytes) : bytes :=
  match args with
  | [ver; u; cf; uc; auth; rej; tbl; _] =>
      let un := decode_universe u in
      let t := parse_table tbl in
      let rejl := parse_ids rej in
      let r := resolve_v2_old (allowed_of_table t) (fun k => mem_bytes k rejl) idE idP (priv_of_version ver)
                              GenConsts.gen_creator_power_level users_default0
                              (lookup_ids un (parse_ids cf)) (lookup_ids un (parse_ids uc)) (lookup_ids un (parse_ids auth)) in
      answer t (Some (result_events r, r_log r))
  | _ => bs "badargs"
  end.

(* every event handed over as unconflicted (one per key) is in the result *)
Definition prop_direct_kept (args : list bytes) : bytes :=
  match args with
  | [_; u; _; uc; auth; _; _; _; obs] =>
      let un := decode_universe u in
      let unc := lookup_ids un (parse_ids uc) in
      let authl := lookup_ids un (parse_ids auth) in
      let got := parse_ids obs in
      if negb (existsb is_create (authl ++ unc)) then bs "ok"
      else match filter (fun e => negb (mem_bytes (e_id e) got)) (state_events unc) with
           | [] => bs "ok"
           | l => bs "FAIL unconflicted events missing from the result: " ++ out_sorted l
           end
  | _ => bs "badargs"
  end.

Definition ops_C10 : list (bytes * (list bytes -> bytes)) :=
  [ (bs "C10.split", run_split);
    (bs "C10.authdiff_new", run_authdiff_new);
    (bs "C10.authdiff_old", run_authdiff_old);
    (bs "C10.control", run_control);
    (bs "C10.needed", run_needed);
    (bs "C10.power_order", run_power_order);
    (bs "C10.mainline_order", run_mainline_order);
    (bs "C10.resolve_new", run_resolve_new);
    (bs "C10.resolve_old", run_resolve_old);
    (bs "C10.stages", run_stages);
    (bs "C10.prop.split", prop_split);
    (bs "C10.prop.authdiff", prop_authdiff);
    (bs "C10.prop.power_order", prop_power_order);
    (bs "C10.prop.mainline_order", prop_mainline_order);
    (bs "C10.prop.v1", prop_v1);
    (bs "C10.prop.v1_old", prop_v1_old);
    (bs "C10.prop.unconflicted_kept", prop_unconflicted_kept);
    (bs "C10.prop.v2", prop_v2);
    (bs "C10.resolve_v2_direct", run_resolve_v2_direct);
    (bs "C10.prop.direct_kept", prop_direct_kept);
    (bs "C10.resolve_new_e2e", run_resolve_new_e2e);
    (bs "C10.resolve_old_e2e", run_resolve_old_e2e);
    (bs "C10.allowed_rows", run_allowed_rows) ].
