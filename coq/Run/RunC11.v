(* Executable entry points for C11: the public orderings, resolution on rearranged inputs, and
   the specification oracles (written from the property text, StateRes/Wf.v). *)
From Verif Require Import Lib.Bytes StateRes.Event StateRes.Kahn StateRes.V2 StateRes.V1
     StateRes.Entry StateRes.Wf Run.RunC10.
Open Scope N_scope.

Definition by_auth_of (which : bytes) : bool :=
  bytes_eqb which (bs "auth") || bytes_eqb which (bs "hauth").

Definition verdict_msg (checks : list (bytes * bool)) : bytes :=
  match filter (fun c => negb (snd c)) checks with
  | [] => bs "ok"
  | l => bs "FAIL " ++ join_bytes [32] (map fst l)
  end.

(* every id of the observable names an event of the universe, once *)
Definition obs_events (un : list event) (obs : bytes) : option (list event) :=
  let ids := parse_ids obs in
  let evs := lookup_ids un ids in
  if Nat.eqb (length ids) (length evs) then Some evs else None.

(* [ver; universe; list; which; event JSONs] *)
Definition run_order (args : list bytes) : bytes :=
  match args with
  | [ver; u; l; which; _] =>
      let un := decode_universe u in
      out_ordered (reverse_topological_ordering idP idO ver (by_auth_of which) (lookup_ids un (parse_ids l)))
  | _ => bs "badargs"
  end.

Definition prop_topo (args : list bytes) : bytes :=
  match args with
  | [ver; u; l; which; _; obs] =>
      let un := decode_universe u in
      let input := lookup_ids un (parse_ids l) in
      match obs_events un obs with
      | None => bs "FAIL unknown-event"
      | Some out =>
          let refs := if by_auth_of which then e_auth else e_prev in
          verdict_msg [ (bs "permutation-of-distinct-input", is_permutation_of_distinct (ids_of input) (ids_of out));
                        (bs "ancestors-first", ancestors_first refs (ids_of input) out []) ]
      end
  | _ => bs "badargs"
  end.

(* [ver; universe; auth list; state list; event JSONs] *)
Definition run_linearise (args : list bytes) : bytes :=
  match args with
  | [ver; u; al; sl; _] =>
      let un := decode_universe u in
      out_ordered (linearise_state_response idE idP idO ver (lookup_ids un (parse_ids al)) (lookup_ids un (parse_ids sl)))
  | _ => bs "badargs"
  end.

Definition prop_linearise (args : list bytes) : bytes :=
  match args with
  | [ver; u; al; sl; _; obs] =>
      let un := decode_universe u in
      let input := lookup_ids un (parse_ids al) ++ lookup_ids un (parse_ids sl) in
      match obs_events un obs with
      | None => bs "FAIL unknown-event"
      | Some out =>
          verdict_msg [ (bs "permutation-of-distinct-input", is_permutation_of_distinct (ids_of input) (ids_of out));
                        (bs "ancestors-first", ancestors_first e_auth (ids_of input) out []) ]
      end
  | _ => bs "badargs"
  end.

(* [ver; universe; sets; auth; rejected; table; base sets; base auth; event JSONs]:
   the rearranged input is resolved; the oracle resolves the base input with the model and
   demands the same set, and the well-formedness clauses on the implementation's result *)
Definition run_resolve_perm (args : list bytes) : bytes :=
  match args with
  | [ver; u; sets; auth; rej; tbl; _; _; j] => run_resolve_new [ver; u; sets; auth; rej; tbl; j]
  | _ => bs "badargs"
  end.

Definition run_resolve_old_perm (args : list bytes) : bytes :=
  match args with
  | [ver; u; evs; auth; rej; tbl; _; _; j] => run_resolve_old [ver; u; evs; auth; rej; tbl; j]
  | _ => bs "badargs"
  end.

Definition prop_perm (args : list bytes) : bytes :=
  match args with
  | [ver; u; sets; auth; rej; tbl; bsets; bauth; j; obs] =>
      let un := decode_universe u in
      let base := run_resolve_new [ver; u; bsets; bauth; rej; tbl; j] in
      match obs_events un obs with
      | None => bs "FAIL unknown-event-or-error"
      | Some out =>
          let ss := parse_sets un bsets in
          let supplied := concat ss ++ lookup_ids un (parse_ids bauth) in
          verdict_msg [ (bs "same-as-base-order", bytes_eqb base obs);
                        (bs "at-most-one-per-key", at_most_one_per_key out);
                        (bs "only-supplied-events", only_supplied supplied out);
                        (bs "agreed-keys-kept", agreed_keys_kept ss out);
                        (bs "equal-sets-fixed-point", equal_sets_fixed_point ss out) ]
      end
  | _ => bs "badargs"
  end.

(* deprecated entry point: one list of events; a key with a single distinct event is agreed *)
Definition prop_old_perm (args : list bytes) : bytes :=
  match args with
  | [ver; u; evs; auth; rej; tbl; bevs; bauth; j; obs] =>
      let un := decode_universe u in
      let base := run_resolve_old [ver; u; bevs; bauth; rej; tbl; j] in
      match obs_events un obs with
      | None => bs "FAIL unknown-event-or-error"
      | Some out =>
          let l := dedup_events (lookup_ids un (parse_ids bevs)) in
          let supplied := l ++ lookup_ids un (parse_ids bauth) in
          verdict_msg [ (bs "same-as-base-order", bytes_eqb base obs);
                        (bs "at-most-one-per-key", at_most_one_per_key out);
                        (bs "only-supplied-events", only_supplied supplied out);
                        (bs "agreed-keys-kept", single_keys_kept l out) ]
      end
  | _ => bs "badargs"
  end.


(* [ver; universe; sets; auth; rejected; ejson; base sets; base auth; event JSONs]: the rearranged
   input through the end-to-end model (auth rules = Auth.Model.allowed_bool) *)
Definition run_resolve_perm_e2e (args : list bytes) : bytes :=
  match args with
  | [ver; u; sets; auth; rej; ej; _; _; j] => run_resolve_new_e2e [ver; u; sets; auth; rej; ej; j]
  | _ => bs "badargs"
  end.

(* the end-to-end model on the base input gives what the implementation gives on the rearranged one *)
Definition prop_perm_e2e (args : list bytes) : bytes :=
  match args with
  | [ver; u; _; _; rej; ej; bsets; bauth; j; obs] =>
      let base := run_resolve_new_e2e [ver; u; bsets; bauth; rej; ej; j] in
      if bytes_eqb base obs then bs "ok" else bs "FAIL end-to-end model on the base input gives " ++ base
  | _ => bs "badargs"
  end.

Definition ops_C11 : list (bytes * (list bytes -> bytes)) :=
  [ (bs "C11.order", run_order);
    (bs "C11.linearise", run_linearise);
    (bs "C11.resolve_perm", run_resolve_perm);
    (bs "C11.resolve_old_perm", run_resolve_old_perm);
    (bs "C11.prop.topo", prop_topo);
    (bs "C11.prop.linearise", prop_linearise);
    (bs "C11.prop.perm", prop_perm);
    (bs "C11.prop.old_perm", prop_old_perm);
    (bs "C11.resolve_perm_e2e", run_resolve_perm_e2e);
    (bs "C11.prop.perm_e2e", prop_perm_e2e) ].
