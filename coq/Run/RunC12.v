(* Executable entry points of the C12 model (correspondence) and the C12 specification oracles.

   C12.verify_jsons   args = [scenario JSON; message 0; message 1; ...]
     scenario members: now (ns); reqs = array of objects s (server), at (ts), strict (bool), request i
     goes with message i; sig = array of [i,kid,key]: the signature of server_i under kid on
     message i verifies with public key key (keys are opaque hex texts);
     db = object ferr, serr, all (bools), keys = array of [server,kid,key,expired,valid_until];
     fetchers = array of objects err, all, keys.
     A scripted fetcher/database answers the requested pairs it has (all=false) or everything it has.
   observable: JSON object R (string of 0/1, or E), D (null or [[s,k,ts]]), F ([[idx,[[s,k,ts]]]]),
     S (null or [[s,k,key,exp,vu]]). *)
From Verif Require Import Lib.Bytes Json.Ast Json.Parse Keys.Model Keys.Spec Keys.ServerKeys Keys.KeyDoc.
Open Scope Z_scope.

Definition gz (k : bytes) (j : json) : Z := match jget_int k j with Some z => z | None => 0 end.
Definition gb (k : bytes) (j : json) : bool := match jget k j with Some (JBool b) => b | _ => false end.
Definition gs (k : bytes) (j : json) : bytes := match jget_str k j with Some s => s | None => [] end.
Definition ga (k : bytes) (j : json) : list json := match jget k j with Some (JArr l) => l | _ => [] end.
Definition jz (j : json) : Z := match jint j with Some z => z | None => 0 end.
Definition jsb (j : json) : bytes := match jstr j with Some s => s | None => [] end.

Definition key_entry (j : json) : option (skey * pkres) :=
  match j with
  | JArr [s; k; key; e; v] =>
      Some ((jsb s, jsb k), {| pk_key := jsb key; pk_expired := jz e; pk_valid_until := jz v |})
  | _ => None
  end.
Definition key_entries (l : list json) : kmap pkres :=
  fold_left (fun m j => match key_entry j with Some (k, r) => minsert k r m | None => m end) l [].

Record script := { sc_err : bool; sc_all : bool; sc_keys : kmap pkres }.
Definition script_of (errname : bytes) (j : json) : script :=
  {| sc_err := gb errname j; sc_all := gb (bs "all") j; sc_keys := key_entries (ga (bs "keys") j) |}.

Definition run_script (sc : script) : fetcher := fun asked =>
  if sc_err sc then None
  else Some (if sc_all sc then sc_keys sc else filter (fun kv => mhas (fst kv) asked) (sc_keys sc)).

(* messages: (index, raw bytes); the table says which (index, kid, key) verify *)
Definition msgT := (Z * bytes)%type.
Definition sig_entry (j : json) : option (Z * bytes * bytes) :=
  match j with JArr [i; k; key] => Some (jz i, jsb k, jsb key) | _ => None end.
(* poison = indices of messages (documents) holding a signature entry that does not decode; the
   table lists what verifies on its own, and an undecodable entry elsewhere spoils it unless the
   source decodes per entry *)
Definition poisoned (cfg : json) (i : Z) : bool := existsb (fun j => jz j =? i) (ga (bs "poison") cfg).
Definition sig_table (cfg : json) : list (Z * bytes * bytes) :=
  filter (fun e => signatures_per_entry || negb (poisoned cfg (fst (fst e))))
         (flat_map (fun j => match sig_entry j with Some e => [e] | None => [] end) (ga (bs "sig") cfg)).
Definition tbl_vj (tbl : list (Z * bytes * bytes)) (server kid key : bytes) (m : msgT) : bool :=
  existsb (fun e => match e with (i, k, ky) => (i =? fst m) && bytes_eqb k kid && bytes_eqb ky key end) tbl.
Definition raw_kids (server : bytes) (m : msgT) : option (list bytes) := list_key_ids server (snd m).

Fixpoint number_from {A} (i : Z) (l : list A) : list (Z * A) :=
  match l with [] => [] | x :: r => (i, x) :: number_from (i + 1) r end.

Definition reqs_of (cfg : json) (msgs : list bytes) : list (vreq msgT) :=
  map (fun p => match p with
                | (i, (j, m)) => {| rq_server := gs (bs "s") j; rq_at := gz (bs "at") j;
                                    rq_rule := if gb (bs "strict") j then Strict else Lenient;
                                    rq_msg := (i, m) |}
                end)
      (number_from 0 (combine (ga (bs "reqs") cfg) msgs)).

(* ---- printing ---- *)
Definition q (s : bytes) : bytes := (34%N :: s) ++ [34%N].
Definition commas (l : list bytes) : bytes := join_bytes (bs ",") l.
Definition brk (l : list bytes) : bytes := bs "[" ++ commas l ++ bs "]".
Definition p_asked (m : kmap Z) : bytes :=
  brk (map (fun kv => brk [q (fst (fst kv)); q (snd (fst kv)); print_int (snd kv)]) m).
Definition p_keys (m : kmap pkres) : bytes :=
  brk (map (fun kv => brk [q (fst (fst kv)); q (snd (fst kv)); q (pk_key (snd kv));
                            print_int (pk_expired (snd kv)); print_int (pk_valid_until (snd kv))]) m).
Definition p_res (r : res) : N := match r with ROk => 49%N | RErr => 48%N end.
Definition p_outcome (o : outcome) : bytes :=
  bs "{""R"":" ++ q (match o_results o with None => bs "E" | Some rs => map p_res rs end)
  ++ bs ",""D"":" ++ (match o_dbcall o with None => bs "null" | Some m => p_asked m end)
  ++ bs ",""F"":" ++ brk (map (fun c => brk [print_int (Z.of_nat (c_idx c)); p_asked (c_asked c)]) (o_calls o))
  ++ bs ",""S"":" ++ (match o_stored o with None => bs "null" | Some m => p_keys m end)
  ++ bs "}".

Definition run_verify_jsons (args : list bytes) : bytes :=
  match args with
  | cfgb :: msgs =>
      match parse_json cfgb with
      | None => bs "badconfig"
      | Some cfg =>
          let db := script_of (bs "ferr") (match jget (bs "db") cfg with Some d => d | None => JNull end) in
          let serr := gb (bs "serr") (match jget (bs "db") cfg with Some d => d | None => JNull end) in
          let fs := map (fun j => run_script (script_of (bs "err") j)) (ga (bs "fetchers") cfg) in
          p_outcome (verify_jsons msgT raw_kids (tbl_vj (sig_table cfg)) (gz (bs "now") cfg)
                                  (run_script db) (fun _ => negb serr) fs (reqs_of cfg msgs))
      end
  | _ => bs "badargs"
  end.

(* ---- was_valid_at alone: [now_ns; expired; valid_until; at; strict(0/1)] ---- *)
Definition zarg (s : bytes) : Z := match parse_int s with Some z => z | None => 0 end.
Definition tf (b : bool) : bytes := if b then bs "true" else bs "false".
Definition run_was_valid_at (args : list bytes) : bytes :=
  match args with
  | [now; e; v; a; st] =>
      tf (was_valid_at (zarg now) {| pk_key := []; pk_expired := zarg e; pk_valid_until := zarg v |}
                       (zarg a) (if zarg st =? 0 then Lenient else Strict))
  | _ => bs "badargs"
  end.
Definition prop_was_valid_at (args : list bytes) : bytes :=
  match args with
  | [now; e; v; a; st; impl] =>
      let want := valid_at_unsigned (negb (zarg st =? 0)) (zarg now) (zarg e) (zarg v) (zarg a) in
      let wrapped := valid_at_spec (negb (zarg st =? 0)) (zarg now) (zarg e) (zarg v) (zarg a) in
      if bytes_eqb impl (tf want) then bs "ok"
      else if bytes_eqb impl (tf wrapped) then bs "FAIL-F62 timestamp of 2^63 or more read as negative; want=" ++ tf want
      else bs "FAIL want=" ++ tf want
  | _ => bs "badargs"
  end.

(* ---- list_key_ids alone: [server; message] -> E | kid,kid,... (sorted) ---- *)
Fixpoint insert_sorted (x : bytes) (l : list bytes) : list bytes :=
  match l with
  | [] => [x]
  | y :: r => match bytes_cmp x y with Eq => l | Lt => x :: l | Gt => y :: insert_sorted x r end
  end.
Definition run_list_key_ids (args : list bytes) : bytes :=
  match args with
  | [server; msg] =>
      match list_key_ids server msg with
      | None => bs "E"
      | Some l => bs "K:" ++ commas (fold_left (fun acc k => insert_sorted k acc) l [])
      end
  | _ => bs "badargs"
  end.

(* ================= specification oracle for VerifyJSONs =================
   Decides the property text on the scenario data and the implementation's observable:
   shape; Ok only under a verifying key obtained from the database contents or a fetcher script and
   valid at the timestamp; Ok whenever the key supplied for the pair (database if it holds it
   inside validity, else the first fetcher that has it, else the stale database key) verifies and
   is valid; fetchers asked only for pairs the database lacks or holds past validity; every asked
   pair a fetcher answered is in the stored map. *)
Record scen := { s_now : Z; s_reqs : list (Z * (bytes * Z * bool));
                 s_sig : list (Z * bytes * bytes); s_db : script; s_serr : bool;
                 s_fetchers : list script }.

Definition scen_of (cfg : json) : scen :=
  let d := match jget (bs "db") cfg with Some d => d | None => JNull end in
  {| s_now := gz (bs "now") cfg;
     s_reqs := number_from 0 (map (fun j => (gs (bs "s") j, gz (bs "at") j, gb (bs "strict") j)) (ga (bs "reqs") cfg));
     s_sig := sig_table cfg; s_db := script_of (bs "ferr") d; s_serr := gb (bs "serr") d;
     s_fetchers := map (script_of (bs "err")) (ga (bs "fetchers") cfg) |}.

(* wrap = false: the rule on the unsigned millisecond values (the property text);
   wrap = true: the rule as the library computes it through int64 (finding F62) *)
Definition rec_valid (wrap : bool) (sc : scen) (r : pkres) (atts : Z) (strict : bool) : bool :=
  if wrap then valid_at_spec strict (s_now sc) (pk_expired r) (pk_valid_until r) atts
  else valid_at_unsigned strict (s_now sc) (pk_expired r) (pk_valid_until r) atts.

Definition is_supported (kid : bytes) : bool := is_prefix (bs "ed25519:") kid.

(* every record any source has for the pair *)
Definition sources (sc : scen) (sk : skey) : list pkres :=
  flat_map (fun s => match mfind sk (sc_keys s) with Some r => [r] | None => [] end)
           (s_db sc :: s_fetchers sc).

Definition first_fetcher (sc : scen) (sk : skey) : option pkres :=
  match find (fun s => negb (sc_err s) && mhas sk (sc_keys s)) (s_fetchers sc) with
  | Some s => mfind sk (sc_keys s)
  | None => None
  end.

Definition supplied (sc : scen) (sk : skey) : option pkres :=
  match mfind sk (sc_keys (s_db sc)) with
  | Some r => if db_key_final (s_now sc) (pk_expired r) (pk_valid_until r) then Some r
              else match first_fetcher sc sk with Some r' => Some r' | None => Some r end
  | None => first_fetcher sc sk
  end.

Definition sound_at (wrap : bool) (sc : scen) (i : Z) (server : bytes) (atts : Z) (strict : bool) : bool :=
  existsb (fun e => match e with (j, kid, key) =>
             (j =? i) && is_supported kid
             && existsb (fun r => bytes_eqb (pk_key r) key && rec_valid wrap sc r atts strict)
                        (sources sc (server, kid)) end) (s_sig sc).

Definition must_ok_at (wrap : bool) (sc : scen) (i : Z) (server : bytes) (atts : Z) (strict : bool) : bool :=
  existsb (fun e => match e with (j, kid, key) =>
             (j =? i) && is_supported kid
             && match supplied sc (server, kid) with
                | Some r => bytes_eqb (pk_key r) key && rec_valid wrap sc r atts strict
                | None => false
                end end) (s_sig sc).

Definition asked_entry (j : json) : skey :=
  match j with JArr (s :: k :: _) => (jsb s, jsb k) | _ => ([], []) end.

Definition db_final_for (sc : scen) (sk : skey) : bool :=
  match mfind sk (sc_keys (s_db sc)) with
  | Some r => db_key_final (s_now sc) (pk_expired r) (pk_valid_until r)
  | None => false
  end.

Definition pkres_eqb (a b : pkres) : bool :=
  bytes_eqb (pk_key a) (pk_key b) && (pk_expired a =? pk_expired b) && (pk_valid_until a =? pk_valid_until b).

Definition first_fail {A} (f : A -> bool) (l : list A) : option A := find (fun x => negb (f x)) l.

Definition prop_verify_jsons_core (args : list bytes) : bytes :=
  match rev args with
  | obsb :: rest =>
      match rev rest with
      | cfgb :: _ =>
          match parse_json cfgb, parse_json obsb with
          | Some cfg, Some obs =>
              let sc := scen_of cfg in
              let R := gs (bs "R") obs in
              let F := ga (bs "F") obs in
              let stored := match jget (bs "S") obs with Some (JArr l) => Some (key_entries l) | _ => None end in
              if bytes_eqb R (bs "E") then
                if sc_err (s_db sc) || s_serr sc then bs "ok" else bs "FAIL error without a database error"
              else if negb (Nat.eqb (length R) (length (s_reqs sc))) then bs "FAIL shape"
              else
                let rows := combine (s_reqs sc) R in
                match first_fail (fun row => match row with ((i, (s, a, st)), c) =>
                                    negb (c =? 49)%N || sound_at false sc i s a st || sound_at true sc i s a st end) rows with
                | Some ((i, _), _) => bs "FAIL sound " ++ print_int i
                | None =>
                match first_fail (fun row => match row with ((i, (s, a, st)), c) =>
                                    negb (must_ok_at false sc i s a st && must_ok_at true sc i s a st) || (c =? 49)%N end) rows with
                | Some ((i, _), _) => bs "FAIL complete " ++ print_int i
                | None =>
                let asked_all := flat_map (fun c => match c with JArr [_; JArr l] => map asked_entry l | _ => [] end) F in
                if existsb (db_final_for sc) asked_all then bs "FAIL asked for a key the database holds inside validity"
                else
                  let answered :=
                    flat_map (fun c => match c with
                                       | JArr [idx; JArr l] =>
                                           match nth_error (s_fetchers sc) (Z.to_nat (jz idx)) with
                                           | Some s => if sc_err s then [] else
                                               flat_map (fun e => match mfind (asked_entry e) (sc_keys s) with
                                                                  | Some r => [(asked_entry e, r)] | None => [] end) l
                                           | None => []
                                           end
                                       | _ => [] end) F in
                  match F, stored with
                  | _ :: _, None => bs "FAIL fetched but nothing stored"
                  | _, None => bs "ok"
                  | _, Some st =>
                      if forallb (fun kr => match mfind (fst kr) st with
                                            | Some r => pkres_eqb r (snd kr) | None => false end) answered
                      then bs "ok" else bs "FAIL fetched key not stored"
                  end
                end end
          | _, _ => bs "badjson"
          end
      | [] => bs "badargs"
      end
  | [] => bs "badargs"
  end.

(* finding F62: rows whose verdict is right only under the int64 reading of a timestamp *)
Definition prop_verify_jsons_f62 (args : list bytes) : option Z :=
  match rev args with
  | obsb :: rest =>
      match rev rest with
      | cfgb :: _ =>
          match parse_json cfgb, parse_json obsb with
          | Some cfg, Some obs =>
              let sc := scen_of cfg in
              let R := gs (bs "R") obs in
              if negb (bytes_eqb R (bs "E")) && Nat.eqb (length R) (length (s_reqs sc)) then
                match find (fun row => match row with ((i, (s, a, st)), c) =>
                              ((c =? 49)%N && negb (sound_at false sc i s a st))
                              || (must_ok_at false sc i s a st && negb (c =? 49)%N) end)
                           (combine (s_reqs sc) R) with
                | Some ((i, _), _) => Some i
                | None => None
                end
              else None
          | _, _ => None
          end
      | [] => None
      end
  | [] => None
  end.

Definition prop_verify_jsons (args : list bytes) : bytes :=
  let r := prop_verify_jsons_core args in
  if bytes_eqb r (bs "ok") then
    match prop_verify_jsons_f62 args with
    | Some i => bs "FAIL-F62 timestamp of 2^63 or more read as negative, request " ++ print_int i
    | None => bs "ok"
    end
  else r.

(* ================= CheckKeys and the two library fetchers =================
   documents: args = [scenario; raw doc 0; raw doc 1; ...]; scenario member docs = array of objects
   s (server_name), vu (valid_until_ts), verify = [[kid,keyhex]], old = [[kid,keyhex,expired_ts]] (the
   fields of the ServerKeys value the library unmarshalled from the raw text); sig = [[doc,name,kid,keyhex]]:
   VerifyJSON(name, kid, key, raw doc) succeeds.  Public keys travel as hex and are decoded here,
   CheckKeys looks at their length. *)
Definition hexv (c : N) : N :=
  (if (48 <=? c) && (c <=? 57) then c - 48 else if (97 <=? c) && (c <=? 102) then c - 87 else 0)%N.
Fixpoint unhex (s : bytes) : bytes :=
  match s with a :: b :: r => (16 * hexv a + hexv b)%N :: unhex r | _ => [] end.

Definition docT := (Z * bytes)%type.
(* the model decodes the raw documents itself (Keys/KeyDoc.v: exact member names); a document that
   does not decode is None at its position and a KeyClient error wherever it is used *)
Definition doc_of (p : Z * bytes) : option (server_keys docT) :=
  match parse_key_doc (snd p) with
  | Some d => Some {| sk_server := kd_server d; sk_verify := kd_verify d; sk_valid_until := kd_valid_until d;
                      sk_old := kd_old d; sk_raw := p |}
  | None => None
  end.
Definition docs_of (cfg : json) (raws : list bytes) : list (option (server_keys docT)) :=
  map doc_of (number_from 0 raws).
Definition doc_at (docs : list (option (server_keys docT))) (i : Z) : option (server_keys docT) :=
  match nth_error docs (Z.to_nat i) with Some (Some d) => Some d | _ => None end.

Definition doc_sig_table (cfg : json) : list (Z * bytes * bytes * bytes) :=
  filter (fun e => signatures_per_entry || negb (poisoned cfg (fst (fst (fst e)))))
         (flat_map (fun j => match j with JArr [i; n; k; key] => [(jz i, jsb n, jsb k, unhex (jsb key))] | _ => [] end)
                   (ga (bs "sig") cfg)).
Definition doc_vj (tbl : list (Z * bytes * bytes * bytes)) (name kid key : bytes) (m : docT) : bool :=
  existsb (fun e => match e with (i, n, k, ky) =>
             (i =? fst m) && bytes_eqb n name && bytes_eqb k kid && bytes_eqb ky key end) tbl.
Definition doc_kids (name : bytes) (m : docT) : option (list bytes) := list_key_ids name (snd m).

Definition b01 (b : bool) : bytes := if b then bs "1" else bs "0".
Definition p_checks (c : key_checks) : bytes :=
  bs "all=" ++ b01 (ck_all c) ++ bs ",name=" ++ b01 (ck_name c) ++ bs ",future=" ++ b01 (ck_future c)
  ++ bs ",has=" ++ b01 (ck_has c)
  ++ bs ",alled=" ++ (match ck_alled c with None => bs "null" | Some b => b01 b end)
  ++ bs ";" ++ commas (map (fun e => kc_kid e ++ bs "/" ++ b01 (kc_valid e) ++ bs "/" ++ b01 (kc_match e)) (ck_entries c))
  ++ bs ";keys=" ++ (match ck_keys c with None => bs "-"
                     | Some l => commas (map (fun kv => fst kv ++ bs "=" ++ hex_of_bytes (snd kv)) l) end).

(* [scenario {server, now (ns), docs:[doc], sig}; raw] *)
Definition run_check_keys (args : list bytes) : bytes :=
  match args with
  | cfgb :: raws =>
      match parse_json cfgb with
      | None => bs "badconfig"
      | Some cfg =>
          match docs_of cfg raws with
          | Some d :: _ => p_checks (check_keys docT (doc_vj (doc_sig_table cfg)) (gs (bs "server") cfg) (gz (bs "now") cfg) d)
          | None :: _ => bs "unmarshal-error"
          | [] => bs "nodoc"
          end
      end
  | _ => bs "badargs"
  end.

(* specification of CheckKeys, written from its documentation: every flag on its own *)
Definition prop_check_keys (args : list bytes) : bytes :=
  match rev args with
  | obs :: rest =>
      match rev rest with
      | cfgb :: raws =>
          match parse_json cfgb with
          | None => bs "badconfig"
          | Some cfg =>
              match docs_of cfg raws with
              | None :: _ => if bytes_eqb obs (bs "unmarshal-error") then bs "ok" else bs "FAIL undecodable document accepted"
              | Some d :: _ =>
                  let tbl := doc_sig_table cfg in
                  let eds := filter (fun kv => bytes_eqb (algorithm_of (fst kv)) (bs "ed25519")) (sk_verify docT d) in
                  let want :=
                    bytes_eqb (gs (bs "server") cfg) (sk_server docT d)
                    && (gz (bs "now") cfg <? signed_ms (sk_valid_until docT d) * 1000000)
                    && negb (Nat.eqb (length eds) 0)
                    && forallb (fun kv => Nat.eqb (length (snd kv)) 32
                                          && doc_vj tbl (sk_server docT d) (fst kv) (snd kv) (sk_raw docT d)) eds in
                  if is_prefix (bs "all=" ++ b01 want ++ bs ",") obs then bs "ok"
                  else bs "FAIL want all=" ++ b01 want
              | [] => bs "nodoc"
              end
          end
      | [] => bs "badargs"
      end
  | [] => bs "badargs"
  end.

Definition idx_list (j : option json) : option (list Z) :=
  match j with Some (JArr l) => Some (map jz l) | _ => None end.
Fixpoint pick_docs (docs : list (option (server_keys docT))) (ix : list Z) : option (list (server_keys docT)) :=
  match ix with
  | [] => Some []
  | i :: r => match doc_at docs i, pick_docs docs r with
              | Some d, Some ds => Some (d :: ds)
              | _, _ => None
              end
  end.
Definition lookup_docs (docs : list (option (server_keys docT))) (j : option json) : option (list (server_keys docT)) :=
  match idx_list j with Some ix => pick_docs docs ix | None => None end.
Definition asked_of (cfg : json) : kmap Z :=
  fold_left (fun m j => match j with JArr [s; k; t] => minsert (jsb s, jsb k) (jz t) m | _ => m end)
            (ga (bs "asked") cfg) [].
Definition p_hexkeys (m : kmap pkres) : bytes :=
  p_keys (map (fun kv => (fst kv, {| pk_key := hex_of_bytes (pk_key (snd kv)); pk_expired := pk_expired (snd kv);
                                     pk_valid_until := pk_valid_until (snd kv) |})) m).

(* direct fetcher: scenario members local = [names], localkey (hex), asked, get = object server -> doc
   index or null, lookup = object server -> [doc indices] or null, docs, sig *)
Definition run_direct_fetch (args : list bytes) : bytes :=
  match args with
  | cfgb :: raws =>
      match parse_json cfgb with
      | None => bs "badconfig"
      | Some cfg =>
          let docs := docs_of cfg raws in
          let vjf := doc_vj (doc_sig_table cfg) in
          let getj := match jget (bs "get") cfg with Some g => g | None => JNull end in
          let lookj := match jget (bs "lookup") cfg with Some g => g | None => JNull end in
          let get := fun server => match jget server getj with
                                   | Some (JNum r) => doc_at docs (jz (JNum r))
                                   | _ => None end in
          let lookup := fun server (_ : kmap Z) => lookup_docs docs (jget server lookj) in
          let locals := map jsb (ga (bs "local") cfg) in
          let is_local := fun s => mem_bytes s locals in
          let asked := asked_of cfg in
          let remote := distinct_servers (map (fun kv => fst (fst kv)) (filter (fun kv => negb (is_local (fst (fst kv)))) asked)) [] in
          let gets := fold_left (fun acc s => insert_sorted s acc) remote [] in
          let looks := fold_left (fun acc s => match fetch_keys_for_server docT vjf get s with
                                               | None => insert_sorted s acc | Some _ => acc end) remote [] in
          bs "G=" ++ commas gets ++ bs ";L=" ++ commas looks ++ bs ";"
          ++ p_hexkeys (direct_fetch docT vjf get lookup is_local (unhex (gs (bs "localkey") cfg))
                                     (as_timestamp (gz (bs "now") cfg)) asked)
      end
  | _ => bs "badargs"
  end.

(* perspective fetcher: scenario members pname, pkeys = [[kid,keyhex]], asked, lookup = [doc indices] or
   null, docs, sig *)
Definition run_perspective_fetch (args : list bytes) : bytes :=
  match args with
  | cfgb :: raws =>
      match parse_json cfgb with
      | None => bs "badconfig"
      | Some cfg =>
          let docs := docs_of cfg raws in
          let vjf := doc_vj (doc_sig_table cfg) in
          let pkeys := flat_map (fun e => match e with JArr [k; key] => [(jsb k, unhex (jsb key))] | _ => [] end)
                                (ga (bs "pkeys") cfg) in
          let lookup := fun (_ : bytes) (_ : kmap Z) => lookup_docs docs (jget (bs "lookup") cfg) in
          bs "A=" ++ p_asked (asked_of cfg) ++ bs ";"
          ++ match perspective_fetch docT doc_kids vjf lookup (gs (bs "pname") cfg) pkeys (asked_of cfg) with
             | None => bs "E"
             | Some m => p_hexkeys m
             end
      end
  | _ => bs "badargs"
  end.

(* ---- specification oracles for the two fetchers (the accepted-only-if direction of the text) ---- *)
Definition doc_passes (tbl : list (Z * bytes * bytes * bytes)) (server : bytes) (now : Z) (d : server_keys docT) : bool :=
  let eds := filter (fun kv => bytes_eqb (algorithm_of (fst kv)) (bs "ed25519")) (sk_verify docT d) in
  bytes_eqb server (sk_server docT d)
  && (now <? signed_ms (sk_valid_until docT d) * 1000000)
  && negb (Nat.eqb (length eds) 0)
  && forallb (fun kv => Nat.eqb (length (snd kv)) 32
                        && doc_vj tbl (sk_server docT d) (fst kv) (snd kv) (sk_raw docT d)) eds.

Definition ends_with (suffix s : bytes) : bool := is_prefix (rev suffix) (rev s).

(* does document d list the result row (kid, key hex, expired, valid_until)? *)
Definition doc_lists (d : server_keys docT) (k key : bytes) (e v : Z) : bool :=
  existsb (fun kv => bytes_eqb (fst kv) k && bytes_eqb (hex_of_bytes (snd kv)) key
                     && (v =? sk_valid_until docT d) && (e =? 0)) (sk_verify docT d)
  || existsb (fun kv => bytes_eqb (fst kv) k && bytes_eqb (hex_of_bytes (fst (snd kv))) key
                        && (e =? snd (snd kv)) && (v =? 0)) (sk_old docT d).

(* an answer only if every response decodes and is signed by the notary under an id we hold its
   key for; and every key of the answer is listed by a response that names the key's server by its
   member spelled exactly server_name, is about a server that was asked for, and is self-signed by
   that server with a valid_until_ts after the epoch *)
Definition prop_perspective_fetch (args : list bytes) : bytes :=
  match rev args with
  | obs :: rest =>
      match rev rest with
      | cfgb :: raws =>
          match parse_json cfgb with
          | None => bs "badconfig"
          | Some cfg =>
              if ends_with (bs ";E") obs then bs "ok"
              else
                let docs := docs_of cfg raws in
                let tbl := doc_sig_table cfg in
                let pname := gs (bs "pname") cfg in
                let asked := asked_of cfg in
                let pkeys := flat_map (fun e => match e with JArr [k; key] => [(jsb k, unhex (jsb key))] | _ => [] end)
                                      (ga (bs "pkeys") cfg) in
                let signed := fun d => existsb (fun pk => doc_vj tbl pname (fst pk) (snd pk) (sk_raw docT d)) pkeys in
                match lookup_docs docs (jget (bs "lookup") cfg) with
                | None => bs "FAIL answer without a decodable notary response"
                | Some ds =>
                    if negb (forallb signed ds) then bs "FAIL accepted a response the notary did not sign"
                    else
                      match split_at 59%N obs with
                      | None => bs "FAIL unreadable result"
                      | Some (_, tail) =>
                          match parse_json tail with
                          | Some (JArr rows) =>
                              if forallb (fun row =>
                                   match row with
                                   | JArr [s; k; key; e; v] =>
                                       existsb (fun kv => bytes_eqb (fst (fst kv)) (jsb s)) asked
                                       && existsb (fun d => signed d && doc_passes tbl (jsb s) 0 d
                                                            && doc_lists d (jsb k) (jsb key) (jz e) (jz v)) ds
                                   | _ => false
                                   end) rows
                              then bs "ok"
                              else bs "FAIL-F64 returned a key that no response naming that server exactly, asked for and self-signed, lists"
                          | _ => bs "FAIL unreadable result"
                          end
                      end
                end
          end
      | [] => bs "badargs"
      end
  | [] => bs "badargs"
  end.

(* every key returned for a non-local server is listed by a response for that server (from the
   server or from it as its own notary) that is self-signed with valid_until_ts after the epoch *)
Definition prop_direct_fetch (args : list bytes) : bytes :=
  match rev args with
  | obs :: rest =>
      match rev rest with
      | cfgb :: raws =>
          match parse_json cfgb with
          | None => bs "badconfig"
          | Some cfg =>
              let docs := docs_of cfg raws in
              let tbl := doc_sig_table cfg in
              let locals := map jsb (ga (bs "local") cfg) in
              let getj := match jget (bs "get") cfg with Some g => g | None => JNull end in
              let lookj := match jget (bs "lookup") cfg with Some g => g | None => JNull end in
              let candidates := fun server =>
                (match jget server getj with
                 | Some (JNum r) => match doc_at docs (jz (JNum r)) with Some d => [d] | None => [] end
                 | _ => [] end)
                ++ (match lookup_docs docs (jget server lookj) with Some l => l | None => [] end) in
              match split_at 91%N obs with       (* the result list starts at the first bracket *)
              | None => bs "FAIL no result"
              | Some (_, tail) =>
                  match parse_json (91%N :: tail) with
                  | Some (JArr rows) =>
                      if forallb (fun row =>
                           match row with
                           | JArr [s; k; key; e; v] =>
                               if mem_bytes (jsb s) locals then
                                 bytes_eqb (jsb key) (gs (bs "localkey") cfg) && (jz e =? 0)
                               else
                                 existsb (fun d =>
                                   doc_passes tbl (jsb s) 0 d
                                   && (existsb (fun kv => bytes_eqb (fst kv) (jsb k) && bytes_eqb (hex_of_bytes (snd kv)) (jsb key)
                                                          && (jz v =? sk_valid_until docT d) && (jz e =? 0)) (sk_verify docT d)
                                       || existsb (fun kv => bytes_eqb (fst kv) (jsb k) && bytes_eqb (hex_of_bytes (fst (snd kv))) (jsb key)
                                                             && (jz e =? snd (snd kv)) && (jz v =? 0)) (sk_old docT d)))
                                   (candidates (jsb s))
                           | _ => false
                           end) rows
                      then bs "ok" else bs "FAIL returned a key no checked response lists"
                  | _ => bs "FAIL unreadable result"
                  end
              end
          end
      | [] => bs "badargs"
      end
  | [] => bs "badargs"
  end.

(* ServerKeys.PublicKey: [scenario {kid, at, docs:[doc]}; raw] -> nil | hex *)
Definition run_public_key (args : list bytes) : bytes :=
  match args with
  | cfgb :: raws =>
      match parse_json cfgb with
      | None => bs "badconfig"
      | Some cfg =>
          match docs_of cfg raws with
          | Some d :: _ => match public_key docT d (gs (bs "kid") cfg) (gz (bs "at") cfg) with
                           | None => bs "nil" | Some [] => bs "nil" | Some k => hex_of_bytes k end
          | None :: _ => bs "unmarshal-error"
          | [] => bs "nodoc"
          end
      end
  | _ => bs "badargs"
  end.

(* ServerKeys.UnmarshalJSON alone: [raw] -> E | s=..;vu=..;v=kid=hex,..;o=kid=hex:expired,.. *)
Definition run_parse_key_doc (args : list bytes) : bytes :=
  match args with
  | [raw] =>
      match parse_key_doc raw with
      | None => bs "E"
      | Some d =>
          bs "s=" ++ kd_server d ++ bs ";vu=" ++ print_int (kd_valid_until d)
          ++ bs ";v=" ++ commas (map (fun kv => fst kv ++ bs "=" ++ hex_of_bytes (snd kv)) (kd_verify d))
          ++ bs ";o=" ++ commas (map (fun kv => fst kv ++ bs "=" ++ hex_of_bytes (fst (snd kv)) ++ bs ":" ++ print_int (snd (snd kv))) (kd_old d))
      end
  | _ => bs "badargs"
  end.

Definition ops_C12 : list (bytes * (list bytes -> bytes)) :=
  [ (bs "C12.verify_jsons", run_verify_jsons);
    (bs "C12.was_valid_at", run_was_valid_at);
    (bs "C12.list_key_ids", run_list_key_ids);
    (bs "C12.check_keys", run_check_keys);
    (bs "C12.public_key", run_public_key);
    (bs "C12.parse_key_doc", run_parse_key_doc);
    (bs "C12.direct_fetch", run_direct_fetch);
    (bs "C12.perspective_fetch", run_perspective_fetch);
    (bs "C12.prop.check_keys", prop_check_keys);
    (bs "C12.prop.perspective_fetch", prop_perspective_fetch);
    (bs "C12.prop.direct_fetch", prop_direct_fetch);
    (bs "C12.prop.was_valid_at", prop_was_valid_at);
    (bs "C12.prop.verify_jsons", prop_verify_jsons) ].
