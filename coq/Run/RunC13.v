(* Executable entry points of the C13 model.  The signature scheme is instantiated with the
   table of signatures that were really made (given by the harness): a signature verifies under
   a key for a message iff that key signed exactly that message and produced exactly that
   signature.  Multi-valued observables are lines name=hex. *)
From Verif Require Import Lib.Bytes Json.Ast Json.Parse Json.Print.
From Verif Require Import Fed.Utf8C13 Fed.XMatrix Fed.ServerNameC13 Fed.MediaTypeC13 Fed.Base64C13 Fed.Request.
Open Scope N_scope.

Definition nl : bytes := [10].
Definition n_of (s : bytes) : N := match parse_dec s with Some n => n | None => 0 end.
Definition nat_of (s : bytes) : nat := N.to_nat (n_of s).
Definition tf (b : bool) : bytes := if b then bs "true" else bs "false".
Definition line (name : string) (v : bytes) : bytes := bs name ++ [61] ++ hex_of_bytes v.
Definition oline (name : string) (v : option bytes) : bytes :=
  bs name ++ [61] ++ match v with Some b => 43 :: hex_of_bytes b | None => [45] end.

Fixpoint take_n (n : nat) (l : list bytes) : list bytes * list bytes :=
  match n, l with
  | O, _ => ([], l)
  | S n', x :: l' => let (a, b) := take_n n' l' in (x :: a, b)
  | S _, [] => ([], [])
  end.

(* counted list: [n; x1..xn; rest...] *)
Definition take_counted (l : list bytes) : list bytes * list bytes :=
  match l with
  | n :: l' => take_n (nat_of n) l'
  | [] => ([], [])
  end.

Fixpoint chunks (k : nat) (fuel : nat) (l : list bytes) : list (list bytes) :=
  match fuel with
  | O => []
  | S f => match l with
           | [] => []
           | _ => let (a, b) := take_n k l in a :: chunks k f b
           end
  end.

(* [n; n groups of k args; rest] *)
Definition take_groups (k : nat) (l : list bytes) : list (list bytes) * list bytes :=
  match l with
  | n :: l' => let (a, b) := take_n (nat_of n * k) l' in (chunks k (nat_of n) a, b)
  | [] => ([], [])
  end.

Fixpoint insert_sorted (x : bytes) (l : list bytes) : list bytes :=
  match l with
  | [] => [x]
  | y :: l' => if bytes_leb x y then x :: l else y :: insert_sorted x l'
  end.
Definition sort_bytes (l : list bytes) : list bytes := fold_right insert_sorted [] l.

(* ---- the table instance of the signature scheme ---- *)
Definition sigtable := list (bytes * bytes * bytes).   (* key label, message, signature bytes *)
Definition tbl_verify (t : sigtable) (pk m s : bytes) : bool :=
  existsb (fun e => match e with (k, m', s') => bytes_eqb k pk && bytes_eqb m' m && bytes_eqb s' s end) t.
Definition wire_id (s : bytes) : bytes := s.
Definition unwire64 (s : bytes) : option bytes := if (length s =? 64)%nat then Some s else None.

Definition opt_content (flag c : bytes) : option bytes :=
  if bytes_eqb flag (bs "1") then Some c else None.

Definition fields_lines (r : fedreq) : list bytes :=
  [line "m" (f_method r); line "o" (f_origin r); line "d" (f_dest r); line "u" (f_uri r);
   oline "c" (f_content r)].

(* ---- C13.send ----
   [method; origin0; dest; uri; has_content; content; url_rt; nsign; (server; keyid; keylabel; sigtext)*] *)
Fixpoint sign_steps (r : fedreq) (steps : list (list bytes)) : option (fedreq * bytes) :=
  match steps with
  | [] => Some (r, [])
  | [server; keyid; _; sigtext] :: rest =>
      let sg := match b64_decode sigtext with Some b => b | None => [] end in
      match fr_sign bytes bytes (fun _ _ => sg) wire_id r server keyid [] with
      | None => None
      | Some r' =>
          match rest with
          | [] => Some (r', match signing_bytes (f_content r) (f_dest r) (f_method r) server (f_uri r) with
                            | Some m => m | None => [] end)
          | _ => sign_steps r' rest
          end
      end
  | _ => None
  end.

Definition run_send (args : list bytes) : bytes :=
  match args with
  | method :: origin0 :: dest :: uri :: hasc :: content :: url_rt :: rest =>
      let (steps, _) := take_groups 4 rest in
      let r00 := new_federation_request method origin0 dest uri in
      match (match opt_content hasc content with Some c => set_content r00 c | None => Some r00 end) with
      | None => bs "content=err"
      | Some r0 =>
      match sign_steps r0 steps with
      | None => bs "sign=err"
      | Some (r, msg) =>
          let urt := match url_rt with
                     | c :: u => if c =? 85 then Some u else None
                     | [] => None
                     end in
          let sline := match steps with [] => bs "sign=none" | _ => bs "sign=ok" end in
          let head := [ sline; line "signed" msg ] ++ fields_lines r in
          match http_request (fun _ _ => urt) r with
          | None => join_bytes nl (head ++ [bs "http=err"])
          | Some h =>
              join_bytes nl (head ++ [bs "http=ok"; line "hm" (h_method h); line "ht" (h_target h);
                                      oline "hc" (h_ctype h); oline "hb" (h_body h)]
                             ++ map (line "ha") (sort_bytes (h_auth h)))
          end
      end
      end
  | _ => bs "badargs"
  end.

(* ---- C13.verify ----
   [flags; method; ruri; ctype; body; now; realnow; default; locals_mode; nlocals; local*;
    nauth; auth*; dberr; nkeys; (server; keyid; publabel; expired; valid_until)*;
    nsigned; (publabel; method; uri; origin; dest; has_content; content; sigtext)*] *)
Record scenario := {
  sc_flags : bytes; sc_q : rawreq; sc_now : N; sc_realnow : N;
  sc_rc : receiver bytes;
  sc_signed : list (list bytes)
}.

Definition key_of (g : list bytes) : option (keyent bytes) :=
  match g with
  | [server; keyid; publabel; expired; vu] =>
      Some {| k_server := server; k_id := keyid; k_pub := publabel;
              k_expired := n_of expired; k_valid_until := n_of vu |}
  | _ => None
  end.

Fixpoint keys_of (gs : list (list bytes)) : list (keyent bytes) :=
  match gs with
  | [] => []
  | g :: gs' => match key_of g with Some k => k :: keys_of gs' | None => keys_of gs' end
  end.

Definition parse_scenario (args : list bytes) : option scenario :=
  match args with
  | flags :: method :: ruri :: ctype :: body :: now :: realnow :: default :: lmode :: rest =>
      let (locals, rest1) := take_counted rest in
      let (auths, rest2) := take_counted rest1 in
      match rest2 with
      | dberr :: rest3 =>
          let (keys, rest4) := take_groups 5 rest3 in
          let (signed, _) := take_groups 8 rest4 in
          Some {| sc_flags := flags;
                  sc_q := {| q_method := method; q_uri := ruri; q_ctype := ctype; q_body := body;
                             q_auths := auths |};
                  sc_now := n_of now; sc_realnow := n_of realnow;
                  sc_rc := {| rc_default := default;
                              rc_locals := if bytes_eqb lmode (bs "nil") then None else Some locals;
                              rc_store := keys_of keys;
                              rc_dberr := bytes_eqb dberr (bs "1") |};
                  sc_signed := signed |}
      | [] => None
      end
  | _ => None
  end.

Fixpoint table_of (signed : list (list bytes)) : sigtable :=
  match signed with
  | [] => []
  | [publabel; method; uri; origin; dest; hasc; content; sigtext] :: rest =>
      match signing_bytes (opt_content hasc content) dest method origin uri, b64_decode sigtext with
      | Some m, Some s => (publabel, m, s) :: table_of rest
      | _, _ => table_of rest
      end
  | _ :: rest => table_of rest
  end.

Definition code_line (c : N) : bytes := bs "code=" ++ print_dec c.

Definition run_verify (args : list bytes) : bytes :=
  match parse_scenario args with
  | None => bs "badargs"
  | Some sc =>
      let t := table_of (sc_signed sc) in
      match verify_http_request bytes bytes (tbl_verify t) unwire64 (sc_rc sc) (sc_now sc) (sc_realnow sc) (sc_q sc) with
      | (c, Some r) => join_bytes nl (code_line c :: fields_lines r)
      | (c, None) => code_line c
      end
  end.

(* ---- the specification oracle for C13.verify ---- *)
Definition unhex_digit (c : N) : option N := hexv c.
Fixpoint unhex (s : bytes) : option bytes :=
  match s with
  | [] => Some []
  | a :: b :: r => match unhex_digit a, unhex_digit b, unhex r with
                   | Some x, Some y, Some t => Some (x * 16 + y :: t)
                   | _, _, _ => None
                   end
  | [_] => None
  end.

(* value of the line name=... *)
Fixpoint find_line (name : bytes) (ls : list bytes) : option bytes :=
  match ls with
  | [] => None
  | l :: ls' => if is_prefix (name ++ [61]) l then Some (drop (S (length name)) l) else find_line name ls'
  end.
Definition hex_field (name : string) (ls : list bytes) : option bytes :=
  match find_line (bs name) ls with Some h => unhex h | None => None end.
Definition ohex_field (name : string) (ls : list bytes) : option (option bytes) :=
  match find_line (bs name) ls with
  | Some (c :: h) => if c =? 43 then option_map Some (unhex h) else if c =? 45 then Some None else None
  | _ => None
  end.

(* same JSON value: equal canonical forms *)
Definition same_json (a b : option bytes) : bool :=
  match a, b with
  | None, None => true
  | Some x, Some y => match canonical x, canonical y with
                      | Some cx, Some cy => bytes_eqb cx cy
                      | _, _ => false
                      end
  | _, _ => false
  end.

(* the validity rule of the specification: a key that has not been withdrawn is good up to the
   lesser of its valid_until_ts and seven days from now; a withdrawn key only before its expiry *)
Definition spec_key_valid (k : keyent bytes) (now realnow : N) : bool :=
  if k_expired k =? 0
  then negb (k_valid_until k =? 0) && (now <=? k_valid_until k) && (now <=? realnow + seven_days_ms)
  else now <? k_expired k.

Definition has_flag (c : N) (flags : bytes) : bool := existsb (fun x => x =? c) flags.

Definition check (n : N) (b : bool) (k : bytes) : bytes :=
  if b then k else bs "FAIL clause " ++ print_dec n.

(* ---- the server-name grammar of the Matrix specification, closed form (independent of the
   model of ParseAndValidateServerName): name = host [ ":" port ]; port = digits, value <= 65535
   (no sign); host = dns-name (letters, digits, "-", ".") or "[" 2..45 IPv6 characters "]".
   An unbracketed host made only of IPv6 characters is tolerated here: that the code accepts
   unbracketed IPv4-mapped literals is a C17 finding, not a subject of C13. ---- *)
Definition g_digit (c : N) : bool := (48 <=? c) && (c <=? 57).
Definition g_dns_char (c : N) : bool :=
  g_digit c || ((65 <=? c) && (c <=? 90)) || ((97 <=? c) && (c <=? 122)) || (c =? 45) || (c =? 46).
Definition g_ipv6_char (c : N) : bool :=
  g_digit c || ((65 <=? c) && (c <=? 70)) || ((97 <=? c) && (c <=? 102)) || (c =? 58) || (c =? 46).
Definition g_port (p : bytes) : bool :=
  negb (is_nil p) && forallb g_digit p && match parse_dec p with Some n => n <=? 65535 | None => false end.
Definition g_dns_host (h : bytes) : bool := negb (is_nil h) && forallb g_dns_char h.
Definition g_host (h : bytes) : bool :=
  match h with
  | [] => false
  | c :: r =>
      if c =? 91 then
        match rev r with
        | z :: rip => (z =? 93) && (2 <=? length rip)%nat && (length rip <=? 45)%nat && forallb g_ipv6_char rip
        | [] => false
        end
      else forallb g_dns_char h || forallb g_ipv6_char h
  end.
(* split at the last colon *)
Definition g_split (s : bytes) : option (bytes * bytes) :=
  match split_at 58 (rev s) with
  | Some (rp, rh) => Some (rev rh, rev rp)
  | None => None
  end.
Definition g_server_name (s : bytes) : bool :=
  g_host s || match g_split s with Some (h, p) => g_host h && g_port p | None => false end.
(* the part of the grammar on which code and grammar must agree exactly *)
Definition g_dns_server_name (s : bytes) : bool :=
  g_dns_host s || match g_split s with Some (h, p) => g_dns_host h && g_port p | None => false end.

(* oracle for C13.server_name: [name; verdict of ParseAndValidateServerName] *)
Definition prop_server_name (args : list bytes) : bytes :=
  match args with
  | [s; obs] =>
      let accepted := bytes_eqb obs (bs "true") in
      if accepted && negb (g_server_name s) then bs "FAIL accepted a name outside the grammar (host [: port<=65535])"
      else if negb accepted && g_dns_server_name s then bs "FAIL refused a DNS name with a valid port"
      else bs "ok"
  | _ => bs "badargs"
  end.

Definition prop_verify (args : list bytes) : bytes :=
  match rev args with
  | obs :: rargs =>
      match parse_scenario (rev rargs) with
      | None => bs "badargs"
      | Some sc =>
          let ls := split_all 10 obs in
          let accepted := match find_line (bs "code") ls with Some c => bytes_eqb c (bs "200") | None => false end in
          (* 8: a request line (method, URI) that is not valid UTF-8 is refused, as unparsable:
                400 -- decided on the transmitted strings alone *)
          let bad_line := negb (utf8_valid (q_method (sc_q sc))) || negb (utf8_valid (q_uri (sc_q sc))) in
          let code400 := match find_line (bs "code") ls with Some c => bytes_eqb c (bs "400") | None => false end in
          if bad_line && negb code400 then bs "FAIL clause 8"
          else if negb accepted then
            check 7 (negb (has_flag 72 (sc_flags sc))) (bs "ok")
          else
            match hex_field "m" ls, hex_field "u" ls, hex_field "o" ls, hex_field "d" ls, ohex_field "c" ls with
            | Some m, Some u, Some o, Some d, Some c =>
                let q := sc_q sc in
                let rc := sc_rc sc in
                (* 1: what is reported is something the origin signed, under a key of the origin
                      that was valid at the time of receipt *)
                check 1 (existsb (fun e =>
                           match e with
                           | [publabel; sm; su; so; sd; hasc; scontent; _] =>
                               bytes_eqb sm m && bytes_eqb su u && bytes_eqb so o && bytes_eqb sd d
                               && same_json (opt_content hasc scontent) c
                               && existsb (fun k => bytes_eqb (k_server k) o && bytes_eqb (k_pub k) publabel
                                                    && spec_key_valid k (sc_now sc) (sc_realnow sc))
                                          (rc_store rc)
                           | _ => false
                           end) (sc_signed sc))
                (* 2: the destination is a name of the receiver *)
                (check 2 (match rc_locals rc with
                          | Some l => mem_bytes d l
                          | None => bytes_eqb d (rc_default rc)
                          end)
                (* 3: the origin is a valid server name (grammar, closed form) *)
                (check 3 (g_server_name o)
                (* 4: what is reported is what was transmitted *)
                (check 4 (bytes_eqb m (q_method q) && bytes_eqb u (q_uri q)
                          && match c with Some b => bytes_eqb b (q_body q) && negb (is_nil b)
                                        | None => is_nil (q_body q) end)
                (* 5: there is an X-Matrix header *)
                (check 5 (existsb (fun h => is_prefix (s_xmatrix ++ [32]) h) (q_auths q))
                (* 6: a body is JSON by content type and UTF-8 *)
                (check 6 (is_nil (q_body q)
                          || (utf8_valid (q_body q)
                              && bytes_eqb (trim_space (to_lower (match split_at 59 (q_ctype q) with
                                                                  | Some (b, _) => b | None => q_ctype q end)))
                                           s_app_json))
                (bs "ok"))))))
            | _, _, _, _, _ => bs "FAIL unreadable observable"
            end
      end
  | [] => bs "badargs"
  end.

(* ---- the completeness half of the property as an oracle on the implementation's outcome
   (sign_send_verify, executable): [method; origin; dest; uri; has_content; content; keyid;
   url_rt; outcome] where outcome is content=err / sign=err / http=err or the observable of
   VerifyHTTPRequest at a receiver named dest that holds the signing key, valid now.
   In the property's domain -- method an HTTP token, URI that net/url writes back unchanged,
   origin and destination valid server names, key ID ed25519:[A-Za-z0-9_]+, body JSON in UTF-8
   or none -- signing and sending must succeed and the request must be accepted, reporting the
   five signed fields. ---- *)
Definition g_key_char (c : N) : bool :=
  g_digit c || ((65 <=? c) && (c <=? 90)) || ((97 <=? c) && (c <=? 122)) || (c =? 95).
Definition g_key_id (k : bytes) : bool :=
  is_prefix s_ed25519 k && negb (is_nil (drop 8 k)) && forallb g_key_char (drop 8 k).
Definition g_name (s : bytes) : bool := g_server_name s && valid_server_name s.

Definition prop_roundtrip (args : list bytes) : bytes :=
  match args with
  | [method; origin; dest; uri; hasc; content; keyid; url_rt; obs] =>
      let m := map upper_byte method in
      let c := opt_content hasc content in
      let in_domain :=
        negb (is_nil m) && forallb is_tchar m
        && utf8_valid uri && bytes_eqb url_rt (85 :: uri)
        && g_name origin && g_name dest && g_key_id keyid
        && match c with
           | None => true
           | Some raw => utf8_valid raw && is_some (parse_json raw)
           end in
      if negb in_domain then bs "ok" else
      let ls := split_all 10 obs in
      match find_line (bs "code") ls with
      | None => bs "FAIL a request in the domain could not be signed and sent: " ++ obs
      | Some code =>
          if negb (bytes_eqb code (bs "200")) then bs "FAIL honest request refused with " ++ code else
          match hex_field "m" ls, hex_field "u" ls, hex_field "o" ls, hex_field "d" ls, ohex_field "c" ls with
          | Some rm, Some ru, Some ro, Some rd, Some rc =>
              check 11 (bytes_eqb rm m)
              (check 12 (bytes_eqb ru uri)
              (check 13 (bytes_eqb ro origin)
              (check 14 (bytes_eqb rd dest)
              (check 15 (same_json c rc) (bs "ok")))))
          | _, _, _, _, _ => bs "FAIL unreadable observable"
          end
      end
  | _ => bs "badargs"
  end.

(* ---- small operations ---- *)
Definition run_parse_auth (args : list bytes) : bytes :=
  match args with
  | [h] => let (scheme, x) := parse_authorization h in
           join_bytes nl [line "s" scheme; line "o" (x_origin x); line "d" (x_dest x);
                          line "k" (x_key x); line "g" (x_sig x)]
  | _ => bs "badargs"
  end.

Definition run_server_name (args : list bytes) : bytes :=
  match args with [s] => tf (valid_server_name s) | _ => bs "badargs" end.
Definition run_content_type (args : list bytes) : bytes :=
  match args with [s] => tf (is_json_content_type s) | _ => bs "badargs" end.
Definition run_b64 (args : list bytes) : bytes :=
  match args with
  | [s] => match b64_decode s with Some b => bs "ok " ++ hex_of_bytes b | None => bs "err" end
  | _ => bs "badargs"
  end.
Definition run_safe (args : list bytes) : bytes :=
  match args with [s] => tf (is_safe_in_quoted s) | _ => bs "badargs" end.
Definition run_utf8 (args : list bytes) : bytes :=
  match args with [s] => tf (utf8_valid s) ++ [32] ++ hex_of_bytes (to_valid_utf8 s) | _ => bs "badargs" end.

Definition ops_C13 : list (bytes * (list bytes -> bytes)) :=
  [ (bs "C13.send", run_send);
    (bs "C13.verify", run_verify);
    (bs "C13.prop.verify", prop_verify);
    (bs "C13.prop.roundtrip", prop_roundtrip);
    (bs "C13.parse_auth", run_parse_auth);
    (bs "C13.server_name", run_server_name);
    (bs "C13.prop.server_name", prop_server_name);
    (bs "C13.content_type", run_content_type);
    (bs "C13.b64", run_b64);
    (bs "C13.safe", run_safe);
    (bs "C13.utf8", run_utf8) ].
