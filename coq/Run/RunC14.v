(* Executable entry points of the C14 model (federation filters). Arguments of every operation:
   [raw scenario (texts, for the implementation side and for replays; ignored here);
    derived scenario (numbers: parsed events, signature and Allowed tables from the real library)] *)
From Verif Require Import Lib.Bytes Fed.Instance Fed.InstanceE2E Fed.Oracle.

Definition ops_C14 : list (bytes * (list bytes -> bytes)) :=
  [ (bs "C14.csr", run_csr);
    (bs "C14.sj", run_sj);
    (bs "C14.chain", run_chain);
    (bs "C14.vras", run_vras);
    (bs "C14.load", run_load);
    (bs "C14.bf", run_bf);
    (bs "C14.csr_e2e", run_csr_e2e);
    (bs "C14.sj_e2e", run_sj_e2e);
    (bs "C14.chain_e2e", run_chain_e2e);
    (bs "C14.prop.csr", prop_csr);
    (bs "C14.prop.sj", prop_sj);
    (bs "C14.prop.chain", prop_chain);
    (bs "C14.prop.vras", prop_vras);
    (bs "C14.prop.load", prop_load);
    (bs "C14.prop.bf", prop_bf) ].
