(* Executable entry points of the C15 models: decode the input record from a JSON description
   (argument 1) and, for send_join / invite, the received event (argument 2); print outcome,
   call log and returned object.  Also the specification oracles C15.prop.*. *)
From Verif Require Import Lib.Bytes Json.Ast Json.Parse Json.Print
     Fed.HandshakeCommon Fed.HandshakeJoin Fed.HandshakeInvite Fed.HandshakePerform
     Fed.HandshakePerformInvite Fed.HandshakeSpec.
Open Scope N_scope.

(* ---------- decoding helpers ---------- *)
Definition gs (k : string) (j : json) : bytes :=
  match jget_str (bs k) j with Some s => s | None => [] end.
Definition gos (k : string) (j : json) : option bytes := jget_str (bs k) j.
Definition gb (k : string) (j : json) : bool :=
  match jget (bs k) j with Some (JBool b) => b | _ => false end.
Definition gz (k : string) (j : json) : Z :=
  match jget_int (bs k) j with Some z => z | None => 0%Z end.
Definition gl (k : string) (j : json) : list json :=
  match jget (bs k) j with Some (JArr l) => l | _ => [] end.
Definition gj (k : string) (j : json) : json :=
  match jget (bs k) j with Some v => v | None => JNull end.
Definition strs (l : list json) : list bytes :=
  flat_map (fun x => match x with JStr s => [s] | _ => [] end) l.

(* "err" -> QErr, null / absent -> QNil, anything else -> QVal (f value) *)
Definition gq {A} (f : json -> A) (k : string) (j : json) : qans A :=
  match jget (bs k) j with
  | Some (JStr s) => if bytes_eqb s (bs "err") then QErr else QNil
  | Some JNull | None => QNil
  | Some v => QVal (f v)
  end.

(* "err" -> None, else the string *)
Definition gerr_str (k : string) (j : json) : option bytes :=
  match jget (bs k) j with
  | Some (JObj m) => jget_str (bs "v") (JObj m)
  | _ => None
  end.
Definition gerr_bool (k : string) (j : json) : option bool :=
  match jget (bs k) j with Some (JBool b) => Some b | _ => None end.

Definition dec_member (j : json) : rj_member :=
  {| rm_type := gs "type" j; rm_state_key := gos "state_key" j |}.
Definition dec_info (j : json) : rj_info :=
  {| ri_local_in_room := gb "local" j; ri_user_joined := gb "joined" j;
     ri_joined := map dec_member (gl "users" j) |}.
Definition dec_rule (j : json) : rj_rule :=
  {| rr_type := gs "type" j; rr_room_id := gs "room_id" j; rr_room_valid := gb "valid" j;
     rr_info := gq dec_info "info" j |}.
Definition dec_rules (j : json) : rj_rules :=
  {| jr_unmarshal_ok := gb "ok" j; jr_join_rule := gs "join_rule" j;
     jr_allow := map dec_rule (gl "allow" j) |}.
Definition dec_users (j : json) : list (bytes * Z) :=
  match j with
  | JObj m => map (fun kv => (fst kv, match jint (snd kv) with Some z => z | None => 0%Z end)) m
  | _ => []
  end.
Definition dec_pl (j : json) : rj_pl :=
  {| pl_ok := gb "ok" j; pl_invite := gz "invite" j; pl_users_default := gz "users_default" j;
     pl_users := dec_users (gj "users" j) |}.
Definition dec_rj (j : json) : rj_data :=
  {| rj_join_rules := gq dec_rules "join_rules" j;
     rj_pending := gerr_bool "pending" j;
     rj_power := gq dec_pl "power" j;
     rj_create := gq (fun v => match v with JArr l => strs l | _ => [] end) "create" j |}.

Definition dec_build (j : json) : build_res :=
  match jget (bs "build") j with
  | Some (JStr s) => if bytes_eqb s (bs "err") then BErr
                     else if bytes_eqb s (bs "nil_event") then BNilEvent
                     else BNilState
  | Some b => BBuilt {| b_type := gs "type" b; b_version := gs "version" b;
                        b_provider_ok := gb "provider_ok" b; b_allowed_ok := gb "allowed_ok" b;
                        b_auth_ids := strs (gl "auth" b); b_prev_ids := strs (gl "prev" b) |}
  | None => BNilEvent
  end.

Definition dec_mj (j : json) : mj_input :=
  {| mj_version := gs "version" j; mj_remote_versions := strs (gl "remote_versions" j);
     mj_user_domain := gs "user_domain" j; mj_origin := gs "origin" j;
     mj_local_name := gs "local" j; mj_local_in_room := gb "in_room" j;
     mj_room_id := gs "room" j; mj_sender_id := gs "sender" j;
     mj_rj := dec_rj (gj "rj" j); mj_build := dec_build j |}.

Definition dec_ml (j : json) : ml_input :=
  {| ml_version := gs "version" j; ml_user_domain := gs "user_domain" j; ml_origin := gs "origin" j;
     ml_local_in_room := gb "in_room" j; ml_room_id := gs "room" j; ml_sender_id := gs "sender" j;
     ml_build := dec_build j |}.

Definition dec_fields (j : json) : ev_fields :=
  {| ef_type := gs "type" j; ef_state_key := gos "state_key" j; ef_sender := gs "sender" j;
     ef_room_id := gs "room_id" j; ef_event_id := gs "event_id" j;
     ef_membership := gerr_str "membership" j; ef_content_ok := gb "content_ok" j;
     ef_authorised_via := gs "via" j |}.

Definition dec_sender (k : string) (j : json) : sender_ans :=
  match jget (bs k) j with
  | Some (JObj m) => SUser (gs "domain" (JObj m))
  | Some (JStr s) => if bytes_eqb s (bs "err") then SErr else SNil
  | _ => SNil
  end.

Definition dec_verify (k : string) (j : json) : verify_ans :=
  let s := gs k j in
  if bytes_eqb s (bs "ok") then VGood else if bytes_eqb s (bs "bad") then VBad else VErr.

Definition dec_sj (j : json) (ev : json) : sj_input :=
  {| sj_version := gs "version" j; sj_parse_ok := gb "parse_ok" j; sj_event := ev;
     sj_fields := dec_fields (gj "fields" j);
     sj_req_room := gs "req_room" j; sj_req_event_id := gs "req_event_id" j;
     sj_origin := gs "origin" j; sj_local_name := gs "local" j; sj_key_id := gs "key_id" j;
     sj_mapping_ok := gb "mapping_ok" j; sj_mapping_key_ok := gb "mapping_key_ok" j;
     sj_mapping_sig_ok := gb "mapping_sig_ok" j;
     sj_store_ok := gb "store_ok" j;
     sj_sender := dec_sender "sender_q" j; sj_redact_ok := gb "redact_ok" j;
     sj_verify := dec_verify "verify" j;
     sj_membership := gerr_str "member_q" j;
     sj_authvia_domain := gerr_str "via_domain" j;
     sj_joiner_entitled := gb "joiner_entitled" j |}.

Definition dec_iv (j : json) (ev : json) : inv_input :=
  {| iv_version := gs "version" j; iv_event := ev; iv_fields := dec_fields (gj "fields" j);
     iv_req_room := gs "req_room" j; iv_invited_domain := gs "invited_domain" j;
     iv_invited_sender := gs "invited_sender" j; iv_key_id := gs "key_id" j;
     iv_redact_ok := gb "redact_ok" j;
     iv_sender := dec_sender "sender_q" j; iv_verify := dec_verify "verify" j;
     iv_known_room := gerr_bool "known" j;
     iv_given_state := gl "given_state" j;
     iv_generated_state := gq (fun v => match v with JArr l => l | _ => [] end) "generated_state" j;
     iv_membership := gerr_str "member_q" j;
     iv_set_unsigned_ok := gb "set_unsigned_ok" j |}.

Definition dec_auth_event (j : json) : pj_auth_event :=
  {| pa_type := gs "type" j; pa_state_key := gos "state_key" j; pa_content_ok := gb "content_ok" j;
     pa_room_version := gs "room_version" j; pa_room_ok := gb "room_ok" j |}.

Definition dec_pj (j : json) : pj_input :=
  {| pj_user_nil := gb "user_nil" j; pj_room_nil := gb "room_nil" j; pj_keyring_nil := gb "keyring_nil" j;
     pj_make_join_ok := gb "make_join_ok" j; pj_resp_version := gs "resp_version" j;
     pj_auth_first_is_string := gb "auth_first_is_string" j;
     pj_room_id := gs "room" j; pj_user_id := gs "user" j;
     pj_origin := gs "origin" j; pj_server := gs "server" j;
     pj_sender_id := gerr_str "sender_id" j; pj_mapping_sign_ok := gb "mapping_sign_ok" j;
     pj_build_ok := gb "build_ok" j; pj_send_join_ok := gb "send_join_ok" j;
     pj_remote := match jget (bs "remote") j with
                  | Some (JObj m) =>
                      let r := JObj m in
                      Some {| pr_parse_ok := gb "parse_ok" r; pr_membership := gerr_str "membership" r;
                              pr_room_id := gs "room_id" r; pr_state_key := gos "state_key" r;
                              pr_same_event := gb "same_event" r |}
                  | _ => None
                  end;
     pj_auth_events := map dec_auth_event (gl "auth_events" j);
     pj_store_ok := gb "store_ok" j; pj_check_own := gb "check_own" j; pj_check_remote := gb "check_remote" j |}.

(* ---------- the signature marker used by the run (the harness substitutes it for a
   signature it has verified with ed25519 against the local public key) ---------- *)
Definition sig_marker : json := JStr (bs "<VALID-SIGNATURE>").

(* Event.Sign re-encodes the event through a Go map: of a repeated top-level member only the last
   occurrence survives (members inside content are kept as they are) *)
Fixpoint dedup_last {A} (m : list (bytes * A)) : list (bytes * A) :=
  match m with
  | [] => []
  | (k, v) :: m' => if mem_bytes k (map fst m') then dedup_last m' else (k, v) :: dedup_last m'
  end.
Definition dedup_top (ev : json) : json :=
  match ev with JObj m => JObj (dedup_last m) | _ => ev end.

Definition marker_sign0 (name key : bytes) (ev : json) : json :=
  let sigs := match jget (bs "signatures") ev with Some (JObj m) => JObj m | _ => JObj [] end in
  let mine := match jget name sigs with Some (JObj m) => JObj m | _ => JObj [] end in
  jset (bs "signatures") (jset name (jset key sig_marker mine) sigs) ev.

Definition marker_sign (name key : bytes) (ev : json) : json := marker_sign0 name key (dedup_top ev).

(* ---------- printing ---------- *)
Definition nl : bytes := [10].
Definition semi : bytes := [59].
Definition comma : bytes := [44].

Definition print_template (tv : template * bytes) : bytes :=
  let (t, ver) := tv in
  entry [ver; t_sender t; t_room t; t_type t; t_state_key t; t_membership t; t_authorised_via t;
         match t_refs t with
         | None => bs "none"
         | Some (a, p) => bs "auth=" ++ join_bytes comma a ++ bs " prev=" ++ join_bytes comma p
         end].

Definition print_template_result (r : template_result) : bytes :=
  join_bytes nl ([outcome_name (tr_out r); join_bytes semi (tr_log r)] ++
                 match tr_template r with Some tv => [print_template tv] | None => [] end).

Definition print_event_result (r : event_result) : bytes :=
  join_bytes nl ([outcome_name (er_out r); join_bytes semi (er_log r)] ++
                 match er_event r with
                 | Some ev => [bs "already_joined=" ++ bool_name (er_already_joined r); canon_print ev]
                 | None => []
                 end).

Definition print_pj (r : pj_result) : bytes :=
  match r with
  | PJJoined u => bs "joined remote_event_used=" ++ bool_name u
  | PJError t re => bs "error transient=" ++ bool_name t ++ bs " reachable=" ++ bool_name re
  end.

(* ---------- correspondence operations: args = [scenario (ignored); cfg; (event text)] ---------- *)
Definition with_cfg (args : list bytes) (f : json -> bytes) : bytes :=
  match args with
  | _ :: cfg :: _ => match parse_json cfg with Some j => f j | None => bs "badcfg" end
  | _ => bs "badargs"
  end.

Definition with_cfg_event (args : list bytes) (f : json -> json -> bytes) : bytes :=
  match args with
  | _ :: cfg :: evt :: _ =>
      match parse_json cfg with
      | Some j => f j (match parse_json evt with Some e => e | None => JNull end)
      | None => bs "badcfg"
      end
  | _ => bs "badargs"
  end.

Definition run_make_join (args : list bytes) : bytes :=
  with_cfg args (fun j => print_template_result (make_join (dec_mj j))).
Definition run_make_leave (args : list bytes) : bytes :=
  with_cfg args (fun j => print_template_result (make_leave (dec_ml j))).
Definition run_send_join (args : list bytes) : bytes :=
  with_cfg_event args (fun j e => print_event_result (send_join marker_sign (dec_sj j e))).
Definition run_invite (args : list bytes) : bytes :=
  with_cfg_event args (fun j e => print_event_result (handle_invite marker_sign (dec_iv j e))).
Definition run_perform_join (args : list bytes) : bytes :=
  with_cfg args (fun j => let i := dec_pj j in
                          join_bytes nl [print_pj (perform_join i); join_bytes semi (perform_join_requests i)]).

(* restricted-join authoriser alone: [cfg] with version/local/room/sender/rj *)
Definition print_rj (r : rj_result * list bytes) : bytes :=
  join_bytes nl [match fst r with
                 | RJVia u => bs "via=" ++ u
                 | RJError => bs "error"
                 | RJForbidden => bs "forbidden"
                 | RJUnable => bs "unable_to_authorise"
                 end; join_bytes semi (snd r)].
Definition run_restricted_join (args : list bytes) : bytes :=
  with_cfg args (fun j =>
    match version_check_restricted_join (gs "version" j) (gs "local" j) (gs "room" j) (gs "sender" j)
                                        (dec_rj (gj "rj" j)) with
    | Some r => print_rj r
    | None => bs "panic"
    end).

(* ---------- specification oracles: args ++ [observable]; decide from the description of
   the request alone (Fed/HandshakeSpec.v) whether the implementation's verdict is permitted ---------- *)
Definition first_line (s : bytes) : bytes :=
  match split_at 10 s with Some (a, _) => a | None => s end.

Definition oracle (admissible : bool) (obs : bytes) : bytes :=
  if bytes_eqb (first_line obs) (bs "ok") || is_prefix (bs "joined") obs then
    if admissible then bs "ok" else bs "FAIL accepted although the request is not admissible"
  else bs "ok".

(* split at every occurrence of byte c *)
Fixpoint split_on_fuel (fuel : nat) (c : N) (s : bytes) : list bytes :=
  match fuel with
  | O => [s]
  | S f => match split_at c s with
           | Some (a, b) => a :: split_on_fuel f c b
           | None => [s]
           end
  end.
Definition split_on (c : N) (s : bytes) : list bytes := split_on_fuel (length s) c s.

Definition rj_observed_of (line : bytes) : option rj_observed :=
  if is_prefix (bs "via=") line then Some (ObsVia (drop 4 line))
  else if bytes_eqb line (bs "forbidden") then Some ObsForbidden
  else if bytes_eqb line (bs "unable_to_authorise") then Some ObsUnable
  else if bytes_eqb line (bs "error") then Some ObsError
  else None.

(* checkRestrictedJoin alone: is the observed verdict one the querier answers permit? *)
Definition prop_restricted_join (args : list bytes) : bytes :=
  match args with
  | [_; cfg; obs] =>
      with_cfg [cfg; cfg] (fun j =>
        match rj_observed_of (first_line obs) with
        | Some o => if rj_observed_admissible (gs "version" j) (dec_rj (gj "rj" j)) o then bs "ok"
                    else bs "FAIL the verdict is not permitted by the querier answers for the joined room"
        | None => bs "FAIL unreadable verdict"
        end)
  | _ => bs "badargs"
  end.

(* make_join: admissible, and the authoriser named in the template is one the answers permit *)
Definition prop_make_join (args : list bytes) : bytes :=
  match args with
  | [_; cfg; obs] =>
      with_cfg [cfg; cfg] (fun j =>
        if bytes_eqb (first_line obs) (bs "ok") then
          let i := dec_mj j in
          if negb (make_join_admissible i) then bs "FAIL accepted although the request is not admissible"
          else match split_on 10 obs with
               | [_; _; tmpl] =>
                   match split_on 124 tmpl with
                   | [_; _; _; _; _; _; via; _] =>
                       if rj_observed_admissible (mj_version i) (mj_rj i) (ObsVia via) then bs "ok"
                       else bs "FAIL the authorising user named in the template is not entitled in the joined room"
                   | _ => bs "FAIL unreadable template"
                   end
               | _ => bs "FAIL unreadable observable"
               end
        else bs "ok")
  | _ => bs "badargs"
  end.
Definition prop_make_leave (args : list bytes) : bytes :=
  match args with
  | [_; cfg; obs] => with_cfg [cfg; cfg] (fun j => oracle (make_leave_admissible (dec_ml j)) obs)
  | _ => bs "badargs"
  end.
Definition prop_send_join (args : list bytes) : bytes :=
  match args with
  | [_; cfg; evt; obs] =>
      with_cfg_event [cfg; cfg; evt] (fun j e =>
        let i := dec_sj j e in
        if bytes_eqb (first_line obs) (bs "ok") then
          if negb (send_join_admissible i) then bs "FAIL accepted although the request is not admissible"
          else if negb (send_join_attestation_justified i) then
            bs "FAIL-F92 counter-signed a restricted join whose joiner satisfies no allow condition"
          else bs "ok"
        else bs "ok")
  | _ => bs "badargs"
  end.
Fixpoint contains_bytes (needle s : bytes) : bool :=
  is_prefix needle s || match s with [] => false | _ :: s' => contains_bytes needle s' end.

Definition prop_invite (args : list bytes) : bytes :=
  match args with
  | [_; cfg; evt; obs] =>
      with_cfg_event [cfg; cfg; evt] (fun j e =>
        (* a refused invite must not leave the local signature on the event that was handed in *)
        if contains_bytes (bs "INPUT-EVENT-COUNTER-SIGNED-ALTHOUGH-REFUSED") obs then
          bs "FAIL the refused invite carries the local counter-signature afterwards"
        else oracle (invite_admissible (dec_iv j e)) obs)
  | _ => bs "badargs"
  end.
Definition prop_perform_join (args : list bytes) : bytes :=
  match args with
  | [_; cfg; obs] =>
      (* which event came back is read off the observable: joined remote_event_used=0/1 *)
      let used := is_prefix (bs "joined remote_event_used=1") obs in
      with_cfg [cfg; cfg] (fun j =>
        if is_prefix (bs "joined") obs then
          if is_prefix (bs "joined remote_event_used=") (first_line obs) &&
             (N.of_nat (length (first_line obs)) =? 26) then
            if negb (perform_join_admissible (dec_pj j) used) then
              bs "FAIL joined although the request is not admissible for the join event handed back"
            else if negb (perform_join_returns_own_event (dec_pj j) used) then
              bs "FAIL-F87 the join event handed back is the remote's, and not the event that was sent"
            else bs "ok"
          else bs "FAIL joined with something that is not a join of the user in the room"
        else bs "ok")
  | _ => bs "badargs"
  end.

(* ---------- HandleInviteV3 ---------- *)
Definition dec_v3 (j : json) : iv3_extra :=
  {| v3_proto_room := gs "proto_room" j; v3_proto_type := gs "proto_type" j;
     v3_proto_membership := gerr_str "proto_membership" j; v3_invited_user := gs "invited_user" j;
     v3_sender_id := gerr_str "created_sender_id" j; v3_build_ok := gb "build_ok" j |}.
Definition run_invite_v3 (args : list bytes) : bytes :=
  with_cfg args (fun j => print_event_result (handle_invite_v3 (dec_v3 j) (dec_iv j JNull))).
Definition prop_invite_v3 (args : list bytes) : bytes :=
  match args with
  | [_; cfg; obs] => with_cfg [cfg; cfg] (fun j => oracle (invite_v3_admissible (dec_v3 j) (dec_iv j JNull)) obs)
  | _ => bs "badargs"
  end.

(* ---------- PerformInvite ---------- *)
Definition dec_latest (j : json) : pi_latest :=
  {| pl_room_exists := gb "room_exists" j; pl_depth := gz "depth" j; pl_state_ok := gb "state_ok" j;
     pl_refs_ok := gb "refs_ok" j; pl_refs := strs (gl "refs" j); pl_prev := strs (gl "prev" j) |}.

Definition dec_pi (j : json) : pi_input :=
  {| pi_version := gs "version" j; pi_target_local := gb "target_local" j; pi_room := gs "room" j;
     pi_invitee := gs "invitee" j; pi_inviter_domain := gs "inviter_domain" j;
     pi_invitee_domain := gs "invitee_domain" j;
     pi_given_state := gl "given_state" j;
     pi_generated_state := gq (fun v => match v with JArr l => l | _ => [] end) "generated_state" j;
     pi_set_unsigned_ok := gb "set_unsigned_ok" j;
     pi_sender_id := match jget (bs "sender_id") j with
                     | Some (JObj m) => QVal (gs "v" (JObj m))
                     | Some (JStr _) => QErr
                     | _ => QNil
                     end;
     pi_membership := gerr_str "member_q" j;
     pi_needed := match jget (bs "needed") j with Some (JArr l) => Some (strs l) | _ => None end;
     pi_latest_q := match jget (bs "latest") j with Some (JObj m) => Some (dec_latest (JObj m)) | _ => None end;
     pi_build_ok := gb "build_ok" j; pi_provider_ok := gb "provider_ok" j;
     pi_allowed_ok := gb "allowed_ok" j;
     pi_send := let a := gs "send" j in
                if bytes_eqb a (bs "err") then PSErr
                else if bytes_eqb a (bs "nil") then PSNil
                else if bytes_eqb a (bs "same_signed") then PSSame true
                else if bytes_eqb a (bs "same_unsigned") then PSSame false
                else PSOther |}.

Definition print_pi (r : pi_result) : bytes :=
  join_bytes nl ([outcome_name (pir_out r); join_bytes semi (pir_log r)] ++
    match pir_event r with
    | Some (PIBuilt sk depth auth prev signers st) =>
        [entry [bs "built"; sk; print_int depth; bs "auth=" ++ join_bytes comma auth;
                bs "prev=" ++ join_bytes comma prev; bs "signers=" ++ join_bytes comma signers;
                canon_print st]]
    | Some PIRemote => [bs "remote_response"]
    | None => []
    end).

Definition run_perform_invite (args : list bytes) : bytes :=
  with_cfg args (fun j => print_pi (perform_invite (dec_pi j))).

(* fields of an event text: [scenario; event id; event text] *)
Definition run_fields (args : list bytes) : bytes :=
  match args with
  | [_; eid; evt] =>
      match parse_json evt with
      | Some ev =>
          let f := fields_of_event ev eid in
          entry [ef_type f; opt_bytes (ef_state_key f); ef_sender f; ef_room_id f; ef_event_id f;
                 opt_bytes (ef_membership f); ef_authorised_via f]
      | None => bs "unparsable"
      end
  | _ => bs "badargs"
  end.

Definition prop_perform_invite (args : list bytes) : bytes :=
  match args with
  | [_; cfg; obs] => with_cfg [cfg; cfg] (fun j => oracle (perform_invite_admissible (dec_pi j)) obs)
  | _ => bs "badargs"
  end.

Definition ops_C15 : list (bytes * (list bytes -> bytes)) :=
  [ (bs "C15.make_join", run_make_join);
    (bs "C15.make_leave", run_make_leave);
    (bs "C15.send_join", run_send_join);
    (bs "C15.invite", run_invite);
    (bs "C15.perform_join", run_perform_join);
    (bs "C15.restricted_join", run_restricted_join);
    (bs "C15.fields", run_fields);
    (bs "C15.invite_v3", run_invite_v3);
    (bs "C15.prop.invite_v3", prop_invite_v3);
    (bs "C15.perform_invite", run_perform_invite);
    (bs "C15.prop.perform_invite", prop_perform_invite);
    (bs "C15.prop.make_join", prop_make_join);
    (bs "C15.prop.restricted_join", prop_restricted_join);
    (bs "C15.prop.make_leave", prop_make_leave);
    (bs "C15.prop.send_join", prop_send_join);
    (bs "C15.prop.invite", prop_invite);
    (bs "C15.prop.perform_join", prop_perform_join) ].
