(* Executable entry points of the C16 model and of its specification oracles. *)
From Verif Require Import Lib.Bytes Json.Ast Net.IpC16 Net.ServerNameC16 Net.WellKnown
     Net.Resolve Net.PolicySpec Net.WellKnownSpec Net.ResolveSpec Net.RoundTrip.
Open Scope N_scope.

Definition n_of (s : bytes) : N := match parse_dec s with Some n => n | None => 0 end.
Definition z_of (s : bytes) : Z := match parse_int s with Some z => z | None => 0%Z end.
Definition zopt_of (s : bytes) : option Z := match s with [] => None | _ => parse_int s end.
Definition bar : bytes := [124].
Definition nl : bytes := [10].

Definition run_parse_ip (args : list bytes) : bytes :=
  match args with
  | [s] => match parse_ip s with Some v => print_dec v | None => bs "nil" end
  | _ => bs "badargs"
  end.

Definition show_net (n : ipnet) : bytes :=
  match n with
  | Net4 ip m => bs "4:" ++ print_dec ip ++ bs "/" ++ print_dec m
  | Net6 ip m => bs "16:" ++ print_dec ip ++ bs "/" ++ print_dec m
  end.

Definition run_parse_cidr (args : list bytes) : bytes :=
  match args with
  | [s] => match parse_cidr s with Some n => show_net n | None => bs "err" end
  | _ => bs "badargs"
  end.

Definition run_contains (args : list bytes) : bytes :=
  match args with
  | [c; a] => match parse_cidr c, parse_ip a with
              | Some n, Some ip => if net_contains n ip then bs "true" else bs "false"
              | _, _ => bs "err"
              end
  | _ => bs "badargs"
  end.

(* the interval reading of the same question *)
Definition prop_contains (args : list bytes) : bytes :=
  match args with
  | [c; a; obs] =>
      let want := match interval_of_cidr c, parse_ip a with
                  | Some r, Some ip => if in_intervalb r ip then bs "true" else bs "false"
                  | _, _ => bs "err"
                  end in
      if bytes_eqb want obs then bs "ok" else bs "FAIL want=" ++ want
  | _ => bs "badargs"
  end.

Definition run_split_host (args : list bytes) : bytes :=
  match args with
  | [s] => match split_host s with Some h => bs "ok:" ++ h | None => bs "err" end
  | _ => bs "badargs"
  end.

Definition run_servername (args : list bytes) : bytes :=
  match args with
  | [s] => match parse_and_validate s with
           | Some (h, Some p) => h ++ bar ++ print_dec p
           | Some (h, None) => h ++ bar ++ bs "-1"
           | None => bs "invalid"
           end
  | _ => bs "badargs"
  end.

Definition verdict (b : bool) : bytes := if b then bs "allow" else bs "deny".

(* [network; address; nallow; allow...; deny...] *)
Definition run_control (args : list bytes) : bytes :=
  match args with
  | network :: address :: na :: rest =>
      let k := N.to_nat (n_of na) in
      verdict (control_allows (firstn k rest) (skipn k rest) network address)
  | _ => bs "badargs"
  end.

Definition run_control_unrepaired (args : list bytes) : bytes :=
  match args with
  | network :: address :: na :: rest =>
      let k := N.to_nat (n_of na) in
      verdict (control_allows_unrepaired (firstn k rest) (skipn k rest) network address)
  | _ => bs "badargs"
  end.

Definition prop_control (args : list bytes) : bytes :=
  match args with
  | network :: address :: na :: rest0 =>
      let rest := removelast rest0 in
      let obs := last rest0 [] in
      let k := N.to_nat (n_of na) in
      let want := verdict (may_connectb (firstn k rest) (skipn k rest) network address) in
      if bytes_eqb want obs then bs "ok" else bs "FAIL want=" ++ want
  | _ => bs "badargs"
  end.

(* [nallow; entries...]: newDestinationTripperDialer installs a control function iff a list is non-empty *)
Definition run_dialer_has_control (args : list bytes) : bytes :=
  match args with
  | _ :: [] => bs "false"
  | _ :: _ :: _ => bs "true"
  | _ => bs "badargs"
  end.

(* [status; content-length; cache-control; expires_unix or empty; bodymode; body] *)
Definition reply_of (status cl cc ex bm body : bytes) : wk_reply :=
  {| r_status := z_of status; r_content_length := cl; r_cache_control := cc;
     r_expires := zopt_of ex; r_body := body; r_body_read_ok := bytes_eqb bm (bs "ok") |}.

Definition show_wk (r : wk_result) : bytes :=
  match r with
  | WkErr => bs "err"
  | WkOk a e => bs "ok|" ++ a ++ bar ++ print_int e
  end.

Definition run_well_known (args : list bytes) : bytes :=
  match args with
  | [status; cl; cc; ex; bm; body; now] =>
      show_wk (lookup (z_of now) (reply_of status cl cc ex bm body))
  | _ => bs "badargs"
  end.

Definition run_well_known_unrepaired (args : list bytes) : bytes :=
  match args with
  | [status; cl; cc; ex; bm; body; now] =>
      show_wk (lookup_gen false (z_of now) (reply_of status cl cc ex bm body))
  | _ => bs "badargs"
  end.

Definition prop_well_known (args : list bytes) : bytes :=
  match args with
  | [status; cl; cc; ex; bm; body; now; obs] =>
      let want := match honouredb (z_of now) (reply_of status cl cc ex bm body) with
                  | Some (a, e) => show_wk (WkOk a e)
                  | None => show_wk WkErr
                  end in
      if bytes_eqb want obs then bs "ok" else bs "FAIL want=" ++ firstn 200 want
  | _ => bs "badargs"
  end.

(* ---- resolve ---- *)
Fixpoint take_recs (n : nat) (args : list bytes) : list (bytes * N) * list bytes :=
  match n with
  | O => ([], args)
  | S n' => match args with
            | t :: p :: r => let '(l, rest) := take_recs n' r in ((t, n_of p) :: l, rest)
            | _ => ([], [])
            end
  end.

Fixpoint srv_table (fuel : nat) (args : list bytes) : list (bytes * bytes * srv_outcome) :=
  match fuel with
  | O => []
  | S f =>
      match args with
      | svc :: q :: kind :: n :: r =>
          let '(recs, rest) := take_recs (N.to_nat (n_of n)) r in
          let o := if bytes_eqb kind (bs "ok") then SrvOk recs
                   else if bytes_eqb kind (bs "error") then SrvError else SrvNotFound in
          (svc, q, o) :: srv_table f rest
      | _ => []
      end
  end.

Fixpoint srv_lookup (t : list (bytes * bytes * srv_outcome)) (svc q : bytes) : srv_outcome :=
  match t with
  | [] => SrvNotFound
  | (s, n, o) :: r => if bytes_eqb s svc && bytes_eqb n q then o else srv_lookup r svc q
  end.

Definition show_target (t : target) : bytes :=
  bs "T " ++ t_dest t ++ bar ++ t_host t ++ bar ++ t_sni t.
Definition show_probe (p : probe) : bytes :=
  match p with
  | PW n => bs "P W " ++ n
  | PS s n => bs "P S " ++ s ++ bs " " ++ n
  end.

Definition show_outcome (o : outcome) (ps : list probe) : bytes :=
  match o with
  | Refused => join_bytes nl (bs "err" :: map show_probe ps)
  | Crash => bs "CRASH"
  | Targets l => join_bytes nl (map show_target l ++ map show_probe ps)
  end.

(* [name; trace; wkmode; status; cl; cc; ex; bm; body; now; srv table...] *)
Definition run_resolve_with (spec_side : bool) (repaired : bool) (args : list bytes) : bytes :=
  match args with
  | name :: trace :: wkmode :: status :: cl :: cc :: ex :: bm :: body :: now :: tbl =>
      let rep := reply_of status cl cc ex bm body in
      let wk := fun _ : bytes =>
        if bytes_eqb wkmode (bs "reply") then
          if spec_side then option_map fst (honouredb (z_of now) rep)
          else match lookup_gen repaired (z_of now) rep with WkOk a _ => Some a | WkErr => None end
        else None in
      let srv := srv_lookup (srv_table (length tbl) tbl) in
      let ps := if bytes_eqb trace (bs "1") then probes wk srv name
                else if bytes_eqb trace (bs "w")
                then filter (fun p => match p with PW _ => true | PS _ _ => false end) (probes wk srv name)
                else [] in
      show_outcome (if spec_side then spec_fn wk srv name else resolve wk srv name) ps
  | _ => bs "badargs"
  end.

Definition run_resolve := run_resolve_with false true.
Definition run_resolve_unrepaired := run_resolve_with false false.

Definition prop_resolve (args : list bytes) : bytes :=
  let a := removelast args in
  let obs := last args [] in
  let want := run_resolve_with true true a in
  if bytes_eqb want obs then bs "ok" else bs "FAIL want=" ++ firstn 300 want.

(* ---- round trips with failing first attempts, under allow / deny lists ----
   [name; wksrv; k; nrt; dead ports (comma separated); nallow; allow...; ndeny; deny...;
    nhosts; (host; address)...; wkmode; status; cl; cc; ex; bm; body; now; srv table...]
   nrt round trips for the same server name through one transport (one resolution cache, a DNS
   cache whose resolver maps the listed hosts to the listed addresses, every other name to
   127.0.0.1); the federation listeners fail the first k TLS handshakes they see; ports in the
   dead list refuse; the lists are given to the client and to its DNS cache.
   Output, in order of occurrence: C address = a TCP connection was accepted at that address
   (the .well-known request at port 443 included), P W / P S = the lookups, A = what a federation
   listener saw of an attempt (port, SNI, Host once the handshake got through), RT ok / RT err.
   The SNI extension is not sent for IP literals. *)
Definition wire_sni (s : bytes) : bytes := match parse_ip s with Some _ => [] | None => s end.

Fixpoint take_counted (n : nat) (l : list bytes) : list bytes * list bytes :=
  match n, l with
  | S n', x :: r => let '(a, b) := take_counted n' r in (x :: a, b)
  | _, _ => ([], l)
  end.

Definition counted (l : list bytes) : list bytes * list bytes :=
  match l with
  | n :: r => take_counted (N.to_nat (n_of n)) r
  | [] => ([], [])
  end.

Fixpoint pairs_of (l : list bytes) : list (bytes * bytes) :=
  match l with a :: b :: r => (a, b) :: pairs_of r | _ => [] end.

Definition ip_lookup (hosts : list (bytes * bytes)) (h : bytes) : bytes :=
  match find (fun p => bytes_eqb (fst p) h) hosts with
  | Some p => snd p
  | None => bs "127.0.0.1"
  end.

Definition show_attempt (ip_of : bytes -> bytes) (a : target * attempt_outcome) : list bytes :=
  let '(t, o) := a in
  let conn := bs "C " ++ dest_addr ip_of (t_dest t) in
  let base := bs "A port=" ++ port_of (t_dest t) ++ bs " sni=" ++ wire_sni (t_sni t) in
  match o with
  | ARefused => []
  | ATlsFail => [conn; base]
  | AOk => [conn; base ++ bs " host=" ++ t_host t]
  end.

Definition is_ps (p : probe) : bool := match p with PS _ _ => true | PW _ => false end.

(* the answers of the n-th resolution (n = 0, 1, ...): SRV entries whose service is written
   matrix-fed@2 / matrix@2 replace the plain ones from the second resolution on; a body of the
   form first LF @2 LF second gives the well-known reply from the second request on *)
Fixpoint srv_find (t : list (bytes * bytes * srv_outcome)) (svc q : bytes) : option srv_outcome :=
  match t with
  | [] => None
  | (s, n, o) :: r => if bytes_eqb s svc && bytes_eqb n q then Some o else srv_find r svc q
  end.

Definition srv_at (t : list (bytes * bytes * srv_outcome)) (i : nat) (svc q : bytes) : srv_outcome :=
  match (match i with O => None | S _ => srv_find t (svc ++ bs "@2") q end) with
  | Some o => o
  | None => match srv_find t svc q with Some o => o | None => SrvNotFound end
  end.

Definition body_at (body : bytes) (i : nat) : bytes :=
  match split_all 10 body [] with
  | [b1; m; b2] => if bytes_eqb m (bs "@2") then (match i with O => b1 | S _ => b2 end) else body
  | _ => body
  end.

Definition show_pass (ip_of : bytes -> bytes) (name : bytes) (plain : bool)
           (wk_lines : nat -> list bytes) (env : nat -> (bytes -> option bytes) * (bytes -> bytes -> srv_outcome))
           (p : pass) : list bytes :=
  (match p_resolution p with
   | Some i => (if plain then wk_lines i else [])
               ++ map show_probe (filter is_ps (probes (fst (env i)) (snd (env i)) name))
   | None => []
   end) ++ flat_map (show_attempt ip_of) (p_attempts p).

Fixpoint run_rts (n : nat) (wks : bool) (blocked : target -> bool) (ip_of : bytes -> bytes)
         (wk_lines : nat -> list bytes) (name : bytes)
         (env : nat -> (bytes -> option bytes) * (bytes -> bytes -> srv_outcome))
         (next : nat) (cache : option (list target)) (k : N) : list bytes :=
  match n with
  | O => []
  | S n' =>
      let plain := match shape_of name with ShPlain => true | _ => false end in
      let r := round_trip wks blocked name (fun i => resolve (fst (env i)) (snd (env i)) name) next cache k in
      flat_map (show_pass ip_of name plain wk_lines env) (rt_passes r)
        ++ [if rt_ok r then bs "RT ok" else bs "RT err"]
        ++ run_rts n' wks blocked ip_of wk_lines name env (rt_next r) (rt_cache r) (rt_k r)
  end.

Record rt_case := {
  rc_name : bytes; rc_wks : bool; rc_k : N; rc_nrt : nat; rc_dead : list bytes;
  rc_allow : list bytes; rc_deny : list bytes; rc_hosts : list (bytes * bytes);
  rc_wkmode : bytes; rc_reply : nat -> wk_reply; rc_now : Z; rc_tbl : list bytes
}.

Definition parse_rt_case (args : list bytes) : option rt_case :=
  match args with
  | name :: wksrv :: k :: nrt :: dead :: r0 =>
      let '(allow, r1) := counted r0 in
      let '(deny, r2) := counted r1 in
      match r2 with
      | nh :: r3 =>
          let '(hs, r4) := take_counted (2 * N.to_nat (n_of nh)) r3 in
          match r4 with
          | wkmode :: status :: cl :: cc :: ex :: bm :: body :: now :: tbl =>
              Some {| rc_name := name; rc_wks := bytes_eqb wksrv (bs "1"); rc_k := n_of k;
                      rc_nrt := N.to_nat (n_of nrt); rc_dead := split_all 44 dead [];
                      rc_allow := allow; rc_deny := deny; rc_hosts := pairs_of hs;
                      rc_wkmode := wkmode;
                      rc_reply := (fun i => reply_of status cl cc ex bm (body_at body i));
                      rc_now := z_of now; rc_tbl := tbl |}
          | _ => None
          end
      | [] => None
      end
  | _ => None
  end.

Definition run_round_trip (args : list bytes) : bytes :=
  match parse_rt_case args with
  | None => bs "badargs"
  | Some c =>
      let ip_of := ip_lookup (rc_hosts c) in
      let tbl := srv_table (length (rc_tbl c)) (rc_tbl c) in
      let replying := bytes_eqb (rc_wkmode c) (bs "reply") in
      let conn := well_known_connection (rc_allow c) (rc_deny c) ip_of (rc_name c) in
      let wk_lines := fun _ : nat =>
        match conn with
        | Some a => (bs "C " ++ a) :: (if replying then [bs "P W " ++ rc_name c] else [])
        | None => []
        end in
      let env := fun i : nat =>
        ((fun _ : bytes =>
            match conn with
            | Some _ => if replying
                        then match lookup (rc_now c) (rc_reply c i) with WkOk a _ => Some a | WkErr => None end
                        else None
            | None => None
            end),
         srv_at tbl i) in
      join_bytes nl (run_rts (rc_nrt c) (rc_wks c)
                             (blocked_by (rc_dead c) (rc_allow c) (rc_deny c) ip_of) ip_of
                             wk_lines (rc_name c) env 0 None (rc_k c))
  end.

(* specification oracle: every connection the listeners accepted - for the .well-known request
   as for the attempts, on every pass of every round trip - must be one the allow / deny lists
   permit (may_connect); every attempt must carry the port, SNI and Host of a target that the
   specification's table gives for the ORIGINAL server name; success needs a completed attempt *)
Definition spec_targets (wks : bool) (name : bytes) (wk : bytes -> option bytes)
           (srv : bytes -> bytes -> srv_outcome) : list target :=
  if wks then match spec_fn wk srv name with Targets l => l | _ => [] end
  else [ {| t_dest := name; t_host := name; t_sni := name |} ].

Definition attempt_allowed (allowed : list target) (line : bytes) : bool :=
  match split_all 32 line [] with
  | [_; p; s] =>
      existsb (fun t => bytes_eqb p (bs "port=" ++ port_of (t_dest t))
                        && bytes_eqb s (bs "sni=" ++ wire_sni (t_sni t))) allowed
  | [_; p; s; h] =>
      existsb (fun t => bytes_eqb p (bs "port=" ++ port_of (t_dest t))
                        && bytes_eqb s (bs "sni=" ++ wire_sni (t_sni t))
                        && bytes_eqb h (bs "host=" ++ t_host t)) allowed
  | _ => false
  end.

(* [fresh] = the name is one whose resolution shows as lookups (a plain name with lookups on):
   then a connection to an address already tried since the last lookup means the retry went
   to the old targets instead of resolving the name again *)
Fixpoint check_lines (allow deny : list bytes) (allowed : list target) (fresh : bool)
         (lines : list bytes) (got_through : bool) (tried : list bytes) : bytes :=
  match lines with
  | [] => bs "ok"
  | l :: r =>
      if is_prefix (bs "C ") l then
        if negb (may_connectb allow deny (net_of (drop 2 l)) (drop 2 l))
        then bs "FAIL connection to an address the lists forbid: " ++ l
        else if fresh && mem_bytes (drop 2 l) tried
        then bs "FAIL retry without resolving the name again: " ++ l
        else check_lines allow deny allowed fresh r got_through
                         (if is_prefix (bs ":443") (rev (firstn 4 (rev l))) then tried else drop 2 l :: tried)
      else if is_prefix (bs "A ") l then
        if attempt_allowed allowed l
        then check_lines allow deny allowed fresh r
                         (got_through || (4 <=? N.of_nat (length (split_all 32 l [])))) tried
        else bs "FAIL attempt not prescribed for the server name: " ++ l
      else if bytes_eqb l (bs "RT ok") then
        if got_through then check_lines allow deny allowed fresh r false []
        else bs "FAIL success without a completed attempt"
      else if bytes_eqb l (bs "RT err") then check_lines allow deny allowed fresh r false []
      else if is_prefix (bs "P ") l then check_lines allow deny allowed fresh r got_through []
      else check_lines allow deny allowed fresh r got_through tried
  end.

Definition prop_round_trip (args : list bytes) : bytes :=
  match parse_rt_case (removelast args) with
  | None => bs "badargs"
  | Some c =>
      let obs := last args [] in
      let ip_of := ip_lookup (rc_hosts c) in
      let tbl := srv_table (length (rc_tbl c)) (rc_tbl c) in
      let wk_addr := dest_addr ip_of (well_known_dest (rc_name c)) in
      let wk := fun (i : nat) (_ : bytes) =>
        if may_connectb (rc_allow c) (rc_deny c) (net_of wk_addr) wk_addr
           && bytes_eqb (rc_wkmode c) (bs "reply")
        then option_map fst (honouredb (rc_now c) (rc_reply c i)) else None in
      (* an attempt must be prescribed under the answers of the resolution in force: the first
         or, for a retry / a later round trip, a later one *)
      check_lines (rc_allow c) (rc_deny c)
                  (spec_targets (rc_wks c) (rc_name c) (wk 0%nat) (srv_at tbl 0)
                   ++ spec_targets (rc_wks c) (rc_name c) (wk 1%nat) (srv_at tbl 1))
                  (rc_wks c && match shape_of (rc_name c) with ShPlain => true | _ => false end)
                  (split_all 10 obs []) false []
  end.

(* end-to-end dial: [mode; target; network; address handed to the dialer; nallow; allow...; deny...];
   whatever the path (DNS cache, client with or without cache, literal, name, retry), the
   connection may be made iff the control decision for the address dialled allows it *)
Definition run_dial (args : list bytes) : bytes :=
  match args with _ :: _ :: r => run_control r | _ => bs "badargs" end.
Definition prop_dial (args : list bytes) : bytes :=
  match args with _ :: _ :: r => prop_control r | _ => bs "badargs" end.
Definition run_dial_unrepaired (args : list bytes) : bytes :=
  match args with _ :: _ :: r => run_control_unrepaired r | _ => bs "badargs" end.

Definition ops_C16 : list (bytes * (list bytes -> bytes)) :=
  [ (bs "C16.parse_ip", run_parse_ip);
    (bs "C16.parse_cidr", run_parse_cidr);
    (bs "C16.contains", run_contains);
    (bs "C16.prop.contains", prop_contains);
    (bs "C16.split_host", run_split_host);
    (bs "C16.servername", run_servername);
    (bs "C16.control", run_control);
    (bs "C16.prop.control", prop_control);
    (bs "C16.dialer_has_control", run_dialer_has_control);
    (bs "C16.well_known", run_well_known);
    (bs "C16.prop.well_known", prop_well_known);
    (bs "C16.resolve", run_resolve);
    (bs "C16.prop.resolve", prop_resolve);
    (bs "C16.control_unrepaired", run_control_unrepaired);
    (bs "C16.round_trip", run_round_trip);
    (bs "C16.prop.round_trip", prop_round_trip);
    (bs "C16.dial", run_dial);
    (bs "C16.prop.dial", prop_dial);
    (bs "C16.dial_unrepaired", run_dial_unrepaired);
    (bs "C16.well_known_unrepaired", run_well_known_unrepaired);
    (bs "C16.resolve_unrepaired", run_resolve_unrepaired) ].
