(* Executable entry points of the C17 model (correspondence) and specification oracles. *)
From Verif Require Import Lib.Bytes Json.Ast Json.Parse.
From Verif Require Import Ident.Chars Ident.ServerName Ident.Ids Ident.Base64 Ident.Limits
  Ident.Versions Ident.Events Ident.Strict Ident.LimitsSpec Ident.VersionSpec.
From Verif Require Import Gen.GenVersions Gen.GenConsts.
Open Scope N_scope.

Definition tab : bytes := [9].
Definition nl : bytes := [10].
Definition n_of (s : bytes) : N := match parse_dec s with Some n => n | None => 0 end.
Definition flag_of (s : bytes) : bool := bytes_eqb s (bs "1").

(* ---- observables of the three parsers ---- *)
Definition port_text (p : option N) : bytes :=
  match p with Some n => print_dec n | None => bs "-1" end.

Definition obs_server_name (s : bytes) : bytes :=
  match sn_parse s with
  | Some (host, port, _) => bs "ok" ++ tab ++ host ++ tab ++ port_text port
  | None => bs "invalid"
  end.

Definition obs_user_id (hist : bool) (s : bytes) : bytes :=
  match user_id_parse hist s with
  | Some (l, d) => bs "ok" ++ tab ++ l ++ tab ++ d
  | None => bs "invalid"
  end.

Definition obs_room_id (s : bytes) : bytes :=
  match room_id_parse s with
  | Some (o, Some d) => bs "ok" ++ tab ++ o ++ tab ++ d ++ tab ++ bs "domain"
  | Some (o, None) => bs "ok" ++ tab ++ o ++ tab ++ tab ++ bs "domainless"
  | None => bs "invalid"
  end.

(* ---- net.ParseIP ---- *)
Definition run_parse_ip (args : list bytes) : bytes :=
  match args with
  | [s] =>
      match parse_ip s with
      | Some (IP4 a b c d) =>
          join_bytes (bs ",") (map print_dec [0; 0; 0; 0; 0; 65535; a * 256 + b; c * 256 + d])
      | Some (IP6 l) => join_bytes (bs ",") (map print_dec l)
      | None => bs "nil"
      end
  | _ => bs "badargs"
  end.

(* kind: server | user0 | user1 | room *)
Definition obs_kind (kind s : bytes) : bytes :=
  if bytes_eqb kind (bs "server") then obs_server_name s
  else if bytes_eqb kind (bs "user0") then obs_user_id false s
  else if bytes_eqb kind (bs "user1") then obs_user_id true s
  else if bytes_eqb kind (bs "ip") then
    match run_parse_ip [s] with
    | r => if bytes_eqb r (bs "nil") then bs "invalid" else bs "ok " ++ r
    end
  else obs_room_id s.

Definition strict_kind (kind s : bytes) : bool :=
  if bytes_eqb kind (bs "server") then sn_strict s
  else if bytes_eqb kind (bs "user0") then user_strict false s
  else if bytes_eqb kind (bs "user1") then user_strict true s
  else room_strict s.

Definition departure_kind (kind s : bytes) : bytes :=
  if bytes_eqb kind (bs "server") then sn_departure s
  else if bytes_eqb kind (bs "user0") then user_departure false s
  else if bytes_eqb kind (bs "user1") then user_departure true s
  else room_departure s.

Definition sigil_kind (kind : bytes) : N :=
  if bytes_eqb kind (bs "room") then 33 else 64.

Definition starts_ok (obs : bytes) : bool := is_prefix (bs "ok") obs.

(* the parts an observable reports must re-concatenate to the input *)
(* every way of cutting s at one of its colons *)
Fixpoint colon_splits (s : bytes) : list (bytes * bytes) :=
  match s with
  | [] => []
  | c :: r =>
      (if c =? 58 then [([], r)] else []) ++ map (fun ab => (c :: fst ab, snd ab)) (colon_splits r)
  end.

(* the observable is "ok", TAB, part, TAB, part (then TAB and a marker for room IDs); identifiers
   may themselves contain TABs, so the test is: SOME cut of the input at a colon prints as the
   observable *)
Definition reassembles_gen (zeros_ok : bool) (kind s obs : bytes) : bool :=
  let line a b := bs "ok" ++ tab ++ a ++ tab ++ b in
  if bytes_eqb kind (bs "server") then
    bytes_eqb obs (line s (bs "-1"))
    || existsb (fun hp =>
         bytes_eqb obs (line (fst hp) (snd hp))
         || zeros_ok && match parse_dec (snd hp) with
                        | Some n => bytes_eqb obs (line (fst hp) (print_dec n))
                        | None => false
                        end) (colon_splits s)
  else
    match s with
    | c :: rest =>
        (c =? sigil_kind kind) &&
        (if bytes_eqb kind (bs "room") then
           bytes_eqb obs (line rest [] ++ tab ++ bs "domainless")
           || existsb (fun od => bytes_eqb obs (line (fst od) (snd od) ++ tab ++ bs "domain")) (colon_splits rest)
         else existsb (fun ld => bytes_eqb obs (line (fst ld) (snd ld))) (colon_splits rest))
    | [] => false
    end.

(* the reported parts re-concatenate to the input; for a server name: host, and host : port with
   the port NUMBER in decimal *)
Definition reassembles : bytes -> bytes -> bytes -> bool := reassembles_gen false.
(* ... up to leading zeros of the port text (the one way known not to: F101) *)
Definition reassembles_up_to_port_zeros : bytes -> bytes -> bytes -> bool := reassembles_gen true.

Definition prop_parse (kind s obs : bytes) : bytes :=
  let want := strict_kind kind s in
  if negb (Bool.eqb want (starts_ok obs)) then
    (if want then bs "FAIL in-grammar-but-refused"
     else bs "FAIL accepted-not-in-grammar: " ++ departure_kind kind s)
  else if want && negb (reassembles kind s obs) then
    bs "FAIL parts-do-not-reassemble" ++
    (if reassembles_up_to_port_zeros kind s obs then bs ": port-leading-zero" else [])
  else bs "ok".

(* ---- bounded-exhaustive enumeration: all extensions of a prefix by at most n symbols, depth first ---- *)
Section Enum.
  Context {A : Type} (alpha : bytes) (f : bytes -> A -> A).
  Fixpoint enum_fold (n : nat) (rev_prefix : bytes) (acc : A) : A :=
    let acc' := f (rev rev_prefix) acc in
    match n with
    | O => acc'
    | S k => fold_left (fun a c => enum_fold k (c :: rev_prefix) a) alpha acc'
    end.
End Enum.

Definition run_enum (args : list bytes) : bytes :=
  match args with
  | [kind; alpha; prefix; n] =>
      let step s (acc : list bytes) :=
        let o := obs_kind kind s in
        if starts_ok o then (s ++ tab ++ o) :: acc else acc in
      join_bytes nl (rev (enum_fold alpha step (N.to_nat (n_of n)) (rev prefix) []))
  | _ => bs "badargs"
  end.

(* short description of a list of strings: how many, what they all start with, the first five *)
Fixpoint common_prefix (a b : bytes) : bytes :=
  match a, b with
  | x :: a', y :: b' => if x =? y then x :: common_prefix a' b' else []
  | _, _ => []
  end.

Definition summary (l : list bytes) : bytes :=
  match l with
  | [] => []
  | x :: r =>
      bs " n=" ++ print_dec (N.of_nat (length l)) ++ bs " common-prefix=" ++ fold_left common_prefix r x
      ++ bs " e.g. " ++ join_bytes (bs " ") (firstn 5 l)
  end.

Fixpoint dedupe (l : list bytes) : list bytes :=
  match l with
  | [] => []
  | x :: r => if mem_bytes x r then dedupe r else x :: dedupe r
  end.

(* oracle over the same enumeration: which strings the implementation accepted (lines of obs, in
   enumeration order) against the grammar decider *)
Definition prop_enum (args : list bytes) : bytes :=
  match args with
  | [kind; alpha; prefix; n; obs] =>
      let lines := match obs with [] => [] | _ => split_on 10 obs end in
      let step s (st : list bytes * (list bytes * (list bytes * list bytes))) :=
        let '(pending, (extra, (missing, zeros))) := st in
        let want := strict_kind kind s in
        match pending with
        | l :: pending' =>
            if is_prefix (s ++ tab ++ bs "ok") l then
              let o := drop (S (length s)) l in
              if want && reassembles kind s o then (pending', (extra, (missing, zeros)))
              else if want && reassembles_up_to_port_zeros kind s o then (pending', (extra, (missing, s :: zeros)))
              else (pending', (s :: extra, (missing, zeros)))
            else (pending, (extra, ((if want then s :: missing else missing), zeros)))
        | [] => (pending, (extra, ((if want then s :: missing else missing), zeros)))
        end in
      let '(pending, (extra, (missing, zeros))) :=
        enum_fold alpha step (N.to_nat (n_of n)) (rev prefix) (lines, ([], ([], []))) in
      match pending, extra, missing, zeros with
      | [], [], [], [] => bs "ok"
      | _, _, _, _ =>
          bs "FAIL" ++
          (match extra with
           | [] => []
           | _ => bs " accepted-not-in-grammar departures=" ++
                  join_bytes (bs ",") (dedupe (map (departure_kind kind) extra)) ++ summary (rev extra)
           end) ++
          (match missing with [] => [] | _ => bs "; in-grammar-but-refused" ++ summary (rev missing) end) ++
          (match zeros with [] => [] | _ => bs "; parts-do-not-reassemble port-leading-zero" ++ summary (rev zeros) end) ++
          (match pending with [] => [] | _ => bs "; unmatched-lines" end)
      end
  | _ => bs "badargs"
  end.

(* ---- base64 ---- *)
Definition obs_decoded (r : option bytes) : bytes :=
  match r with Some b => bs "ok:" ++ hex_of_bytes b | None => bs "err" end.

Definition run_b64_decode (args : list bytes) : bytes :=
  match args with
  | [s] => obs_decoded (base64bytes_decode s)
  | _ => bs "badargs"
  end.

Definition run_b64_decode_alpha (args : list bytes) : bytes :=
  match args with
  | [url; s] => obs_decoded (b64_decode (flag_of url) s)
  | _ => bs "badargs"
  end.

Definition run_b64_encode (args : list bytes) : bytes :=
  match args with
  | [url; b] => b64_encode (flag_of url) b
  | _ => bs "badargs"
  end.

(* all strings over alpha of length <= n: one line per string the decoder accepts *)
Definition run_b64_enum (args : list bytes) : bytes :=
  match args with
  | [alpha; prefix; n] =>
      let step s (acc : list bytes) :=
        match base64bytes_decode s with
        | Some b => (s ++ tab ++ hex_of_bytes b) :: acc
        | None => acc
        end in
      join_bytes nl (rev (enum_fold alpha step (N.to_nat (n_of n)) (rev prefix) []))
  | _ => bs "badargs"
  end.

(* encode then decode, standard and URL-safe: [b] -> hex,hex *)
Definition run_b64_roundtrip (args : list bytes) : bytes :=
  match args with
  | [b] =>
      obs_decoded (base64bytes_decode (b64_encode false b)) ++ bs "," ++
      obs_decoded (base64bytes_decode (b64_encode true b))
  | _ => bs "badargs"
  end.

Definition prop_b64_roundtrip (args : list bytes) : bytes :=
  match args with
  | [b; obs] =>
      let want := bs "ok:" ++ hex_of_bytes b in
      if bytes_eqb obs (want ++ bs "," ++ want) then bs "ok" else bs "FAIL value changed"
  | _ => bs "badargs"
  end.

(* specification of Decode on texts without CR / LF: a text over one of the two unpadded
   alphabets denotes b64_value; everything else is refused *)
Definition prop_b64_decode (args : list bytes) : bytes :=
  match args with
  | [s; obs] =>
      if mem_byte 10 s || mem_byte 13 s then bs "ok" else
      let want := match b64_value false s with
                  | Some v => Some v
                  | None => b64_value true s
                  end in
      if bytes_eqb obs (obs_decoded want) then bs "ok"
      else bs "FAIL want=" ++ obs_decoded want
  | _ => bs "badargs"
  end.

(* ---- sender IDs, SplitID ---- *)
Definition run_sender (args : list bytes) : bytes :=
  match args with
  | [s] =>
      if sender_is_user_id s then
        match user_id_parse true s with
        | Some (l, d) => bs "user" ++ tab ++ l ++ tab ++ d
        | None => bs "user-invalid"
        end
      else
        match base64bytes_decode s with
        | Some b => bs "pseudo:" ++ hex_of_bytes b
        | None => bs "pseudo-invalid"
        end
  | _ => bs "badargs"
  end.

Definition run_split_id (args : list bytes) : bytes :=
  match args with
  | [sigil; id] =>
      match sigil with
      | [c] => match split_id c id with
               | Some (l, d) => bs "ok" ++ tab ++ l ++ tab ++ d
               | None => bs "err"
               end
      | _ => bs "badargs"
      end
  | _ => bs "badargs"
  end.

(* ---- limits ---- *)
Definition run_rune_count (args : list bytes) : bytes :=
  match args with
  | [s] => print_dec (rune_count s)
  | _ => bs "badargs"
  end.

Definition run_check_id (args : list bytes) : bytes :=
  match args with
  | [id; [c]] => verdict_text (check_id id c)
  | _ => bs "badargs"
  end.

Definition run_receive (args : list bytes) : bytes :=
  match args with
  | [v; text] => verdict_text (receive gen_versions v text)
  | _ => bs "badargs"
  end.

Definition opt_of (has s : bytes) : option bytes := if flag_of has then Some s else None.

Definition run_build (args : list bytes) : bytes :=
  match args with
  | [v; type; has_sk; sk; sender; room; json_len] =>
      verdict_text (build gen_versions v type (opt_of has_sk sk) sender room (n_of json_len))
  | _ => bs "badargs"
  end.

Definition limited_fields (type : bytes) (sk : option bytes) (sender room : bytes) : list bytes :=
  type :: (match sk with Some k => [k] | None => [] end) ++ [sender; room].

Definition prop_verdict (want obs : bytes) : bytes :=
  if bytes_eqb want obs then bs "ok" else bs "FAIL want=" ++ want ++ bs " impl=" ++ obs.

(* events that are otherwise valid: the verdict must be the size class of the property text;
   an event whose sender is not a user ID (outside the pseudo-ID version) must be refused -
   with either refusal class, never ok and never persistable - whatever its sizes *)
Definition prop_event_verdict (v : bytes) (json_len : N) (type : bytes) (sk : option bytes)
    (sender room obs : bytes) : bytes :=
  if negb (bytes_eqb v pseudo_id_version) && negb (sender_well_formed sender) then
    if bytes_eqb obs (bs "err") || bytes_eqb obs (bs "toolarge") then bs "ok"
    else bs "FAIL malformed-sender want=refused impl=" ++ obs
  else prop_verdict (size_class_text (size_class_of json_len (limited_fields type sk sender room))) obs.

Definition prop_receive (args : list bytes) : bytes :=
  match args with
  | [v; text; obs] =>
      match parse_json text with
      | Some j =>
          match str_member (bs "type") j, opt_str_member (bs "state_key") j,
                str_member (bs "sender") j, str_member (bs "room_id") j with
          | Some type, Some sk, Some sender, Some room =>
              prop_event_verdict v (byte_length text) type sk sender room obs
          | _, _, _, _ => bs "badargs"
          end
      | None => bs "badargs"
      end
  | _ => bs "badargs"
  end.

Definition prop_build (args : list bytes) : bytes :=
  match args with
  | [v; type; has_sk; sk; sender; room; json_len; obs] =>
      prop_event_verdict v (n_of json_len) type (opt_of has_sk sk) sender room obs
  | _ => bs "badargs"
  end.

(* ---- room versions ---- *)
Definition names_text (t : vtable) : bytes :=
  join_bytes (bs ",") (sort_names (ver_names t)) ++ bs "|" ++
  join_bytes (bs ",") (sort_names (stable_names t)).

Definition run_version_traits (args : list bytes) : bytes :=
  match args with
  | [v] => traits_text gen_versions v
  | _ => bs "badargs"
  end.

Definition prop_version_traits (args : list bytes) : bytes :=
  match args with
  | [v; obs] =>
      let want := traits_text spec_table v in
      if bytes_eqb want obs then bs "ok"
      else
        let diffs :=
          flat_map (fun p => if bytes_eqb (fst p) (snd p) then [] else [fst p])
                   (combine (split_on 10 want) (split_on 10 obs)) in
        bs "FAIL the specification demands: " ++ join_bytes (bs "; ") diffs
  | _ => bs "badargs"
  end.

Definition run_versions (args : list bytes) : bytes := names_text gen_versions.

(* lenientByteLimitRoomVersions: the keys, sorted; it must hold exactly the registered versions *)
Definition run_lenient_versions (args : list bytes) : bytes :=
  join_bytes (bs ",") (sort_names gen_lenient_byte_limit_versions).

Definition prop_lenient_versions (args : list bytes) : bytes :=
  match args with
  | [obs] => prop_verdict (join_bytes (bs ",") (sort_names (ver_names spec_table))) obs
  | _ => bs "badargs"
  end.

Definition prop_versions (args : list bytes) : bytes :=
  match args with
  | [obs] => prop_verdict (names_text spec_table) obs
  | _ => bs "badargs"
  end.

Definition ops_C17 : list (bytes * (list bytes -> bytes)) :=
  [ (bs "C17.server_name", fun a => match a with [s] => obs_server_name s | _ => bs "badargs" end);
    (bs "C17.user_id", fun a => match a with [h; s] => obs_user_id (flag_of h) s | _ => bs "badargs" end);
    (bs "C17.room_id", fun a => match a with [s] => obs_room_id s | _ => bs "badargs" end);
    (bs "C17.enum", run_enum);
    (bs "C17.parse_ip", run_parse_ip);
    (bs "C17.b64_decode", run_b64_decode);
    (bs "C17.b64_decode_alpha", run_b64_decode_alpha);
    (bs "C17.b64_encode", run_b64_encode);
    (bs "C17.b64_enum", run_b64_enum);
    (bs "C17.b64_roundtrip", run_b64_roundtrip);
    (bs "C17.sender", run_sender);
    (bs "C17.split_id", run_split_id);
    (bs "C17.rune_count", run_rune_count);
    (bs "C17.check_id", run_check_id);
    (bs "C17.receive", run_receive);
    (bs "C17.build", run_build);
    (bs "C17.version_traits", run_version_traits);
    (bs "C17.versions", run_versions);
    (bs "C17.lenient_versions", run_lenient_versions);
    (bs "C17.prop.lenient_versions", prop_lenient_versions);
    (bs "C17.prop.server_name", fun a => match a with [s; o] => prop_parse (bs "server") s o | _ => bs "badargs" end);
    (bs "C17.prop.user_id", fun a => match a with [h; s; o] => prop_parse (if flag_of h then bs "user1" else bs "user0") s o | _ => bs "badargs" end);
    (bs "C17.prop.room_id", fun a => match a with [s; o] => prop_parse (bs "room") s o | _ => bs "badargs" end);
    (bs "C17.prop.enum", prop_enum);
    (bs "C17.prop.b64_roundtrip", prop_b64_roundtrip);
    (bs "C17.prop.b64_decode", prop_b64_decode);
    (bs "C17.prop.receive", prop_receive);
    (bs "C17.prop.build", prop_build);
    (bs "C17.prop.version_traits", prop_version_traits);
    (bs "C17.prop.versions", prop_versions) ].
