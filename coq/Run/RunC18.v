(* C18 run table. The crash search itself needs no model: the expected observable is the
   constant "nopanic". *)
From Verif Require Import Lib.Bytes.
Open Scope N_scope.

Definition ops_C18 : list (bytes * (list bytes -> bytes)) :=
  [ (bs "C18.nopanic", fun _ => bs "nopanic") ].
