(* C18 run table. The crash search itself needs no model: the expected observable is the
   constant "nopanic". The nesting guard (json.go jsonNestingExceeds, repair of F48) is compared
   with its index-level model. *)
From Verif Require Import Lib.Bytes Crash.Outcome Crash.Nesting.
Open Scope N_scope.

Definition run_nesting (args : list bytes) : bytes :=
  match args with
  | [input; limit] =>
      match parse_int limit with
      | Some l =>
          match json_nesting_exceeds input l with
          | Ret true => bs "true"
          | Ret false => bs "false"
          | Crash => bs "crash"
          end
      | None => bs "badargs"
      end
  | _ => bs "badargs"
  end.

Definition ops_C18 : list (bytes * (list bytes -> bytes)) :=
  [ (bs "C18.nopanic", fun _ => bs "nopanic");
    (bs "C18.nesting", run_nesting) ].
