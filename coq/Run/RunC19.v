(* Executable entry points of the C19 models: sequential semantics of the DNS cache, and the
   worker pool's result as sequential evaluation / as the union. *)
From Verif Require Import Lib.Bytes Net.DnsCache Net.WellKnown Keys.FetchPool Net.TransportCache.
Open Scope N_scope.

Definition n_of (s : bytes) : N := match parse_dec s with Some n => n | None => 0 end.
Definition bar : bytes := [124].
Definition nl : bytes := [10].
Definition fields (s : bytes) : list bytes := split_all 124 s [].

(* ---------- DNS cache, one goroutine ----------
   args: size; duration in seconds; then one operation per argument:
     L|host|answer      lookup; empty answer = the resolver fails
     A|seconds          every entry ages by that many seconds (the harness moves the expiry
                        instants back: the clock of the real cache cannot be set)
     X|host|answer      DialContext to a closed port: lookup, every dial fails, and if the
                        entry came from the cache it is deleted and looked up once more
                        (the result is not observable, only its effect on the cache)
   Time: virtual seconds * 10^9 + the number of clock readings taken so far (real time only
   moves forward a little between readings; what matters is that it does).
   Output per operation: result ; cache content sorted by host is produced by the harness, the
   model prints its entries through a sort on host. *)
Definition giga : Z := 1000000000.

Record dstate := { d_es : list entry; d_virt : Z; d_tick : Z; d_hits : N }.

Definition d_now (s : dstate) : Z := (d_virt s * giga + d_tick s)%Z.
Definition tick (s : dstate) : dstate :=
  {| d_es := d_es s; d_virt := d_virt s; d_tick := (d_tick s + 1)%Z; d_hits := d_hits s |}.

(* insertion sort of entries by host, for printing *)
Fixpoint ins_sorted (e : entry) (l : list entry) : list entry :=
  match l with
  | [] => [e]
  | x :: r => if bytes_leb (e_host e) (e_host x) then e :: l else x :: ins_sorted e r
  end.
Definition sort_entries (l : list entry) : list entry := fold_right ins_sorted [] l.

Definition show_entries (es : list entry) : bytes :=
  join_bytes (bs ",") (map (fun e => e_host e ++ bs "=" ++ e_addrs e) (sort_entries es)).

(* one lookup: returns new state and the result text; None = the eviction loop spins *)
Definition do_lookup (size : nat) (dur : Z) (h ans : bytes) (s : dstate) : option (dstate * bytes) :=
  let s1 := tick s in
  match check_section (d_now s1) h (d_es s1) with
  | (es1, Some a) =>
      Some ({| d_es := es1; d_virt := d_virt s1; d_tick := d_tick s1; d_hits := d_hits s1 |},
            bs "hit:" ++ a)
  | (es1, None) =>
      let s2 := {| d_es := es1; d_virt := d_virt s1; d_tick := d_tick s1; d_hits := d_hits s1 + 1 |} in
      match ans with
      | [] => Some (s2, bs "fail")
      | _ =>
          let s3 := tick s2 in
          match insert_section size (dur * giga) (d_now s3) h ans (d_es s3) with
          | Some es3 => Some ({| d_es := es3; d_virt := d_virt s3; d_tick := d_tick s3; d_hits := d_hits s3 |},
                              bs "miss:" ++ ans)
          | None => None
          end
      end
  end.

Definition do_op (size : nat) (dur : Z) (op : bytes) (s : dstate) : option (dstate * bytes) :=
  match fields op with
  | [k; h; ans] =>
      if bytes_eqb k (bs "L") then do_lookup size dur h ans s
      else if bytes_eqb k (bs "X") then
        match do_lookup size dur h ans s with
        | None => None
        | Some (s1, r1) =>
            if is_prefix (bs "hit:") r1 then
              let s2 := {| d_es := remove_host h (d_es s1); d_virt := d_virt s1; d_tick := d_tick s1; d_hits := d_hits s1 |} in
              match do_lookup size dur h ans s2 with
              | None => None
              | Some (s3, _) => Some (s3, bs "x")
              end
            else Some (s1, bs "x")
        end
      else None
  | [k; secs] =>
      if bytes_eqb k (bs "A")
      then Some ({| d_es := d_es s; d_virt := (d_virt s + Z.of_N (n_of secs))%Z; d_tick := d_tick s; d_hits := d_hits s |},
                 bs "aged")
      else None
  | _ => None
  end.

Fixpoint run_ops (size : nat) (dur : Z) (ops : list bytes) (s : dstate) (acc : list bytes) : list bytes :=
  match ops with
  | [] => rev acc
  | op :: r =>
      match do_op size dur op s with
      | None => rev (bs "SPIN-OR-BADOP" :: acc)
      | Some (s', res) =>
          run_ops size dur r s'
                  ((res ++ bs ";" ++ print_dec (d_hits s') ++ bs ";" ++ show_entries (d_es s')) :: acc)
      end
  end.

Definition run_dns_seq (args : list bytes) : bytes :=
  match args with
  | size :: dur :: ops =>
      join_bytes nl (run_ops (N.to_nat (n_of size)) (Z.of_N (n_of dur)) ops
                             {| d_es := []; d_virt := 0; d_tick := 0; d_hits := 0 |} [])
  | _ => bs "badargs"
  end.

(* specification oracle over the observable alone: after every operation the cache holds at
   most size hosts; a hit for h carries the answer of the latest earlier resolution of h, and
   fewer than duration seconds of ageing lie in between *)
Fixpoint count_byte (c : N) (s : bytes) : N :=
  match s with [] => 0 | x :: r => (if x =? c then 1 else 0) + count_byte c r end.

Definition listed_hosts (content : bytes) : N :=
  match content with [] => 0 | _ => 1 + count_byte 44 content end.

(* memory of the oracle: host -> (last resolved answer, virtual seconds at that time) *)
Fixpoint last_res (h : bytes) (m : list (bytes * (bytes * N))) : option (bytes * N) :=
  match m with
  | [] => None
  | (h', v) :: r => if bytes_eqb h h' then Some v else last_res h r
  end.

Definition check_result (dur : N) (h res : bytes) (virt : N) (m : list (bytes * (bytes * N)))
  : bool * list (bytes * (bytes * N)) :=
  if is_prefix (bs "hit:") res then
    (match last_res h m with
     | Some (a, t0) => bytes_eqb (drop 4 res) a && (virt <? t0 + dur)
     | None => false
     end, m)
  else if is_prefix (bs "miss:") res then (true, (h, (drop 5 res, virt)) :: m)
  else (bytes_eqb res (bs "fail"), m).

Fixpoint oracle_ops (size dur : N) (ops lines : list bytes) (virt : N)
         (m : list (bytes * (bytes * N))) : bytes :=
  match ops, lines with
  | [], [] => bs "ok"
  | op :: ro, line :: rl =>
      match split_all 59 line [] with
      | [res; _; content] =>
          if size <? listed_hosts content then bs "FAIL more entries than the configured size"
          else
            match fields op with
            | [k; h; ans] =>
                if bytes_eqb k (bs "X") then
                  (* whatever happened, a later hit may only carry this answer *)
                  oracle_ops size dur ro rl virt (match ans with [] => m | _ => (h, (ans, virt)) :: m end)
                else
                let '(okr, m') := check_result dur h res virt m in
                if okr then oracle_ops size dur ro rl virt m' else bs "FAIL stale or foreign answer: " ++ line
            | [k; secs] => oracle_ops size dur ro rl (virt + n_of secs) m
            | _ => bs "badop"
            end
      | _ => bs "FAIL line shape: " ++ line
      end
  | _, _ => bs "FAIL number of lines"
  end.

Definition prop_dns_seq (args : list bytes) : bytes :=
  match args with
  | size :: dur :: rest =>
      let ops := removelast rest in
      let obs := last rest [] in
      if bytes_eqb obs (bs "timeout")
      then bs "FAIL a call on the cache did not return (never deadlocks: is the mutex held by a spinning loop?)"
      else oracle_ops (n_of size) (n_of dur) ops (split_all 10 obs []) 0 []
  | _ => bs "badargs"
  end.

(* ---------- worker pool ----------
   args: nlocal; local key ids...; local name; nservers; per server: name; direct outcome;
         notary outcome (ok | anything else);
         ncur; cur key ids...; nold; old key ids...;   then the queries: server; key id; ...
   value of a key: cur / old / local.  Output: one line per query, then the number of distinct
   keys in the result. *)
Fixpoint take_n (n : nat) (l : list bytes) : list bytes * list bytes :=
  match n, l with
  | S n', x :: r => let '(a, b) := take_n n' r in (x :: a, b)
  | _, _ => ([], l)
  end.

Fixpoint parse_servers (fuel n : nat) (args : list bytes)
  : list (bytes * option kmap) * list bytes :=
  match fuel, n with
  | S f, S n' =>
      match args with
      | name :: direct :: notary :: ncur :: r =>
          let '(cur, r1) := take_n (N.to_nat (n_of ncur)) r in
          match r1 with
          | nold :: r2 =>
              let '(old, r3) := take_n (N.to_nat (n_of nold)) r2 in
              let m : kmap := map (fun k => ((name, k), bs "cur")) cur ++ map (fun k => ((name, k), bs "old")) old in
              let '(rest, tail) := parse_servers f n' r3 in
              (* fetchKeysForServer, then fetchNotaryKeysForServer; a response without a
                 current ed25519 key fails CheckKeys *)
              let good := negb (N.to_nat (n_of ncur) =? 0)%nat
                          && (bytes_eqb direct (bs "ok") || bytes_eqb notary (bs "ok")) in
              ((name, if good then Some m else None) :: rest, tail)
          | [] => ([], [])
          end
      | _ => ([], [])
      end
  | _, _ => ([], args)
  end.

Fixpoint fetch_of (t : list (bytes * option kmap)) (s : bytes) : option kmap :=
  match t with
  | [] => None
  | (n, o) :: r => if bytes_eqb n s then o else fetch_of r s
  end.

Fixpoint distinct_keys (m : kmap) : N :=
  match m with
  | [] => 0
  | (k, _) :: r => (if has k r then 0 else 1) + distinct_keys r
  end.

Fixpoint answer_queries (look : key -> option bytes) (q : list bytes) : list bytes :=
  match q with
  | s :: k :: r => (s ++ bar ++ k ++ bs "=" ++ match look (s, k) with Some v => v | None => bs "-" end)
                   :: answer_queries look r
  | _ => []
  end.

Definition union_fn (rs : list kmap) (init : kmap) (k : key) : option bytes :=
  match find (has k) rs with
  | Some r => value_in k r
  | None => mget k init
  end.

Definition run_fetch_with (as_union : bool) (args : list bytes) : bytes :=
  match args with
  | nlocal :: r0 =>
      let '(lk, r1) := take_n (N.to_nat (n_of nlocal)) r0 in
      match r1 with
      | lname :: nserv :: r2 =>
          let local : kmap := map (fun k => ((lname, k), bs "local")) lk in
          let '(tbl, queries) := parse_servers (length r2) (N.to_nat (n_of nserv)) r2 in
          let jobs := map fst tbl in
          let final := fetch_sequential (fetch_of tbl) jobs local in
          let look := if as_union then union_fn (outcome_maps (fetch_of tbl) jobs) local
                      else fun k => mget k final in
          join_bytes nl (answer_queries look queries ++ [bs "n=" ++ print_dec (distinct_keys final)])
      | _ => bs "badargs"
      end
  | _ => bs "badargs"
  end.

Definition run_fetch_keys := run_fetch_with false.
Definition prop_fetch_keys (args : list bytes) : bytes :=
  let a := removelast args in
  let obs := last args [] in
  let want := run_fetch_with true a in
  if bytes_eqb want obs then bs "ok" else bs "FAIL want=" ++ firstn 300 want.

(* ---------- N concurrent misses for distinct hosts held at a barrier inside the resolver ----------
   args: size; n.  All n lookups are past their first critical section before any inserts.
   Whatever the order of the n insertions (the model's S_insert steps), each evicts down to
   size - 1 first: the entry count never exceeds size (dns_size_bounded) and ends at min n size. *)
Definition run_dns_barrier (args : list bytes) : bytes :=
  match args with
  | [size; n] =>
      let m := N.min (n_of size) (n_of n) in
      bs "max=" ++ print_dec m ++ bs ";final=" ++ print_dec m
  | _ => bs "badargs"
  end.

Definition prop_dns_barrier (args : list bytes) : bytes :=
  match args with
  | [size; n; obs] =>
      match split_all 59 obs [] with
      | [mx; fin] =>
          if is_prefix (bs "max=") mx && is_prefix (bs "final=") fin then
            if (n_of (drop 4 mx) <=? n_of size) && (n_of (drop 6 fin) <=? n_of size) then bs "ok"
            else bs "FAIL more entries than the configured size (dns_size_bounded): " ++ obs
          else bs "FAIL " ++ obs
      | _ => bs "FAIL " ++ firstn 200 obs
      end
  | _ => bs "badargs"
  end.

(* ---------- transport cache, one goroutine ----------
   args: one operation per argument:  G|name  getTransport;  A|seconds  every lastUsed ages;
   R  one reaper pass.  Output per operation: the token handed out (G) / reaped / aged, then
   the cache content name=token sorted by name.  Lifetime 300 s; time as for the DNS cache. *)
Definition t_lifetime : Z := (300 * giga)%Z.

Fixpoint tins_sorted (e : tentry) (l : list tentry) : list tentry :=
  match l with
  | [] => [e]
  | x :: r => if bytes_leb (t_name e) (t_name x) then e :: l else x :: tins_sorted e r
  end.
Definition show_tentries (es : list tentry) : bytes :=
  join_bytes (bs ",") (map (fun e => t_name e ++ bs "=" ++ print_dec (t_id e)) (fold_right tins_sorted [] es)).

Fixpoint run_tops (ops : list bytes) (es : list tentry) (next : N) (virt tick : Z) (acc : list bytes)
  : list bytes :=
  match ops with
  | [] => rev acc
  | op :: r =>
      let now := (virt * giga + tick + 1)%Z in
      match fields op with
      | [k; x] =>
          if bytes_eqb k (bs "G") then
            let '(es', nx, id) := get_section now x next es in
            run_tops r es' nx virt (tick + 1) ((bs "t" ++ print_dec id ++ bs ";" ++ show_tentries es') :: acc)
          else if bytes_eqb k (bs "A") then
            run_tops r es next (virt + Z.of_N (n_of x)) tick ((bs "aged;" ++ show_tentries es) :: acc)
          else rev (bs "badop" :: acc)
      | [k] =>
          match reap_section t_lifetime now es with
          | Some es' => run_tops r es' next virt (tick + 1) ((bs "reaped;" ++ show_tentries es') :: acc)
          | None => rev (bs "PANIC" :: acc)
          end
      | _ => rev (bs "badop" :: acc)
      end
  end.

Definition run_transport_seq (args : list bytes) : bytes :=
  join_bytes nl (run_tops args [] 0 0 0 []).

(* the stress scenarios assert, after every operation of every goroutine, the invariants proved
   for the models (size bound, no expired / foreign answer, union of results, one transport per
   name, reaper meets only stored lastUsed, equal event IDs); the observable is ok or the first
   violated invariant (or the race detector's report) *)
Definition prop_invariants_held (args : list bytes) : bytes :=
  let obs := last args [] in
  if bytes_eqb obs (bs "ok") then bs "ok" else bs "FAIL invariant violated under concurrency: " ++ firstn 300 obs.

Definition ops_C19 : list (bytes * (list bytes -> bytes)) :=
  [ (bs "C19.dns_seq", run_dns_seq);
    (bs "C19.prop.dns_seq", prop_dns_seq);
    (bs "C19.fetch_keys", run_fetch_keys);
    (bs "C19.prop.fetch_keys", prop_fetch_keys);
    (bs "C19.dns_barrier", run_dns_barrier);
    (bs "C19.prop.dns_barrier", prop_dns_barrier);
    (bs "C19.transport_seq", run_transport_seq);
    (bs "C19.prop.invariants_held", prop_invariants_held);
    (bs "C19.const_ok", fun _ => bs "ok") ].
