(* Executable entry points of the C20 model for the correspondence check. *)
From Verif Require Import Lib.Bytes Tokens.Model Tokens.Instance.
Open Scope N_scope.

Definition verdict (b : bool) : bytes := if b then bs "ok" else bs "refused".
Definition z_of (s : bytes) : Z := match parse_int s with Some z => z | None => 0%Z end.
Definition nl : bytes := [10].

(* [key; id; key'; user'; now; cav...] *)
Definition run_validate_minted (args : list bytes) : bytes :=
  match args with
  | key :: id :: key' :: user' :: now :: cavs =>
      verdict (t_validate key' user' (z_of now) (t_mint key id cavs))
  | _ => bs "badargs"
  end.

(* [key; user; t0; d] -> id, then the caveats, one per line *)
Definition run_issue (args : list bytes) : bytes :=
  match args with
  | [key; user; t0; d] =>
      let t := t_issue key user (z_of t0) (z_of d) in
      join_bytes nl (tid t :: tcavs t)
  | _ => bs "badargs"
  end.

(* [key; user; t0; d; key'; user'; now; appended caveat or empty] *)
Definition run_validate_issued (args : list bytes) : bytes :=
  match args with
  | [key; user; t0; d; key'; user'; now; extra] =>
      let t := t_issue key user (z_of t0) (z_of d) in
      let t' := match extra with [] => t | _ => t_add_caveat t extra end in
      verdict (t_validate key' user' (z_of now) t')
  | _ => bs "badargs"
  end.

Definition run_verify_expiry (args : list bytes) : bytes :=
  match args with
  | [t; now] => if verify_expiry t (z_of now) then bs "true" else bs "false"
  | _ => bs "badargs"
  end.

(* property oracle (specification side, closed form; does not use the model's caveat loop):
   [key; user; t0; d; key'; user'; now; extra; impl verdict] *)
Definition prop_validate_issued (args : list bytes) : bytes :=
  match args with
  | [key; user; t0; d; key'; user'; now; extra; impl] =>
      let want := bytes_eqb key key' && bytes_eqb user user'
                  && (z_of now <? z_of t0 + duration_of (z_of d))%Z
                  && match extra with [] => true | _ => false end in
      if bytes_eqb impl (verdict want) then bs "ok"
      else bs "FAIL want=" ++ verdict want ++ bs " impl=" ++ impl
  | _ => bs "badargs"
  end.

Definition ops_C20 : list (bytes * (list bytes -> bytes)) :=
  [ (bs "C20.validate_minted", run_validate_minted);
    (bs "C20.issue", run_issue);
    (bs "C20.validate_issued", run_validate_issued);
    (bs "C20.verify_expiry", run_verify_expiry);
    (bs "C20.const_refused", fun _ => bs "refused");
    (bs "C20.prop.validate_issued", prop_validate_issued) ].
