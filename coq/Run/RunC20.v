(* Executable entry points of the C20 model for the correspondence check. *)
From Verif Require Import Lib.Bytes Tokens.Model Tokens.Instance.
Open Scope N_scope.

Definition verdict (b : bool) : bytes := if b then bs "ok" else bs "refused".
Definition z_of (s : bytes) : Z := match parse_int s with Some z => z | None => 0%Z end.
Definition nl : bytes := [10].

(* [key; id; key'; user'; now; cav...] *)
Definition run_validate_minted (args : list bytes) : bytes :=
  match args with
  | key :: id :: key' :: user' :: now :: cavs =>
      verdict (t_validate key' user' (z_of now) (t_mint key id cavs))
  | _ => bs "badargs"
  end.

(* [key; user; t0; d] -> id, then the caveats, one per line *)
Definition run_issue (args : list bytes) : bytes :=
  match args with
  | [key; user; t0; d] =>
      let t := t_issue key user (z_of t0) (z_of d) in
      join_bytes nl (tid t :: tcavs t)
  | _ => bs "badargs"
  end.

(* [key; user; t0; d; key'; user'; now; appended caveat or empty] *)
Definition run_validate_issued (args : list bytes) : bytes :=
  match args with
  | [key; user; t0; d; key'; user'; now; extra] =>
      let t := t_issue key user (z_of t0) (z_of d) in
      let t' := match extra with [] => t | _ => t_add_caveat t extra end in
      verdict (t_validate key' user' (z_of now) t')
  | _ => bs "badargs"
  end.

Definition run_verify_expiry (args : list bytes) : bytes :=
  match args with
  | [t; now] => if verify_expiry t (z_of now) then bs "true" else bs "false"
  | _ => bs "badargs"
  end.

(* [srv; loc; key; user; now]: a token issued under server name loc (now, 3600 s), validated at once
   by a server that names itself srv (empty: gives no name) *)
Definition run_validate_at (args : list bytes) : bytes :=
  match args with
  | [srv; loc; key; user; now] =>
      verdict (t_validate_at srv loc key user (z_of now) (t_issue key user (z_of now) 3600))
  | _ => bs "badargs"
  end.

(* specification: the token authenticates the issuing server - a validating server that names
   itself accepts it exactly when that is the name it was issued under *)
Definition prop_validate_at (args : list bytes) : bytes :=
  match args with
  | [srv; loc; key; user; now; impl] =>
      let want := match srv with [] => true | _ => bytes_eqb srv loc end in
      if bytes_eqb impl (verdict want) then bs "ok"
      else bs "FAIL want=" ++ verdict want ++ bs " impl=" ++ impl
  | _ => bs "badargs"
  end.

(* property oracle (specification side, closed form; does not use the model's caveat loop):
   [key; user; t0; d; key'; user'; now; extra; impl verdict] *)
Definition prop_validate_issued (args : list bytes) : bytes :=
  match args with
  | [key; user; t0; d; key'; user'; now; extra; impl] =>
      let want := bytes_eqb key key' && bytes_eqb user user'
                  && (z_of now <? Z.min (z_of t0 + duration_of (z_of d)) (2 ^ 63 - 1))%Z
                  && match extra with [] => true | _ => false end in
      if bytes_eqb impl (verdict want) then bs "ok"
      else bs "FAIL want=" ++ verdict want ++ bs " impl=" ++ impl
  | _ => bs "badargs"
  end.

(* specification oracle for issuing: the token names the user and carries exactly gen, the user
   caveat and an expiry of t0 + duration (120 when 0), as Unix seconds.
   [key; user; t0; d; impl output] *)
Definition prop_issue (args : list bytes) : bytes :=
  match args with
  | [key; user; t0; d; impl] =>
      let dur := if (z_of d =? 0)%Z then 120%Z else z_of d in
      let want := join_bytes nl [user; bs "gen = 1"; bs "user_id = " ++ user;
                                 bs "time < " ++ print_int (Z.min (z_of t0 + dur) (2 ^ 63 - 1))%Z] in
      if bytes_eqb impl want then bs "ok" else bs "FAIL want=" ++ want
  | _ => bs "badargs"
  end.

(* specification oracle for arbitrary caveat lists (closed form, independent of the model's loop):
   accepted iff same key and the caveats are exactly gen, the user caveat for user' and one
   time caveat with a parsable expiry in the future, in any order.
   [key; id; key'; user'; now; cav...; impl verdict] *)
Definition count_if (f : bytes -> bool) (l : list bytes) : nat := length (filter f l).
Definition prop_validate_minted (args : list bytes) : bytes :=
  match args with
  | key :: id :: key' :: user' :: now :: rest =>
      match rev rest with
      | impl :: rcavs =>
          let cavs := rev rcavs in
          let is_gen c := bytes_eqb c gen_caveat in
          let is_user c := bytes_eqb c (user_prefix ++ user') in
          let is_time c := is_prefix time_prefix c &&
                           verify_expiry (drop (length time_prefix) c) (z_of now) in
          let want := bytes_eqb key key' && Nat.eqb (length cavs) 3 &&
                      Nat.eqb (count_if is_gen cavs) 1 && Nat.eqb (count_if is_user cavs) 1 &&
                      Nat.eqb (count_if is_time cavs) 1 in
          if bytes_eqb impl (verdict want) then bs "ok"
          else bs "FAIL want=" ++ verdict want ++ bs " impl=" ++ impl
      | [] => bs "badargs"
      end
  | _ => bs "badargs"
  end.

Definition ops_C20 : list (bytes * (list bytes -> bytes)) :=
  [ (bs "C20.validate_minted", run_validate_minted);
    (bs "C20.issue", run_issue);
    (bs "C20.validate_issued", run_validate_issued);
    (bs "C20.verify_expiry", run_verify_expiry);
    (bs "C20.validate_at", run_validate_at);
    (bs "C20.prop.validate_at", prop_validate_at);
    (bs "C20.const_refused", fun _ => bs "refused");
    (bs "C20.const_ok", fun _ => bs "ok");
    (bs "C20.prop.validate_issued", prop_validate_issued);
    (bs "C20.prop.validate_minted", prop_validate_minted);
    (bs "C20.prop.issue", prop_issue) ].
