(* Unpadded base64 as spec/base64.go uses it (model, no proofs).
   Encode: base64.RawStdEncoding.EncodeToString.
   Decode: Base64Bytes.Decode - the URL-safe alphabet when the text contains '-' or '_', else
   the standard one; Go's decoder skips CR and LF anywhere, accepts no padding character in the
   Raw encodings, rejects a trailing single character, and (non-strict mode) ignores the unused
   low bits of a trailing 2- or 3-character group. *)
From Verif Require Import Lib.Bytes.
Open Scope N_scope.

Definition b64_char (n : N) : N :=
  if n <? 26 then 65 + n
  else if n <? 52 then 71 + n
  else if n <? 62 then n - 4
  else if n =? 62 then 43
  else 47.

Fixpoint b64_encode (s : bytes) : bytes :=
  match s with
  | [] => []
  | [a] => [b64_char (a / 4); b64_char ((a mod 4) * 16)]
  | [a; b] => [b64_char (a / 4); b64_char ((a mod 4) * 16 + b / 16); b64_char ((b mod 16) * 4)]
  | a :: b :: c :: r =>
      b64_char (a / 4) :: b64_char ((a mod 4) * 16 + b / 16)
        :: b64_char ((b mod 16) * 4 + c / 64) :: b64_char (c mod 64) :: b64_encode r
  end.

(* value of one character; url = URL-safe alphabet *)
Definition b64_val (url : bool) (c : N) : option N :=
  if (65 <=? c) && (c <=? 90) then Some (c - 65)
  else if (97 <=? c) && (c <=? 122) then Some (c - 71)
  else if (48 <=? c) && (c <=? 57) then Some (c + 4)
  else if url then (if c =? 45 then Some 62 else if c =? 95 then Some 63 else None)
  else (if c =? 43 then Some 62 else if c =? 47 then Some 63 else None).

Fixpoint b64_vals (url : bool) (s : bytes) : option (list N) :=
  match s with
  | [] => Some []
  | c :: r => match b64_val url c, b64_vals url r with
              | Some v, Some vs => Some (v :: vs)
              | _, _ => None
              end
  end.

Fixpoint b64_groups (vs : list N) : option bytes :=
  match vs with
  | [] => Some []
  | [_] => None
  | [a; b] => Some [a * 4 + b / 16]
  | [a; b; c] => Some [a * 4 + b / 16; (b mod 16) * 16 + c / 4]
  | a :: b :: c :: d :: r =>
      match b64_groups r with
      | Some out => Some ((a * 4 + b / 16) :: ((b mod 16) * 16 + c / 4) :: ((c mod 4) * 64 + d) :: out)
      | None => None
      end
  end.

Definition is_crlf (c : N) : bool := (c =? 10) || (c =? 13).
Definition has_url_char (s : bytes) : bool := existsb (fun c => (c =? 45) || (c =? 95)) s.

Definition b64_decode (s : bytes) : option bytes :=
  match b64_vals (has_url_char s) (filter (fun c => negb (is_crlf c)) s) with
  | Some vs => b64_groups vs
  | None => None
  end.
