(* Base64 round trip: decoding the unpadded standard encoding of a byte string gives it back. *)
From Verif Require Import Lib.Bytes Sign.Base64.
From Coq Require Import Lia ZArith.
Open Scope N_scope.

Ltac Zify.zify_post_hook ::= Z.to_euclidean_division_equations.

Definition bytes_wf (s : bytes) : Prop := Forall (fun b => b < 256) s.

Ltac fc := unfold bytes_wf; repeat (apply Forall_cons; [cbv beta; lia|]); try apply Forall_nil.

(* induction in steps of three *)
Lemma list_ind3 {A} (P : list A -> Prop) :
  P [] -> (forall a, P [a]) -> (forall a b, P [a; b]) ->
  (forall a b c r, P r -> P (a :: b :: c :: r)) -> forall l, P l.
Proof.
  intros H0 H1 H2 H3.
  fix IH 1. intros [|a [|b [|c r]]]; [apply H0|apply H1|apply H2|apply H3; apply IH].
Qed.

(* the sextets of the encoding *)
Fixpoint enc_vals (s : bytes) : list N :=
  match s with
  | [] => []
  | [a] => [a / 4; (a mod 4) * 16]
  | [a; b] => [a / 4; (a mod 4) * 16 + b / 16; (b mod 16) * 4]
  | a :: b :: c :: r =>
      a / 4 :: (a mod 4) * 16 + b / 16 :: (b mod 16) * 4 + c / 64 :: c mod 64 :: enc_vals r
  end.

Lemma encode_as_map s : b64_encode s = map b64_char (enc_vals s).
Proof.
  induction s as [| a | a b | a b c r IH] using list_ind3; try reflexivity.
  cbn [b64_encode enc_vals map]. rewrite IH. reflexivity.
Qed.

Lemma enc_vals_small s : bytes_wf s -> Forall (fun v => v < 64) (enc_vals s).
Proof.
  induction s as [| a | a b | a b c r IH] using list_ind3; intro W; cbn [enc_vals].
  - constructor.
  - inversion W; subst. fc.
  - inversion W as [|? ? Ha W']; subst. inversion W'; subst. fc.
  - inversion W as [|? ? Ha W1]; subst. inversion W1 as [|? ? Hb W2]; subst.
    inversion W2 as [|? ? Hc W3]; subst.
    fc. apply IH. exact W3.
Qed.

Lemma groups_enc_vals s : bytes_wf s -> b64_groups (enc_vals s) = Some s.
Proof.
  induction s as [| a | a b | a b c r IH] using list_ind3; intro W; cbn [enc_vals b64_groups].
  - reflexivity.
  - inversion W; subst. do 2 f_equal. lia.
  - inversion W as [|? ? Ha W']; subst. inversion W'; subst. do 2 f_equal; [lia|]. f_equal. lia.
  - inversion W as [|? ? Ha W1]; subst. inversion W1 as [|? ? Hb W2]; subst.
    inversion W2 as [|? ? Hc W3]; subst.
    rewrite (IH W3). do 2 f_equal; [lia|]. f_equal; [lia|]. f_equal. lia.
Qed.

(* facts about the 64 characters of the alphabet, by enumeration *)
Fixpoint nrange (n : nat) : list N :=
  match n with O => [] | S n' => N.of_nat n' :: nrange n' end.

Lemma nrange_in n x : x < N.of_nat n -> In x (nrange n).
Proof.
  induction n as [|n IH]; intro H; [lia|].
  cbn [nrange]. destruct (N.eq_dec x (N.of_nat n)) as [->|Hne]; [left; reflexivity|].
  right. apply IH. lia.
Qed.

Definition char_ok (n : N) : bool :=
  match b64_val false (b64_char n) with Some m => m =? n | None => false end
  && negb (is_crlf (b64_char n))
  && negb ((b64_char n =? 45) || (b64_char n =? 95)).

Lemma char_ok_all : forallb char_ok (nrange 64) = true.
Proof. vm_compute. reflexivity. Qed.

Lemma char_ok_lt n : n < 64 -> char_ok n = true.
Proof.
  intro H. pose proof char_ok_all as A. rewrite forallb_forall in A. apply A.
  apply (nrange_in 64). exact H.
Qed.

Lemma vals_of_chars vs : Forall (fun v => v < 64) vs -> b64_vals false (map b64_char vs) = Some vs.
Proof.
  induction 1 as [|v vs Hv _ IH]; [reflexivity|].
  cbn [map b64_vals]. rewrite IH.
  pose proof (char_ok_lt v Hv) as C. unfold char_ok in C.
  apply andb_true_iff in C as [C _]. apply andb_true_iff in C as [C _].
  destruct (b64_val false (b64_char v)) as [m|]; [|discriminate].
  apply N.eqb_eq in C. subst. reflexivity.
Qed.

Lemma chars_plain vs : Forall (fun v => v < 64) vs ->
  filter (fun c => negb (is_crlf c)) (map b64_char vs) = map b64_char vs /\
  has_url_char (map b64_char vs) = false.
Proof.
  induction 1 as [|v vs Hv _ [IH1 IH2]]; [split; reflexivity|].
  pose proof (char_ok_lt v Hv) as C. unfold char_ok in C.
  apply andb_true_iff in C as [C C3]. apply andb_true_iff in C as [_ C2].
  cbn [map filter has_url_char existsb]. rewrite C2, IH1. split; [reflexivity|].
  apply negb_true_iff in C3. rewrite C3. exact IH2.
Qed.

Theorem b64_roundtrip s : bytes_wf s -> b64_decode (b64_encode s) = Some s.
Proof.
  intro W. unfold b64_decode. rewrite encode_as_map.
  pose proof (enc_vals_small s W) as S.
  destruct (chars_plain _ S) as [F U]. rewrite F, U, (vals_of_chars _ S).
  apply groups_enc_vals. exact W.
Qed.

(* whatever decodes is a string of bytes *)
Lemma vals_small url s vs : b64_vals url s = Some vs -> Forall (fun v => v < 64) vs.
Proof.
  revert vs. induction s as [|c r IH]; intros vs H; cbn [b64_vals] in H.
  - inversion H. constructor.
  - destruct (b64_val url c) as [v|] eqn:V; [|discriminate].
    destruct (b64_vals url r) as [vs'|]; [|discriminate]. inversion H; subst.
    constructor; [|apply IH; reflexivity].
    unfold b64_val in V.
    repeat match type of V with
           | (if ?b then _ else _) = _ => destruct b eqn:?; try discriminate
           end; inversion V; subst; clear V;
    repeat match goal with
           | H : (_ && _) = true |- _ => apply andb_true_iff in H as [? ?]
           | H : (_ <=? _) = true |- _ => apply N.leb_le in H
           | H : (_ =? _) = true |- _ => apply N.eqb_eq in H
           end; lia.
Qed.

Lemma list_ind4 {A} (P : list A -> Prop) :
  P [] -> (forall a, P [a]) -> (forall a b, P [a; b]) -> (forall a b c, P [a; b; c]) ->
  (forall a b c d r, P r -> P (a :: b :: c :: d :: r)) -> forall l, P l.
Proof.
  intros H0 H1 H2 H3 H4.
  fix IH 1. intros [|a [|b [|c [|d r]]]]; [apply H0|apply H1|apply H2|apply H3|apply H4; apply IH].
Qed.

Lemma groups_wf vs : Forall (fun v => v < 64) vs -> forall out, b64_groups vs = Some out -> bytes_wf out.
Proof.
  induction vs as [| a | a b | a b c | a b c d r IH] using list_ind4; intros S out H.
  - inversion H. constructor.
  - discriminate.
  - cbn in H. inversion H; subst. inversion S as [|? ? Ha S1]; subst. inversion S1; subst.
    fc.
  - cbn in H. inversion H; subst. inversion S as [|? ? Ha S1]; subst.
    inversion S1 as [|? ? Hb S2]; subst. inversion S2; subst. fc.
  - cbn [b64_groups] in H. destruct (b64_groups r) as [o|] eqn:G; [|discriminate].
    inversion H; subst.
    inversion S as [|? ? Ha S1]; subst. inversion S1 as [|? ? Hb S2]; subst.
    inversion S2 as [|? ? Hc S3]; subst. inversion S3 as [|? ? Hd S4]; subst.
    fc. apply (IH S4). reflexivity.
Qed.

Theorem b64_decode_wf s out : b64_decode s = Some out -> bytes_wf out.
Proof.
  unfold b64_decode. intro H.
  destruct (b64_vals _ _) as [vs|] eqn:V; [|discriminate].
  eapply groups_wf; [eapply vals_small; exact V|exact H].
Qed.
