(* The premises of the C02 theorems (record ideal_sig) are satisfiable: a scheme whose signature
   is the pair (public key, message), written as byte strings whatever numbers the lists hold
   (32 key bytes reduced mod 256, then every message element in unary).  Proof-side only; the
   extracted model runs with the simpler Sign/Instance.v (same pair idea, message copied). *)
From Verif Require Import Lib.Bytes Sign.Base64Facts Sign.Instance Sign.Proofs.
From Coq Require Import Lia.
Open Scope N_scope.

Definition clamp32 (k : bytes) : bytes := map (fun b => b mod 256) (take32 32 k).

Fixpoint unary (m : bytes) : bytes :=
  match m with
  | [] => []
  | x :: r => repeat 1 (N.to_nat x) ++ 0 :: unary r
  end.

Definition u_sign (k m : bytes) : bytes := clamp32 k ++ unary m.
Definition u_pk_ok (p : bytes) : bool := (N.of_nat (length p) =? 32) && forallb (fun b => b <? 256) p.
Definition u_verify (p m s : bytes) : bool := u_pk_ok p && bytes_eqb s (p ++ unary m).
Definition u_sig_ok (s : bytes) : bool := true.

Lemma take32_length n k : length (take32 n k) = n.
Proof. revert k. induction n as [|n IH]; intro k; simpl; [reflexivity|]. destruct k; simpl; rewrite IH; reflexivity. Qed.

Lemma take32_self k : take32 (length k) k = k.
Proof. induction k as [|c k IH]; simpl; [reflexivity|]. rewrite IH. reflexivity. Qed.

Lemma clamp32_length k : length (clamp32 k) = 32%nat.
Proof. unfold clamp32. rewrite map_length. apply take32_length. Qed.

Lemma clamp32_wf k : bytes_wf (clamp32 k).
Proof.
  unfold clamp32, bytes_wf. apply Forall_forall. intros x H. apply in_map_iff in H as [y [<- _]].
  apply N.mod_lt. discriminate.
Qed.

Lemma clamp32_id p : u_pk_ok p = true -> clamp32 p = p.
Proof.
  unfold u_pk_ok. intro H. apply andb_true_iff in H as [L F]. apply N.eqb_eq in L.
  assert (L' : length p = 32%nat) by lia.
  unfold clamp32. rewrite <- L', take32_self.
  clear L L'. induction p as [|c p IH]; [reflexivity|].
  simpl in F. apply andb_true_iff in F as [C F]. apply N.ltb_lt in C.
  simpl. rewrite (N.mod_small c 256 C), (IH F). reflexivity.
Qed.

Lemma clamp32_pk_ok k : u_pk_ok (clamp32 k) = true.
Proof.
  unfold u_pk_ok. rewrite clamp32_length. simpl.
  pose proof (clamp32_wf k) as W. unfold bytes_wf in W. rewrite Forall_forall in W.
  apply forallb_forall. intros x H. apply N.ltb_lt. apply W. exact H.
Qed.

Lemma unary_wf m : bytes_wf (unary m).
Proof.
  induction m as [|x r IH]; simpl; [constructor|].
  apply Forall_app. split.
  - apply Forall_forall. intros y H. apply repeat_spec in H. subst. reflexivity.
  - constructor; [reflexivity|exact IH].
Qed.

Lemma repeat_sep (a b : nat) ra rb :
  repeat 1 a ++ 0 :: ra = repeat 1 b ++ 0 :: rb -> a = b /\ ra = rb.
Proof.
  revert b. induction a as [|a IH]; intros [|b] H; simpl in H.
  - inversion H. split; reflexivity.
  - discriminate.
  - discriminate.
  - inversion H as [H']. destruct (IH b H') as [-> ->]. split; reflexivity.
Qed.

Lemma unary_inj m : forall m', unary m = unary m' -> m = m'.
Proof.
  induction m as [|x r IH]; intros [|y r'] H; simpl in H.
  - reflexivity.
  - exfalso. symmetry in H. apply app_eq_nil in H as [_ H]. discriminate.
  - exfalso. apply app_eq_nil in H as [_ H]. discriminate.
  - apply repeat_sep in H as [A B]. apply N2Nat.inj in A. subst. f_equal. apply IH. exact B.
Qed.

Lemma app_eq_length {A} (a a' b b' : list A) :
  length a = length a' -> a ++ b = a' ++ b' -> a = a' /\ b = b'.
Proof.
  revert a'. induction a as [|x a IH]; intros [|y a'] L H; simpl in *; try discriminate.
  - split; [reflexivity|exact H].
  - inversion H; subst. injection L as L. destruct (IH a' L H2) as [-> ->]. split; reflexivity.
Qed.

Theorem unary_scheme_is_ideal : ideal_sig clamp32 u_sign u_verify u_sig_ok u_pk_ok.
Proof.
  constructor.
  - intros k m. unfold u_verify, u_sign. rewrite clamp32_pk_ok, bytes_eqb_refl. reflexivity.
  - intros p m s H. unfold u_verify in H. apply andb_true_iff in H as [P E].
    apply bytes_eqb_eq in E. exists p. unfold u_sign. rewrite (clamp32_id p P). split; [reflexivity|exact E].
  - intros k m k' m' H. unfold u_sign in H.
    apply app_eq_length in H as [A B]; [|rewrite !clamp32_length; reflexivity].
    split; [exact A|apply unary_inj; exact B].
  - reflexivity.
  - apply clamp32_pk_ok.
  - intros k m. unfold u_sign, bytes_wf. apply Forall_app. split; [apply clamp32_wf|apply unary_wf].
Qed.
