(* The symbolic signature scheme the extracted model runs with: a signature is the pair
   (public key, message), written as the 32 key bytes followed by the message.  A key is any
   byte string, its public key the first 32 bytes (zero-padded); the harness uses the 32-byte
   ed25519 seed as the model key, so that equal model keys = equal real keys.
   Sign/Proofs.v shows this instance satisfies the premises of the C02 theorems. *)
From Verif Require Import Lib.Bytes Json.Ast Sign.Model.
Open Scope N_scope.

Fixpoint take32 (n : nat) (s : bytes) : bytes :=
  match n with
  | O => []
  | S n' => match s with [] => 0 :: take32 n' [] | c :: r => c :: take32 n' r end
  end.

Definition sym_pub (k : bytes) : bytes := take32 32 k.
Definition sym_sign (k m : bytes) : bytes := sym_pub k ++ m.
Definition sym_pk_size_ok (p : bytes) : bool := (N.of_nat (length p) =? 32).
Definition sym_verify (p m s : bytes) : bool := sym_pk_size_ok p && bytes_eqb s (p ++ m).
(* a symbolic signature has no fixed size; the size test of VerifyJSON cannot be observed
   through accept/reject (a real signature of another size is rejected by ed25519 anyway) *)
Definition sym_sig_size_ok (s : bytes) : bool := true.

Definition s_sign_value := sign_value bytes sym_sign.
Definition s_verify_value := verify_value sym_verify sym_sig_size_ok sym_pk_size_ok.
Definition s_sign_json := sign_json bytes sym_sign.
Definition s_verify_json := verify_json sym_verify sym_sig_size_ok sym_pk_size_ok.
