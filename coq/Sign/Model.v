(* Model of signing.go: SignJSON, VerifyJSON, ListKeyIDs (as repaired by the three fix: commits:
   members matched by exact name, null signature maps, public-key length check).
   Works on the JSON value (Json/Ast.v); the text-level functions compose with the shared
   reference parser parse_json and the canonical printer canon_print.

   What stands for what:
     json.Unmarshal into map[string]RawMessage        -> the value must be an object (or null)
     object[signatures] -> map[string]map[KeyID]Base64Bytes
                                                     -> decode_sigs (null | object of (null | object
                                                        of (null | base64 string)))
     sjson.DeleteBytes x2 / delete(object, ..) x2    -> strip (drop the two members)
     CanonicalJSON                                    -> canon_print
     json.Marshal(signatures) + SetRawBytes + CanonicalJSON
                                                     -> encode_sigs, members appended, canon_print
   The signature scheme (ed25519) is a parameter: Section variables, constrained only in the
   theorems (Sign/Proofs.v, record ideal_sig).  Objects with duplicate keys are outside the
   domain (Go maps keep the last duplicate; assoc_last mirrors that for lookups only). *)
From Verif Require Import Lib.Bytes Json.Ast Json.Parse Json.Print Sign.Base64 Fed.Utf8C13.
Open Scope N_scope.

Definition k_signatures : bytes := bs "signatures".
Definition k_unsigned : bytes := bs "unsigned".

(* entity -> (None: JSON null | Some (key id -> signature bytes)) *)
Definition sigmap := list (bytes * option (list (bytes * bytes))).

(* Base64Bytes.UnmarshalJSON: a JSON string that is base64, or null (decodes to no bytes) *)
Definition decode_sig (j : json) : option bytes :=
  match j with
  | JNull => Some []
  | JStr s => b64_decode s
  | _ => None
  end.

(* decoding every member value of an object, failing when one fails (what json.Unmarshal does
   for a Go map with a typed element) *)
Fixpoint traverse {A B} (f : A -> option B) (m : list (bytes * A)) : option (list (bytes * B)) :=
  match m with
  | [] => Some []
  | (k, v) :: m' =>
      match f v, traverse f m' with
      | Some b, Some r => Some ((k, b) :: r)
      | _, _ => None
      end
  end.

Definition decode_inner (m : list (bytes * json)) : option (list (bytes * bytes)) :=
  traverse decode_sig m.

Definition decode_entity (j : json) : option (option (list (bytes * bytes))) :=
  match j with
  | JNull => Some None
  | JObj m => match decode_inner m with Some r => Some (Some r) | None => None end
  | _ => None
  end.

Definition decode_outer (m : list (bytes * json)) : option sigmap := traverse decode_entity m.

(* the value of the signatures member; null gives the empty (nil) map *)
Definition decode_sigs (j : json) : option sigmap :=
  match j with
  | JNull => Some []
  | JObj m => decode_outer m
  | _ => None
  end.

Definition encode_inner (inner : list (bytes * bytes)) : json :=
  JObj (map (fun ks => (fst ks, JStr (b64_encode (snd ks)))) inner).

Definition encode_entity (e : option (list (bytes * bytes))) : json :=
  match e with None => JNull | Some inner => encode_inner inner end.

Definition encode_sigs (sm : sigmap) : json :=
  JObj (map (fun ne => (fst ne, encode_entity (snd ne))) sm).

(* Go map assignment m[k] = v: any earlier binding of k is gone, the others stay *)
Definition assoc_put {A} (k : bytes) (v : A) (m : list (bytes * A)) : list (bytes * A) :=
  filter (fun kv => negb (bytes_eqb k (fst kv))) m ++ [(k, v)].

(* preserve.Signatures[name][kid] = signature *)
Definition merge_sig (name kid s : bytes) (sm : sigmap) : sigmap :=
  match assoc_last name sm with
  | Some (Some inner) => assoc_put name (Some (assoc_put kid s inner)) sm
  | _ => assoc_put name (Some [(kid, s)]) sm
  end.

Definition lookup_sig (name kid : bytes) (sm : sigmap) : option bytes :=
  match assoc_last name sm with
  | Some (Some inner) => assoc_last kid inner
  | _ => None
  end.

Definition is_meta (k : bytes) : bool := bytes_eqb k_signatures k || bytes_eqb k_unsigned k.

Definition strip_members (m : list (bytes * json)) : list (bytes * json) :=
  filter (fun kv => negb (is_meta (fst kv))) m.

(* the part of the value the signature covers *)
Definition strip (v : json) : json :=
  match v with JObj m => JObj (strip_members m) | _ => v end.

(* Go map semantics for the top-level members (VerifyJSON decodes into a map and marshals the
   map again): of several members with the same name only the last one survives.  Finding F69:
   SignJSON signs the text with all of them. *)
Fixpoint dedup_last {A} (m : list (bytes * A)) : list (bytes * A) :=
  match m with
  | [] => []
  | (k, v) :: m' =>
      match assoc_last k m' with
      | Some _ => dedup_last m'
      | None => (k, v) :: dedup_last m'
      end
  end.

(* the part of the value VerifyJSON checks the signature against *)
Definition verified_part (v : json) : json :=
  match v with JObj m => JObj (dedup_last (strip_members m)) | _ => v end.

(* what json.Unmarshal into a Go map accepts: an object, or null (leaves the map nil) *)
Definition top_members (v : json) : option (list (bytes * json)) :=
  match v with
  | JObj m => Some m
  | JNull => Some []
  | _ => None
  end.

(* the entry signatures[name][kid] as VerifyJSON reads it since repair F61: only this entry is
   decoded, the entries of other entities and the other key IDs of this one cannot matter.
   signatures must be an object, signatures[name] an object (null: no entry), the entry a base64
   string (null: the empty signature) *)
Definition sig_entry (name kid : bytes) (j : json) : option json :=
  match j with
  | JObj sm => match assoc_last name sm with
               | Some (JObj inner) => assoc_last kid inner
               | _ => None
               end
  | _ => None
  end.

Definition sig_at (name kid : bytes) (v : json) : option bytes :=
  match v with
  | JObj m =>
      match assoc_last k_signatures m with
      | Some j => match sig_entry name kid j with Some e => decode_sig e | None => None end
      | None => None
      end
  | _ => None
  end.

Section Scheme.
  Variable key : Type.
  Variable pub : key -> bytes.
  Variable sign : key -> bytes -> bytes.
  Variable verify : bytes -> bytes -> bytes -> bool.   (* public key, message, signature *)
  Variable sig_size_ok : bytes -> bool.                (* len(signature) == ed25519.SignatureSize *)
  Variable pk_size_ok : bytes -> bool.                 (* len(publicKey) == ed25519.PublicKeySize *)

  (* SignJSON on the value; None = an error is returned *)
  Definition sign_value (name kid : bytes) (k : key) (v : json) : option json :=
    match top_members v with
    | None => None
    | Some m =>
        match (match assoc_last k_signatures m with
               | None => Some []
               | Some j => decode_sigs j
               end) with
        | None => None
        | Some sm =>
            let s := sign k (canon_print (strip v)) in
            Some (JObj (strip_members m
                        ++ (k_signatures, encode_sigs (merge_sig name kid s sm))
                        :: match assoc_last k_unsigned m with
                           | Some u => [(k_unsigned, u)]
                           | None => []
                           end))
        end
    end.

  (* VerifyJSON on the value; true = nil error *)
  Definition verify_value (name kid p : bytes) (v : json) : bool :=
    match sig_at name kid v with
    | Some s => sig_size_ok s && pk_size_ok p && verify p (canon_print (verified_part v)) s
    | None => false
    end.

  (* SignJSON refuses a text that is not UTF-8 (repair F70) *)
  Definition sign_json (name kid : bytes) (k : key) (t : bytes) : option bytes :=
    if negb (utf8_valid t) then None else
    match parse_json t with
    | Some v => option_map canon_print (sign_value name kid k v)
    | None => None
    end.

  Definition verify_json (name kid p : bytes) (t : bytes) : bool :=
    match parse_json t with
    | Some v => verify_value name kid p v
    | None => false
    end.
End Scheme.

(* ListKeyIDs: the members of signatures[name]; values need not be signatures.
   None = error. The Go result has map order; compared as a set. *)
Definition list_key_ids_value (name : bytes) (v : json) : option (list bytes) :=
  match top_members v with
  | None => None
  | Some m =>
      match assoc_last k_signatures m with
      | None => Some []
      | Some JNull => Some []
      | Some (JObj sm) =>
          (* only the entry of the named entity is decoded (repair F61) *)
          match assoc_last name sm with
          | None => Some []
          | Some JNull => Some []
          | Some (JObj inner) => Some (map fst inner)
          | Some _ => None
          end
      | Some _ => None
      end
  end.

Definition list_key_ids (name : bytes) (t : bytes) : option (list bytes) :=
  match parse_json t with
  | Some v => list_key_ids_value name v
  | None => None
  end.
