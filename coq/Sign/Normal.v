(* Re-serialisation: VerifyJSON's verdict depends on a value only up to member order and
   number spelling.  normalise / jequiv are the definitions of C01 (Json/Render.v); the one fact
   taken from C01 here is CanonFacts.canon_print_normalise:
   canon_print (normalise v) = canon_print v. *)
From Verif Require Import Lib.Bytes Json.Ast Json.Parse Json.Print Sign.Base64 Sign.Model Sign.Proofs.
From Verif Require Export Json.Render.
From Verif Require Import Json.CanonFacts.
From Coq Require Import Sorting.Sorted.
Open Scope N_scope.

Definition map_vals {A B} (f : A -> B) (m : list (bytes * A)) : list (bytes * B) :=
  map (fun kv => (fst kv, f (snd kv))) m.

Lemma normalise_obj m : normalise (JObj m) = JObj (sort_members (map_vals normalise m)).
Proof. reflexivity. Qed.

(* ---- order on keys ---- *)
Lemma leb_total a b : bytes_leb a b = false -> bytes_leb b a = true.
Proof.
  unfold bytes_leb. rewrite (bytes_cmp_antisym a b). destruct (bytes_cmp a b); simpl; congruence.
Qed.

Lemma leb_trans a b c : bytes_leb a b = true -> bytes_leb b c = true -> bytes_leb a c = true.
Proof.
  unfold bytes_leb. intros H1 H2.
  destruct (bytes_cmp a b) eqn:E1; try discriminate.
  - apply bytes_cmp_eq in E1. subst. exact H2.
  - destruct (bytes_cmp b c) eqn:E2; try discriminate.
    + apply bytes_cmp_eq in E2. subst. rewrite E1. reflexivity.
    + rewrite (bytes_cmp_trans_lt a b c E1 E2). reflexivity.
Qed.

Definition kle {A} (a b : bytes * A) : Prop := bytes_leb (fst a) (fst b) = true.

Lemma insert_head {A} (kv : bytes * A) l :
  Forall (kle kv) l -> insert_member kv l = kv :: l.
Proof.
  destruct l as [|kv' l]; [reflexivity|]. intro F. inversion F as [|? ? H _]; subst.
  simpl. unfold kle in H. rewrite H. reflexivity.
Qed.

Lemma insert_in {A} (kv x : bytes * A) l : In x (insert_member kv l) -> x = kv \/ In x l.
Proof.
  induction l as [|kv' l IH]; simpl.
  - intros [H|[]]. left. congruence.
  - destruct (bytes_leb (fst kv) (fst kv')).
    + intros [H|H]; [left; congruence|right; exact H].
    + intros [H|H]; [right; left; exact H|]. destruct (IH H); [left; assumption|right; right; assumption].
Qed.

Lemma insert_sorted {A} (kv : bytes * A) l :
  StronglySorted kle l -> StronglySorted kle (insert_member kv l).
Proof.
  induction 1 as [|kv' l S IH F]; simpl.
  - repeat constructor.
  - destruct (bytes_leb (fst kv) (fst kv')) eqn:E.
    + constructor; [constructor; assumption|].
      constructor; [exact E|]. rewrite Forall_forall in *. intros x Hx. unfold kle in *.
      eapply leb_trans; [exact E|apply F; exact Hx].
    + constructor; [exact IH|]. rewrite Forall_forall in *. intros x Hx.
      destruct (insert_in _ _ _ Hx) as [->|Hx']; [apply leb_total; exact E|apply F; exact Hx'].
Qed.

Lemma sort_sorted {A} (l : list (bytes * A)) : StronglySorted kle (sort_members l).
Proof. induction l as [|kv l IH]; simpl; [constructor|apply insert_sorted; exact IH]. Qed.

(* ---- filtering on keys commutes with sorting ---- *)
Lemma filter_insert {A} (P : bytes -> bool) (kv : bytes * A) l :
  StronglySorted kle l ->
  filter (fun x => P (fst x)) (insert_member kv l) =
  if P (fst kv) then insert_member kv (filter (fun x => P (fst x)) l) else filter (fun x => P (fst x)) l.
Proof.
  induction 1 as [|kv' l S IH F]; simpl.
  - destruct (P (fst kv)); reflexivity.
  - destruct (bytes_leb (fst kv) (fst kv')) eqn:E.
    + simpl. destruct (P (fst kv)) eqn:Pk; [|reflexivity].
      symmetry. apply insert_head.
      apply Forall_forall. intros x Hx.
      assert (Hin : In x (kv' :: l)).
      { change (In x (filter (fun x => P (fst x)) (kv' :: l))) in Hx. apply filter_In in Hx. tauto. }
      destruct Hin as [<-|Hin]; [exact E|].
      rewrite Forall_forall in F. unfold kle in *. eapply leb_trans; [exact E|apply F; exact Hin].
    + simpl. destruct (P (fst kv')) eqn:Pk'.
      * rewrite IH. destruct (P (fst kv)); [|reflexivity]. simpl. rewrite E. reflexivity.
      * exact IH.
Qed.

Lemma filter_sort {A} (P : bytes -> bool) (l : list (bytes * A)) :
  filter (fun x => P (fst x)) (sort_members l) = sort_members (filter (fun x => P (fst x)) l).
Proof.
  induction l as [|kv l IH]; [reflexivity|].
  change (sort_members (kv :: l)) with (insert_member kv (sort_members l)).
  rewrite (filter_insert P kv _ (sort_sorted l)), IH. simpl.
  destruct (P (fst kv)); reflexivity.
Qed.

(* ---- the sort is stable: the last binding of a key is the same before and after ---- *)
Lemma assoc_last_insert {A} k k' (v : A) l :
  assoc_last k (insert_member (k', v) l) =
  match assoc_last k l with
  | Some x => Some x
  | None => if bytes_eqb k k' then Some v else None
  end.
Proof.
  induction l as [|[k0 v0] l IH]; simpl.
  - rewrite assoc_last_cons, assoc_last_nil. reflexivity.
  - destruct (bytes_leb k' k0) eqn:E.
    + rewrite assoc_last_cons. reflexivity.
    + rewrite !assoc_last_cons, IH. destruct (assoc_last k l); [reflexivity|].
      destruct (bytes_eqb k k') eqn:E1; [|destruct (bytes_eqb k k0); reflexivity].
      destruct (bytes_eqb k k0) eqn:E0; [|reflexivity].
      (* k = k' = k0 contradicts k0 < k' *)
      apply bytes_eqb_eq in E1. apply bytes_eqb_eq in E0. subst k' k0.
      unfold bytes_leb in E. assert (C : bytes_cmp k k = Eq) by (apply bytes_cmp_eq; reflexivity).
      rewrite C in E. discriminate.
Qed.

Lemma assoc_last_sort {A} k (l : list (bytes * A)) : assoc_last k (sort_members l) = assoc_last k l.
Proof.
  induction l as [|[k' v] l IH]; [reflexivity|].
  change (sort_members ((k', v) :: l)) with (insert_member (k', v) (sort_members l)).
  rewrite assoc_last_insert, IH, assoc_last_cons. reflexivity.
Qed.

Lemma assoc_last_map_vals {A B} (f : A -> B) k (m : list (bytes * A)) :
  assoc_last k (map_vals f m) = option_map f (assoc_last k m).
Proof.
  induction m as [|[k' v] m IH]; [reflexivity|].
  unfold map_vals in *. simpl. rewrite !assoc_last_cons, IH.
  destruct (assoc_last k m); simpl; [reflexivity|]. destruct (bytes_eqb k k'); reflexivity.
Qed.

(* ---- sorting is natural in the values ---- *)
Lemma traverse_insert {A B} (f : A -> option B) k a l :
  traverse f (insert_member (k, a) l) =
  match f a, traverse f l with
  | Some b, Some r => Some (insert_member (k, b) r)
  | _, _ => None
  end.
Proof.
  induction l as [|[k' a'] l IH]; simpl.
  - destruct (f a); reflexivity.
  - destruct (bytes_leb k k') eqn:E; simpl.
    + destruct (f a); [|reflexivity]. destruct (f a'); [|reflexivity].
      destruct (traverse f l); [|reflexivity]. simpl. rewrite E. reflexivity.
    + rewrite IH. destruct (f a'); destruct (f a); try reflexivity;
        destruct (traverse f l); try reflexivity. simpl. rewrite E. reflexivity.
Qed.

Lemma traverse_sort {A B} (f : A -> option B) (l : list (bytes * A)) :
  traverse f (sort_members l) = option_map sort_members (traverse f l).
Proof.
  induction l as [|[k a] l IH]; [reflexivity|].
  change (sort_members ((k, a) :: l)) with (insert_member (k, a) (sort_members l)).
  rewrite traverse_insert, IH. simpl. destruct (f a); [|reflexivity].
  destruct (traverse f l); reflexivity.
Qed.

Lemma traverse_map_vals {A B C} (f : B -> option C) (g : A -> B) (m : list (bytes * A)) :
  traverse f (map_vals g m) = traverse (fun a => f (g a)) m.
Proof.
  induction m as [|[k a] m IH]; [reflexivity|]. unfold map_vals in *. simpl. rewrite IH. reflexivity.
Qed.

Lemma traverse_ext {A B} (f g : A -> option B) (m : list (bytes * A)) :
  (forall a, f a = g a) -> traverse f m = traverse g m.
Proof.
  intro E. induction m as [|[k a] m IH]; [reflexivity|]. simpl. rewrite E, IH. reflexivity.
Qed.

Lemma traverse_post {A B C} (f : A -> option B) (h : B -> C) (m : list (bytes * A)) :
  traverse (fun a => option_map h (f a)) m = option_map (map_vals h) (traverse f m).
Proof.
  induction m as [|[k a] m IH]; [reflexivity|]. simpl. rewrite IH.
  destruct (f a); [|reflexivity]. destruct (traverse f m); reflexivity.
Qed.

Lemma filter_map_vals {A B} (P : bytes -> bool) (f : A -> B) (m : list (bytes * A)) :
  filter (fun x => P (fst x)) (map_vals f m) = map_vals f (filter (fun x => P (fst x)) m).
Proof.
  induction m as [|[k a] m IH]; [reflexivity|]. unfold map_vals in *. simpl.
  destruct (P k); simpl; rewrite IH; reflexivity.
Qed.

(* ---- the signature map of a normalised value ---- *)
Lemma decode_sig_normalise j : decode_sig (normalise j) = decode_sig j.
Proof. destruct j; reflexivity. Qed.

Definition sort_entity (e : option (list (bytes * bytes))) : option (list (bytes * bytes)) :=
  option_map sort_members e.

Lemma decode_entity_normalise j : decode_entity (normalise j) = option_map sort_entity (decode_entity j).
Proof.
  destruct j; try reflexivity.
  rewrite normalise_obj. cbn [decode_entity]. unfold decode_inner.
  rewrite traverse_sort, traverse_map_vals, (traverse_ext _ decode_sig _ decode_sig_normalise).
  destruct (traverse decode_sig m); reflexivity.
Qed.

Lemma decode_sigs_normalise j :
  decode_sigs (normalise j) =
  option_map (fun sm => sort_members (map_vals sort_entity sm)) (decode_sigs j).
Proof.
  destruct j; try reflexivity.
  rewrite normalise_obj. cbn [decode_sigs]. unfold decode_outer.
  rewrite traverse_sort, traverse_map_vals, (traverse_ext _ _ _ decode_entity_normalise), traverse_post.
  destruct (traverse decode_entity m); reflexivity.
Qed.

Lemma lookup_sig_sorted name kid sm :
  lookup_sig name kid (sort_members (map_vals sort_entity sm)) = lookup_sig name kid sm.
Proof.
  unfold lookup_sig. rewrite assoc_last_sort, assoc_last_map_vals.
  destruct (assoc_last name sm) as [[inner|]|]; simpl; try reflexivity.
  apply assoc_last_sort.
Qed.

Lemma sig_at_normalise name kid v : sig_at name kid (normalise v) = sig_at name kid v.
Proof.
  destruct v; try reflexivity.
  rewrite normalise_obj. unfold sig_at.
  rewrite assoc_last_sort, assoc_last_map_vals.
  destruct (assoc_last k_signatures m) as [j|]; [|reflexivity]. simpl.
  destruct j; try reflexivity.
  rewrite normalise_obj. unfold sig_entry. rewrite assoc_last_sort, assoc_last_map_vals.
  destruct (assoc_last name m0) as [e|]; [|reflexivity]. simpl.
  destruct e; try reflexivity.
  rewrite normalise_obj, assoc_last_sort, assoc_last_map_vals.
  destruct (assoc_last kid m1) as [x|]; [|reflexivity]. simpl. apply decode_sig_normalise.
Qed.

Lemma strip_normalise v : strip (normalise v) = normalise (strip v).
Proof.
  destruct v; try reflexivity.
  rewrite normalise_obj. unfold strip. rewrite normalise_obj. f_equal.
  rewrite !strip_members_as_filter.
  rewrite (filter_sort (fun k => negb (is_meta k))), (filter_map_vals (fun k => negb (is_meta k))). reflexivity.
Qed.

(* ---- what equivalence of two objects says member by member ---- *)
Lemma jequiv_obj_lookup a b k :
  jequiv (JObj a) (JObj b) -> option_map normalise (assoc_last k a) = option_map normalise (assoc_last k b).
Proof.
  unfold jequiv. rewrite !normalise_obj. intro H.
  assert (E : sort_members (map_vals normalise a) = sort_members (map_vals normalise b))
    by exact (f_equal (fun j => match j with JObj l => l | _ => [] end) H).
  apply (f_equal (assoc_last k)) in E. rewrite !assoc_last_sort, !assoc_last_map_vals in E. exact E.
Qed.

Lemma strip_lookup k (m : list (bytes * json)) : is_meta k = false -> assoc_last k (strip_members m) = assoc_last k m.
Proof.
  intro M. rewrite strip_members_as_filter, (assoc_last_filter (fun k => negb (is_meta k))), M. reflexivity.
Qed.

(* member key is bound differently in m' and m: to inequivalent values (value change, nested
   edit), or in only one of them (insertion, deletion) *)
Definition member_differs (key : bytes) (m' m : list (bytes * json)) : Prop :=
  match assoc_last key m', assoc_last key m with
  | Some x, Some y => ~ jequiv x y
  | None, None => False
  | _, _ => True
  end.

Lemma member_differs_not_jequiv key m' m :
  is_meta key = false -> member_differs key m' m -> ~ jequiv (strip (JObj m')) (strip (JObj m)).
Proof.
  intros M D E. simpl in E. apply (jequiv_obj_lookup _ _ key) in E.
  rewrite !(strip_lookup key _ M) in E. unfold member_differs in D.
  destruct (assoc_last key m') as [x|], (assoc_last key m) as [y|]; simpl in E; try discriminate; try contradiction.
  apply D. unfold jequiv. congruence.
Qed.

(* stripping keeps well-formedness (json_wf: every number literal is grammatical) *)
Lemma strip_wf v : json_wf v -> json_wf (strip v).
Proof.
  destruct v; try (intro H; exact H). unfold strip. rewrite !json_wf_obj, strip_members_as_filter.
  intro H. rewrite Forall_forall in *. intros x Hx. apply filter_In in Hx. apply H. tauto.
Qed.

(* the top-level member names other than signatures / unsigned are distinct *)
Definition top_no_repeats (v : json) : Prop :=
  match v with JObj m => no_repeats m | _ => True end.

Lemma verified_part_no_repeats v : top_no_repeats v -> verified_part v = strip v.
Proof. destruct v; try reflexivity. simpl. unfold no_repeats. intro H. rewrite H. reflexivity. Qed.

Section Reserialise.
  Context (verify : bytes -> bytes -> bytes -> bool) (sig_size_ok pk_size_ok : bytes -> bool).
  Notation verify_value := (verify_value verify sig_size_ok pk_size_ok).

  (* equivalent values (member order, integer spelling) without repeated member names get the
     same verdict.  (With a repeated name VerifyJSON looks at the last occurrence only: F69.) *)
  Theorem verify_respects_jequiv name kid p v v' :
    top_no_repeats v -> top_no_repeats v' ->
    jequiv v v' -> verify_value name kid p v = verify_value name kid p v'.
  Proof.
    intros N N' E. rewrite !(verify_value_spec verify sig_size_ok pk_size_ok).
    rewrite (verified_part_no_repeats v N), (verified_part_no_repeats v' N').
    rewrite <- (sig_at_normalise name kid v), <- (sig_at_normalise name kid v').
    rewrite <- (canon_print_normalise (strip v)), <- (canon_print_normalise (strip v')).
    rewrite <- !strip_normalise. unfold jequiv in E. rewrite E. reflexivity.
  Qed.
End Reserialise.

Section SignedNoRepeats.
  Context {key : Type} (pub : key -> bytes) (sign : key -> bytes -> bytes)
          (verify : bytes -> bytes -> bytes -> bool) (sig_size_ok pk_size_ok : bytes -> bool)
          (IS : ideal_sig pub sign verify sig_size_ok pk_size_ok).

  Lemma signed_top_no_repeats name kid k m o :
    no_repeats m -> sign_value key sign name kid k (JObj m) = Some o -> top_no_repeats o.
  Proof.
    intros N S.
    destruct (sign_preserves pub sign verify sig_size_ok pk_size_ok IS _ _ _ _ _ S) as [m' [sm [-> [E _]]]].
    simpl. unfold no_repeats in *. rewrite E. exact N.
  Qed.
End SignedNoRepeats.
