(* Proofs about the model of signing.go (Sign/Model.v) under an ideal signature scheme. *)
From Verif Require Import Lib.Bytes Json.Ast Json.Parse Json.Print Sign.Base64 Sign.Base64Facts Sign.Model Fed.Utf8C13.
Open Scope N_scope.

(* ------------------------------------------------------------------------------------ *)
(* association lists                                                                     *)

Lemma bytes_eqb_sym a b : bytes_eqb a b = bytes_eqb b a.
Proof.
  destruct (bytes_eqb a b) eqn:E.
  - apply bytes_eqb_eq in E. subst. symmetry. apply bytes_eqb_refl.
  - symmetry. apply bytes_eqb_neq. intro H. subst. rewrite bytes_eqb_refl in E. discriminate.
Qed.

Lemma assoc_last_acc_spec {A} k (m : list (bytes * A)) acc :
  assoc_last_acc k m acc = match assoc_last_acc k m None with Some x => Some x | None => acc end.
Proof.
  revert acc. induction m as [|[k' v] m IH]; intro acc; simpl; [reflexivity|].
  destruct (bytes_eqb k k').
  - rewrite (IH (Some v)). destruct (assoc_last_acc k m None); reflexivity.
  - apply IH.
Qed.

Lemma assoc_last_nil {A} k : @assoc_last A k [] = None.
Proof. reflexivity. Qed.

Lemma assoc_last_cons {A} k k' (v : A) m :
  assoc_last k ((k', v) :: m) =
  match assoc_last k m with
  | Some x => Some x
  | None => if bytes_eqb k k' then Some v else None
  end.
Proof.
  unfold assoc_last. simpl. destruct (bytes_eqb k k').
  - apply assoc_last_acc_spec.
  - destruct (assoc_last_acc k m None); reflexivity.
Qed.

Lemma assoc_last_app {A} k (a b : list (bytes * A)) :
  assoc_last k (a ++ b) = match assoc_last k b with Some x => Some x | None => assoc_last k a end.
Proof.
  induction a as [|[k' v] a IH]; simpl.
  - destruct (assoc_last k b); reflexivity.
  - rewrite !assoc_last_cons, IH. destruct (assoc_last k b); reflexivity.
Qed.

Lemma assoc_last_filter {A} (p : bytes -> bool) k (m : list (bytes * A)) :
  assoc_last k (filter (fun kv => p (fst kv)) m) = if p k then assoc_last k m else None.
Proof.
  induction m as [|[k' v] m IH]; simpl.
  - destruct (p k); reflexivity.
  - destruct (p k') eqn:P; simpl; rewrite ?assoc_last_cons, IH.
    + destruct (p k) eqn:Pk; [reflexivity|].
      destruct (bytes_eqb k k') eqn:E; [|destruct (assoc_last k m); reflexivity].
      apply bytes_eqb_eq in E. subst. congruence.
    + destruct (p k) eqn:Pk; [|reflexivity].
      destruct (bytes_eqb k k') eqn:E.
      * apply bytes_eqb_eq in E. subst. congruence.
      * destruct (assoc_last k m); reflexivity.
Qed.

Lemma assoc_last_put_same {A} k (v : A) m : assoc_last k (assoc_put k v m) = Some v.
Proof.
  unfold assoc_put. rewrite assoc_last_app, assoc_last_cons, assoc_last_nil, bytes_eqb_refl. reflexivity.
Qed.

Lemma assoc_last_put_other {A} k k' (v : A) m :
  k <> k' -> assoc_last k' (assoc_put k v m) = assoc_last k' m.
Proof.
  intro N. unfold assoc_put.
  rewrite assoc_last_app, assoc_last_cons, assoc_last_nil.
  assert (E : bytes_eqb k' k = false) by (apply bytes_eqb_neq; congruence).
  rewrite E.
  rewrite (assoc_last_filter (fun x => negb (bytes_eqb k x)) k' m).
  rewrite (bytes_eqb_sym k k'), E. reflexivity.
Qed.

(* ------------------------------------------------------------------------------------ *)
(* the two special member names                                                          *)

Lemma sig_ne_uns : bytes_eqb k_signatures k_unsigned = false.
Proof. reflexivity. Qed.
Lemma uns_ne_sig : bytes_eqb k_unsigned k_signatures = false.
Proof. reflexivity. Qed.
Lemma is_meta_sig : is_meta k_signatures = true.
Proof. reflexivity. Qed.
Lemma is_meta_uns : is_meta k_unsigned = true.
Proof. reflexivity. Qed.

Global Opaque k_signatures k_unsigned.

Lemma strip_members_as_filter (m : list (bytes * json)) :
  strip_members m = filter (fun kv => (fun k => negb (is_meta k)) (fst kv)) m.
Proof. reflexivity. Qed.

Lemma strip_members_idem m : strip_members (strip_members m) = strip_members m.
Proof.
  unfold strip_members. induction m as [|[k v] m IH]; simpl; [reflexivity|].
  destruct (is_meta k) eqn:E; simpl; [exact IH|]. rewrite E. simpl. rewrite IH. reflexivity.
Qed.

Lemma strip_members_app a b : strip_members (a ++ b) = strip_members a ++ strip_members b.
Proof. apply filter_app. Qed.

Lemma assoc_last_strip_meta k m : is_meta k = true -> assoc_last k (strip_members m) = None.
Proof.
  intro H. rewrite strip_members_as_filter, (assoc_last_filter (fun k => negb (is_meta k))).
  rewrite H. reflexivity.
Qed.

(* the unsigned member as SignJSON re-attaches it *)
Definition unsigned_part (m : list (bytes * json)) : list (bytes * json) :=
  match assoc_last k_unsigned m with Some u => [(k_unsigned, u)] | None => [] end.

(* the shape of every SignJSON result *)
Definition signed_obj (m : list (bytes * json)) (sm : sigmap) : json :=
  JObj (strip_members m ++ (k_signatures, encode_sigs sm) :: unsigned_part m).

Lemma strip_signed_obj m sm : strip (signed_obj m sm) = JObj (strip_members m).
Proof.
  unfold signed_obj, strip. f_equal.
  rewrite strip_members_app, strip_members_idem.
  assert (E : strip_members ((k_signatures, encode_sigs sm) :: unsigned_part m) = []).
  { unfold strip_members, unsigned_part. simpl. rewrite is_meta_sig. simpl.
    destruct (assoc_last k_unsigned m); simpl; [rewrite is_meta_uns|]; reflexivity. }
  rewrite E. apply app_nil_r.
Qed.

(* no member name other than signatures / unsigned occurs twice (stated the way it is used:
   dropping all but the last of each name changes nothing); follows from NoDup, see
   nodup_no_repeats at the end *)
Definition no_repeats (m : list (bytes * json)) : Prop :=
  dedup_last (strip_members m) = strip_members m.

Lemma verified_signed_obj m sm :
  verified_part (signed_obj m sm) = JObj (dedup_last (strip_members m)).
Proof.
  pose proof (strip_signed_obj m sm) as X. unfold signed_obj, strip in X.
  apply (f_equal (fun j => match j with JObj l => l | _ => [] end)) in X.
  unfold signed_obj, verified_part. rewrite X. reflexivity.
Qed.

Lemma signed_obj_signatures m sm :
  assoc_last k_signatures (strip_members m ++ (k_signatures, encode_sigs sm) :: unsigned_part m)
  = Some (encode_sigs sm).
Proof.
  rewrite assoc_last_app, assoc_last_cons. unfold unsigned_part.
  destruct (assoc_last k_unsigned m).
  - rewrite assoc_last_cons, assoc_last_nil, sig_ne_uns, bytes_eqb_refl. reflexivity.
  - rewrite assoc_last_nil, bytes_eqb_refl. reflexivity.
Qed.

Lemma signed_obj_unsigned m sm :
  assoc_last k_unsigned (strip_members m ++ (k_signatures, encode_sigs sm) :: unsigned_part m)
  = assoc_last k_unsigned m.
Proof.
  rewrite assoc_last_app, assoc_last_cons, uns_ne_sig. unfold unsigned_part.
  destruct (assoc_last k_unsigned m) as [u|].
  - rewrite assoc_last_cons, assoc_last_nil, bytes_eqb_refl. reflexivity.
  - rewrite assoc_last_nil. apply assoc_last_strip_meta. apply is_meta_uns.
Qed.

(* ------------------------------------------------------------------------------------ *)
(* signature maps: encoding and decoding                                                 *)

Definition inner_wf (inner : list (bytes * bytes)) : Prop := Forall (fun ks => bytes_wf (snd ks)) inner.
Definition entity_wf (e : option (list (bytes * bytes))) : Prop :=
  match e with None => True | Some inner => inner_wf inner end.
Definition sigmap_wf (sm : sigmap) : Prop := Forall (fun ne => entity_wf (snd ne)) sm.

(* generic facts about traverse *)
Lemma traverse_map {A B} (f : A -> option B) (g : B -> A) (Q : B -> Prop) (r : list (bytes * B)) :
  (forall b, Q b -> f (g b) = Some b) -> Forall (fun kb => Q (snd kb)) r ->
  traverse f (map (fun kb => (fst kb, g (snd kb))) r) = Some r.
Proof.
  intros FG. induction 1 as [|[k b] r W _ IH]; [reflexivity|].
  cbn [map traverse fst snd]. simpl in W. rewrite (FG b W), IH. reflexivity.
Qed.

Lemma traverse_Forall {A B} (f : A -> option B) (P : B -> Prop) m r :
  (forall a b, f a = Some b -> P b) -> traverse f m = Some r -> Forall (fun kb => P (snd kb)) r.
Proof.
  intro FP. revert r. induction m as [|[k v] m IH]; intros r H; simpl in H.
  - inversion H. constructor.
  - destruct (f v) as [b|] eqn:E; [|discriminate].
    destruct (traverse f m) as [r'|]; [|discriminate]. inversion H; subst.
    constructor; [exact (FP _ _ E)|apply IH; reflexivity].
Qed.

(* looking a key up after decoding = decoding what is found under the key *)
Lemma traverse_lookup {A B} (f : A -> option B) m r name :
  traverse f m = Some r ->
  match assoc_last name m with
  | Some a => exists b, f a = Some b /\ assoc_last name r = Some b
  | None => assoc_last name r = None
  end.
Proof.
  revert r. induction m as [|[k v] m IH]; intros r H; simpl in H.
  - inversion H. reflexivity.
  - destruct (f v) as [b|] eqn:E; [|discriminate].
    destruct (traverse f m) as [r'|]; [|discriminate]. inversion H; subst.
    specialize (IH r' eq_refl). rewrite !assoc_last_cons.
    destruct (assoc_last name m) as [a|].
    + destruct IH as [b' [F L]]. exists b'. rewrite L. split; [exact F|reflexivity].
    + rewrite IH. destruct (bytes_eqb name k); [|reflexivity].
      exists b. split; [exact E|reflexivity].
Qed.

Lemma decode_encode_inner inner : inner_wf inner ->
  decode_inner (map (fun ks => (fst ks, JStr (b64_encode (snd ks)))) inner) = Some inner.
Proof.
  apply (traverse_map decode_sig (fun s => JStr (b64_encode s)) bytes_wf).
  intros s W. simpl. apply b64_roundtrip. exact W.
Qed.

Lemma decode_encode_entity e : entity_wf e -> decode_entity (encode_entity e) = Some e.
Proof.
  destruct e as [inner|]; intro W; [|reflexivity].
  simpl. unfold encode_inner. cbn [decode_entity]. rewrite (decode_encode_inner inner W). reflexivity.
Qed.

Lemma decode_encode_sigs sm : sigmap_wf sm -> decode_sigs (encode_sigs sm) = Some sm.
Proof.
  intro W. unfold encode_sigs, decode_sigs, decode_outer.
  apply (traverse_map decode_entity encode_entity entity_wf); [apply decode_encode_entity|exact W].
Qed.

Lemma decode_sig_wf j s : decode_sig j = Some s -> bytes_wf s.
Proof.
  destruct j; simpl; try discriminate.
  - intro H. inversion H. constructor.
  - apply b64_decode_wf.
Qed.

Lemma decode_inner_wf m inner : decode_inner m = Some inner -> inner_wf inner.
Proof. apply traverse_Forall. exact decode_sig_wf. Qed.

Lemma decode_entity_wf j e : decode_entity j = Some e -> entity_wf e.
Proof.
  destruct j; simpl; try discriminate.
  - intro H. inversion H. exact I.
  - destruct (decode_inner m) as [r|] eqn:D; [|discriminate]. intro H. inversion H.
    exact (decode_inner_wf _ _ D).
Qed.

Lemma decode_outer_wf m sm : decode_outer m = Some sm -> sigmap_wf sm.
Proof. apply traverse_Forall. exact decode_entity_wf. Qed.

Lemma decode_sigs_wf j sm : decode_sigs j = Some sm -> sigmap_wf sm.
Proof.
  destruct j; simpl; try discriminate.
  - intro H. inversion H. constructor.
  - apply decode_outer_wf.
Qed.

Lemma assoc_last_wf {A} (P : A -> Prop) k (m : list (bytes * A)) x :
  Forall (fun kv => P (snd kv)) m -> assoc_last k m = Some x -> P x.
Proof.
  induction 1 as [|[k' v] m Hv _ IH]; [discriminate|].
  rewrite assoc_last_cons. destruct (assoc_last k m) as [y|].
  - intro H. inversion H; subst. apply IH. reflexivity.
  - destruct (bytes_eqb k k'); [|discriminate]. intro H. inversion H; subst. exact Hv.
Qed.

Lemma put_wf {A} (P : A -> Prop) k v (m : list (bytes * A)) :
  Forall (fun kv => P (snd kv)) m -> P v -> Forall (fun kv => P (snd kv)) (assoc_put k v m).
Proof.
  intros W Hv. unfold assoc_put. apply Forall_app. split.
  - rewrite Forall_forall in *. intros x Hx. apply filter_In in Hx. apply W. tauto.
  - constructor; [exact Hv|constructor].
Qed.

Lemma merge_sig_wf name kid s sm : sigmap_wf sm -> bytes_wf s -> sigmap_wf (merge_sig name kid s sm).
Proof.
  intros W Ws. unfold merge_sig.
  destruct (assoc_last name sm) as [[inner|]|] eqn:L.
  - apply (put_wf entity_wf); [exact W|]. simpl.
    apply (put_wf bytes_wf); [|exact Ws].
    exact (assoc_last_wf entity_wf name sm (Some inner) W L).
  - apply (put_wf entity_wf); [exact W|]. simpl. repeat constructor. exact Ws.
  - apply (put_wf entity_wf); [exact W|]. simpl. repeat constructor. exact Ws.
Qed.

Lemma lookup_merge_same name kid s sm : lookup_sig name kid (merge_sig name kid s sm) = Some s.
Proof.
  unfold lookup_sig, merge_sig.
  destruct (assoc_last name sm) as [[inner|]|]; rewrite assoc_last_put_same.
  - apply assoc_last_put_same.
  - rewrite assoc_last_cons, assoc_last_nil, bytes_eqb_refl. reflexivity.
  - rewrite assoc_last_cons, assoc_last_nil, bytes_eqb_refl. reflexivity.
Qed.

Lemma lookup_merge_other name kid s sm name' kid' :
  (name', kid') <> (name, kid) ->
  lookup_sig name' kid' (merge_sig name kid s sm) = lookup_sig name' kid' sm.
Proof.
  intro N. unfold lookup_sig, merge_sig.
  destruct (bytes_eqb name name') eqn:E.
  - apply bytes_eqb_eq in E. subst name'.
    assert (K : kid <> kid') by (intro; subst; apply N; reflexivity).
    destruct (assoc_last name sm) as [[inner|]|]; rewrite assoc_last_put_same.
    + apply assoc_last_put_other. exact K.
    + rewrite assoc_last_cons, assoc_last_nil.
      assert (E : bytes_eqb kid' kid = false) by (apply bytes_eqb_neq; congruence).
      rewrite E. reflexivity.
    + rewrite assoc_last_cons, assoc_last_nil.
      assert (E : bytes_eqb kid' kid = false) by (apply bytes_eqb_neq; congruence).
      rewrite E. reflexivity.
  - apply bytes_eqb_neq in E.
    destruct (assoc_last name sm) as [[inner|]|]; rewrite (assoc_last_put_other name name' _ sm E); reflexivity.
Qed.

(* changing only the unsigned member *)
Lemma strip_members_set_meta k u m : is_meta k = true -> strip_members (assoc_set k u m) = strip_members m.
Proof.
  intro M. unfold strip_members. induction m as [|[k' v'] m IH]; simpl.
  - rewrite M. reflexivity.
  - destruct (bytes_eqb k k') eqn:E; simpl.
    + apply bytes_eqb_eq in E. subst k'. rewrite M. reflexivity.
    + rewrite IH. reflexivity.
Qed.

Lemma assoc_last_set_other {A} k k' (u : A) m : k <> k' -> assoc_last k' (assoc_set k u m) = assoc_last k' m.
Proof.
  intro N. assert (E : bytes_eqb k' k = false) by (apply bytes_eqb_neq; congruence).
  induction m as [|[k0 v0] m IH]; simpl.
  - rewrite assoc_last_cons, assoc_last_nil, E. reflexivity.
  - destruct (bytes_eqb k k0) eqn:E0.
    + apply bytes_eqb_eq in E0. subst k0. rewrite !assoc_last_cons, E. reflexivity.
    + rewrite !assoc_last_cons, IH. reflexivity.
Qed.

Lemma strip_members_del_meta k (m : list (bytes * json)) : is_meta k = true ->
  strip_members (filter (fun kv => negb (bytes_eqb k (fst kv))) m) = strip_members m.
Proof.
  intro M. unfold strip_members. induction m as [|[k' v'] m IH]; simpl; [reflexivity|].
  destruct (bytes_eqb k k') eqn:E; simpl.
  - apply bytes_eqb_eq in E. subst k'. rewrite M. simpl. exact IH.
  - rewrite IH. reflexivity.
Qed.

(* ------------------------------------------------------------------------------------ *)
(* the scheme                                                                            *)

Record ideal_sig {key : Type} (pub : key -> bytes) (sign : key -> bytes -> bytes)
       (verify : bytes -> bytes -> bytes -> bool) (sig_size_ok pk_size_ok : bytes -> bool) : Prop := {
  sig_complete : forall k m, verify (pub k) m (sign k m) = true;
  sig_unforgeable : forall p m s, verify p m s = true -> exists k, p = pub k /\ s = sign k m;
  sign_inj : forall k m k' m', sign k m = sign k' m' -> pub k = pub k' /\ m = m';
  sig_size : forall k m, sig_size_ok (sign k m) = true;
  pk_size : forall k, pk_size_ok (pub k) = true;
  sig_bytes : forall k m, bytes_wf (sign k m)
}.

(* the signatures already on a value, as SignJSON reads them (None = SignJSON fails) *)
Definition sigs_of (m : list (bytes * json)) : option sigmap :=
  match assoc_last k_signatures m with
  | None => Some []
  | Some j => decode_sigs j
  end.

Lemma sigs_of_wf m sm : sigs_of m = Some sm -> sigmap_wf sm.
Proof.
  unfold sigs_of. destruct (assoc_last k_signatures m).
  - apply decode_sigs_wf.
  - intro H. inversion H. constructor.
Qed.

(* when the whole signature map decodes (as SignJSON demands), the entry VerifyJSON reads on its
   own is the one of the decoded map *)
Lemma sig_at_sigs_of name kid m sm :
  sigs_of m = Some sm -> sig_at name kid (JObj m) = lookup_sig name kid sm.
Proof.
  unfold sigs_of, sig_at, sig_entry, lookup_sig. destruct (assoc_last k_signatures m) as [j|].
  - destruct j; simpl; try discriminate.
    + intro H. inversion H. reflexivity.
    + rename m0 into jm. intro D. unfold decode_outer in D.
      pose proof (traverse_lookup decode_entity jm sm name D) as L.
      destruct (assoc_last name jm) as [a|].
      * destruct L as [e [E L]]. rewrite L.
        destruct a; simpl in E; try discriminate.
        { inversion E. reflexivity. }
        { rename m0 into inner. destruct (decode_inner inner) as [innerd|] eqn:DI; [|discriminate].
          inversion E; subst e. unfold decode_inner in DI.
          pose proof (traverse_lookup decode_sig inner innerd kid DI) as L2.
          destruct (assoc_last kid inner) as [x|].
          - destruct L2 as [sg [E2 L2]]. rewrite L2. exact E2.
          - rewrite L2. reflexivity. }
      * rewrite L. reflexivity.
  - intro H. inversion H. reflexivity.
Qed.

Lemma sig_at_signed_obj name kid m sm :
  sigmap_wf sm -> sig_at name kid (signed_obj m sm) = lookup_sig name kid sm.
Proof.
  intro W. unfold signed_obj. apply sig_at_sigs_of.
  unfold sigs_of. rewrite signed_obj_signatures. apply decode_encode_sigs. exact W.
Qed.

Section Scheme.
  Context {key : Type} (pub : key -> bytes) (sign : key -> bytes -> bytes)
          (verify : bytes -> bytes -> bytes -> bool) (sig_size_ok pk_size_ok : bytes -> bool).
  Notation sign_value := (sign_value key sign).
  Notation verify_value := (verify_value verify sig_size_ok pk_size_ok).

  (* verification, restated through sig_at *)
  Lemma verify_value_spec name kid p v :
    verify_value name kid p v =
    match sig_at name kid v with
    | Some s => sig_size_ok s && pk_size_ok p && verify p (canon_print (verified_part v)) s
    | None => false
    end.
  Proof. reflexivity. Qed.

  (* SignJSON on an object: when it succeeds, and what it returns *)
  Lemma sign_value_obj name kid k m :
    sign_value name kid k (JObj m) =
    match sigs_of m with
    | Some sm => Some (signed_obj m (merge_sig name kid (sign k (canon_print (JObj (strip_members m)))) sm))
    | None => None
    end.
  Proof.
    unfold Model.sign_value, sigs_of, signed_obj, unsigned_part. simpl.
    destruct (assoc_last k_signatures m) as [j|]; [destruct (decode_sigs j)|]; reflexivity.
  Qed.

  Lemma sigs_of_signed_obj m sm : sigmap_wf sm ->
    sigs_of (strip_members m ++ (k_signatures, encode_sigs sm) :: unsigned_part m) = Some sm.
  Proof.
    intro W. unfold sigs_of. rewrite signed_obj_signatures. apply decode_encode_sigs. exact W.
  Qed.

  Hypothesis IS : ideal_sig pub sign verify sig_size_ok pk_size_ok.

  Lemma verify_signed_own name kid k m sm :
    no_repeats m -> sigmap_wf sm ->
    verify_value name kid (pub k)
      (signed_obj m (merge_sig name kid (sign k (canon_print (JObj (strip_members m)))) sm)) = true.
  Proof.
    intros NR W. rewrite verify_value_spec, sig_at_signed_obj.
    - rewrite lookup_merge_same, verified_signed_obj, NR.
      rewrite (sig_size _ _ _ _ _ IS), (pk_size _ _ _ _ _ IS), (sig_complete _ _ _ _ _ IS). reflexivity.
    - apply merge_sig_wf; [exact W|apply (sig_bytes _ _ _ _ _ IS)].
  Qed.

  (* completeness: what SignJSON returns verifies under the signer's name, key ID and key *)
  Theorem sign_then_verify_value name kid k m o :
    no_repeats m ->
    sign_value name kid k (JObj m) = Some o -> verify_value name kid (pub k) o = true.
  Proof.
    intro NR. rewrite sign_value_obj. destruct (sigs_of m) as [sm|] eqn:S; [|discriminate].
    intro H. inversion H; subst. apply verify_signed_own; [exact NR|exact (sigs_of_wf _ _ S)].
  Qed.

  (* signing as (name, kid) changes nobody else's verdict, for any presented public key *)
  Theorem sign_keeps_other_verdicts name kid k m o name' kid' p :
    sign_value name kid k (JObj m) = Some o -> (name', kid') <> (name, kid) ->
    verify_value name' kid' p o = verify_value name' kid' p (JObj m).
  Proof.
    rewrite sign_value_obj. destruct (sigs_of m) as [sm|] eqn:S; [|discriminate].
    intros H N. inversion H; subst.
    rewrite !verify_value_spec, sig_at_signed_obj, verified_signed_obj.
    - rewrite (lookup_merge_other _ _ _ _ _ _ N), (sig_at_sigs_of _ _ _ _ S). reflexivity.
    - apply merge_sig_wf; [exact (sigs_of_wf _ _ S)|apply (sig_bytes _ _ _ _ _ IS)].
  Qed.

  (* a result of SignJSON can always be signed again *)
  Lemma sign_value_result_is_object name kid k m o :
    sign_value name kid k (JObj m) = Some o -> exists m', o = JObj m' /\ exists sm, sigs_of m' = Some sm.
  Proof.
    rewrite sign_value_obj. destruct (sigs_of m) as [sm|] eqn:S; [|discriminate].
    intro H. inversion H; subst. eexists. split; [reflexivity|].
    eexists. apply sigs_of_signed_obj.
    apply merge_sig_wf; [exact (sigs_of_wf _ _ S)|apply (sig_bytes _ _ _ _ _ IS)].
  Qed.

  (* further signers, one after the other *)
  Definition signer := (bytes * bytes * key)%type.
  Fixpoint sign_all (l : list signer) (v : json) : option json :=
    match l with
    | [] => Some v
    | (n, kd, k) :: l' =>
        match sign_value n kd k v with
        | Some v' => sign_all l' v'
        | None => None
        end
    end.

  Lemma sign_all_total l : forall m sm, sigs_of m = Some sm -> exists o, sign_all l (JObj m) = Some o.
  Proof.
    induction l as [|[[n kd] k] l IH]; intros m sm S; simpl.
    - eexists; reflexivity.
    - destruct (Model.sign_value key sign n kd k (JObj m)) as [v'|] eqn:E.
      + destruct (sign_value_result_is_object _ _ _ _ _ E) as [m' [-> [sm' S']]]. eapply IH. exact S'.
      + rewrite sign_value_obj, S in E. discriminate.
  Qed.

  Theorem verify_after_more_signers l : forall name kid p m o,
    Forall (fun s : signer => (fst (fst s), snd (fst s)) <> (name, kid)) l ->
    sign_all l (JObj m) = Some o ->
    verify_value name kid p o = verify_value name kid p (JObj m).
  Proof.
    induction l as [|[[n kd] k] l IH]; intros name kid p m o F H; simpl in H.
    - inversion H. reflexivity.
    - destruct (Model.sign_value key sign n kd k (JObj m)) as [v'|] eqn:E; [|discriminate].
      inversion F as [|? ? Hn F']; subst. simpl in Hn.
      destruct (sign_value_result_is_object _ _ _ _ _ E) as [m' [-> _]].
      rewrite (IH name kid p m' o F' H).
      apply (sign_keeps_other_verdicts n kd k m (JObj m') name kid p E).
      intro X. apply Hn. symmetry. exact X.
  Qed.

  (* two objects with the same signatures member and the same signed part verify alike:
     nothing else - in particular not unsigned - is looked at *)
  Theorem verify_depends_on_signatures_and_content name kid p m1 m2 :
    assoc_last k_signatures m1 = assoc_last k_signatures m2 ->
    strip_members m1 = strip_members m2 ->
    verify_value name kid p (JObj m1) = verify_value name kid p (JObj m2).
  Proof.
    intros H1 H2. rewrite !verify_value_spec. unfold sig_at, verified_part. rewrite H1, H2. reflexivity.
  Qed.

  (* what SignJSON keeps *)
  Theorem sign_preserves name kid k m o :
    sign_value name kid k (JObj m) = Some o ->
    exists m' sm,
      o = JObj m' /\
      strip_members m' = strip_members m /\
      assoc_last k_unsigned m' = assoc_last k_unsigned m /\
      sigs_of m = Some sm /\
      sig_at name kid o = Some (sign k (canon_print (JObj (strip_members m)))) /\
      forall name' kid', (name', kid') <> (name, kid) ->
        sig_at name' kid' o = lookup_sig name' kid' sm.
  Proof.
    rewrite sign_value_obj. destruct (sigs_of m) as [sm|] eqn:S; [|discriminate].
    intro H. inversion H; subst. clear H.
    assert (W : sigmap_wf (merge_sig name kid (sign k (canon_print (JObj (strip_members m)))) sm)).
    { apply merge_sig_wf; [exact (sigs_of_wf _ _ S)|apply (sig_bytes _ _ _ _ _ IS)]. }
    eexists. exists sm. split; [reflexivity|]. split; [|split; [|split; [|split]]].
    - pose proof (strip_signed_obj m (merge_sig name kid (sign k (canon_print (JObj (strip_members m)))) sm)) as X.
      unfold signed_obj, strip in X.
      exact (f_equal (fun j => match j with JObj l => l | _ => [] end) X).
    - apply signed_obj_unsigned.
    - reflexivity.
    - rewrite sig_at_signed_obj by exact W. apply lookup_merge_same.
    - intros name' kid' N. rewrite sig_at_signed_obj by exact W. apply lookup_merge_other. exact N.
  Qed.

  (* soundness: VerifyJSON accepts only a genuine signature, by the holder of the presented
     public key, over the canonical form of exactly this signed part *)
  Theorem verify_accepts_only_genuine name kid p v :
    verify_value name kid p v = true ->
    exists k s, sig_at name kid v = Some s /\ p = pub k /\ s = sign k (canon_print (verified_part v)).
  Proof.
    rewrite verify_value_spec. destruct (sig_at name kid v) as [s|]; [|discriminate].
    intro H. apply andb_true_iff in H as [_ H].
    destruct (sig_unforgeable _ _ _ _ _ IS _ _ _ H) as [k [-> ->]].
    exists k. eexists. split; [reflexivity|]. split; reflexivity.
  Qed.

  (* a signature by k over one signed part is refused over any other one and under any other key *)
  Theorem verify_honest_signature name kid p k c v :
    sig_at name kid v = Some (sign k c) ->
    verify_value name kid p v = true -> p = pub k /\ canon_print (verified_part v) = c.
  Proof.
    intros S H. destruct (verify_accepts_only_genuine _ _ _ _ H) as [k' [s [S' [-> E]]]].
    rewrite S in S'. injection S' as S'. rewrite <- S' in E.
    destruct (sign_inj _ _ _ _ _ IS _ _ _ _ E) as [P M]. split; congruence.
  Qed.



(* ------------------------------------------------------------------------------------ *)
(* ListKeyIDs                                                                            *)

(* the key IDs written under signatures.<name> in the JSON value itself *)
Definition key_ids_of (name : bytes) (m : list (bytes * json)) : list bytes :=
  match assoc_last k_signatures m with
  | Some (JObj sm) => match assoc_last name sm with Some (JObj inner) => map fst inner | _ => [] end
  | _ => []
  end.

Theorem list_key_ids_lists_the_members name m ks :
  list_key_ids_value name (JObj m) = Some ks -> ks = key_ids_of name m.
Proof.
  unfold list_key_ids_value, key_ids_of. simpl.
  destruct (assoc_last k_signatures m) as [j|]; [|intro H; inversion H; reflexivity].
  destruct j; try discriminate; try (intro H; inversion H; reflexivity).
  destruct (assoc_last name m0) as [e|]; [|intro H; inversion H; reflexivity].
  destruct e; try discriminate; intro H; inversion H; reflexivity.
Qed.

Lemma traverse_keys {A B} (f : A -> option B) m r : traverse f m = Some r -> map fst r = map fst m.
Proof.
  revert r. induction m as [|[k v] m IH]; intros r H; simpl in H.
  - inversion H. reflexivity.
  - destruct (f v); [|discriminate]. destruct (traverse f m) as [r'|]; [|discriminate].
    inversion H; subst. simpl. f_equal. apply IH. reflexivity.
Qed.

Lemma assoc_last_in_keys {A} k (m : list (bytes * A)) x : assoc_last k m = Some x -> In k (map fst m).
Proof.
  revert x. induction m as [|[k' v] m IH]; intro x; [discriminate|].
  rewrite assoc_last_cons. destruct (assoc_last k m).
  - intros _. right. eapply IH. reflexivity.
  - destruct (bytes_eqb k k') eqn:E; [|discriminate]. apply bytes_eqb_eq in E. subst. intros _. left. reflexivity.
Qed.

Lemma traverse_total {A B C} (f : A -> option B) (g : A -> option C) m r :
  (forall a b, f a = Some b -> exists c, g a = Some c) ->
  traverse f m = Some r -> exists r', traverse g m = Some r'.
Proof.
  intro FG. revert r. induction m as [|[k v] m IH]; intros r H; simpl in H.
  - eexists; reflexivity.
  - destruct (f v) as [b|] eqn:E; [|discriminate].
    destruct (traverse f m) as [r0|]; [|discriminate].
    destruct (FG _ _ E) as [c Gc]. destruct (IH r0 eq_refl) as [r' R].
    simpl. rewrite Gc, R. eexists; reflexivity.
Qed.

(* every key ID under which VerifyJSON can find a signature is one that ListKeyIDs lists *)
Theorem sig_at_is_listed name kid m s :
  sig_at name kid (JObj m) = Some s ->
  exists ks, list_key_ids_value name (JObj m) = Some ks /\ In kid ks.
Proof.
  unfold sig_at, sig_entry, list_key_ids_value. simpl.
  destruct (assoc_last k_signatures m) as [j|]; [|discriminate].
  destruct j; try discriminate. rename m0 into sm.
  destruct (assoc_last name sm) as [e|]; [|discriminate].
  destruct e; try discriminate. rename m0 into inner.
  destruct (assoc_last kid inner) as [x|] eqn:K; [|discriminate].
  intros _. eexists. split; [reflexivity|]. eapply assoc_last_in_keys. exact K.
Qed.

  (* ---- the forms stated in Props/C02.v ---- *)
  Lemma sign_none_iff name kid k m : sign_value name kid k (JObj m) = None <-> sigs_of m = None.
  Proof. rewrite sign_value_obj. destruct (sigs_of m); split; congruence. Qed.

  Lemma more_signers_verify name kid k m o more :
    no_repeats m ->
    sign_value name kid k (JObj m) = Some o ->
    Forall (fun s : signer => (fst (fst s), snd (fst s)) <> (name, kid)) more ->
    exists o', sign_all more o = Some o' /\ verify_value name kid (pub k) o' = true.
  Proof.
    intros NR S F.
    destruct (sign_value_result_is_object _ _ _ _ _ S) as [m' [-> [sm Sm]]].
    destruct (sign_all_total more m' sm Sm) as [o' A].
    exists o'. split; [exact A|].
    rewrite (verify_after_more_signers more name kid (pub k) m' o' F A).
    eapply sign_then_verify_value; eauto.
  Qed.

  Lemma unsigned_change_verify name kid k m m1 :
    no_repeats m ->
    sign_value name kid k (JObj m) = Some (JObj m1) ->
    (forall u, verify_value name kid (pub k) (jset k_unsigned u (JObj m1)) = true) /\
    verify_value name kid (pub k) (jdel k_unsigned (JObj m1)) = true /\
    (forall m2, assoc_last k_signatures m2 = assoc_last k_signatures m1 ->
                strip_members m2 = strip_members m1 ->
                verify_value name kid (pub k) (JObj m2) = true).
  Proof.
    intros NR S.
    assert (G : forall m2, assoc_last k_signatures m2 = assoc_last k_signatures m1 ->
                strip_members m2 = strip_members m1 ->
                verify_value name kid (pub k) (JObj m2) = true).
    { intros m2 A B. rewrite (verify_depends_on_signatures_and_content name kid (pub k) m2 m1 A B).
      eapply sign_then_verify_value; eauto. }
    split; [|split]; [| |exact G].
    - intro u. simpl. apply G.
      + apply assoc_last_set_other. intro E. pose proof uns_ne_sig as X. rewrite E, bytes_eqb_refl in X. discriminate.
      + apply strip_members_set_meta. apply is_meta_uns.
    - simpl. apply G.
      + rewrite (assoc_last_filter (fun x => negb (bytes_eqb k_unsigned x)) k_signatures m1), uns_ne_sig. reflexivity.
      + apply strip_members_del_meta. apply is_meta_uns.
  Qed.

  Lemma wrong_identity name kid k m o :
    sign_value name kid k (JObj m) = Some o ->
    (forall p, p <> pub k -> verify_value name kid p o = false) /\
    (forall name' kid' p, (name', kid') <> (name, kid) ->
       verify_value name' kid' p o = verify_value name' kid' p (JObj m)) /\
    (forall name' kid' p, (name', kid') <> (name, kid) -> sig_at name' kid' (JObj m) = None ->
       verify_value name' kid' p o = false).
  Proof.
    intro S.
    assert (B : forall name' kid' p, (name', kid') <> (name, kid) ->
       verify_value name' kid' p o = verify_value name' kid' p (JObj m)).
    { intros. eapply sign_keeps_other_verdicts; eauto. }
    split; [|split]; [|exact B|].
    - intros p N. destruct (verify_value name kid p o) eqn:V; [|reflexivity]. exfalso.
      destruct (sign_preserves _ _ _ _ _ S) as [m' [sm [_ [_ [_ [_ [A _]]]]]]].
      destruct (verify_honest_signature _ _ _ _ _ _ A V) as [P _]. contradiction.
    - intros name' kid' p N A. rewrite (B _ _ _ N), verify_value_spec, A. reflexivity.
  Qed.

  Lemma tamper_canonical name kid k m o v' p :
    sign_value name kid k (JObj m) = Some o ->
    sig_at name kid v' = sig_at name kid o ->
    canon_print (verified_part v') <> canon_print (strip (JObj m)) ->
    verify_value name kid p v' = false.
  Proof.
    intros S A N.
    destruct (verify_value name kid p v') eqn:V; [|reflexivity]. exfalso.
    destruct (sign_preserves _ _ _ _ _ S) as [m' [sm [_ [_ [_ [_ [A' _]]]]]]].
    rewrite A' in A.
    destruct (verify_honest_signature _ _ _ _ _ _ A V) as [_ C].
    apply N. exact C.
  Qed.

  Lemma verified_key_id_is_listed name kid p m :
    verify_value name kid p (JObj m) = true ->
    exists ks, list_key_ids_value name (JObj m) = Some ks /\ In kid ks.
  Proof.
    intro V. rewrite verify_value_spec in V.
    destruct (sig_at name kid (JObj m)) as [s|] eqn:A; [|discriminate].
    eapply sig_at_is_listed. exact A.
  Qed.

  (* the text-level SignJSON is parse, sign the value, print canonically *)
  Lemma sign_json_unfold name kid k t st :
    Model.sign_json key sign name kid k t = Some st <->
    utf8_valid t = true /\
    exists v o, parse_json t = Some v /\ sign_value name kid k v = Some o /\ st = canon_print o.
  Proof.
    unfold Model.sign_json. split.
    - destruct (utf8_valid t); [|discriminate]. simpl.
      destruct (parse_json t) as [v|]; [|discriminate].
      destruct (Model.sign_value key sign name kid k v) as [o|] eqn:E; [|discriminate].
      intro H. inversion H. split; [reflexivity|]. exists v, o. repeat split. exact E.
    - intros [U [v [o [P [S ->]]]]]. rewrite U, P, S. reflexivity.
  Qed.

  (* distinct member names: nothing is repeated *)
  Lemma assoc_last_notin {A} k (m : list (bytes * A)) : ~ In k (map fst m) -> assoc_last k m = None.
  Proof.
    intro N. destruct (assoc_last k m) eqn:E; [|reflexivity].
    exfalso. apply N. eapply assoc_last_in_keys. exact E.
  Qed.

  Lemma dedup_last_nodup {A} (l : list (bytes * A)) : NoDup (map fst l) -> dedup_last l = l.
  Proof.
    induction l as [|[k v] l IH]; intro N; [reflexivity|].
    simpl in N. inversion N as [|? ? Hk N']; subst. simpl.
    rewrite (assoc_last_notin k l Hk), (IH N'). reflexivity.
  Qed.

  Lemma nodup_filter_keys {A} (P : bytes * A -> bool) (l : list (bytes * A)) :
    NoDup (map fst l) -> NoDup (map fst (filter P l)).
  Proof.
    induction l as [|kv l IH]; intro N; [constructor|].
    simpl in N. inversion N as [|? ? Hk N']; subst. simpl.
    destruct (P kv); [|exact (IH N')].
    simpl. constructor; [|exact (IH N')].
    intro H. apply Hk. apply in_map_iff in H as [x [E Hx]]. apply filter_In in Hx as [Hx _].
    apply in_map_iff. exists x. split; assumption.
  Qed.

  Lemma nodup_no_repeats m : NoDup (map fst m) -> no_repeats m.
  Proof.
    intro N. unfold no_repeats. apply dedup_last_nodup. unfold strip_members. apply nodup_filter_keys. exact N.
  Qed.
End Scheme.
