(* Scenarios for the C02 correspondence: a start object, then steps (sign / edit), then
   verification queries.  The implementation side replays the same steps with real ed25519
   keys on texts (re-serialising between steps); the model replays them on the value with the
   symbolic scheme.  Executable only, no proofs.

   steps   = JSON array of  [sign,name,kid,seed] | [set,path,value] | [del,path]
                           | [copy,src,dst] | [sigop,name,kid,op] | [repr]
   queries = JSON array of  [name,kid,key]   (key = 32-byte seed, or malformed public key bytes) *)
From Verif Require Import Lib.Bytes Json.Ast Json.Parse Json.Print Sign.Base64 Sign.Model Sign.Instance.
Open Scope N_scope.

Inductive step :=
| SSign (name kid seed : bytes)
| SSet (p : list bytes) (x : json)
| SDel (p : list bytes)
| SCopy (src dst : list bytes)
| SSigop (name kid op : bytes)
| SRepr
| SSurr (p : list bytes) (onkey : bool)      (* F68: an unpaired surrogate escape appended *)
| SDup (k : bytes) (x : json) (before : bool). (* F69: a second member of an existing name *)

Fixpoint strs (l : list json) : option (list bytes) :=
  match l with
  | [] => Some []
  | JStr s :: r => match strs r with Some x => Some (s :: x) | None => None end
  | _ :: _ => None
  end.

Definition parse_step (j : json) : option step :=
  match j with
  | JArr (JStr op :: rest) =>
      if bytes_eqb op (bs "sign") then
        match rest with [JStr n; JStr k; JStr s] => Some (SSign n k s) | _ => None end
      else if bytes_eqb op (bs "set") then
        match rest with [JArr p; x] => match strs p with Some p' => Some (SSet p' x) | None => None end | _ => None end
      else if bytes_eqb op (bs "del") then
        match rest with [JArr p] => match strs p with Some p' => Some (SDel p') | None => None end | _ => None end
      else if bytes_eqb op (bs "copy") then
        match rest with
        | [JArr a; JArr b] => match strs a, strs b with Some a', Some b' => Some (SCopy a' b') | _, _ => None end
        | _ => None
        end
      else if bytes_eqb op (bs "sigop") then
        match rest with [JStr n; JStr k; JStr o] => Some (SSigop n k o) | _ => None end
      else if bytes_eqb op (bs "repr") then Some SRepr
      else if bytes_eqb op (bs "surr") then
        match rest with
        | [JArr p; JStr w] => match strs p with Some p' => Some (SSurr p' (bytes_eqb w (bs "name"))) | None => None end
        | _ => None
        end
      else if bytes_eqb op (bs "dup") then
        match rest with [JStr k; x; JStr w] => Some (SDup k x (bytes_eqb w (bs "before"))) | _ => None end
      else None
  | _ => None
  end.

Fixpoint parse_steps (l : list json) : option (list step) :=
  match l with
  | [] => Some []
  | j :: r => match parse_step j, parse_steps r with
              | Some s, Some ss => Some (s :: ss)
              | _, _ => None
              end
  end.

(* apply f to the value of the first member named k *)
Fixpoint map_first (k : bytes) (f : json -> json) (m : list (bytes * json)) : list (bytes * json) :=
  match m with
  | [] => []
  | (k', v) :: m' => if bytes_eqb k k' then (k', f v) :: m' else (k', v) :: map_first k f m'
  end.

(* set the value at an object path (last key created if missing; missing or non-object
   intermediate: no change) *)
Fixpoint jset_path (p : list bytes) (x : json) (j : json) : json :=
  match p with
  | [] => x
  | k :: rest =>
      match rest with
      | [] => match j with JObj m => JObj (assoc_set k x m) | _ => j end
      | _ => match j with JObj m => JObj (map_first k (jset_path rest x) m) | _ => j end
      end
  end.

Fixpoint jdel_path (p : list bytes) (j : json) : json :=
  match p with
  | [] => j
  | k :: rest =>
      match rest with
      | [] => jdel k j
      | _ => match j with JObj m => JObj (map_first k (jdel_path rest) m) | _ => j end
      end
  end.

Fixpoint drop_last (s : bytes) : bytes :=
  match s with [] => [] | [_] => [] | c :: r => c :: drop_last r end.

(* transformations of one signature string, the same on both sides *)
Definition sigop_apply (op : bytes) (s : bytes) : bytes :=
  if bytes_eqb op (bs "urlsafe") then
    map (fun c => if c =? 43 then 45 else if c =? 47 then 95 else c) s
  else if bytes_eqb op (bs "pad") then s ++ [61]
  else if bytes_eqb op (bs "newline") then
    match s with a :: b :: r => a :: b :: 10 :: r | _ => s end
  else
    match b64_decode s with
    | None => s
    | Some raw =>
        if bytes_eqb op (bs "flip") then
          match raw with
          | b :: r => b64_encode ((if b mod 2 =? 0 then b + 1 else b - 1) :: r)
          | [] => s
          end
        else if bytes_eqb op (bs "trunc") then b64_encode (drop_last raw)
        else if bytes_eqb op (bs "extend") then b64_encode (raw ++ [0])
        else s
    end.

(* insert (k, x) directly before / after the first member named k *)
Fixpoint insert_dup (k : bytes) (x : json) (before : bool) (m : list (bytes * json)) : list (bytes * json) :=
  match m with
  | [] => []
  | (k', v) :: m' =>
      if bytes_eqb k k' then (if before then (k, x) :: (k', v) :: m' else (k', v) :: (k, x) :: m')
      else (k', v) :: insert_dup k x before m'
  end.

(* rename the member at path p by f (applied to its name) *)
Fixpoint jrename_path (p : list bytes) (f : bytes -> bytes) (j : json) : json :=
  match p with
  | [] => j
  | k :: rest =>
      match rest with
      | [] => match j with
              | JObj m => JObj (map (fun kv => if bytes_eqb k (fst kv) then (f (fst kv), snd kv) else kv) m)
              | _ => j
              end
      | _ => match j with JObj m => JObj (map_first k (jrename_path rest f) m) | _ => j end
      end
  end.

(* an unpaired surrogate escape at the end of the string value / member name at path p.
   What every JSON reader sees (the reference parser, encoding/json, gjson): U+FFFD appended.
   What CanonicalJSON makes of it (compactUnicodeEscape, finding F68): nothing, the escape is
   dropped - so for the code the step changes nothing. *)
Definition surr_spec (p : list bytes) (onkey : bool) (v : json) : json :=
  if onkey then jrename_path p (fun k => k ++ replacement_char) v
  else match jpath p v with
       | Some (JStr s) => jset_path p (JStr (s ++ replacement_char)) v
       | _ => v
       end.

(* code = true: the steps as the code treats them; false: as the specification reads them *)
Definition apply_step (code : bool) (st : step) (v : json) : option json :=
  match st with
  | SSurr p onkey => Some (if code then v else surr_spec p onkey v)
  | SDup k x before => Some (match v with JObj m => JObj (insert_dup k x before m) | _ => v end)
  | SSign n k seed => s_sign_value n k seed v
  | SSet p x => Some (jset_path p x v)
  | SDel p => Some (jdel_path p v)
  | SCopy a b => match jpath a v with Some x => Some (jset_path b x v) | None => Some v end
  | SSigop n k op =>
      match jpath [k_signatures; n; k] v with
      | Some (JStr s) => Some (jset_path [k_signatures; n; k] (JStr (sigop_apply op s)) v)
      | _ => Some v
      end
  | SRepr => Some v
  end.

(* all states, start first; None when a sign step returns an error *)
Fixpoint run_trace (code : bool) (steps : list step) (v : json) : option (list json) :=
  match steps with
  | [] => Some [v]
  | st :: r =>
      match apply_step code st v with
      | None => None
      | Some v' => match run_trace code r v' with Some tr => Some (v :: tr) | None => None end
      end
  end.

Definition has_surr (steps : list step) : bool :=
  existsb (fun st => match st with SSurr _ _ => true | _ => false end) steps.

(* some state has a member name other than signatures / unsigned twice *)
Definition has_repeats (v : json) : bool :=
  match v with
  | JObj m => negb (N.of_nat (length (dedup_last (strip_members m))) =? N.of_nat (length (strip_members m)))
  | _ => false
  end.

(* is there a backslash-u escape of a surrogate that is not half of a pair (finding F68) *)
Fixpoint has_unpaired_surrogate_fuel (fuel : nat) (s : bytes) : bool :=
  match fuel with
  | O => false
  | S f =>
      match s with
      | [] => false
      | c :: r =>
          if c =? 92 then
            match r with
            | e :: r2 =>
                if e =? 117 then
                  match read_hex4 r2 with
                  | Some (cp, r3) =>
                      if is_high_surrogate cp then
                        match r3 with
                        | b :: u :: r4 =>
                            if (b =? 92) && (u =? 117) then
                              match read_hex4 r4 with
                              | Some (lo, r5) => if is_low_surrogate lo then has_unpaired_surrogate_fuel f r5 else true
                              | None => true
                              end
                            else true
                        | _ => true
                        end
                      else if is_low_surrogate cp then true
                      else has_unpaired_surrogate_fuel f r3
                  | None => has_unpaired_surrogate_fuel f r2
                  end
                else has_unpaired_surrogate_fuel f r2
            | [] => false
            end
          else has_unpaired_surrogate_fuel f r
      end
  end.
Definition has_unpaired_surrogate (s : bytes) : bool := has_unpaired_surrogate_fuel (S (length s)) s.

Definition final_state (tr : list json) : json := last tr JNull.

(* ---- specification of the verdict (independent of verify_value): accept exactly when the
   signatures member is a well-formed signature map and the entry under (name, key id) is a
   genuine signature: produced by some sign step of this scenario, with a key whose public
   key is the one presented, over a state with the same signed content as the final one ---- *)
Fixpoint is_b64_string_map (m : list (bytes * json)) : bool :=
  match m with
  | [] => true
  | (_, v) :: m' => (match decode_sig v with Some _ => true | None => false end) && is_b64_string_map m'
  end.

Fixpoint is_sig_map (m : list (bytes * json)) : bool :=
  match m with
  | [] => true
  | (_, JNull) :: m' => is_sig_map m'
  | (_, JObj inner) :: m' => is_b64_string_map inner && is_sig_map m'
  | _ :: _ => false
  end.

Definition signed_content (v : json) : bytes := canon_print (strip v).

Fixpoint genuine (steps : list step) (tr : list json) (pk content s : bytes) : bool :=
  match steps, tr with
  | SSign _ _ seed :: steps', v :: tr' =>
      (bytes_eqb (sym_pub seed) pk && bytes_eqb (signed_content v) content
       && bytes_eqb s (sym_sign seed content))
      || genuine steps' tr' pk content s
  | _ :: steps', _ :: tr' => genuine steps' tr' pk content s
  | _, _ => false
  end.

Definition spec_verdict (steps : list step) (tr : list json) (qn qk pk : bytes) : bool :=
  let fin := final_state tr in
  match fin with
  | JObj m =>
      match assoc_last k_signatures m with
      | Some (JObj sm) =>
          (* only the entry asked about has to be readable (F61: signatures is covered by nothing,
             the entries of other entities must not be able to make the check fail) *)
          sym_pk_size_ok pk &&
          match jpath [k_signatures; qn; qk] fin with
          | Some (JStr s64) =>
              match b64_decode s64 with
              | Some s => genuine steps tr pk (signed_content fin) s
              | None => false
              end
          | _ => false
          end
      | _ => false
      end
  | _ => false
  end.
