(* Scenarios for the C02 correspondence: a start object, then steps (sign / edit), then
   verification queries.  The implementation side replays the same steps with real ed25519
   keys on texts (re-serialising between steps); the model replays them on the value with the
   symbolic scheme.  Executable only, no proofs.

   steps   = JSON array of  [sign,name,kid,seed] | [set,path,value] | [del,path]
                           | [copy,src,dst] | [sigop,name,kid,op] | [repr]
   queries = JSON array of  [name,kid,key]   (key = 32-byte seed, or malformed public key bytes) *)
From Verif Require Import Lib.Bytes Json.Ast Json.Parse Json.Print Sign.Base64 Sign.Model Sign.Instance.
Open Scope N_scope.

Inductive step :=
| SSign (name kid seed : bytes)
| SSet (p : list bytes) (x : json)
| SDel (p : list bytes)
| SCopy (src dst : list bytes)
| SSigop (name kid op : bytes)
| SRepr.

Fixpoint strs (l : list json) : option (list bytes) :=
  match l with
  | [] => Some []
  | JStr s :: r => match strs r with Some x => Some (s :: x) | None => None end
  | _ :: _ => None
  end.

Definition parse_step (j : json) : option step :=
  match j with
  | JArr (JStr op :: rest) =>
      if bytes_eqb op (bs "sign") then
        match rest with [JStr n; JStr k; JStr s] => Some (SSign n k s) | _ => None end
      else if bytes_eqb op (bs "set") then
        match rest with [JArr p; x] => match strs p with Some p' => Some (SSet p' x) | None => None end | _ => None end
      else if bytes_eqb op (bs "del") then
        match rest with [JArr p] => match strs p with Some p' => Some (SDel p') | None => None end | _ => None end
      else if bytes_eqb op (bs "copy") then
        match rest with
        | [JArr a; JArr b] => match strs a, strs b with Some a', Some b' => Some (SCopy a' b') | _, _ => None end
        | _ => None
        end
      else if bytes_eqb op (bs "sigop") then
        match rest with [JStr n; JStr k; JStr o] => Some (SSigop n k o) | _ => None end
      else if bytes_eqb op (bs "repr") then Some SRepr
      else None
  | _ => None
  end.

Fixpoint parse_steps (l : list json) : option (list step) :=
  match l with
  | [] => Some []
  | j :: r => match parse_step j, parse_steps r with
              | Some s, Some ss => Some (s :: ss)
              | _, _ => None
              end
  end.

(* apply f to the value of the first member named k *)
Fixpoint map_first (k : bytes) (f : json -> json) (m : list (bytes * json)) : list (bytes * json) :=
  match m with
  | [] => []
  | (k', v) :: m' => if bytes_eqb k k' then (k', f v) :: m' else (k', v) :: map_first k f m'
  end.

(* set the value at an object path (last key created if missing; missing or non-object
   intermediate: no change) *)
Fixpoint jset_path (p : list bytes) (x : json) (j : json) : json :=
  match p with
  | [] => x
  | k :: rest =>
      match rest with
      | [] => match j with JObj m => JObj (assoc_set k x m) | _ => j end
      | _ => match j with JObj m => JObj (map_first k (jset_path rest x) m) | _ => j end
      end
  end.

Fixpoint jdel_path (p : list bytes) (j : json) : json :=
  match p with
  | [] => j
  | k :: rest =>
      match rest with
      | [] => jdel k j
      | _ => match j with JObj m => JObj (map_first k (jdel_path rest) m) | _ => j end
      end
  end.

Fixpoint drop_last (s : bytes) : bytes :=
  match s with [] => [] | [_] => [] | c :: r => c :: drop_last r end.

(* transformations of one signature string, the same on both sides *)
Definition sigop_apply (op : bytes) (s : bytes) : bytes :=
  if bytes_eqb op (bs "urlsafe") then
    map (fun c => if c =? 43 then 45 else if c =? 47 then 95 else c) s
  else if bytes_eqb op (bs "pad") then s ++ [61]
  else if bytes_eqb op (bs "newline") then
    match s with a :: b :: r => a :: b :: 10 :: r | _ => s end
  else
    match b64_decode s with
    | None => s
    | Some raw =>
        if bytes_eqb op (bs "flip") then
          match raw with
          | b :: r => b64_encode ((if b mod 2 =? 0 then b + 1 else b - 1) :: r)
          | [] => s
          end
        else if bytes_eqb op (bs "trunc") then b64_encode (drop_last raw)
        else if bytes_eqb op (bs "extend") then b64_encode (raw ++ [0])
        else s
    end.

Definition apply_step (st : step) (v : json) : option json :=
  match st with
  | SSign n k seed => s_sign_value n k seed v
  | SSet p x => Some (jset_path p x v)
  | SDel p => Some (jdel_path p v)
  | SCopy a b => match jpath a v with Some x => Some (jset_path b x v) | None => Some v end
  | SSigop n k op =>
      match jpath [k_signatures; n; k] v with
      | Some (JStr s) => Some (jset_path [k_signatures; n; k] (JStr (sigop_apply op s)) v)
      | _ => Some v
      end
  | SRepr => Some v
  end.

(* all states, start first; None when a sign step returns an error *)
Fixpoint run_trace (steps : list step) (v : json) : option (list json) :=
  match steps with
  | [] => Some [v]
  | st :: r =>
      match apply_step st v with
      | None => None
      | Some v' => match run_trace r v' with Some tr => Some (v :: tr) | None => None end
      end
  end.

Definition final_state (tr : list json) : json := last tr JNull.

(* ---- specification of the verdict (independent of verify_value): accept exactly when the
   signatures member is a well-formed signature map and the entry under (name, key id) is a
   genuine signature: produced by some sign step of this scenario, with a key whose public
   key is the one presented, over a state with the same signed content as the final one ---- *)
Fixpoint is_b64_string_map (m : list (bytes * json)) : bool :=
  match m with
  | [] => true
  | (_, v) :: m' => (match decode_sig v with Some _ => true | None => false end) && is_b64_string_map m'
  end.

Fixpoint is_sig_map (m : list (bytes * json)) : bool :=
  match m with
  | [] => true
  | (_, JNull) :: m' => is_sig_map m'
  | (_, JObj inner) :: m' => is_b64_string_map inner && is_sig_map m'
  | _ :: _ => false
  end.

Definition signed_content (v : json) : bytes := canon_print (strip v).

Fixpoint genuine (steps : list step) (tr : list json) (pk content s : bytes) : bool :=
  match steps, tr with
  | SSign _ _ seed :: steps', v :: tr' =>
      (bytes_eqb (sym_pub seed) pk && bytes_eqb (signed_content v) content
       && bytes_eqb s (sym_sign seed content))
      || genuine steps' tr' pk content s
  | _ :: steps', _ :: tr' => genuine steps' tr' pk content s
  | _, _ => false
  end.

Definition spec_verdict (steps : list step) (tr : list json) (qn qk pk : bytes) : bool :=
  let fin := final_state tr in
  match fin with
  | JObj m =>
      match assoc_last k_signatures m with
      | Some (JObj sm) =>
          is_sig_map sm && sym_pk_size_ok pk &&
          match jpath [k_signatures; qn; qk] fin with
          | Some (JStr s64) =>
              match b64_decode s64 with
              | Some s => genuine steps tr pk (signed_content fin) s
              | None => false
              end
          | _ => false
          end
      | _ => false
      end
  | _ => false
  end.
