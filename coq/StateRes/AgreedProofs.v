(* A key on which all state sets agree keeps exactly that event (v2 / v2.1, current driver):
   the specification's unconflicted events are what the split reports (SplitProofs), they are
   applied last (ResultProofs), and the power ordering of v2 only rearranges them
   (KahnMemberProofs). *)
From Coq Require Import Permutation Lia.
From Verif Require Import Lib.Bytes StateRes.Event StateRes.Kahn StateRes.V2 StateRes.V2Spec
     StateRes.KahnProofs StateRes.OrderProofs StateRes.ResultProofs StateRes.OrderSetProofs
     StateRes.SplitProofs StateRes.KahnMemberProofs.
Local Open Scope nat_scope.

Lemma match3 {A B} (c u a : list A) (X Y : B) :
  u <> [] -> match c, u, a with [], [], [] => X | _, _, _ => Y end = Y.
Proof. intro N. destruct c, u, a; try reflexivity; congruence. Qed.

Section Agreed.
  Variable allowed : event -> list event -> bool.
  Variable rejected : bytes -> bool.
  Variable shE : list event -> list event.
  Variable shP : list pwrap -> list pwrap.
  Variable shG : groups -> groups.
  Hypothesis shP_perm : forall l, Permutation (shP l) l.
  Hypothesis shG_perm : forall l, Permutation (shG l) l.
  Variable priv : bool.
  Variable cl ud : Z.
  Variable sets : list (list event).
  Hypothesis sets_repeat_free : forall s, In s sets -> NoDup (ids_of s).
  Hypothesis ids_ok : ids_identify (concat sets).

  Theorem agreed_keys_kept_v2 v21 auth_events e :
    In e (concat sets) -> spec_unconflicted sets e ->
    In e (result_events (resolve_v2_new allowed rejected shE shP shG priv cl ud v21 sets auth_events)).
  Proof.
    intros Hin Hspec.
    set (unc := snd (split_conflicted shG false sets)).
    assert (HD : forall x, In x unc -> In x (concat sets)).
    { intros x Hx. apply (split_unconflicted_is_spec shG shG_perm sets sets_repeat_free ids_ok) in Hx as [Hx _].
      apply dedup_in in Hx. exact Hx. }
    assert (He : In e unc).
    { apply (split_unconflicted_is_spec shG shG_perm sets sets_repeat_free ids_ok). split; [|exact Hspec].
      apply dedup_in_iff; assumption. }
    destruct Hspec as [Hsk [_ Hsame]].
    destruct (event_tkey e) as [k|] eqn:Ek; [|unfold event_tkey in Ek; destruct (e_skey e); [discriminate|contradiction]].
    assert (Huniq : forall e', In e' unc -> event_tkey e' = Some k -> e' = e).
    { intros e' He' Ek'. specialize (HD e' He'). pose proof HD as HD'.
      apply in_concat in HD' as [s [Hs Hes]]. apply ids_ok; [exact HD|exact Hin|].
      apply (Hsame s e' Hs Hes). congruence. }
    unfold resolve_v2_new. fold unc. rewrite match3; [|intro Z; rewrite Z in He; contradiction].
    destruct v21.
    - apply unconflicted_event_kept with (k := k); assumption.
    - apply unconflicted_event_kept with (k := k).
      + (* the power ordering keeps e *)
        unfold power_order. apply in_map_iff.
        exists (mkPw e (sender_power priv cl ud (dedup_events auth_events) None e)). split; [reflexivity|].
        assert (Hid : ids_identify unc) by (intros a b Ha Hb; apply ids_ok; auto).
        assert (Hed : In e (dedup_events unc)) by (apply dedup_in_iff; assumption).
        apply kahn_has; [exact shP_perm| |exact (in_map (fun e0 => mkPw e0 (sender_power priv cl ud (dedup_events auth_events) None e0)) (dedup_events unc) e Hed)].
        intros a b Ha Hb E. apply in_map_iff in Ha as [ea [<- Hea]]. apply in_map_iff in Hb as [eb [<- Heb]].
        apply dedup_in in Hea. apply dedup_in in Heb.
        simpl in E. assert (ea = eb) by (apply ids_ok; auto). subst. reflexivity.
      + exact Ek.
      + intros e' He' Ek'. unfold power_order in He'. apply in_map_iff in He' as [w [<- Hw]].
        apply kahn_in in Hw; [|exact shP_perm]. apply in_map_iff in Hw as [e'' [<- He'']]. simpl in *.
        apply dedup_in in He''. apply Huniq; assumption.
  Qed.
End Agreed.
