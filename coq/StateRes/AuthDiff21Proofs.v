(* calculateAuthDifferenceNew for v2.1: the auth difference plus the conflicted subgraph, as a set. *)
From Coq Require Import Permutation Lia.
From Verif Require Import Lib.Bytes StateRes.Event StateRes.Kahn StateRes.V2 StateRes.V2Spec
     StateRes.SubsetProofs StateRes.ChainProofs StateRes.ChainCompleteProofs StateRes.AuthDiffProofs StateRes.SubgraphProofs.
Local Open Scope nat_scope.


Theorem auth_difference_v21_spec (shE : list event -> list event) authmap conflicted sets x :
  (forall l, Permutation (shE l) l) ->
  (forall s o y, In s sets -> In o s -> find_event (e_id o) authmap = Some y -> y = o) ->
  (In x (auth_difference_new shE true authmap conflicted sets) <->
   spec_auth_difference authmap sets x \/ spec_conflicted_subgraph authmap conflicted sets x).
Proof.
  intros Hsh Hcons.
  pose proof (fun y => auth_difference_new_is_spec authmap (fun l => l) (fun l => Permutation_refl l) conflicted sets y) as D.
  pose proof (fun y => conflicted_subgraph_spec authmap conflicted sets y Hcons) as S.
  unfold auth_difference_new in *. unfold complete_subgraph in S.
  set (d := diff_events _ _) in *.
  set (sg := fold_left (fun acc s => union_events acc (conflicted_subgraph authmap conflicted s)) sets []) in *.
  assert (P : forall y, In y (shE (union_events d sg)) <-> In y (union_events d sg)).
  { intro y. split; apply Permutation_in; [apply Hsh|apply Permutation_sym, Hsh]. }
  rewrite P.
  assert (Fd : forall y, In y d -> selfmap authmap y).
  { intros y Hy. apply D in Hy. destruct Hy as [[s [_ [e [_ R]]]] _]. eapply reach_selfmap. exact R. }
  assert (Fs : forall y, In y sg -> selfmap authmap y).
  { intros y Hy. apply S in Hy. destruct Hy as [F _]. exact F. }
  split.
  - intro H.
    assert (G : In x d \/ In x sg).
    { revert x H. apply (union_events_P (fun x => In x d \/ In x sg)); auto. }
    destruct G as [G|G]; [left; apply D; exact G|right; apply S; exact G].
  - intros [H|H].
    + apply union_keeps. apply D. exact H.
    + apply (union_adds authmap); [exact Fd|exact Fs|apply S; exact H].
Qed.
