(* The auth difference of v2 (calculateAuthDifferenceNew without the v2.1 subgraph) is the
   specification's: the union of the full auth chains of the state sets minus their
   intersection.  The chains are sets of events of authmap keyed by event ID; every member is the
   event authmap files under its ID, so the ID-keyed set operations are the set operations. *)
From Coq Require Import Permutation Lia.
From Verif Require Import Lib.Bytes StateRes.Event StateRes.Kahn StateRes.V2 StateRes.V2Spec
     StateRes.ChainProofs StateRes.ChainCompleteProofs.
Local Open Scope nat_scope.

Lemma in_has_event x l : In x l -> has_event (e_id x) l = true.
Proof.
  unfold has_event. induction l as [|e r IH]; [intros []|]. simpl.
  destruct (bytes_eqb (e_id x) (e_id e)) eqn:E; [reflexivity|].
  intros [->|H]; [rewrite bytes_eqb_refl in E; discriminate E|apply IH; exact H].
Qed.

Section AuthDiff.
  Variable authmap : list event.
  Notation can := (inv authmap).
  Definition canon (x : event) : Prop := find_event (e_id x) authmap = Some x.

  Lemma has_iff l x : can l -> canon x -> (has_event (e_id x) l = true <-> In x l).
  Proof. intros C X. split; [apply (seen_has authmap); assumption|apply in_has_event]. Qed.

  Lemma add_event_spec e s x : can s -> canon e -> (In x (add_event e s) <-> In x s \/ x = e).
  Proof.
    intros C E. unfold add_event. destruct (has_event (e_id e) s) eqn:H.
    - apply (has_iff s e C E) in H. split; [auto|]. intros [Hx| ->]; assumption.
    - rewrite in_app_iff. simpl. split; [intros [Hx|[<-|[]]]; auto|intros [Hx| ->]; auto].
  Qed.

  Lemma add_event_can e s : can s -> canon e -> can (add_event e s).
  Proof. intros C E x Hx. apply (add_event_spec e s x C E) in Hx as [Hx| ->]; [apply C; exact Hx|exact E]. Qed.

  Lemma union_events_spec b : forall a, can a -> can b ->
    can (union_events a b) /\ forall x, In x (union_events a b) <-> In x a \/ In x b.
  Proof.
    unfold union_events. induction b as [|e r IH]; intros a Ca Cb; simpl.
    - split; [exact Ca|]. intro x. tauto.
    - assert (Ce : canon e) by (apply Cb; left; reflexivity).
      assert (Cr : can r) by (intros y Hy; apply Cb; right; exact Hy).
      destruct (IH (add_event e a) (add_event_can e a Ca Ce) Cr) as [C1 C2]. split; [exact C1|].
      intro x. rewrite C2, (add_event_spec e a x Ca Ce). intuition (subst; auto).
  Qed.

  Lemma fold_union_spec chains : forall acc, can acc -> (forall c, In c chains -> can c) ->
    can (fold_left union_events chains acc) /\
    forall x, In x (fold_left union_events chains acc) <-> In x acc \/ exists c, In c chains /\ In x c.
  Proof.
    induction chains as [|c r IH]; intros acc Ca Cc; simpl.
    - split; [exact Ca|]. intro x. split; [auto|]. intros [H|[c [[] _]]]. exact H.
    - destruct (union_events_spec c acc Ca (Cc c (or_introl eq_refl))) as [U1 U2].
      destruct (IH (union_events acc c) U1 (fun c' H => Cc c' (or_intror H))) as [F1 F2]. split; [exact F1|].
      intro x. rewrite F2, U2. split.
      + intros [[H|H]|[c' [Hc' Hx]]]; eauto.
      + intros [H|[c' [[<-|Hc'] Hx]]]; eauto.
  Qed.

  Lemma inter_events_spec a b : can a -> can b ->
    can (inter_events a b) /\ forall x, In x (inter_events a b) <-> In x a /\ In x b.
  Proof.
    intros Ca Cb. unfold inter_events. split.
    - intros x Hx. apply filter_In in Hx as [Hx _]. apply Ca. exact Hx.
    - intro x. rewrite filter_In. split; intros [Hx H]; (split; [exact Hx|]); apply (has_iff b x Cb (Ca x Hx)); exact H.
  Qed.

  Lemma fold_inter_spec r : forall c, can c -> (forall c', In c' r -> can c') ->
    can (fold_left inter_events r c) /\
    forall x, In x (fold_left inter_events r c) <-> In x c /\ forall c', In c' r -> In x c'.
  Proof.
    induction r as [|d r IH]; intros c Cc Cr; simpl.
    - split; [exact Cc|]. intro x. split; [intro H; split; [exact H|intros ? []]|tauto].
    - destruct (inter_events_spec c d Cc (Cr d (or_introl eq_refl))) as [I1 I2].
      destruct (IH (inter_events c d) I1 (fun c' H => Cr c' (or_intror H))) as [F1 F2]. split; [exact F1|].
      intro x. rewrite F2, I2. split.
      + intros [[Hc Hd] Hr]. split; [exact Hc|]. intros c' [<-|Hc']; auto.
      + intros [Hc Hr]. split; [split; [exact Hc|apply Hr; left; reflexivity]|]. intros c' Hc'. apply Hr. right. exact Hc'.
  Qed.

  (* the chain is a set of events filed under their IDs *)
  Lemma chain_walk_can fuel : forall work seen, can seen -> can (chain_walk fuel authmap work seen).
  Proof.
    induction fuel as [|f IH]; intros work seen Cs; simpl; [exact Cs|].
    destruct work as [|k rest]; [exact Cs|].
    destruct (find_event k authmap) as [a|] eqn:E; [|apply IH; exact Cs].
    destruct (has_event (e_id a) seen); [apply IH; exact Cs|].
    apply IH. intros x Hx. apply in_app_or in Hx as [Hx|[<-|[]]]; [apply Cs; exact Hx|].
    rewrite (find_event_id _ _ _ E). exact E.
  Qed.

  Lemma full_auth_chain_can set : can (full_auth_chain authmap set).
  Proof. unfold full_auth_chain. apply chain_walk_can. intros ? []. Qed.

  Lemma full_auth_chain_spec set x : In x (full_auth_chain authmap set) <-> in_full_chain authmap set x.
  Proof. split; [apply full_auth_chain_sound|apply full_auth_chain_complete]. Qed.

  Variable shE : list event -> list event.
  Hypothesis shE_perm : forall l, Permutation (shE l) l.

  Theorem auth_difference_new_is_spec conflicted sets x :
    In x (auth_difference_new shE false authmap conflicted sets) <-> spec_auth_difference authmap sets x.
  Proof.
    unfold auth_difference_new, spec_auth_difference.
    set (chains := map (full_auth_chain authmap) sets).
    assert (Cc : forall c, In c chains -> can c).
    { intros c Hc. apply in_map_iff in Hc as [s [<- _]]. apply full_auth_chain_can. }
    destruct (fold_union_spec chains [] (fun _ H => match H with end) Cc) as [U1 U2].
    assert (P : forall l y, In y (shE l) <-> In y l).
    { intros l y. split; apply Permutation_in; [apply shE_perm|apply Permutation_sym, shE_perm]. }
    rewrite P. unfold diff_events. rewrite filter_In, U2.
    assert (EX : (exists c, In c chains /\ In x c) <-> exists s, In s sets /\ in_full_chain authmap s x).
    { split.
      - intros [c [Hc Hx]]. apply in_map_iff in Hc as [s [<- Hs]]. exists s. split; [exact Hs|].
        apply full_auth_chain_spec. exact Hx.
      - intros [s [Hs Hx]]. exists (full_auth_chain authmap s). split; [apply in_map; exact Hs|].
        apply full_auth_chain_spec. exact Hx. }
    assert (ALL : forall l, (forall c, In c (map (full_auth_chain authmap) l) -> In x c) <->
                            (forall s, In s l -> in_full_chain authmap s x)).
    { intro l. split.
      - intros H s Hs. apply full_auth_chain_spec. apply H. apply in_map. exact Hs.
      - intros H c Hc. apply in_map_iff in Hc as [s [<- Hs]]. apply full_auth_chain_spec. apply H. exact Hs. }
    split.
    - intros [[[]|Hex] Hneg]. split; [apply EX; exact Hex|].
      intro Hall. destruct Hex as [c0 [Hc0 Hx0]].
      assert (Xc : canon x) by (apply (Cc c0 Hc0); exact Hx0).
      subst chains. destruct sets as [|s0 r]; [destruct Hc0|]. cbn [map] in *.
      destruct (fold_inter_spec (map (full_auth_chain authmap) r) (full_auth_chain authmap s0)
                  (Cc _ (or_introl eq_refl)) (fun c' H => Cc c' (or_intror H))) as [I1 I2].
      assert (Hin : In x (fold_left inter_events (map (full_auth_chain authmap) r) (full_auth_chain authmap s0))).
      { apply I2. split; [apply full_auth_chain_spec; apply Hall; left; reflexivity|].
        apply ALL. intros s Hs. apply Hall. right. exact Hs. }
      apply in_has_event in Hin. rewrite Hin in Hneg. discriminate Hneg.
    - intros [Hex Hneg]. apply EX in Hex. split; [right; exact Hex|].
      destruct Hex as [c0 [Hc0 Hx0]].
      assert (Xc : canon x) by (apply (Cc c0 Hc0); exact Hx0).
      subst chains. destruct sets as [|s0 r]; [destruct Hc0|]. cbn [map] in *.
      destruct (fold_inter_spec (map (full_auth_chain authmap) r) (full_auth_chain authmap s0)
                  (Cc _ (or_introl eq_refl)) (fun c' H => Cc c' (or_intror H))) as [I1 I2].
      destruct (has_event (e_id x) _) eqn:H; [|reflexivity]. exfalso. apply Hneg.
      apply (has_iff _ x I1 Xc) in H. apply I2 in H as [H0 Hr].
      intros s [<-|Hs]; [apply full_auth_chain_spec; exact H0|]. revert s Hs. apply ALL. exact Hr.
  Qed.
End AuthDiff.
