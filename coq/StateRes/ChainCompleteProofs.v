(* Completeness of the depth-first walk that collects a state set's full auth chain: with the
   fuel full_auth_chain gives it, the walk misses nothing the specification's reachability
   relation reaches.  Potential argument: every step either consumes a work item or moves an
   event of authmap (with all its references) into the visited set. *)
From Coq Require Import Permutation Lia.
From Verif Require Import Lib.Bytes StateRes.Event StateRes.Kahn StateRes.V2 StateRes.V2Spec StateRes.ChainProofs.
Local Open Scope nat_scope.

Lemma find_event_id k l a : find_event k l = Some a -> e_id a = k.
Proof.
  induction l as [|e r IH]; simpl; [discriminate|].
  destruct (bytes_eqb k (e_id e)) eqn:E; [|exact IH].
  intro H. inversion H; subst. symmetry. apply bytes_eqb_eq. exact E.
Qed.

Lemma find_event_in k l a : find_event k l = Some a -> In a l.
Proof.
  induction l as [|e r IH]; simpl; [discriminate|].
  destruct (bytes_eqb k (e_id e)); [intro H; inversion H; left; reflexivity|right; auto].
Qed.

Lemma find_event_app k a b :
  find_event k (a ++ b) = match find_event k a with Some x => Some x | None => find_event k b end.
Proof. induction a as [|e r IH]; simpl; [reflexivity|]. destruct (bytes_eqb k (e_id e)); [reflexivity|exact IH]. Qed.

Lemma has_event_snoc k seen a : has_event k (seen ++ [a]) = has_event k seen || bytes_eqb k (e_id a).
Proof.
  unfold has_event. rewrite find_event_app. destruct (find_event k seen); [reflexivity|].
  simpl. destruct (bytes_eqb k (e_id a)); reflexivity.
Qed.

(* ---------- the potential ---------- *)
Definition weight (a : event) : nat := S (length (e_auth a)).
Definition sumw (l : list event) : nat := list_sum (map weight l).

Lemma sumw_cons x l : sumw (x :: l) = weight x + sumw l.
Proof. reflexivity. Qed.

Lemma sumw_filter_le p l : sumw (filter p l) <= sumw l.
Proof.
  induction l as [|x l IH]; [apply le_n|]. cbn [filter]. destruct (p x); rewrite !sumw_cons; lia.
Qed.

Lemma sumw_filter_drop p l a : In a l -> p a = false -> sumw (filter p l) + weight a <= sumw l.
Proof.
  induction l as [|x l IH]; [intros []|].
  intros [->|Hin] Hp; cbn [filter].
  - rewrite Hp, sumw_cons. pose proof (sumw_filter_le p l). lia.
  - specialize (IH Hin Hp). destruct (p x); rewrite !sumw_cons; lia.
Qed.

Lemma sumw_all l : sumw l = length l + total_refs l.
Proof.
  induction l as [|x l IH]; [reflexivity|]. rewrite sumw_cons, IH.
  unfold total_refs, weight. cbn [map concat length]. rewrite app_length. lia.
Qed.

Section Complete.
  Variable authmap : list event.

  Definition unseen (seen : list event) : list event :=
    filter (fun a => negb (has_event (e_id a) seen)) authmap.
  Definition potential (work : list bytes) (seen : list event) : nat := length work + sumw (unseen seen).

  Lemma unseen_snoc seen a :
    unseen (seen ++ [a]) = filter (fun x => negb (bytes_eqb (e_id x) (e_id a))) (unseen seen).
  Proof.
    unfold unseen. induction authmap as [|x l IH]; simpl; [reflexivity|].
    rewrite has_event_snoc, negb_orb. destruct (has_event (e_id x) seen); simpl; [exact IH|].
    destruct (bytes_eqb (e_id x) (e_id a)); simpl; rewrite IH; reflexivity.
  Qed.

  Lemma potential_visit k rest seen a :
    find_event k authmap = Some a -> has_event (e_id a) seen = false ->
    S (potential (e_auth a ++ rest) (seen ++ [a])) <= potential (k :: rest) seen.
  Proof.
    intros F H. unfold potential. rewrite unseen_snoc, app_length. simpl.
    assert (Hin : In a (unseen seen)).
    { unfold unseen. apply filter_In. split; [eapply find_event_in; exact F|]. rewrite H. reflexivity. }
    pose proof (sumw_filter_drop (fun x => negb (bytes_eqb (e_id x) (e_id a))) (unseen seen) a Hin) as D.
    cbv beta in D. rewrite bytes_eqb_refl in D. specialize (D eq_refl). unfold weight in D. lia.
  Qed.

  (* ---------- the invariants ---------- *)
  (* the visited events are the ones authmap files under their IDs *)
  Definition inv (seen : list event) : Prop := forall x, In x seen -> find_event (e_id x) authmap = Some x.
  (* every auth step out of a visited event leads to a visited event or is still pending *)
  Definition closed_mod (work : list bytes) (seen : list event) : Prop :=
    forall x k b, In x seen -> In k (e_auth x) -> find_event k authmap = Some b -> In b seen \/ In k work.

  Lemma seen_has a seen : inv seen -> find_event (e_id a) authmap = Some a ->
    has_event (e_id a) seen = true -> In a seen.
  Proof.
    intros I F H. unfold has_event in H. destruct (find_event (e_id a) seen) as [x|] eqn:E; [|discriminate].
    pose proof (find_event_in _ _ _ E) as Hx. pose proof (find_event_id _ _ _ E) as Ex.
    pose proof (I x Hx) as Fx. rewrite Ex, F in Fx. inversion Fx; subst. exact Hx.
  Qed.

  Lemma chain_walk_complete fuel : forall work seen,
    potential work seen <= fuel -> inv seen -> closed_mod work seen ->
    let R := chain_walk fuel authmap work seen in
    (forall x, In x seen -> In x R) /\ inv R /\ closed_mod [] R /\
    (forall k b, In k work -> find_event k authmap = Some b -> In b R).
  Proof.
    induction fuel as [|f IH]; intros work seen P I C.
    - destruct work as [|k rest]; [|unfold potential in P; simpl in P; lia].
      simpl. repeat split; auto. intros k b [].
    - destruct work as [|k rest].
      { simpl. repeat split; auto. intros k b []. }
      cbn [chain_walk]. destruct (find_event k authmap) as [a|] eqn:F.
      + pose proof (find_event_id _ _ _ F) as Ea.
        assert (Fa : find_event (e_id a) authmap = Some a) by (rewrite Ea; exact F).
        destruct (has_event (e_id a) seen) eqn:H.
        * (* already visited *)
          pose proof (seen_has a seen I Fa H) as Ha.
          destruct (IH rest seen) as (R1 & R2 & R3 & R4); [unfold potential in *; simpl in P; lia|exact I| |].
          { intros x k' b Hx Hk' Fb. destruct (C x k' b Hx Hk' Fb) as [Hb|[<-|Hr]]; auto.
            rewrite F in Fb. inversion Fb; subst. left. exact Ha. }
          repeat split; auto.
          intros k' b [<-|Hr] Fb; [|eapply R4; eauto].
          rewrite F in Fb. inversion Fb; subst. apply R1. exact Ha.
        * (* visit a *)
          destruct (IH (e_auth a ++ rest) (seen ++ [a])) as (R1 & R2 & R3 & R4).
          { pose proof (potential_visit k rest seen a F H). lia. }
          { intros x Hx. apply in_app_or in Hx as [Hx|[<-|[]]]; [apply I; exact Hx|exact Fa]. }
          { intros x k' b Hx Hk' Fb. apply in_app_or in Hx as [Hx|[<-|[]]].
            - destruct (C x k' b Hx Hk' Fb) as [Hb|[<-|Hr]].
              + left. apply in_or_app. left. exact Hb.
              + rewrite F in Fb. inversion Fb; subst. left. apply in_or_app. right. left. reflexivity.
              + right. apply in_or_app. right. exact Hr.
            - right. apply in_or_app. left. exact Hk'. }
          repeat split; auto.
          { intros x Hx. apply R1. apply in_or_app. left. exact Hx. }
          intros k' b [<-|Hr] Fb.
          { rewrite F in Fb. inversion Fb; subst. apply R1. apply in_or_app. right. left. reflexivity. }
          eapply R4; [apply in_or_app; right; exact Hr|exact Fb].
      + (* a reference to an event that is not among the auth events *)
        destruct (IH rest seen) as (R1 & R2 & R3 & R4); [unfold potential in *; simpl in P; lia|exact I| |].
        { intros x k' b Hx Hk' Fb. destruct (C x k' b Hx Hk' Fb) as [Hb|[<-|Hr]]; auto.
          rewrite F in Fb. discriminate Fb. }
        repeat split; auto.
        intros k' b [<-|Hr] Fb; [rewrite F in Fb; discriminate Fb|eapply R4; eauto].
  Qed.

  Theorem full_auth_chain_complete set x :
    in_full_chain authmap set x -> In x (full_auth_chain authmap set).
  Proof.
    intros [e [He R]]. unfold full_auth_chain.
    destruct (chain_walk_complete (S (total_refs set + total_refs authmap + length authmap))
                (concat (map e_auth set)) []) as (_ & _ & C & W).
    { unfold potential, unseen.
      pose proof (sumw_filter_le (fun a => negb (has_event (e_id a) [])) authmap) as L.
      rewrite (sumw_all authmap) in L. unfold total_refs at 1. lia. }
    { intros ? []. }
    { intros ? ? ? []. }
    set (Res := chain_walk _ _ _ _) in *.
    assert (G : forall a y, auth_reach authmap a y -> (forall b, auth_step authmap a b -> In b Res) -> In y Res).
    { induction 1 as [a b S|a b c S R' IH']; intro Hs; [apply Hs; exact S|].
      apply IH'. intros b' [k [Hk Fk]]. destruct (C b k b' (Hs b S) Hk Fk) as [Hb|[]]. exact Hb. }
    apply (G e x R). intros b [k [Hk Fk]]. apply (W k b); [|exact Fk].
    apply in_concat. exists (e_auth e). split; [apply in_map; exact He|exact Hk].
  Qed.
End Complete.
