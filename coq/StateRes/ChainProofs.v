(* The depth-first walk that collects a state set's full auth chain is sound for the
   specification's reachability relation: everything it collects is reachable from an event
   of the set through auth events that are among the supplied ones.  (Completeness - the walk
   misses nothing, i.e. the fuel suffices - is proved in ChainCompleteProofs.v.) *)
From Coq Require Import Permutation Lia.
From Verif Require Import Lib.Bytes StateRes.Event StateRes.Kahn StateRes.V2 StateRes.V2Spec.
Local Open Scope nat_scope.

Lemma auth_reach_snoc authmap a b c : auth_reach authmap a b -> auth_step authmap b c -> auth_reach authmap a c.
Proof.
  induction 1 as [a b S|a b d S R IH]; intro S2.
  - eapply ar_trans; [exact S|apply ar_step; exact S2].
  - eapply ar_trans; [exact S|apply IH; exact S2].
Qed.

Section Chain.
  Variable authmap : list event.
  Variable set : list event.

  Definition good_id (k : bytes) : Prop := forall a, find_event k authmap = Some a -> in_full_chain authmap set a.

  Lemma chain_walk_sound fuel : forall work seen,
    (forall k, In k work -> good_id k) -> (forall x, In x seen -> in_full_chain authmap set x) ->
    forall x, In x (chain_walk fuel authmap work seen) -> in_full_chain authmap set x.
  Proof.
    induction fuel as [|f IH]; intros work seen Hw Hs; simpl; [exact Hs|].
    destruct work as [|k rest]; [exact Hs|].
    assert (Hrest : forall k', In k' rest -> good_id k') by (intros; apply Hw; right; assumption).
    destruct (find_event k authmap) as [a|] eqn:E; [|apply IH; assumption].
    destruct (has_event (e_id a) seen); [apply IH; assumption|].
    assert (Qa : in_full_chain authmap set a) by (apply (Hw k); [left; reflexivity|exact E]).
    apply IH.
    - intros k' Hk'. apply in_app_or in Hk' as [Hk'|Hk']; [|auto].
      intros b Eb. destruct Qa as [e [He R]]. exists e. split; [exact He|].
      eapply auth_reach_snoc; [exact R|]. exists k'. auto.
    - intros x Hx. apply in_app_or in Hx as [Hx|[<-|[]]]; auto.
  Qed.

  Theorem full_auth_chain_sound x : In x (full_auth_chain authmap set) -> in_full_chain authmap set x.
  Proof.
    unfold full_auth_chain. apply chain_walk_sound; [|intros ? []].
    intros k Hk a Ea. apply in_concat in Hk as [l [Hl Hk]]. apply in_map_iff in Hl as [e [<- He]].
    exists e. split; [exact He|]. apply ar_step. exists k. auto.
  Qed.
End Chain.
