(* The sort keys of state resolution are total orders: lexicographic combinations of integer
   and byte-string comparisons on projections of the items. *)
From Coq Require Import Lia.
From Verif Require Import Lib.Bytes StateRes.Event StateRes.Kahn StateRes.V2 StateRes.V1.

Section Good.
  Variable T : Type.

  Definition good (c : T -> T -> comparison) : Prop :=
    (forall a b, c b a = CompOpp (c a b)) /\
    (forall a b d, c a b = Lt -> c b d = Lt -> c a d = Lt) /\
    (forall a b d, c a b = Eq -> c b d = Eq -> c a d = Eq) /\
    (forall a b d, c a b = Eq -> c b d = Lt -> c a d = Lt) /\
    (forall a b d, c a b = Lt -> c b d = Eq -> c a d = Lt).

  Lemma good_antisym c : good c -> forall a b, c b a = CompOpp (c a b).
  Proof. intros [H _]. exact H. Qed.

  Lemma good_le_trans c : good c -> forall a b d, c a b <> Gt -> c b d <> Gt -> c a d <> Gt.
  Proof.
    intros [_ [LL [EE [EL LE]]]] a b d H1 H2.
    destruct (c a b) eqn:E1; [| |congruence]; destruct (c b d) eqn:E2; try congruence.
    - rewrite (EE _ _ _ E1 E2). discriminate.
    - rewrite (EL _ _ _ E1 E2). discriminate.
    - rewrite (LE _ _ _ E1 E2). discriminate.
    - rewrite (LL _ _ _ E1 E2). discriminate.
  Qed.

  Lemma good_lex c1 c2 : good c1 -> good c2 -> good (fun a b => lex (c1 a b) (c2 a b)).
  Proof.
    intros [A1 [LL1 [EE1 [EL1 LE1]]]] [A2 [LL2 [EE2 [EL2 LE2]]]]. unfold lex.
    repeat split.
    - intros a b. rewrite A1, A2. destruct (c1 a b); reflexivity.
    - intros a b d. destruct (c1 a b) eqn:E1; destruct (c1 b d) eqn:E2; try discriminate; intros H1 H2.
      + rewrite (EE1 _ _ _ E1 E2). eauto.
      + rewrite (EL1 _ _ _ E1 E2). reflexivity.
      + rewrite (LE1 _ _ _ E1 E2). reflexivity.
      + rewrite (LL1 _ _ _ E1 E2). reflexivity.
    - intros a b d. destruct (c1 a b) eqn:E1; destruct (c1 b d) eqn:E2; try discriminate; intros H1 H2.
      rewrite (EE1 _ _ _ E1 E2). eauto.
    - intros a b d. destruct (c1 a b) eqn:E1; destruct (c1 b d) eqn:E2; try discriminate; intros H1 H2.
      + rewrite (EE1 _ _ _ E1 E2). eauto.
      + rewrite (EL1 _ _ _ E1 E2). reflexivity.
    - intros a b d. destruct (c1 a b) eqn:E1; destruct (c1 b d) eqn:E2; try discriminate; intros H1 H2.
      + rewrite (EE1 _ _ _ E1 E2). eauto.
      + rewrite (LE1 _ _ _ E1 E2). reflexivity.
  Qed.

  Lemma good_flip c : good c -> good (fun a b => c b a).
  Proof.
    intros [A [LL [EE [EL LE]]]]. repeat split; intros; eauto.
  Qed.

  Lemma good_Z (p : T -> Z) : good (fun a b => cmp_Z (p a) (p b)).
  Proof.
    unfold cmp_Z. repeat split; intros *;
      rewrite ?Z.compare_lt_iff, ?Z.compare_eq_iff; try lia.
    apply Z.compare_antisym.
  Qed.

  Lemma good_bytes (p : T -> bytes) : good (fun a b => bytes_cmp (p a) (p b)).
  Proof.
    repeat split; intros *.
    - apply bytes_cmp_antisym.
    - apply bytes_cmp_trans_lt.
    - rewrite !bytes_cmp_eq. congruence.
    - rewrite bytes_cmp_eq. intros -> H. exact H.
    - intros H. rewrite bytes_cmp_eq. intros <-. exact H.
  Qed.
End Good.

Lemma pw_cmp_good : good pwrap pw_cmp.
Proof.
  unfold pw_cmp. apply good_lex; [apply (good_flip _ _ (good_Z pwrap pw_level))|].
  apply good_lex; [apply (good_Z pwrap (fun w => e_ts (pw_ev w)))|].
  apply (good_bytes pwrap (fun w => e_id (pw_ev w))).
Qed.

Lemma ow_cmp_good : good owrap ow_cmp.
Proof.
  unfold ow_cmp. apply good_lex; [apply (good_Z owrap ow_pos)|].
  apply good_lex; [apply (good_Z owrap ow_steps)|].
  apply good_lex; [apply (good_Z owrap (fun w => e_ts (ow_ev w)))|].
  apply (good_bytes owrap (fun w => e_id (ow_ev w))).
Qed.

Lemma v1_cmp_good : good event v1_cmp.
Proof.
  unfold v1_cmp. apply good_lex; [apply (good_Z event e_depth)|].
  apply (good_flip _ _ (good_bytes event e_sha1)).
Qed.

(* ties are identities of the event ID *)
Lemma pw_cmp_eq a b : pw_cmp a b = Eq -> e_id (pw_ev a) = e_id (pw_ev b).
Proof.
  unfold pw_cmp, lex, cmp_Z. destruct (_ ?= _)%Z; try discriminate.
  destruct (_ ?= _)%Z; try discriminate. apply bytes_cmp_eq.
Qed.

Lemma ow_cmp_eq a b : ow_cmp a b = Eq -> e_id (ow_ev a) = e_id (ow_ev b).
Proof.
  unfold ow_cmp, lex, cmp_Z. destruct (_ ?= _)%Z; try discriminate.
  destruct (_ ?= _)%Z; try discriminate. destruct (_ ?= _)%Z; try discriminate. apply bytes_cmp_eq.
Qed.
