(* The v2.1 driver against the stage specifications: every stage of resolve_v2_new (v2.1) is the
   specification's stage - unconflicted events, full conflicted set, power set, iterative auth
   checks, re-application - and the driver composes them in the specified order.  What stays
   with the model only (DESIGN.md 6.2 r3): the order in which the power ordering puts a control
   list WITH the repeats fullControlSet produces (for repeat-free lists it is the order of r1,
   power_order_is_library_order), and the characterisation of the conflicted events (only the
   unconflicted ones are characterised, split_is_spec). *)
From Coq Require Import Permutation Lia.
From Verif Require Import Lib.Bytes StateRes.Event StateRes.Kahn StateRes.V2 StateRes.V2Spec
     StateRes.KahnProofs StateRes.OrderProofs StateRes.ResultProofs StateRes.OrderSetProofs StateRes.SplitProofs
     StateRes.SubsetProofs StateRes.ChainProofs StateRes.ChainCompleteProofs StateRes.AuthDiffProofs
     StateRes.SubgraphProofs StateRes.AuthDiff21Proofs StateRes.PowerSetProofs StateRes.IterAuthProofs.
Local Open Scope nat_scope.

Lemma match3_auth {A B} (c u a : list A) (X Y : B) :
  a <> [] -> match c, u, a with [], [], [] => X | _, _, _ => Y end = Y.
Proof. intro N. destruct c, u, a; try reflexivity; congruence. Qed.

Section Compose.
  Variable allowed : event -> list event -> bool.
  Variable rejected : bytes -> bool.
  Variable shE : list event -> list event.
  Variable shP : list pwrap -> list pwrap.
  Variable shG : groups -> groups.
  Hypothesis shE_perm : forall l, Permutation (shE l) l.
  Hypothesis shP_perm : forall l, Permutation (shP l) l.
  Hypothesis shG_perm : forall l, Permutation (shG l) l.
  Variable priv : bool.
  Variable cl ud : Z.
  Variable sets : list (list event).
  Variable auth_events : list event.
  Hypothesis auth_nonempty : auth_events <> [].
  Hypothesis sets_repeat_free : forall s, In s sets -> NoDup (ids_of s).
  Hypothesis ids_ok : ids_identify (concat sets).

  Let authmap := dedup_events auth_events.
  Let conflicted := fst (split_conflicted shG false sets).
  Let unconflicted := snd (split_conflicted shG false sets).
  Let cm := dedup_events conflicted.
  Let full := conflicted ++ auth_difference_new shE true authmap conflicted sets.
  Let control := control_events cm [] full.
  Let others := other_events [] full control.

  Variable rank : bytes -> nat.
  Hypothesis control_acyclic : acyclic e_auth (dedup_events control).
  Hypothesis acyclic_cm : forall a b, auth_step cm a b -> rank (e_id b) < rank (e_id a).
  Hypothesis set_events_are_auth_events :
    forall s o y, In s sets -> In o s -> find_event (e_id o) authmap = Some y -> y = o.
  Hypothesis needs : forall e, In e (concat sets) \/ In e auth_events -> needs_ok e.

  Lemma full_supplied y : In y full -> In y (concat sets) \/ In y auth_events.
  Proof.
    intro H. unfold full in H. apply in_app_or in H as [H|H].
    - left. apply (split_conflicted_sub allowed shG shG_perm false). left. exact H.
    - right. apply auth_difference_new_sub in H; [|exact shE_perm]. apply dedup_in. exact H.
  Qed.

  Lemma control_supplied y : In y control -> In y (concat sets) \/ In y auth_events.
  Proof.
    intro H. apply control_events_sub in H as [H|H]; [apply full_supplied; exact H|].
    left. apply (split_conflicted_sub allowed shG shG_perm false). left. apply dedup_in. exact H.
  Qed.

  Theorem resolve_v21_stages :
    exists st1 st2,
      (* split *)
      (forall e, In e unconflicted <-> In e (dedup_events (concat sets)) /\ spec_unconflicted sets e) /\
      (* full conflicted set: conflicted events, auth difference, conflicted subgraph *)
      (forall x, In x full <-> In x conflicted \/ spec_auth_difference authmap sets x
                               \/ spec_conflicted_subgraph authmap conflicted sets x) /\
      (* power set *)
      (forall x, In x control <-> spec_power_set cm [] full x) /\
      (* the rest *)
      (forall x, In x others <-> In x full /\ is_control_event x = false /\ has_event (e_id x) control = false) /\
      (* the distinct power events in the order of 6.2 r1: a topological permutation *)
      topological_permutation e_auth (dedup_events control)
                              (power_order shP priv cl ud authmap None (dedup_events control)) /\
      (* iterative auth checks from the empty state: power events, then the rest by mainline *)
      spec_iterative_auth allowed rejected authmap [] (power_order shP priv cl ud authmap None (dedup_events control)) st1 /\
      spec_iterative_auth allowed rejected authmap st1
                          (mainline_order authmap (smap_get st1 (t_power, [])) others) st2 /\
      (* unconflicted state re-applied last *)
      r_state (resolve_v2_new allowed rejected shE shP shG priv cl ud true sets auth_events)
      = apply_events st2 unconflicted.
  Proof.
    unfold resolve_v2_new. rewrite match3_auth by exact auth_nonempty.
    fold conflicted unconflicted authmap cm full control others.
    unfold resolve_tail. cbn [r_state smap_get].
    set (csorted := power_order shP priv cl ud authmap None (dedup_events control)).
    set (r1 := auth_and_apply allowed rejected authmap (mkR [] []) csorted).
    set (osorted := mainline_order authmap (smap_get (r_state r1) (t_power, [])) others).
    set (r2 := auth_and_apply allowed rejected authmap r1 osorted).
    exists (r_state r1), (r_state r2).
    split; [intro e; apply (split_unconflicted_is_spec shG shG_perm sets sets_repeat_free ids_ok)|].
    split.
    { intro x. unfold full. rewrite in_app_iff.
      rewrite (auth_difference_v21_spec shE authmap conflicted sets x shE_perm set_events_are_auth_events).
      reflexivity. }
    split; [intro x; apply (power_set_spec cm rank acyclic_cm)|].
    split.
    { intro x. unfold others, other_events. rewrite filter_In, !andb_true_iff, !negb_true_iff. simpl. tauto. }
    split.
    { apply power_order_topological; [exact shP_perm|apply dedup_nodup|exact control_acyclic]. }
    split.
    { apply (iterative_auth_spec allowed rejected authmap csorted (mkR [] [])); [apply smap_wf_nil|].
      intros e He. apply needs. apply control_supplied. apply dedup_in. eapply power_order_in; [exact shP_perm|exact He]. }
    split; [|reflexivity].
    apply (iterative_auth_spec allowed rejected authmap osorted r1).
    - apply auth_and_apply_wf. apply smap_wf_nil.
    - intros e He. apply needs. apply full_supplied. apply mainline_order_in in He.
      unfold others, other_events in He. apply filter_In in He. tauto.
  Qed.
End Compose.
