(* The public entry points: ResolveConflictsNew, ResolveConflicts (deprecated),
   ReverseTopologicalOrdering / HeaderedReverseTopologicalOrdering, LineariseStateResponse,
   with the room-version switch read from the regenerated version table. *)
From Verif Require Import Lib.Bytes StateRes.Event StateRes.Kahn StateRes.V2 StateRes.V1.
From Verif Require Import Gen.GenVersions Gen.GenConsts.
Open Scope N_scope.

Inductive algo := AlgoV1 | AlgoV2 | AlgoV2_1.

Fixpoint assoc_bytes {A} (k : bytes) (m : list (bytes * A)) : option A :=
  match m with
  | [] => None
  | (k', v) :: r => if bytes_eqb k k' then Some v else assoc_bytes k r
  end.

Definition version_field (ver field : bytes) : option bytes :=
  match assoc_bytes ver gen_versions with
  | Some fs => assoc_bytes field fs
  | None => None
  end.

(* GetRoomVersion(version).StateResAlgorithm() *)
Definition algo_of_version (ver : bytes) : option algo :=
  match version_field ver (bs "stateResAlgorithm") with
  | Some a => if bytes_eqb a (bs "StateResV1") then Some AlgoV1
              else if bytes_eqb a (bs "StateResV2") then Some AlgoV2
              else if bytes_eqb a (bs "StateResV2_1") then Some AlgoV2_1
              else None
  | None => None
  end.

(* PrivilegedCreators() *)
Definition priv_of_version (ver : bytes) : bool :=
  match version_field ver (bs "privilegedCreators") with
  | Some v => bytes_eqb v (bs "true")
  | None => false
  end.

Definition users_default0 : Z :=
  match assoc_bytes (bs "UsersDefault") gen_pl_defaults with Some z => z | None => 0%Z end.

Section Entry.
  Variable allowed : event -> list event -> bool.
  Variable rejected : bytes -> bool.
  Variable shE : list event -> list event.
  Variable shP : list pwrap -> list pwrap.
  Variable shO : list owrap -> list owrap.
  Variable shG : list (tkey * list event) -> list (tkey * list event).

  Definition v2new (ver : bytes) :=
    resolve_v2_new allowed rejected shE shP shG (priv_of_version ver) gen_creator_power_level users_default0.
  Definition v2old (ver : bytes) :=
    resolve_v2_old allowed rejected shE shP (priv_of_version ver) gen_creator_power_level users_default0.

  (* result events and the auth queries made *)
  Definition resolve_conflicts_new (ver : bytes) (sets : list (list event)) (auth_events : list event)
    : option (list event * list query) :=
    match algo_of_version ver with
    | None => None
    | Some AlgoV1 =>
        let cu := split_conflicted shG true sets in
        let st := resolve_v1 allowed (fst cu) auth_events in
        Some (v_result st ++ snd cu, v_log st)
    | Some AlgoV2 => let r := v2new ver false sets auth_events in Some (result_events r, r_log r)
    | Some AlgoV2_1 => let r := v2new ver true sets auth_events in Some (result_events r, r_log r)
    end.

  Definition resolve_conflicts (ver : bytes) (events auth_events : list event)
    : option (list event * list query) :=
    match algo_of_version ver with
    | None => None
    | Some AlgoV1 =>
        let cu := split_old shG events in
        let st := resolve_v1 allowed (fst cu) auth_events in
        Some (v_result st ++ snd cu, v_log st)
    | Some _ =>
        let cu := split_old shG events in
        let r := v2old ver (fst cu) (snd cu) auth_events in
        Some (result_events r, r_log r)
    end.

  (* ReverseTopologicalOrdering: resolvedCreate = the first create event of the input, no
     auth map (so every sender power is 0 unless a v12 creator; every mainline position 0) *)
  Definition first_create_event (l : list event) : option event :=
    match filter is_create l with e :: _ => Some e | [] => None end.

  Definition reverse_topological_ordering (ver : bytes) (by_auth : bool) (input0 : list event) : list event :=
    let input := dedup_events input0 in   (* uniqueEvents: repeated entries are dropped first *)
    if by_auth
    then power_order shP (priv_of_version ver) gen_creator_power_level users_default0
                     [] (first_create_event input) input
    else prev_order shO [] [] input.

  (* LineariseStateResponse: one entry per event ID (a state event replaces an auth event with
     the same ID), in map order, then ordered by auth events *)
  Definition linearise_state_response (ver : bytes) (auth_events state_events : list event) : list event :=
    reverse_topological_ordering ver true (shE (dedup_events (auth_events ++ state_events))).
End Entry.
