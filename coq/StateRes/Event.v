(* Events as the state-resolution code sees them (C10 / C11).

   An event is the projection of a PDU through the accessors the resolver calls:
   EventID, Type, StateKey (nil or a string), SenderID, OriginServerTS, Depth, AuthEventIDs,
   PrevEventIDs, the SHA-1 of the event ID (input of the v1 tie-break, computed by the harness)
   and the raw content JSON (read for membership, power levels and creators).

   Wire format (one event per line, fields separated by a vertical bar, content last):
     id|type|sk|sender|ts|depth|auth,ids|prev,ids|sha1hex|content
   sk is a single minus sign for a nil state key, otherwise an equals sign followed by the key. *)
From Verif Require Import Lib.Bytes Json.Ast Json.Parse.
Open Scope N_scope.

Record event := mkEvent {
  e_id : bytes;
  e_type : bytes;
  e_skey : option bytes;
  e_sender : bytes;
  e_ts : Z;
  e_depth : Z;
  e_auth : list bytes;
  e_prev : list bytes;
  e_sha1 : bytes;
  e_content : bytes
}.

(* ---------- splitting ---------- *)
Fixpoint split_on_acc (c : N) (s : bytes) (cur : bytes) : list bytes :=
  match s with
  | [] => [rev cur]
  | x :: r => if x =? c then rev cur :: split_on_acc c r [] else split_on_acc c r (x :: cur)
  end.

(* the empty string is the empty list; otherwise the separated fields *)
Definition split_list (c : N) (s : bytes) : list bytes :=
  match s with [] => [] | _ => split_on_acc c s [] end.

Definition c_bar : N := 124.
Definition c_comma : N := 44.
Definition c_nl : N := 10.
Definition c_semi : N := 59.

Definition z_of_bytes (s : bytes) : Z := match parse_int s with Some z => z | None => 0%Z end.

Definition decode_skey (s : bytes) : option bytes :=
  match s with
  | c :: r => if c =? 61 then Some r else None
  | [] => None
  end.

Definition decode_event (line : bytes) : option event :=
  match split_at c_bar line with Some (f_id, r1) =>
  match split_at c_bar r1 with Some (f_ty, r2) =>
  match split_at c_bar r2 with Some (f_sk, r3) =>
  match split_at c_bar r3 with Some (f_sender, r4) =>
  match split_at c_bar r4 with Some (f_ts, r5) =>
  match split_at c_bar r5 with Some (f_depth, r6) =>
  match split_at c_bar r6 with Some (f_auth, r7) =>
  match split_at c_bar r7 with Some (f_prev, r8) =>
  match split_at c_bar r8 with Some (f_sha, f_content) =>
    Some (mkEvent f_id f_ty (decode_skey f_sk) f_sender (z_of_bytes f_ts) (z_of_bytes f_depth)
                  (split_list c_comma f_auth) (split_list c_comma f_prev) f_sha f_content)
  | None => None end | None => None end | None => None end | None => None end
  | None => None end | None => None end | None => None end | None => None end
  | None => None end.

Fixpoint decode_events (lines : list bytes) : list event :=
  match lines with
  | [] => []
  | l :: r => match decode_event l with
              | Some e => e :: decode_events r
              | None => decode_events r
              end
  end.

Definition decode_universe (s : bytes) : list event := decode_events (split_list c_nl s).

(* ---------- id-keyed lookup (Go: map[string]PDU built by eventMapFromEvents, first entry wins) *)
Fixpoint find_event (k : bytes) (l : list event) : option event :=
  match l with
  | [] => None
  | e :: r => if bytes_eqb k (e_id e) then Some e else find_event k r
  end.

Definition has_event (k : bytes) (l : list event) : bool :=
  match find_event k l with Some _ => true | None => false end.

Fixpoint lookup_ids (u : list event) (ids : list bytes) : list event :=
  match ids with
  | [] => []
  | k :: r => match find_event k u with
              | Some e => e :: lookup_ids u r
              | None => lookup_ids u r
              end
  end.

Definition ids_of (l : list event) : list bytes := map e_id l.

(* keep the first occurrence of every event ID *)
Fixpoint dedup_events_acc (l : list event) (seen : list bytes) : list event :=
  match l with
  | [] => []
  | e :: r => if mem_bytes (e_id e) seen then dedup_events_acc r seen
              else e :: dedup_events_acc r (e_id e :: seen)
  end.
Definition dedup_events (l : list event) : list event := dedup_events_acc l [].

Fixpoint dedup_bytes_acc (l : list bytes) (seen : list bytes) : list bytes :=
  match l with
  | [] => []
  | x :: r => if mem_bytes x seen then dedup_bytes_acc r seen else x :: dedup_bytes_acc r (x :: seen)
  end.
Definition dedup_bytes (l : list bytes) : list bytes := dedup_bytes_acc l [].

(* ---------- state keys ---------- *)
Definition skey_is (e : event) (k : bytes) : bool :=
  match e_skey e with Some s => bytes_eqb s k | None => false end.

Definition opt_bytes_eqb (a b : option bytes) : bool :=
  match a, b with
  | Some x, Some y => bytes_eqb x y
  | None, None => true
  | _, _ => false
  end.

(* (type, state_key) tuples *)
Definition tkey := (bytes * bytes)%type.
Definition tkey_eqb (a b : tkey) : bool := bytes_eqb (fst a) (fst b) && bytes_eqb (snd a) (snd b).

Definition event_tkey (e : event) : option tkey :=
  match e_skey e with Some s => Some (e_type e, s) | None => None end.

(* ---------- event types ---------- *)
Definition t_create : bytes := bs "m.room.create".
Definition t_power : bytes := bs "m.room.power_levels".
Definition t_join_rules : bytes := bs "m.room.join_rules".
Definition t_member : bytes := bs "m.room.member".
Definition t_3pid : bytes := bs "m.room.third_party_invite".
Definition t_aliases : bytes := bs "m.room.aliases".

Definition is_type_sk0 (t : bytes) (e : event) : bool := bytes_eqb (e_type e) t && skey_is e [].
Definition is_create (e : event) : bool := is_type_sk0 t_create e.
Definition is_power (e : event) : bool := is_type_sk0 t_power e.

(* ---------- content ---------- *)
Definition content_json (e : event) : option json := parse_json (e_content e).

(* encoding/json into a string field: last member with that key; a non-string leaves it empty *)
Definition content_str (k : bytes) (e : event) : bytes :=
  match content_json e with
  | Some j => match jget_last k j with Some (JStr s) => s | _ => [] end
  | None => []
  end.

Definition membership_of (e : event) : bytes := content_str (bs "membership") e.

(* isControlEvent (stateresolutionv2.go) *)
Definition is_control_event (e : event) : bool :=
  if bytes_eqb (e_type e) t_power then skey_is e []
  else if bytes_eqb (e_type e) t_join_rules then skey_is e []
  else if bytes_eqb (e_type e) t_member then
    match e_skey e with
    | None => false
    | Some sk =>
        if bytes_eqb sk [] then false
        else if bytes_eqb sk (e_sender e) then false
        else let m := membership_of e in
             bytes_eqb m (bs "leave") || bytes_eqb m (bs "ban")
    end
  else false.

(* ---------- StateNeededForAuth for one event (eventauth.go: accumulateStateNeeded) ---------- *)
Record needed := mkNeeded {
  n_create : bool;
  n_power : bool;
  n_join_rules : bool;
  n_member : list bytes;
  n_3pid : list bytes
}.

(* content.third_party_invite: None = absent (nil pointer), Some token otherwise *)
Definition third_party_token (e : event) : option bytes :=
  match content_json e with
  | Some j =>
      match jget_last (bs "third_party_invite") j with
      | Some (JObj m) =>
          Some (match jget_last (bs "signed") (JObj m) with
                | Some sg => match jget_last (bs "token") sg with Some (JStr s) => s | _ => [] end
                | None => []
                end)
      | _ => None
      end
  | None => None
  end.

Definition state_needed (e : event) : needed :=
  if bytes_eqb (e_type e) t_create then mkNeeded false false false [] []
  else if bytes_eqb (e_type e) t_aliases then mkNeeded true false false [] []
  else if bytes_eqb (e_type e) t_member then
    let m := membership_of e in
    let base := e_sender e :: match e_skey e with Some sk => [sk] | None => [] end in
    let jr := bytes_eqb m (bs "join") || bytes_eqb m (bs "knock") || bytes_eqb m (bs "invite") in
    match third_party_token e with
    | Some [] => mkNeeded true true jr (dedup_bytes base) []           (* token error: early return *)
    | Some tok =>
        let via := content_str (bs "join_authorised_via_users_server") e in
        mkNeeded true true jr (dedup_bytes (base ++ match via with [] => [] | _ => [via] end)) [tok]
    | None =>
        let via := content_str (bs "join_authorised_via_users_server") e in
        mkNeeded true true jr (dedup_bytes (base ++ match via with [] => [] | _ => [via] end)) []
    end
  else mkNeeded true true false [e_sender e] [].

(* ---------- power levels (only what the sender-power lookup reads) ---------- *)
Definition int_or_absent (k : bytes) (j : json) : bool :=
  match jget_last k j with
  | None => true
  | Some JNull => true
  | Some (JNum r) => match num_int r with Some _ => true | None => false end
  | Some _ => false
  end.

Fixpoint all_int_members (m : list (bytes * json)) : bool :=
  match m with
  | [] => true
  | (_, JNum r) :: m' => match num_int r with Some _ => all_int_members m' | None => false end
  | _ => false
  end.

Definition int_map_or_absent (k : bytes) (j : json) : bool :=
  match jget_last k j with
  | None => true
  | Some JNull => true
  | Some (JObj m) => all_int_members m
  | Some _ => false
  end.

(* NewPowerLevelContentFromEvent followed by UserLevel, for contents whose levels are JSON
   integers (None = the content does not parse). Lenient string / float levels of old room
   versions are outside this model (C07 / C08 own the content parsers). *)
Definition pl_user_level (users_default0 : Z) (pl : event) (user : bytes) : option Z :=
  match content_json pl with
  | Some (JObj m) =>
      let j := JObj m in
      if int_or_absent (bs "ban") j && int_or_absent (bs "invite") j && int_or_absent (bs "kick") j
         && int_or_absent (bs "redact") j && int_or_absent (bs "state_default") j
         && int_or_absent (bs "events_default") j && int_or_absent (bs "users_default") j
         && int_map_or_absent (bs "users") j && int_map_or_absent (bs "events") j
         && int_map_or_absent (bs "notifications") j
      then
        let dflt := match jget_last (bs "users_default") j with
                    | Some (JNum r) => match num_int r with Some z => z | None => users_default0 end
                    | _ => users_default0
                    end in
        Some (match jget_last (bs "users") j with
              | Some (JObj um) => match assoc_last user um with
                                  | Some (JNum r) => match num_int r with Some z => z | None => dflt end
                                  | _ => dflt
                                  end
              | _ => dflt
              end)
      else None
  | _ => None
  end.

(* CreatorsFromCreateEvent: sender, then content.additional_creators *)
Fixpoint json_strings (l : list json) : option (list bytes) :=
  match l with
  | [] => Some []
  | JStr s :: r => option_map (cons s) (json_strings r)
  | _ => None
  end.

Definition creators_of (create : event) : list bytes :=
  e_sender create ::
  match content_json create with
  | Some j => match jget_last (bs "additional_creators") j with
              | Some (JArr l) => match json_strings l with Some ss => ss | None => [] end
              | _ => []   (* absent, or malformed: only the sender (after the F12 repair) *)
              end
  | None => []
  end.
