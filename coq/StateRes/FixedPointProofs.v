(* State sets that all hold the same events (each a map) resolve to exactly these events
   (v2 and v2.1, current driver): nothing is conflicted, the full auth chains of the sets
   coincide so the auth difference is empty, and the result is the unconflicted state. *)
From Coq Require Import Permutation Lia.
From Verif Require Import Lib.Bytes StateRes.Event StateRes.Kahn StateRes.V2 StateRes.V2Spec
     StateRes.KahnProofs StateRes.OrderProofs StateRes.ResultProofs StateRes.OrderSetProofs
     StateRes.SplitProofs StateRes.KahnMemberProofs StateRes.SubsetProofs StateRes.AgreedProofs
     StateRes.ChainProofs StateRes.ChainCompleteProofs StateRes.AuthDiffProofs.
Local Open Scope nat_scope.

Section FixedPoint.
  Variable allowed : event -> list event -> bool.
  Variable rejected : bytes -> bool.
  Variable shE : list event -> list event.
  Variable shP : list pwrap -> list pwrap.
  Variable shG : groups -> groups.
  Hypothesis shE_perm : forall l, Permutation (shE l) l.
  Hypothesis shP_perm : forall l, Permutation (shP l) l.
  Hypothesis shG_perm : forall l, Permutation (shG l) l.
  Variable priv : bool.
  Variable cl ud : Z.
  Variable sets : list (list event).
  Hypothesis sets_repeat_free : forall s, In s sets -> NoDup (ids_of s).
  Hypothesis ids_ok : ids_identify (concat sets).
  (* every state event of the sets is unconflicted *)
  Hypothesis all_unconflicted : forall e, In e (concat sets) -> e_skey e <> None -> spec_unconflicted sets e.

  Lemma nothing_conflicted : fst (split_conflicted shG false sets) = [].
  Proof.
    destruct (fst (split_conflicted shG false sets)) as [|x rest] eqn:E; [reflexivity|]. exfalso.
    assert (Hx : In x (fst (split_conflicted shG false sets))) by (rewrite E; left; reflexivity). clear E.
    unfold split_conflicted, split_groups in Hx. rewrite split_groups_fst in Hx. simpl in Hx.
    destruct (group_events_spec (concat sets)) as [NDg Hg].
    apply in_concat in Hx as [l [Hl Hx]]. apply in_map_iff in Hl as [[k evs] [<- Hg']].
    apply (Permutation_in _ (shG_perm _)) in Hg'.
    apply (gget_in _ _ _ NDg) in Hg'. rewrite Hg in Hg'.
    set (D := dedup_events (concat sets)) in *.
    destruct (grp k D) as [|e0 r0] eqn:G; simpl in Hg'; [discriminate|]. inversion Hg'; subst evs; clear Hg'.
    assert (He0 : In e0 D /\ has_key k e0 = true).
    { apply filter_In. unfold grp in G. rewrite G. left. reflexivity. }
    destruct He0 as [HeD Hk]. apply has_key_iff in Hk.
    assert (Hin : In e0 (concat sets)) by (apply (D_in sets ids_ok); exact HeD).
    assert (Hsk : e_skey e0 <> None) by (unfold event_tkey in Hk; destruct (e_skey e0); discriminate).
    destruct (all_unconflicted e0 Hin Hsk) as [_ [Hall Hsame]].
    assert (Hgrp : grp k D = [e0]).
    { apply filter_single; [exact (D_nodup sets)|exact HeD|apply has_key_iff; exact Hk|].
      intros y Hy Hyk. apply has_key_iff in Hyk.
      apply (D_in sets ids_ok), (in_some_set sets) in Hy as [s [Hs Hys]].
      apply ids_ok.
      - apply (in_some_set sets). exists s; auto.
      - exact Hin.
      - apply (Hsame s y Hs Hys). congruence. }
    rewrite G in Hgrp. inversion Hgrp; subst r0.
    unfold split_group in Hx. simpl in Hx.
    assert (Ec : count_id (e_id e0) sets = length sets).
    { apply (count_full _ _ sets_repeat_free). intros s Hs. destruct (Hall s Hs) as [e' [He' Eid]].
      apply in_map_iff. exists e'. split; [exact Eid|exact He']. }
    rewrite Ec, Nat.eqb_refl in Hx. destruct Hx.
  Qed.

  (* the sets have the same members, so their full auth chains coincide *)
  Hypothesis same_members : forall s1 s2 x, In s1 sets -> In s2 sets -> In x s1 -> In x s2.

  Lemma auth_difference_empty v21 authmap x :
    ~ In x (auth_difference_new shE v21 authmap (fst (split_conflicted shG false sets)) sets).
  Proof.
    rewrite nothing_conflicted.
    assert (Hd : forall y, ~ In y (auth_difference_new shE false authmap [] sets)).
    { intros y Hy. apply (auth_difference_new_is_spec authmap shE shE_perm) in Hy as [[s [Hs [e [He R]]]] Hn].
      apply Hn. intros s' Hs'. exists e. split; [apply (same_members s s'); assumption|exact R]. }
    destruct v21; [|apply Hd].
    unfold auth_difference_new. intro H. apply (Permutation_in _ (shE_perm _)) in H. revert x H.
    apply (union_events_sub (fun _ => False)).
    - intros y Hy. apply (Hd y). unfold auth_difference_new.
      apply (Permutation_in _ (Permutation_sym (shE_perm _))). exact Hy.
    - apply (fold_left_inv _ (fun acc => forall y, In y acc -> False)); [intros ? []|].
      intros acc s Hacc _. apply (union_events_sub (fun _ => False)); [exact Hacc|].
      unfold conflicted_subgraph.
      apply (fold_left_inv _ (fun acc => forall y, In y acc -> False)); [intros ? []|].
      intros acc' p Hacc' _. exact Hacc'.
  Qed.

  Theorem equal_sets_result_within_sets v21 auth_events x :
    In x (result_events (resolve_v2_new allowed rejected shE shP shG priv cl ud v21 sets auth_events)) ->
    In x (concat sets).
  Proof.
    apply (result_from_sets_and_auth_difference allowed rejected shE shP shG shP_perm shG_perm priv cl ud
             (fun y => In y (concat sets))); [auto|].
    intros y Hy. exfalso. exact (auth_difference_empty v21 _ y Hy).
  Qed.
End FixedPoint.

Section FixedPointTheorem.
  Variable allowed : event -> list event -> bool.
  Variable rejected : bytes -> bool.
  Variable shE : list event -> list event.
  Variable shP : list pwrap -> list pwrap.
  Variable shG : groups -> groups.
  Hypothesis shE_perm : forall l, Permutation (shE l) l.
  Hypothesis shP_perm : forall l, Permutation (shP l) l.
  Hypothesis shG_perm : forall l, Permutation (shG l) l.
  Variable priv : bool.
  Variable cl ud : Z.

  (* state sets that all hold the same events, each a map: the result is exactly the state
     events of the sets *)
  Theorem equal_sets_fixed_point_v2 v21 sets auth_events e :
    (forall s, In s sets -> NoDup (ids_of s)) -> ids_identify (concat sets) ->
    (forall s a b, In s sets -> In a s -> In b s -> event_tkey a = event_tkey b -> e_id a = e_id b) ->
    (forall s1 s2 x, In s1 sets -> In s2 sets -> In x s1 -> present_in x s2) ->
    (In e (result_events (resolve_v2_new allowed rejected shE shP shG priv cl ud v21 sets auth_events)) <->
     In e (concat sets) /\ e_skey e <> None).
  Proof.
    intros ND Hid Hmap Heq.
    assert (Hunc : forall x, In x (concat sets) -> e_skey x <> None -> spec_unconflicted sets x).
    { intros x Hin Hsk. pose proof Hin as Hin'. apply in_concat in Hin' as [s0 [Hs0 He0]].
      split; [exact Hsk|]. split.
      - intros s Hs. apply (Heq s0 s x Hs0 Hs He0).
      - intros s e' Hs He' Ek. destruct (Heq s0 s x Hs0 Hs He0) as [e'' [He'' Eid]].
        assert (e'' = x).
        { apply Hid; [apply in_concat; exists s; auto|exact Hin|exact Eid]. }
        subst e''. unfold same_id. apply (Hmap s e' x Hs He' He''). exact Ek. }
    assert (Hsame : forall s1 s2 x, In s1 sets -> In s2 sets -> In x s1 -> In x s2).
    { intros s1 s2 x H1 H2 Hx. destruct (Heq s1 s2 x H1 H2 Hx) as [x' [Hx' Eid]].
      assert (x' = x) by (apply Hid; [apply in_concat; exists s2; auto|apply in_concat; exists s1; auto|exact Eid]).
      subst x'. exact Hx'. }
    split.
    - intro H. split.
      + exact (equal_sets_result_within_sets allowed rejected shE shP shG shE_perm shP_perm shG_perm priv cl ud
                 sets ND Hid Hunc Hsame v21 auth_events e H).
      + revert H. apply smap_wf_state_events, resolve_v2_new_wf.
    - intros [Hin Hsk]. apply agreed_keys_kept_v2; auto.
  Qed.
End FixedPointTheorem.
