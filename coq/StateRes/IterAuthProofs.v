(* Iterative auth checks (authAndApplyEvents): the events the auth rules are shown for one
   event are the specification's - for every key the event needs, the partial state's event if
   it has one, else the event's own last supplied, non-rejected auth event of that key - in the
   order of the needed keys; and the loop applies an event exactly when the rules allow it
   against those events. *)
From Coq Require Import Permutation Lia.
From Verif Require Import Lib.Bytes StateRes.Event StateRes.Kahn StateRes.V2 StateRes.V2Spec
     StateRes.KahnProofs StateRes.ResultProofs StateRes.SplitProofs.
Local Open Scope nat_scope.

Lemma smap_set_append p k x : ~ In k (map fst p) -> smap_set p k x = p ++ [(k, x)].
Proof.
  induction p as [|[k0 e0] r IH]; simpl; intro H; [reflexivity|].
  rewrite tkey_eqb_neq; [|intro; subst; apply H; left; reflexivity]. rewrite IH; [reflexivity|]. intro; apply H; right; assumption.
Qed.

Lemma smap_set_replace_last p k x y : ~ In k (map fst p) -> smap_set (p ++ [(k, x)]) k y = p ++ [(k, y)].
Proof.
  induction p as [|[k0 e0] r IH]; simpl; intro H.
  - rewrite tkey_eqb_refl. reflexivity.
  - rewrite tkey_eqb_neq; [|intro; subst; apply H; left; reflexivity]. rewrite IH; [reflexivity|]. intro; apply H; right; assumption.
Qed.

Lemma last_opt_snoc {A} (l : list A) x : last_opt (l ++ [x]) = Some x.
Proof. unfold last_opt. rewrite fold_left_app. reflexivity. Qed.

Lemma sits_under_iff k a : sits_under k a = true <-> event_tkey a = Some k.
Proof. apply has_key_iff. Qed.

(* adding events that all sit under k to a provider that has no k yet *)
Lemma add_under_key k l : forall p,
  ~ In k (map fst p) -> (forall a, In a l -> event_tkey a = Some k) ->
  fold_left apply_event l p = match last_opt l with Some x => p ++ [(k, x)] | None => p end.
Proof.
  induction l as [|a r IH] using rev_ind; intros p Hk Hl; [reflexivity|].
  rewrite fold_left_app, last_opt_snoc. simpl.
  assert (Ha : event_tkey a = Some k) by (apply Hl; apply in_or_app; right; left; reflexivity).
  rewrite IH; [|exact Hk|intros; apply Hl; apply in_or_app; left; assumption].
  unfold apply_event. rewrite Ha.
  destruct (last_opt r); [apply smap_set_replace_last|apply smap_set_append]; exact Hk.
Qed.

Section IterAuth.
  Variable rejected : bytes -> bool.
  Variable authmap : list event.

  Lemma fallback_is_fold (t k : bytes) : forall ids p,
    fold_left (fun p a =>
                 if rejected a then p
                 else match find_event a authmap with
                      | Some ae => if bytes_eqb (e_type ae) t && skey_is ae k then provider_add p ae else p
                      | None => p
                      end) ids p
    = fold_left apply_event (filter (sits_under (t, k)) (lookup_ids authmap (filter (fun a => negb (rejected a)) ids))) p.
  Proof.
    induction ids as [|a r IH]; intro p; simpl; [reflexivity|].
    destruct (rejected a); simpl; [apply IH|].
    destruct (find_event a authmap) as [ae|]; [|apply IH]. simpl.
    assert (E : sits_under (t, k) ae = bytes_eqb (e_type ae) t && skey_is ae k).
    { unfold sits_under, event_tkey, skey_is, tkey_eqb. destruct (e_skey ae); [reflexivity|rewrite andb_false_r; reflexivity]. }
    rewrite E. destruct (bytes_eqb (e_type ae) t && skey_is ae k); simpl; apply IH.
  Qed.

  Variable st : smap.
  Hypothesis st_wf : smap_wf st.

  (* one needed key *)
  Lemma provide_key e t k p :
    ~ In (t, k) (map fst p) ->
    provide rejected authmap e (smap_get st (t, k)) t k p
    = match spec_auth_entry rejected authmap (smap_get st) e (t, k) with Some x => p ++ [((t, k), x)] | None => p end.
  Proof.
    intro Hk. unfold provide, spec_auth_entry. destruct (smap_get st (t, k)) as [r|] eqn:Er.
    - unfold provider_add, apply_event.
      assert (Hr : event_tkey r = Some (t, k)).
      { destruct st_wf as [_ V]. apply V. clear -Er. induction st as [|[k0 e0] m IH]; simpl in Er; [discriminate|].
        destruct (tkey_eqb k0 (t, k)) eqn:E; [apply tkey_eqb_eq in E; subst; inversion Er; left; reflexivity|right; auto]. }
      rewrite Hr. apply smap_set_append. exact Hk.
    - unfold add_from_auth_events, own_auth_entry. rewrite (fallback_is_fold t k).
      apply add_under_key; [exact Hk|]. intros a Ha. apply filter_In in Ha as [_ Ha]. apply sits_under_iff. exact Ha.
  Qed.

  Definition key_step (e : event) (p : smap) (K : tkey) : smap :=
    provide rejected authmap e (smap_get st K) (fst K) (snd K) p.

  Lemma key_steps e ks : forall p,
    NoDup ks -> (forall K, In K ks -> ~ In K (map fst p)) ->
    fold_left (key_step e) ks p =
    p ++ flat_map (fun K => match spec_auth_entry rejected authmap (smap_get st) e K with Some x => [(K, x)] | None => [] end) ks.
  Proof.
    induction ks as [|[t k] r IH]; intros p ND Hp; simpl; [rewrite app_nil_r; reflexivity|].
    inversion ND; subst. unfold key_step at 2. simpl fst. simpl snd.
    rewrite provide_key; [|apply Hp; left; reflexivity].
    destruct (spec_auth_entry rejected authmap (smap_get st) e (t, k)) as [x|].
    - rewrite IH; [rewrite <- app_assoc; reflexivity|exact H2|].
      intros K HK Hin. rewrite map_app in Hin. apply in_app_or in Hin as [Hin|[<-|[]]]; [apply (Hp K); [right; exact HK|exact Hin]|contradiction].
    - apply IH; [exact H2|]. intros K HK. apply Hp. right. exact HK.
  Qed.

  (* the model's auth_provider is the fold over the needed keys *)
  Lemma auth_provider_is_fold e :
    (forall u, In u (n_member (state_needed e)) -> u <> []) ->
    (forall u, In u (n_3pid (state_needed e)) -> u <> []) ->
    auth_provider rejected authmap st e = fold_left (key_step e) (needed_keys e) [].
  Proof.
    intros Hm H3. unfold auth_provider, needed_keys.
    rewrite !fold_left_app.
    assert (Fm : forall l p, (forall u, In u l -> u <> []) ->
               fold_left (fun p k => provide rejected authmap e (st_lookup_nonempty st t_member k) t_member k p) l p
               = fold_left (key_step e) (map (fun u => (t_member, u)) l) p).
    { induction l as [|u r IH]; intros p Hl; simpl; [reflexivity|]. rewrite IH; [|intros; apply Hl; right; assumption].
      unfold key_step at 2. simpl. unfold st_lookup_nonempty. destruct u; [exfalso; apply (Hl []); [left; reflexivity|reflexivity]|reflexivity]. }
    assert (F3 : forall l p, (forall u, In u l -> u <> []) ->
               fold_left (fun p k => provide rejected authmap e (st_lookup_nonempty st t_3pid k) t_3pid k p) l p
               = fold_left (key_step e) (map (fun u => (t_3pid, u)) l) p).
    { induction l as [|u r IH]; intros p Hl; simpl; [reflexivity|]. rewrite IH; [|intros; apply Hl; right; assumption].
      unfold key_step at 2. simpl. unfold st_lookup_nonempty. destruct u; [exfalso; apply (Hl []); [left; reflexivity|reflexivity]|reflexivity]. }
    rewrite F3, Fm by assumption. f_equal. f_equal.
    destruct (n_create (state_needed e)), (n_join_rules (state_needed e)), (n_power (state_needed e)); reflexivity.
  Qed.

  (* what the auth rules are shown *)
  Theorem auth_provider_is_spec e :
    NoDup (needed_keys e) ->
    (forall u, In u (n_member (state_needed e)) -> u <> []) ->
    (forall u, In u (n_3pid (state_needed e)) -> u <> []) ->
    smap_values (auth_provider rejected authmap st e) = spec_auth_events_v2 rejected authmap (smap_get st) e.
  Proof.
    intros ND Hm H3. rewrite auth_provider_is_fold by assumption.
    rewrite key_steps; [|exact ND|intros ? ? []]. simpl.
    unfold smap_values, spec_auth_events_v2. clear ND. induction (needed_keys e) as [|K r IH]; simpl; [reflexivity|].
    rewrite map_app, IH. destruct (spec_auth_entry rejected authmap (smap_get st) e K); reflexivity.
  Qed.
End IterAuth.

(* the loop: an event is applied exactly when the rules allow it against the specification's
   auth events for the partial state reached so far *)
Inductive spec_iterative_auth (allowed : event -> list event -> bool) (rejected : bytes -> bool)
          (authmap : list event) : smap -> list event -> smap -> Prop :=
| sia_done st : spec_iterative_auth allowed rejected authmap st [] st
| sia_pass st e l st' :
    allowed e (spec_auth_events_v2 rejected authmap (smap_get st) e) = true ->
    spec_iterative_auth allowed rejected authmap (apply_event st e) l st' ->
    spec_iterative_auth allowed rejected authmap st (e :: l) st'
| sia_fail st e l st' :
    allowed e (spec_auth_events_v2 rejected authmap (smap_get st) e) = false ->
    spec_iterative_auth allowed rejected authmap st l st' ->
    spec_iterative_auth allowed rejected authmap st (e :: l) st'.

Definition needs_ok (e : event) : Prop :=
  NoDup (needed_keys e) /\
  (forall u, In u (n_member (state_needed e)) -> u <> []) /\
  (forall u, In u (n_3pid (state_needed e)) -> u <> []).

Theorem iterative_auth_spec allowed rejected authmap l : forall r,
  smap_wf (r_state r) -> (forall e, In e l -> needs_ok e) ->
  spec_iterative_auth allowed rejected authmap (r_state r) l
                      (r_state (auth_and_apply allowed rejected authmap r l)).
Proof.
  unfold auth_and_apply. induction l as [|e l' IH]; intros r W H; simpl; [constructor|].
  destruct (H e (or_introl eq_refl)) as [N1 [N2 N3]].
  pose proof (auth_provider_is_spec rejected authmap (r_state r) W e N1 N2 N3) as P.
  unfold auth_and_apply_one at 2. rewrite P.
  destruct (allowed e (spec_auth_events_v2 rejected authmap (smap_get (r_state r)) e)) eqn:A.
  - apply sia_pass; [exact A|].
    apply (IH (mkR (apply_event (r_state r) e) _)); [apply apply_event_wf; exact W|intros; apply H; right; assumption].
  - apply sia_fail; [exact A|].
    apply (IH (mkR (r_state r) _)); [exact W|intros; apply H; right; assumption].
Qed.
