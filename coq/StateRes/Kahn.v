(* The two Kahn orderings of stateresolutionv2.go (kahnsAlgorithmUsingAuthEvents /
   kahnsAlgorithmUsingPrevEvents) as one generic executable model, and the stable sort
   (slices.SortStableFunc) they and mainlineOrdering use.

   Go maps are modelled as follows: eventMap is a list of items with distinct IDs (a later
   duplicate replaces the earlier one in place), inDegree is a total function into Z (absent =
   0), and every range-over-map visits the entries in the order [sh] puts them in; [sh] is an
   arbitrary rearrangement (theorems: any function with Permutation (sh l) l). *)
From Verif Require Import Lib.Bytes.
Open Scope N_scope.

Section Sort.
  Variable T : Type.
  Variable cmp : T -> T -> comparison.

  (* x goes in front of the first element that is not smaller than x *)
  Fixpoint sinsert (x : T) (l : list T) : list T :=
    match l with
    | [] => [x]
    | y :: r => match cmp x y with
                | Gt => y :: sinsert x r
                | _ => x :: l
                end
    end.

  (* stable: an element stays in front of the later elements it compares Eq with *)
  Fixpoint ssort (l : list T) : list T :=
    match l with
    | [] => []
    | x :: r => sinsert x (ssort r)
    end.
End Sort.

Arguments sinsert {T}.
Arguments ssort {T}.

Section Kahn.
  Variable T : Type.
  Variable tid : T -> bytes.
  Variable trefs : T -> list bytes.
  Variable tcmp : T -> T -> comparison.
  Variable sh : list T -> list T.

  Definition deg := bytes -> Z.
  Definition deg0 : deg := fun _ => 0%Z.
  Definition deg_add (d : deg) (k : bytes) (v : Z) : deg :=
    fun x => if bytes_eqb x k then (d x + v)%Z else d x.
  Definition deg_inc (d : deg) (k : bytes) : deg := deg_add d k 1%Z.
  Definition deg_dec (d : deg) (k : bytes) : deg := deg_add d k (-1)%Z.

  (* eventMap[id] = item *)
  Fixpoint emap_set (m : list T) (e : T) : list T :=
    match m with
    | [] => [e]
    | x :: r => if bytes_eqb (tid x) (tid e) then e :: r else x :: emap_set r e
    end.
  Fixpoint emap_find (m : list T) (k : bytes) : option T :=
    match m with
    | [] => None
    | x :: r => if bytes_eqb (tid x) k then Some x else emap_find r k
    end.
  Definition emap_del (m : list T) (k : bytes) : list T :=
    filter (fun x => negb (bytes_eqb (tid x) k)) m.

  (* first loop: fill eventMap, count incoming references *)
  Definition kahn_count (acc : list T * deg) (e : T) : list T * deg :=
    (emap_set (fst acc) e, fold_left deg_inc (trefs e) (snd acc)).
  Definition kahn_init (events : list T) : list T * deg :=
    fold_left kahn_count events ([], deg0).

  Definition is_zero (d : deg) (x : T) : bool := (d (tid x) =? 0)%Z.

  Fixpoint pop_last (l : list T) : option (T * list T) :=
    match l with
    | [] => None
    | [x] => Some (x, [])
    | x :: r => match pop_last r with
                | Some (y, r') => Some (y, x :: r')
                | None => None
                end
    end.

  Record kst := mkKst { k_map : list T; k_deg : deg; k_queue : list T; k_graph : list T }.

  (* one outgoing reference of the popped item *)
  Definition kahn_relax (st : kst) (a : bytes) : kst :=
    let d := deg_dec (k_deg st) a in
    if (d a =? 0)%Z then
      match emap_find (k_map st) a with
      | Some x => mkKst (emap_del (k_map st) a) d (k_queue st ++ [x]) (k_graph st)
      | None => mkKst (k_map st) d (k_queue st) (k_graph st)
      end
    else mkKst (k_map st) d (k_queue st) (k_graph st).

  Definition kahn_step (st : kst) : option kst :=
    match pop_last (k_queue st) with
    | None => None
    | Some (e, q) =>
        let st1 := fold_left kahn_relax (trefs e) (mkKst (k_map st) (k_deg st) q (e :: k_graph st)) in
        Some (mkKst (k_map st1) (k_deg st1) (ssort tcmp (k_queue st1)) (k_graph st1))
    end.

  Fixpoint kahn_loop (fuel : nat) (st : kst) : kst :=
    match fuel with
    | O => st
    | S f => match kahn_step st with
             | None => st
             | Some st' => kahn_loop f st'
             end
    end.

  Definition kahn_start (events : list T) : kst :=
    let md := kahn_init events in
    let m := fst md in
    let d := snd md in
    mkKst (filter (fun x => negb (is_zero d x)) m) d
          (ssort tcmp (filter (is_zero d) (sh m))) [].

  (* the loop runs once per item that reaches the queue: at most the number of distinct IDs *)
  Definition kahn (events : list T) : list T :=
    let st0 := kahn_start events in
    let st := kahn_loop (length (fst (kahn_init events))) st0 in
    ssort tcmp (sh (k_map st)) ++ k_graph st.
End Kahn.

Arguments kahn {T}.
Arguments kahn_init {T}.
Arguments kahn_count {T}.
Arguments kahn_start {T}.
Arguments kahn_loop {T}.
Arguments kahn_step {T}.
Arguments kahn_relax {T}.
Arguments pop_last {T}.
Arguments emap_set {T}.
Arguments emap_find {T}.
Arguments emap_del {T}.
Arguments is_zero {T}.
Arguments mkKst {T}.
Arguments k_map {T}.
Arguments k_deg {T}.
Arguments k_queue {T}.
Arguments k_graph {T}.
