(* For ANY input list (repeated entries, cycles, references to absent items) the Kahn model
   returns a rearrangement of its eventMap - the last entry of every ID. In particular the
   output contains only input items, and every input item when IDs identify items. *)
From Coq Require Import Permutation Lia.
From Verif Require Import Lib.Bytes StateRes.Kahn StateRes.SortProofs StateRes.KahnProofs.
Local Open Scope nat_scope.

Section KahnMember.
  Variable T : Type.
  Variable tid : T -> bytes.
  Variable trefs : T -> list bytes.
  Variable tcmp : T -> T -> comparison.
  Variable sh : list T -> list T.
  Hypothesis sh_perm : forall l, Permutation (sh l) l.

  (* ---------- eventMap ---------- *)
  Lemma emap_set_in m e x : In x (emap_set tid m e) -> x = e \/ In x m.
  Proof.
    induction m as [|y r IH]; simpl; [intros [H|[]]; auto|].
    destruct (bytes_eqb (tid y) (tid e)).
    - intros [H|H]; auto.
    - intros [H|H]; [auto|]. destruct (IH H); auto.
  Qed.

  Lemma emap_set_has m e : In e (emap_set tid m e).
  Proof.
    induction m as [|y r IH]; simpl; [auto|]. destruct (bytes_eqb (tid y) (tid e)); [left; reflexivity|right; exact IH].
  Qed.

  Lemma emap_set_keeps m e x : In x m -> tid x <> tid e -> In x (emap_set tid m e).
  Proof.
    induction m as [|y r IH]; simpl; [tauto|]. intros [->|H] N.
    - destruct (bytes_eqb (tid x) (tid e)) eqn:E; [apply bytes_eqb_eq in E; contradiction|left; reflexivity].
    - destruct (bytes_eqb (tid y) (tid e)); [right; exact H|right; apply IH; assumption].
  Qed.

  Lemma emap_set_ids m e : NoDup (map tid m) -> NoDup (map tid (emap_set tid m e)).
  Proof.
    induction m as [|y r IH]; simpl; intro ND; [repeat constructor; tauto|]. inversion ND; subst.
    destruct (bytes_eqb (tid y) (tid e)) eqn:E.
    - apply bytes_eqb_eq in E. simpl. rewrite <- E. exact ND.
    - simpl. constructor; [|apply IH; assumption].
      intro Hin. apply in_map_iff in Hin as [z [Ez Hz]]. apply emap_set_in in Hz as [->|Hz].
      + apply bytes_eqb_neq in E. congruence.
      + apply H1. rewrite <- Ez. apply in_map. exact Hz.
  Qed.

  Lemma init_fold l : forall m d,
    NoDup (map tid m) ->
    let md := fold_left (kahn_count tid trefs) l (m, d) in
    NoDup (map tid (fst md)) /\
    (forall x, In x (fst md) -> In x m \/ In x l) /\
    (forall x, In x l -> (forall y, In y l -> tid y = tid x -> y = x) -> In x (fst md)).
  Proof.
    induction l as [|e r IH]; intros m d ND; simpl.
    - split; [exact ND|]. split; [auto|tauto].
    - destruct (IH (emap_set tid m e) (fold_left deg_inc (trefs e) d) (emap_set_ids m e ND)) as [N1 [S1 S2]].
      unfold kahn_count at 2 4 6. simpl. split; [exact N1|]. split.
      + intros x Hx. destruct (S1 x Hx) as [H|H]; [|auto].
        apply emap_set_in in H as [->|H]; auto.
      + intros x [->|Hx] U.
        * (* x is the head: it stays unless a later entry has its id, which then is x itself *)
          destruct (in_dec (list_eq_dec N.eq_dec) (tid x) (map tid r)) as [Hin|Hn].
          -- apply in_map_iff in Hin as [y [Ey Hy]]. assert (y = x) by (apply U; auto). subst.
             apply S2; [exact Hy|]. intros z Hz. apply U. right. exact Hz.
          -- (* no later entry touches x *)
             clear S1 S2 IH U N1. revert Hn. generalize (fold_left deg_inc (trefs x) d). generalize (emap_set_has m x).
             generalize (emap_set tid m x). induction r as [|z r IHr]; intros m0 H0 d0 Hn; simpl; [exact H0|].
             apply IHr.
             ++ apply emap_set_keeps; [exact H0|]. intro E. apply Hn. left. symmetry. exact E.
             ++ intro H. apply Hn. right. exact H.
        * apply S2; [exact Hx|]. intros y Hy. apply U. right. exact Hy.
  Qed.

  (* ---------- the loop only moves items ---------- *)
  Lemma perm_remove_id m x :
    NoDup (map tid m) -> In x m ->
    Permutation m (x :: filter (fun y => negb (bytes_eqb (tid y) (tid x))) m).
  Proof.
    induction m as [|y r IH]; simpl; intros ND Hin; [tauto|]. inversion ND; subst.
    destruct Hin as [->|Hin].
    - rewrite bytes_eqb_refl. simpl. constructor.
      rewrite forallb_filter_id; [reflexivity|]. apply forallb_forall. intros z Hz.
      apply negb_true_iff, bytes_eqb_neq. intro E. apply H1. rewrite <- E. apply in_map. exact Hz.
    - destruct (bytes_eqb (tid y) (tid x)) eqn:E.
      + apply bytes_eqb_eq in E. exfalso. apply H1. rewrite E. apply in_map. exact Hin.
      + simpl. rewrite perm_swap. constructor. apply IH; assumption.
  Qed.

  Definition moved (st st' : kst T) : Prop :=
    NoDup (map tid (k_map st')) /\
    Permutation (k_map st' ++ k_queue st') (k_map st ++ k_queue st) /\ k_graph st' = k_graph st.

  Lemma relax_moved st a : NoDup (map tid (k_map st)) -> moved st (kahn_relax tid st a).
  Proof.
    intro ND. unfold kahn_relax, moved. destruct (_ =? 0)%Z; simpl; [|auto].
    destruct (emap_find tid (k_map st) a) as [x|] eqn:E; simpl; [|auto].
    destruct (emap_find_some T tid _ _ _ E) as [Hx Hid]. split; [apply NoDup_map_filter; exact ND|]. split; [|reflexivity].
    unfold emap_del. rewrite <- Hid. rewrite app_assoc.
    rewrite (Permutation_app_comm (filter _ (k_map st) ++ k_queue st) [x]). simpl.
    rewrite (perm_remove_id (k_map st) x ND Hx) at 2. simpl. constructor. reflexivity.
  Qed.

  Lemma relax_fold_moved rs : forall st, NoDup (map tid (k_map st)) -> moved st (fold_left (kahn_relax tid) rs st).
  Proof.
    induction rs as [|a r IH]; intros st ND; simpl; [repeat split; auto|].
    destruct (relax_moved st a ND) as [N1 [P1 G1]].
    destruct (IH _ N1) as [N2 [P2 G2]]. repeat split; [exact N2|etransitivity; eassumption|congruence].
  Qed.

  Definition all_items (st : kst T) : list T := k_map st ++ k_queue st ++ k_graph st.

  Lemma step_moved st st' :
    NoDup (map tid (k_map st)) -> kahn_step tid trefs tcmp st = Some st' ->
    NoDup (map tid (k_map st')) /\ Permutation (all_items st') (all_items st) /\
    S (length (k_map st' ++ k_queue st')) = length (k_map st ++ k_queue st).
  Proof.
    intros ND Hs. unfold kahn_step in Hs.
    destruct (pop_last (k_queue st)) as [[e q]|] eqn:Ep; [|discriminate].
    apply pop_last_some in Ep. inversion Hs; subst; clear Hs. simpl.
    destruct (relax_fold_moved (trefs e) (mkKst (k_map st) (k_deg st) q (e :: k_graph st)) ND) as [N [P G]].
    simpl in P, G. split; [exact N|]. unfold all_items. simpl.
    assert (P' : Permutation (k_map (fold_left (kahn_relax tid) (trefs e) (mkKst (k_map st) (k_deg st) q (e :: k_graph st)))
                              ++ ssort tcmp (k_queue (fold_left (kahn_relax tid) (trefs e) (mkKst (k_map st) (k_deg st) q (e :: k_graph st)))))
                             (k_map st ++ q)).
    { rewrite ssort_perm. exact P. }
    split.
    - rewrite app_assoc, P', G, Ep. rewrite <- !app_assoc. apply Permutation_app_head.
      apply Permutation_app_head. simpl. reflexivity.
    - rewrite (Permutation_length P'), Ep, !app_length. simpl. lia.
  Qed.

  Lemma loop_moved fuel : forall st,
    NoDup (map tid (k_map st)) -> length (k_map st ++ k_queue st) <= fuel ->
    Permutation (all_items (kahn_loop tid trefs tcmp fuel st)) (all_items st) /\
    k_queue (kahn_loop tid trefs tcmp fuel st) = [].
  Proof.
    induction fuel as [|f IH]; intros st ND L; simpl.
    - split; [reflexivity|]. rewrite app_length in L. destruct (k_queue st); [reflexivity|simpl in L; lia].
    - destruct (kahn_step tid trefs tcmp st) as [st'|] eqn:E.
      + destruct (step_moved st st' ND E) as [N [P Ln]]. destruct (IH st' N) as [P2 Q]; [lia|].
        split; [etransitivity; eassumption|exact Q].
      + split; [reflexivity|]. unfold kahn_step in E.
        destruct (pop_last (k_queue st)) as [[e q]|] eqn:Ep; [discriminate|]. apply pop_last_none. exact Ep.
  Qed.

  (* the output rearranges the eventMap *)
  Theorem kahn_perm_emap l : Permutation (kahn tid trefs tcmp sh l) (fst (kahn_init tid trefs l)).
  Proof.
    unfold kahn. set (m := fst (kahn_init tid trefs l)). set (d := snd (kahn_init tid trefs l)).
    assert (NDm : NoDup (map tid m)).
    { unfold m, kahn_init. apply (init_fold l [] deg0). constructor. }
    assert (P0 : Permutation (all_items (kahn_start tid trefs tcmp sh l)) m).
    { unfold kahn_start, all_items. fold m d. simpl. rewrite app_nil_r, ssort_perm.
      rewrite (perm_filter _ _ _ _ (sh_perm m)). rewrite Permutation_app_comm. apply filter_partition_perm. }
    destruct (loop_moved (length m) (kahn_start tid trefs tcmp sh l)) as [P Q].
    { unfold kahn_start. fold m d. simpl. apply NoDup_map_filter. exact NDm. }
    { apply Permutation_length in P0. unfold all_items in P0. rewrite !app_length in *.
      unfold kahn_start in *. simpl in *. lia. }
    fold m. etransitivity; [|exact P0]. etransitivity; [|exact P].
    unfold all_items. rewrite Q. simpl. rewrite ssort_perm, sh_perm. reflexivity.
  Qed.

  Corollary kahn_in l x : In x (kahn tid trefs tcmp sh l) -> In x l.
  Proof.
    intro H. apply (Permutation_in _ (kahn_perm_emap l)) in H.
    destruct (init_fold l [] deg0 (NoDup_nil _)) as [_ [S1 _]].
    destruct (S1 x H) as [[]|H']. exact H'.
  Qed.

  Corollary kahn_has l x :
    (forall a b, In a l -> In b l -> tid a = tid b -> a = b) -> In x l -> In x (kahn tid trefs tcmp sh l).
  Proof.
    intros U H. apply (Permutation_in _ (Permutation_sym (kahn_perm_emap l))).
    destruct (init_fold l [] deg0 (NoDup_nil _)) as [_ [_ S2]].
    apply S2; [exact H|]. intros y Hy E. apply U; auto.
  Qed.
End KahnMember.
