(* DESIGN.md 6.2 r1: the power ordering is built from the leaves - repeatedly take, among the
   items no remaining item refers to, the greatest under the sort key and put it last.
   [library_order] states that definition as a relation; for a duplicate-free acyclic input
   the Kahn model computes exactly such an order. *)
From Coq Require Import Permutation Sorted Lia.
From Verif Require Import Lib.Bytes StateRes.Kahn StateRes.SortProofs StateRes.KahnProofs StateRes.CmpProofs.
Local Open Scope nat_scope.

Section LibOrder.
  Variable T : Type.
  Variable tid : T -> bytes.
  Variable trefs : T -> list bytes.
  Variable tcmp : T -> T -> comparison.
  Hypothesis tcmp_good : good T tcmp.

  (* no item of rem names x *)
  Definition unreferenced (rem : list T) (x : T) : Prop :=
    forall e, In e rem -> ~ In (tid x) (trefs e).

  Inductive library_order : list T -> list T -> Prop :=
  | lo_nil : library_order [] []
  | lo_take rem x rem' out :
      Permutation rem (x :: rem') ->
      unreferenced rem x ->
      (forall y, In y rem -> unreferenced rem y -> tcmp y x <> Gt) ->
      library_order rem' out ->
      library_order rem (out ++ [x]).

  Lemma library_order_perm rem out : library_order rem out ->
    forall rem2, Permutation rem rem2 -> library_order rem2 out.
  Proof.
    induction 1 as [|rem x rem' out P U G L IH]; intros rem2 P2.
    - apply Permutation_nil in P2. subst. constructor.
    - apply lo_take with (rem' := rem').
      + etransitivity; [symmetry; exact P2|exact P].
      + intros e He. apply U. eapply Permutation_in; [symmetry; exact P2|exact He].
      + intros y Hy Uy. apply G.
        * eapply Permutation_in; [symmetry; exact P2|exact Hy].
        * intros e He. apply Uy. eapply Permutation_in; [exact P2|exact He].
      + exact L.
  Qed.

  Variable sh : list T -> list T.
  Hypothesis sh_perm : forall l, Permutation (sh l) l.
  Variable events : list T.
  Hypothesis events_nodup : NoDup (map tid events).
  Variable rank : bytes -> nat.
  Hypothesis R : ranked T tid trefs events rank.

  Notation inv' := (inv T tid trefs events).
  Notation U := (unpopped T).
  Notation cle' := (cle T tcmp).

  Lemma unref_of_zero l x : refcount T trefs (tid x) l = 0 -> unreferenced l x.
  Proof.
    intros Z e He Hin. apply (in_refcount_pos T tid trefs tcmp (tid x) e l He) in Hin. contradiction.
  Qed.

  Lemma zero_of_unref l x : unreferenced l x -> refcount T trefs (tid x) l = 0.
  Proof.
    intro Un. destruct (Nat.eq_dec (refcount T trefs (tid x) l) 0) as [Z|NZ]; [exact Z|].
    apply refcount_pos_ex in NZ as [e [He Ha]]. exfalso. exact (Un e He Ha).
  Qed.

  Lemma no_strays st : inv' st -> k_queue st = [] -> k_map st = [].
  Proof.
    intros I Q. pose proof (inv_perm _ _ _ _ _ I) as P. rewrite Q in P. simpl in P.
    destruct (k_map st) as [|x0 m0] eqn:Em; [reflexivity|exfalso].
    destruct (max_rank T tid rank (k_map st)) as [x [Hx Hmax]]; [rewrite Em; discriminate|].
    pose proof (inv_map _ _ _ _ _ I x Hx) as Hr. unfold unpopped in Hr. rewrite Q, app_nil_r in Hr.
    apply refcount_pos_ex in Hr as [e [He Ha]].
    assert (Hee : In e events).
    { eapply Permutation_in; [exact P|]. rewrite <- Em. apply in_or_app. left. exact He. }
    assert (Hxe : In (tid x) (map tid events)).
    { apply in_map. eapply Permutation_in; [exact P|]. rewrite <- Em. apply in_or_app. left. exact Hx. }
    specialize (R e (tid x) Hee Ha Hxe). specialize (Hmax e He). lia.
  Qed.

  Lemma sorted_last_max q e : StronglySorted cle' (q ++ [e]) -> forall y, In y (q ++ [e]) -> tcmp y e <> Gt.
  Proof.
    induction q as [|a q IH]; simpl; intros S y Hy.
    - destruct Hy as [<-|[]]. pose proof (good_antisym _ _ tcmp_good e e) as A.
      destruct (tcmp e e); simpl in A; congruence.
    - inversion S as [|? ? S' F]; subst. destruct Hy as [<-|Hy].
      + rewrite Forall_forall in F. apply F. apply in_or_app. right. left. reflexivity.
      + apply IH; assumption.
  Qed.

  Lemma step_shape st st' :
    kahn_step tid trefs tcmp st = Some st' ->
    exists e q, k_queue st = q ++ [e] /\ k_graph st' = e :: k_graph st /\
                StronglySorted cle' (k_queue st').
  Proof.
    unfold kahn_step. destruct (pop_last (k_queue st)) as [[e q]|] eqn:Ep; [|discriminate].
    intro H. inversion H; subst; clear H. exists e, q. split; [apply pop_last_some; exact Ep|].
    simpl. split.
    - rewrite relax_graph. reflexivity.
    - apply ssort_sorted; [apply (good_antisym _ _ tcmp_good)|apply (good_le_trans _ _ tcmp_good)].
  Qed.

  Lemma loop_library fuel : forall st,
    inv' st -> StronglySorted cle' (k_queue st) -> length (U st) <= fuel ->
    exists out, k_graph (kahn_loop tid trefs tcmp fuel st) = out ++ k_graph st /\
                library_order (U st) out /\
                k_map (kahn_loop tid trefs tcmp fuel st) = [].
  Proof.
    induction fuel as [|f IH]; intros st I S L.
    - simpl. exists []. assert (E : U st = []) by (destruct (U st); [reflexivity|simpl in L; lia]).
      rewrite E. split; [reflexivity|]. split; [constructor|].
      unfold unpopped in E. apply app_eq_nil in E. tauto.
    - simpl. destruct (kahn_step tid trefs tcmp st) as [st'|] eqn:Es.
      + destruct (step_inv T tid trefs tcmp events events_nodup st st' I Es) as [I' L'].
        destruct (step_shape st st' Es) as [e [q [Hq [Hg S']]]].
        destruct (IH st' I' S') as [out [G [LO M]]]; [lia|].
        exists (out ++ [e]). split; [rewrite G, Hg, <- app_assoc; reflexivity|]. split; [|exact M].
        (* U st is e plus U st' *)
        assert (PU : Permutation (U st) (e :: U st')).
        { pose proof (inv_perm _ _ _ _ _ I) as P1. pose proof (inv_perm _ _ _ _ _ I') as P2.
          rewrite Hg in P2. rewrite app_assoc in P1, P2.
          assert (H : Permutation (U st ++ k_graph st) ((e :: U st') ++ k_graph st)).
          { unfold unpopped. rewrite P1, <- P2. simpl. symmetry. apply Permutation_middle. }
          apply Permutation_app_inv_r in H. exact H. }
        assert (He : In e (k_queue st)) by (rewrite Hq; apply in_or_app; right; left; reflexivity).
        apply lo_take with (rem' := U st'); [exact PU| | |exact LO].
        * apply unref_of_zero. exact (inv_queue _ _ _ _ _ I e He).
        * intros y Hy Uy. apply zero_of_unref in Uy.
          unfold unpopped in Hy. apply in_app_or in Hy as [Hy|Hy].
          -- exfalso. exact (inv_map _ _ _ _ _ I y Hy Uy).
          -- rewrite Hq in S, Hy. apply (sorted_last_max q e S y Hy).
      + assert (Q : k_queue st = []).
        { unfold kahn_step in Es. destruct (pop_last (k_queue st)) as [[e q]|] eqn:Ep; [discriminate|].
          apply pop_last_none. exact Ep. }
        pose proof (no_strays st I Q) as M.
        exists []. split; [reflexivity|]. split; [|exact M].
        unfold unpopped. rewrite M, Q. constructor.
  Qed.

  (* the order the library publishes for a duplicate-free acyclic input IS the order of r1 *)
  Theorem kahn_is_library_order : library_order events (kahn tid trefs tcmp sh events).
  Proof.
    unfold kahn. destruct (kahn_init_nodup T tid trefs events events_nodup) as [Hm _]. rewrite Hm.
    pose proof (start_inv T tid trefs tcmp sh sh_perm events events_nodup) as I0.
    assert (S0 : StronglySorted cle' (k_queue (kahn_start tid trefs tcmp sh events))).
    { unfold kahn_start. simpl.
      apply ssort_sorted; [apply (good_antisym _ _ tcmp_good)|apply (good_le_trans _ _ tcmp_good)]. }
    assert (G0 : k_graph (kahn_start tid trefs tcmp sh events) = []) by reflexivity.
    pose proof (inv_perm _ _ _ _ _ I0) as P0. rewrite G0, app_nil_r in P0.
    destruct (loop_library (length events) _ I0 S0) as [out [G [LO M]]].
    { unfold unpopped. rewrite (Permutation_length P0). lia. }
    rewrite M, G, G0, app_nil_r.
    assert (Hsh : sh [] = []) by (apply Permutation_nil; symmetry; apply sh_perm).
    rewrite Hsh. simpl. apply library_order_perm with (rem := U (kahn_start tid trefs tcmp sh events)); [exact LO|exact P0].
  Qed.
End LibOrder.
