(* Kahn's algorithm as the library runs it (StateRes/Kahn.v): for a duplicate-free, acyclic
   input the result is a permutation of the input in which every item comes after each item it
   refers to that is present in the input.  Invariant proof over the worklist loop; nothing is
   assumed about the comparison function, so it covers both orderings (auth events with the
   power key, prev events with the mainline key). *)
From Coq Require Import Permutation Lia.
From Verif Require Import Lib.Bytes StateRes.Kahn StateRes.SortProofs.
Local Open Scope nat_scope.


(* ---------- general list facts ---------- *)
Section ListFacts.
  Variables A B : Type.

  Lemma forallb_filter_id (f : A -> bool) l : forallb f l = true -> filter f l = l.
  Proof.
    induction l as [|x r IH]; simpl; [reflexivity|]. intro H. apply andb_true_iff in H as [H1 H2].
    rewrite H1, IH; auto.
  Qed.

  Lemma NoDup_map_filter (f : A -> B) (p : A -> bool) l : NoDup (map f l) -> NoDup (map f (filter p l)).
  Proof.
    induction l as [|x r IH]; simpl; intro H; [constructor|]. inversion H; subst.
    destruct (p x); simpl; auto. constructor; auto.
    intro Hin. apply H2. apply in_map_iff in Hin as [y [E Hy]]. apply filter_In in Hy as [Hy _].
    apply in_map_iff. exists y; auto.
  Qed.

  Lemma NoDup_map_inj (f : A -> B) l x y : NoDup (map f l) -> In x l -> In y l -> f x = f y -> x = y.
  Proof.
    induction l as [|z r IH]; simpl; intros ND Hx Hy E; [tauto|]. inversion ND; subst.
    destruct Hx as [->|Hx], Hy as [->|Hy]; auto.
    - exfalso. apply H1. rewrite E. apply in_map. exact Hy.
    - exfalso. apply H1. rewrite <- E. apply in_map. exact Hx.
  Qed.

  Lemma filter_filter_absorb (p q : A -> bool) l :
    (forall y, In y l -> q y = false -> p y = false) -> filter p (filter q l) = filter p l.
  Proof.
    induction l as [|x r IH]; simpl; intro H; [reflexivity|].
    destruct (q x) eqn:Q; simpl.
    - destruct (p x); rewrite IH; auto.
    - rewrite (H x (or_introl eq_refl) Q). apply IH. auto.
  Qed.

  Lemma NoDup_app_l (l1 l2 : list A) : NoDup (l1 ++ l2) -> NoDup l1.
  Proof.
    induction l1 as [|x r IH]; simpl; intro H; [constructor|]. inversion H; subst.
    constructor; [|auto]. intro Hin. apply H2. apply in_or_app. left. exact Hin.
  Qed.

  Lemma perm_filter (p : A -> bool) l l' : Permutation l l' -> Permutation (filter p l) (filter p l').
  Proof.
    induction 1; simpl; auto.
    - destruct (p x); auto.
    - destruct (p x), (p y); auto. apply perm_swap.
    - etransitivity; eauto.
  Qed.

  Lemma filter_partition_perm (p : A -> bool) l :
    Permutation (filter p l ++ filter (fun x => negb (p x)) l) l.
  Proof.
    induction l as [|x r IH]; simpl; [reflexivity|]. destruct (p x); simpl.
    - constructor. exact IH.
    - rewrite <- Permutation_middle. constructor. exact IH.
  Qed.
End ListFacts.

Section KahnFacts.
  Variable T : Type.
  Variable tid : T -> bytes.
  Variable trefs : T -> list bytes.
  Variable tcmp : T -> T -> comparison.
  Variable sh : list T -> list T.
  Hypothesis sh_perm : forall l, Permutation (sh l) l.

  Notation kahn_relax' := (kahn_relax tid).
  Notation kahn_step' := (kahn_step tid trefs tcmp).
  Notation kahn_loop' := (kahn_loop tid trefs tcmp).

  (* ---------- counting references ---------- *)
  Fixpoint bcount (a : bytes) (l : list bytes) : nat :=
    match l with
    | [] => 0
    | x :: r => (if bytes_eqb a x then 1 else 0) + bcount a r
    end.

  Fixpoint refcount (a : bytes) (l : list T) : nat :=
    match l with
    | [] => 0
    | e :: r => bcount a (trefs e) + refcount a r
    end.

  Lemma bcount_pos_in a l : bcount a l <> 0 -> In a l.
  Proof.
    induction l as [|x r IH]; simpl; [congruence|].
    destruct (bytes_eqb a x) eqn:E; [apply bytes_eqb_eq in E; auto|]. simpl. auto.
  Qed.

  Lemma in_bcount_pos a l : In a l -> bcount a l <> 0.
  Proof.
    induction l as [|x r IH]; simpl; [tauto|]. intros [->|H].
    - rewrite bytes_eqb_refl. lia.
    - specialize (IH H). lia.
  Qed.

  Lemma refcount_app a l1 l2 : refcount a (l1 ++ l2) = refcount a l1 + refcount a l2.
  Proof. induction l1; simpl; lia. Qed.

  Lemma refcount_perm a l1 l2 : Permutation l1 l2 -> refcount a l1 = refcount a l2.
  Proof. induction 1; simpl; lia. Qed.

  Lemma refcount_pos_ex a l : refcount a l <> 0 -> exists e, In e l /\ In a (trefs e).
  Proof.
    induction l as [|e r IH]; simpl; [congruence|]. intro H.
    destruct (Nat.eq_dec (bcount a (trefs e)) 0) as [Z|NZ].
    - destruct IH as [e' [H1 H2]]; [lia|]. exists e'; auto.
    - exists e. split; [auto|]. apply bcount_pos_in. exact NZ.
  Qed.

  Lemma in_refcount_pos a e l : In e l -> In a (trefs e) -> refcount a l <> 0.
  Proof.
    induction l as [|x r IH]; simpl; [tauto|]. intros [->|H] Ha.
    - apply in_bcount_pos in Ha. lia.
    - specialize (IH H Ha). lia.
  Qed.

  (* ---------- the in-degree function ---------- *)
  Lemma deg_add_at d k v a : deg_add d k v a = if bytes_eqb a k then (d a + v)%Z else d a.
  Proof. reflexivity. Qed.

  Lemma fold_inc a rs : forall d,
    fold_left deg_inc rs d a = (d a + Z.of_nat (bcount a rs))%Z.
  Proof.
    induction rs as [|x r IH]; intro d; simpl; [lia|].
    rewrite IH. unfold deg_inc. rewrite deg_add_at. destruct (bytes_eqb a x); lia.
  Qed.

  (* ---------- eventMap ---------- *)
  Lemma emap_set_fresh m e : ~ In (tid e) (map tid m) -> emap_set tid m e = m ++ [e].
  Proof.
    induction m as [|x r IH]; simpl; intro H; [reflexivity|].
    destruct (bytes_eqb (tid x) (tid e)) eqn:E.
    - apply bytes_eqb_eq in E. exfalso. apply H. left. exact E.
    - rewrite IH; [reflexivity|]. intro; apply H; right; assumption.
  Qed.

  Lemma emap_find_some m k x : emap_find tid m k = Some x -> In x m /\ tid x = k.
  Proof.
    induction m as [|y r IH]; simpl; [discriminate|].
    destruct (bytes_eqb (tid y) k) eqn:E.
    - intro H; inversion H; subst. apply bytes_eqb_eq in E. auto.
    - intro H. destruct (IH H). auto.
  Qed.

  Lemma emap_find_none m k : emap_find tid m k = None -> forall x, In x m -> tid x <> k.
  Proof.
    induction m as [|y r IH]; simpl; [tauto|].
    destruct (bytes_eqb (tid y) k) eqn:E; [discriminate|].
    intros H x [<-|Hx]; [apply bytes_eqb_neq; exact E|auto].
  Qed.

  Lemma kahn_init_gen events : forall m d,
    NoDup (map tid (m ++ events)) ->
    fst (fold_left (kahn_count tid trefs) events (m, d)) = m ++ events /\
    forall a, snd (fold_left (kahn_count tid trefs) events (m, d)) a = (d a + Z.of_nat (refcount a events))%Z.
  Proof.
    induction events as [|e r IH]; intros m d ND; simpl.
    - rewrite app_nil_r. split; [reflexivity|intro; lia].
    - unfold kahn_count at 2 4. simpl.
      rewrite emap_set_fresh.
      + destruct (IH (m ++ [e]) (fold_left deg_inc (trefs e) d)) as [H1 H2].
        { rewrite <- app_assoc. exact ND. }
        split; [rewrite H1, <- app_assoc; reflexivity|].
        intro a. rewrite H2, fold_inc. lia.
      + rewrite map_app in ND. apply NoDup_remove_2 in ND.
        intro H. apply ND. apply in_or_app. left. exact H.
  Qed.

  Lemma kahn_init_nodup events :
    NoDup (map tid events) ->
    fst (kahn_init tid trefs events) = events /\
    forall a, snd (kahn_init tid trefs events) a = Z.of_nat (refcount a events).
  Proof.
    intro ND. destruct (kahn_init_gen events [] deg0 ND) as [H1 H2]. split; [exact H1|].
    intro a. rewrite H2. unfold deg0. lia.
  Qed.

  (* ---------- pop ---------- *)
  Lemma pop_last_none (l : list T) : pop_last l = None -> l = [].
  Proof.
    induction l as [|x r IH]; [reflexivity|]. simpl. destruct r as [|y r']; [discriminate|].
    destruct (pop_last (y :: r')) as [[z r'']|] eqn:E; [discriminate|].
    intro. specialize (IH eq_refl). discriminate.
  Qed.

  Lemma pop_last_some (l : list T) e q : pop_last l = Some (e, q) -> l = q ++ [e].
  Proof.
    revert e q. induction l as [|x r IH]; intros e q; [discriminate|]. simpl.
    destruct r as [|y r'].
    - intro H; inversion H; subst. reflexivity.
    - destruct (pop_last (y :: r')) as [[z r'']|] eqn:E; [|discriminate].
      intro H; inversion H; subst. rewrite (IH _ _ eq_refl). reflexivity.
  Qed.

  (* ---------- relaxing the references of a popped item ---------- *)
  Lemma relax_graph rs : forall st, k_graph (fold_left kahn_relax' rs st) = k_graph st.
  Proof.
    induction rs as [|a r IH]; intro st; simpl; [reflexivity|]. rewrite IH.
    unfold kahn_relax. destruct (_ =? 0)%Z; [destruct (emap_find _ _ _)|]; reflexivity.
  Qed.

  Lemma relax_deg rs : forall st a,
    k_deg (fold_left kahn_relax' rs st) a = (k_deg st a - Z.of_nat (bcount a rs))%Z.
  Proof.
    induction rs as [|x r IH]; intros st a; simpl; [lia|]. rewrite IH.
    assert (E : k_deg (kahn_relax' st x) a = deg_dec (k_deg st) x a).
    { unfold kahn_relax. destruct (_ =? 0)%Z; [destruct (emap_find _ _ _)|]; reflexivity. }
    rewrite E. unfold deg_dec. rewrite deg_add_at. destruct (bytes_eqb a x); lia.
  Qed.

  Lemma filter_filter_absorb_id (p q : T -> bool) l :
    (forall y, In y l -> q y = true) -> filter p (filter q l) = filter p l.
  Proof.
    intro H. apply filter_filter_absorb. intros y Hy Q. rewrite (H y Hy) in Q. discriminate.
  Qed.

  Lemma perm_filter_split_one (z : T -> bool) m x :
    NoDup (map tid m) -> In x m -> z x = true ->
    Permutation (x :: filter z (filter (fun y => negb (bytes_eqb (tid y) (tid x))) m)) (filter z m).
  Proof.
    induction m as [|y r IH]; simpl; intros ND Hin Hz; [tauto|]. inversion ND; subst.
    destruct Hin as [->|Hin].
    - rewrite bytes_eqb_refl. simpl. rewrite Hz. constructor.
      rewrite filter_filter_absorb_id; [reflexivity|].
      intros w Hw. apply negb_true_iff, bytes_eqb_neq. intro E. apply H1. rewrite <- E. apply in_map. exact Hw.
    - destruct (bytes_eqb (tid y) (tid x)) eqn:E.
      + apply bytes_eqb_eq in E. exfalso. apply H1. rewrite E. apply in_map. exact Hin.
      + simpl. destruct (z y).
        * rewrite perm_swap. constructor. apply IH; auto.
        * apply IH; auto.
  Qed.

  Definition zero_after (d : deg) (x : T) : bool := (d (tid x) =? 0)%Z.

  Lemma relax_fold rs : forall st,
    NoDup (map tid (k_map st)) ->
    (forall x, In x (k_map st) ->
       (0 < k_deg st (tid x))%Z /\ (0 <= k_deg st (tid x) - Z.of_nat (bcount (tid x) rs))%Z) ->
    let st' := fold_left kahn_relax' rs st in
    k_map st' = filter (fun x => negb (zero_after (k_deg st') x)) (k_map st) /\
    Permutation (k_queue st') (k_queue st ++ filter (zero_after (k_deg st')) (k_map st)).
  Proof.
    induction rs as [|a r IH]; intros st ND Hpos; simpl.
    - assert (F1 : filter (fun x => negb (zero_after (k_deg st) x)) (k_map st) = k_map st).
      { apply forallb_filter_id. apply forallb_forall. intros x Hx. unfold zero_after.
        destruct (Hpos x Hx) as [H _]. destruct (Z.eqb_spec (k_deg st (tid x)) 0); [lia|reflexivity]. }
      assert (F2 : filter (zero_after (k_deg st)) (k_map st) = []).
      { clear F1. induction (k_map st) as [|x m IHm]; [reflexivity|]. simpl.
        unfold zero_after at 1. destruct (Hpos x (or_introl eq_refl)) as [H _].
        destruct (Z.eqb_spec (k_deg st (tid x)) 0); [lia|].
        apply IHm. { inversion ND; assumption. } intros y Hy; apply Hpos; right; exact Hy. }
      rewrite F1, F2, app_nil_r. split; reflexivity.
    - set (st1 := kahn_relax' st a).
      set (d1 := deg_dec (k_deg st) a).
      assert (Hd1 : forall b, d1 b = if bytes_eqb b a then (k_deg st b - 1)%Z else k_deg st b).
      { intro b. unfold d1, deg_dec. rewrite deg_add_at. destruct (bytes_eqb b a); lia. }
      assert (Hdeg1 : forall b, k_deg st1 b = d1 b).
      { intro b. unfold st1, kahn_relax. fold d1. destruct (_ =? 0)%Z; [destruct (emap_find _ _ _)|]; reflexivity. }
      (* final degrees *)
      assert (Hfinal : forall b, k_deg (fold_left kahn_relax' r st1) b = (d1 b - Z.of_nat (bcount b r))%Z).
      { intro b. rewrite relax_deg, Hdeg1. reflexivity. }
      destruct (Z.eqb_spec (d1 a) 0) as [Hz|Hnz].
      + destruct (emap_find tid (k_map st) a) as [x|] eqn:Ef.
        * (* x moves to the queue *)
          assert (Est1 : st1 = mkKst (emap_del tid (k_map st) a) d1 (k_queue st ++ [x]) (k_graph st)).
          { unfold st1, kahn_relax. fold d1. destruct (Z.eqb_spec (d1 a) 0); [|contradiction]. rewrite Ef. reflexivity. }
          destruct (emap_find_some _ _ _ Ef) as [Hxin Hxid].
          assert (Hmap1 : k_map st1 = filter (fun y => negb (bytes_eqb (tid y) a)) (k_map st)).
          { rewrite Est1. reflexivity. }
          destruct (IH st1) as [M Q].
          { rewrite Hmap1. apply NoDup_map_filter. exact ND. }
          { intros y Hy. rewrite Hmap1 in Hy. apply filter_In in Hy as [Hy Hne].
            apply negb_true_iff, bytes_eqb_neq in Hne.
            destruct (Hpos y Hy) as [P1 P2]. simpl in P2.
            rewrite Hdeg1, Hd1. destruct (bytes_eqb (tid y) a) eqn:E; [apply bytes_eqb_eq in E; contradiction|].
            split; [exact P1|]. apply bytes_eqb_neq in E.
            destruct (bytes_eqb (tid y) a) eqn:E'; [apply bytes_eqb_eq in E'; contradiction|]. simpl in P2. lia. }
          (* x is zero at the end *)
          assert (Hxz : zero_after (k_deg (fold_left kahn_relax' r st1)) x = true).
          { unfold zero_after. rewrite Hfinal, Hxid.
            destruct (Hpos x Hxin) as [_ P2]. simpl in P2. rewrite Hxid, bytes_eqb_refl in P2.
            pose proof (Hd1 a) as Ha. rewrite bytes_eqb_refl in Ha.
            apply Z.eqb_eq. lia. }
          split.
          -- rewrite M, Hmap1. apply filter_filter_absorb.
             intros y Hy Hya. (* any y with id a is zero at the end *)
             apply negb_false_iff, bytes_eqb_eq in Hya.
             assert (y = x) by (eapply NoDup_map_inj; eauto; congruence). subst y.
             rewrite Hxz. reflexivity.
          -- rewrite Q, Hmap1. rewrite Est1 at 1. simpl. rewrite <- app_assoc. apply Permutation_app_head.
             simpl. rewrite <- Hxid. apply perm_filter_split_one; auto.
        * (* nobody in the map has this id *)
          assert (Est1 : st1 = mkKst (k_map st) d1 (k_queue st) (k_graph st)).
          { unfold st1, kahn_relax. fold d1. destruct (Z.eqb_spec (d1 a) 0); [|contradiction]. rewrite Ef. reflexivity. }
          destruct (IH st1) as [M Q].
          { rewrite Est1. exact ND. }
          { intros y Hy. rewrite Est1 in Hy. simpl in Hy.
            assert (Hne : tid y <> a) by (eapply emap_find_none; eauto).
            destruct (Hpos y Hy) as [P1 P2]. simpl in P2.
            rewrite Hdeg1, Hd1. destruct (bytes_eqb (tid y) a) eqn:E; [apply bytes_eqb_eq in E; contradiction|].
            simpl in P2. split; [exact P1|lia]. }
          assert (E1 : k_map st1 = k_map st) by (rewrite Est1; reflexivity).
        assert (E2 : k_queue st1 = k_queue st) by (rewrite Est1; reflexivity).
        rewrite E1 in M. rewrite E1, E2 in Q. split; assumption.
      + assert (Est1 : st1 = mkKst (k_map st) d1 (k_queue st) (k_graph st)).
        { unfold st1, kahn_relax. fold d1. destruct (Z.eqb_spec (d1 a) 0); [contradiction|reflexivity]. }
        destruct (IH st1) as [M Q].
        { rewrite Est1. exact ND. }
        { intros y Hy. rewrite Est1 in Hy. simpl in Hy.
          destruct (Hpos y Hy) as [P1 P2]. simpl in P2.
          rewrite Hdeg1, Hd1. destruct (bytes_eqb (tid y) a) eqn:E.
          - apply bytes_eqb_eq in E. rewrite E in *. rewrite Hd1, bytes_eqb_refl in Hnz.
            simpl in P2. split; lia.
          - simpl in P2. split; [exact P1|lia]. }
        assert (E1 : k_map st1 = k_map st) by (rewrite Est1; reflexivity).
        assert (E2 : k_queue st1 = k_queue st) by (rewrite Est1; reflexivity).
        rewrite E1 in M. rewrite E1, E2 in Q. split; assumption.
  Qed.

  (* ---------- the loop invariant ---------- *)
  Variable events : list T.
  Hypothesis events_nodup : NoDup (map tid events).

  Definition unpopped (st : kst T) : list T := k_map st ++ k_queue st.

  Record inv (st : kst T) : Prop := mkInv {
    inv_perm : Permutation (k_map st ++ k_queue st ++ k_graph st) events;
    inv_deg : forall a, k_deg st a = Z.of_nat (refcount a (unpopped st));
    inv_queue : forall x, In x (k_queue st) -> refcount (tid x) (unpopped st) = 0;
    inv_map : forall x, In x (k_map st) -> refcount (tid x) (unpopped st) <> 0;
    inv_graph : forall x, In x (k_graph st) -> refcount (tid x) (unpopped st) = 0;
    inv_topo : forall g1 e g2, k_graph st = g1 ++ e :: g2 ->
               forall a, In a (trefs e) -> ~ In a (map tid g2)
  }.

  Lemma inv_map_nodup st : inv st -> NoDup (map tid (k_map st)).
  Proof.
    intro I. pose proof (inv_perm st I) as P.
    assert (ND : NoDup (map tid (k_map st ++ k_queue st ++ k_graph st))).
    { eapply Permutation_NoDup; [symmetry; apply Permutation_map; exact P|exact events_nodup]. }
    rewrite map_app in ND. eapply NoDup_app_l. exact ND.
  Qed.

  Lemma step_inv st st' :
    inv st -> kahn_step' st = Some st' ->
    inv st' /\ S (length (unpopped st')) = length (unpopped st).
  Proof.
    intros I Hs. unfold kahn_step in Hs.
    destruct (pop_last (k_queue st)) as [[e q]|] eqn:Ep; [|discriminate].
    apply pop_last_some in Ep.
    set (st0 := mkKst (k_map st) (k_deg st) q (e :: k_graph st)) in *.
    set (st1 := fold_left kahn_relax' (trefs e) st0) in *.
    inversion Hs as [Hst']; clear Hs.
    assert (HU : unpopped st = (k_map st ++ q) ++ [e]).
    { unfold unpopped. rewrite Ep, app_assoc. reflexivity. }
    assert (Hrc : forall a, refcount a (unpopped st) = refcount a (k_map st ++ q) + bcount a (trefs e)).
    { intro a. rewrite HU, refcount_app. simpl. lia. }
    destruct (relax_fold (trefs e) st0) as [M Q].
    { exact (inv_map_nodup st I). }
    { intros x Hx. simpl. rewrite (inv_deg st I). pose proof (inv_map st I x Hx) as Hm.
      rewrite Hrc in *. split; lia. }
    fold st1 in M, Q.
    assert (Hd' : forall a, k_deg st1 a = (k_deg st a - Z.of_nat (bcount a (trefs e)))%Z).
    { intro a. unfold st1. rewrite relax_deg. reflexivity. }
    assert (Hg' : k_graph st1 = e :: k_graph st).
    { unfold st1. rewrite relax_graph. reflexivity. }
    simpl in M, Q.
    assert (PU : Permutation (k_map st1 ++ ssort tcmp (k_queue st1)) (k_map st ++ q)).
    { rewrite ssort_perm, Q, M.
      rewrite (Permutation_app_comm q), app_assoc.
      apply Permutation_app_tail.
      rewrite Permutation_app_comm. apply filter_partition_perm. }
    assert (Hrc' : forall a, refcount a (k_map st1 ++ ssort tcmp (k_queue st1)) = refcount a (k_map st ++ q)).
    { intro a. apply refcount_perm. exact PU. }
    assert (Hdeg' : forall a, k_deg st1 a = Z.of_nat (refcount a (k_map st1 ++ ssort tcmp (k_queue st1)))).
    { intro a. rewrite Hd', (inv_deg st I), Hrc, Hrc'. lia. }
    split.
    - constructor; simpl; unfold unpopped; simpl.
      + (* permutation *)
        rewrite app_assoc, PU, Hg'. rewrite <- (inv_perm st I), Ep.
        rewrite <- !app_assoc. apply Permutation_app_head. apply Permutation_app_head. reflexivity.
      + exact Hdeg'.
      + intros x Hx. apply ssort_In in Hx. apply (Permutation_in _ Q) in Hx.
        apply in_app_or in Hx as [Hx|Hx].
        * assert (Hq : In x (k_queue st)) by (rewrite Ep; apply in_or_app; left; exact Hx).
          pose proof (inv_queue st I x Hq) as H0. rewrite Hrc in H0. rewrite Hrc'. lia.
        * apply filter_In in Hx as [_ Hz]. unfold zero_after in Hz. apply Z.eqb_eq in Hz.
          rewrite Hdeg' in Hz. lia.
      + intros x Hx. rewrite M in Hx. apply filter_In in Hx as [_ Hz].
        apply negb_true_iff in Hz. unfold zero_after in Hz. apply Z.eqb_neq in Hz.
        rewrite Hdeg' in Hz. lia.
      + intros x Hx. rewrite Hg' in Hx. rewrite Hrc'. destruct Hx as [<-|Hx].
        * assert (Hq : In e (k_queue st)) by (rewrite Ep; apply in_or_app; right; left; reflexivity).
          pose proof (inv_queue st I e Hq) as H0. rewrite Hrc in H0. lia.
        * pose proof (inv_graph st I x Hx) as H0. rewrite Hrc in H0. lia.
      + intros g1 e' g2 Hsplit a Ha. rewrite Hg' in Hsplit.
        destruct g1 as [|y g1']; simpl in Hsplit; inversion Hsplit; subst.
        * intro Hin. apply in_map_iff in Hin as [x [Hx1 Hx2]].
          pose proof (inv_graph st I x Hx2) as H0.
          assert (He : In e' (unpopped st)).
          { rewrite HU. apply in_or_app. right. left. reflexivity. }
          apply (in_refcount_pos a e' (unpopped st) He) in Ha. rewrite <- Hx1 in Ha. contradiction.
        * eapply (inv_topo st I); eauto.
    - unfold unpopped at 1. simpl. rewrite (Permutation_length PU), HU, !app_length. simpl. lia.
  Qed.

  Lemma loop_inv fuel : forall st,
    inv st -> length (unpopped st) <= fuel ->
    inv (kahn_loop' fuel st) /\ k_queue (kahn_loop' fuel st) = [].
  Proof.
    induction fuel as [|f IH]; intros st I L; simpl.
    - split; [exact I|]. unfold unpopped in L. rewrite app_length in L.
      destruct (k_queue st); [reflexivity|simpl in L; lia].
    - destruct (kahn_step' st) as [st'|] eqn:E.
      + destruct (step_inv _ _ I E) as [I' L']. apply IH; [exact I'|lia].
      + split; [exact I|]. unfold kahn_step in E.
        destruct (pop_last (k_queue st)) as [[e q]|] eqn:Ep; [discriminate|].
        apply pop_last_none. exact Ep.
  Qed.

  Lemma start_inv : inv (kahn_start tid trefs tcmp sh events).
  Proof.
    unfold kahn_start. destruct (kahn_init_nodup events events_nodup) as [Hm Hd].
    rewrite Hm. set (d := snd (kahn_init tid trefs events)) in *.
    assert (PU : Permutation (filter (fun x => negb (is_zero tid d x)) events
                              ++ ssort tcmp (filter (is_zero tid d) (sh events))) events).
    { rewrite ssort_perm, (perm_filter _ _ _ _ (sh_perm events)).
      rewrite Permutation_app_comm. apply filter_partition_perm. }
    constructor; simpl; unfold unpopped; simpl.
    - rewrite app_nil_r. exact PU.
    - intro a. rewrite Hd. f_equal. symmetry. apply refcount_perm. exact PU.
    - intros x Hx. apply ssort_In, filter_In in Hx as [_ Hz]. unfold is_zero in Hz.
      apply Z.eqb_eq in Hz. rewrite Hd in Hz. rewrite (refcount_perm _ _ _ PU). lia.
    - intros x Hx. apply filter_In in Hx as [_ Hz]. apply negb_true_iff in Hz. unfold is_zero in Hz.
      apply Z.eqb_neq in Hz. rewrite Hd in Hz. rewrite (refcount_perm _ _ _ PU). lia.
    - tauto.
    - intros g1 e g2 H. destruct g1; discriminate.
  Qed.

  (* ---------- acyclic input: a rank that every reference inside the input decreases ---------- *)
  Definition ranked (rank : bytes -> nat) : Prop :=
    forall e a, In e events -> In a (trefs e) -> In a (map tid events) -> rank a < rank (tid e).

  (* every item comes after each item it refers to that is present in the input *)
  Definition ancestors_first (out : list T) : Prop :=
    forall g1 e g2, out = g1 ++ e :: g2 ->
    forall a, In a (trefs e) -> In a (map tid events) -> In a (map tid g1).

  Lemma max_rank (rank : bytes -> nat) (l : list T) :
    l <> [] -> exists x, In x l /\ forall y, In y l -> rank (tid y) <= rank (tid x).
  Proof.
    induction l as [|x r IH]; [congruence|]. intros _. destruct r as [|y r'].
    - exists x. split; [left; reflexivity|]. intros y [<-|[]]. lia.
    - destruct IH as [m [Hm Hmax]]; [discriminate|].
      destruct (Nat.le_gt_cases (rank (tid x)) (rank (tid m))).
      + exists m. split; [right; exact Hm|]. intros z [<-|Hz]; [assumption|auto].
      + exists x. split; [left; reflexivity|]. intros z [<-|Hz]; [lia|]. specialize (Hmax z Hz). lia.
  Qed.

  Theorem kahn_topological rank :
    ranked rank ->
    Permutation (kahn tid trefs tcmp sh events) events /\
    ancestors_first (kahn tid trefs tcmp sh events).
  Proof.
    intro R. unfold kahn.
    destruct (kahn_init_nodup events events_nodup) as [Hm _]. rewrite Hm.
    pose proof start_inv as I0.
    destruct (loop_inv (length events) _ I0) as [I Q].
    { pose proof (inv_perm _ I0) as P. apply Permutation_length in P.
      unfold unpopped. rewrite !app_length in *. lia. }
    set (st := kahn_loop' (length events) (kahn_start tid trefs tcmp sh events)) in *.
    pose proof (inv_perm st I) as P. rewrite Q in P. simpl in P.
    assert (Hmap : k_map st = []).
    { destruct (k_map st) as [|x0 m0] eqn:Em; [reflexivity|exfalso].
      destruct (max_rank rank (k_map st)) as [x [Hx Hmax]]; [rewrite Em; discriminate|].
      pose proof (inv_map st I x Hx) as Hr. unfold unpopped in Hr. rewrite Q, app_nil_r in Hr.
      apply refcount_pos_ex in Hr as [e [He Ha]].
      assert (Hee : In e events).
      { eapply Permutation_in; [exact P|]. rewrite <- Em. apply in_or_app. left. exact He. }
      assert (Hxe : In (tid x) (map tid events)).
      { apply in_map. eapply Permutation_in; [exact P|]. rewrite <- Em. apply in_or_app. left. exact Hx. }
      specialize (R e (tid x) Hee Ha Hxe). specialize (Hmax e He). lia. }
    rewrite Hmap in *. simpl in P.
    assert (Hsh : sh [] = []) by (apply Permutation_nil; symmetry; apply sh_perm).
    rewrite Hsh. simpl. split; [exact P|].
    intros g1 e g2 Hsplit a Ha Hin.
    assert (He : In e events).
    { eapply Permutation_in; [exact P|]. rewrite Hsplit. apply in_or_app. right. left. reflexivity. }
    assert (Hin' : In a (map tid (k_graph st))).
    { eapply Permutation_in; [symmetry; apply Permutation_map; exact P|exact Hin]. }
    rewrite Hsplit, map_app in Hin'. simpl in Hin'.
    apply in_app_or in Hin' as [H|[H|H]]; [exact H| |].
    - specialize (R e a He Ha Hin). rewrite H in R. lia.
    - exfalso. eapply (inv_topo st I); eauto.
  Qed.
End KahnFacts.
