(* Kahn's algorithm as the library runs it depends only on the SET of input items: for a
   duplicate-free input, any two presentation orders and any two iteration orders of the Go
   maps give the same output list - provided the sort key is a total order whose ties are
   identities (true of the power key and of the mainline key). Acyclicity is not needed:
   strays are sorted by the same key. *)
From Coq Require Import Permutation Lia.
From Verif Require Import Lib.Bytes StateRes.Kahn StateRes.SortProofs StateRes.KahnProofs StateRes.CmpProofs.
Local Open Scope nat_scope.

Section KahnSet.
  Variable T : Type.
  Variable tid : T -> bytes.
  Variable trefs : T -> list bytes.
  Variable tcmp : T -> T -> comparison.
  Hypothesis tcmp_good : good T tcmp.
  Hypothesis tcmp_eq : forall a b, tcmp a b = Eq -> tid a = tid b.

  Lemma sort_same (l l' : list T) :
    NoDup (map tid l) -> Permutation l l' -> ssort tcmp l = ssort tcmp l'.
  Proof.
    intros ND P. apply ssort_canonical; auto.
    - apply (good_antisym _ _ tcmp_good).
    - apply (good_le_trans _ _ tcmp_good).
    - intros a b Ha Hb E. apply tcmp_eq in E. eapply NoDup_map_inj; eauto.
  Qed.

  Lemma emap_find_none_iff m k : (forall x, In x m -> tid x <> k) -> emap_find tid m k = None.
  Proof.
    induction m as [|y r IH]; simpl; intro H; [reflexivity|].
    destruct (bytes_eqb (tid y) k) eqn:E.
    - apply bytes_eqb_eq in E. exfalso. apply (H y); auto.
    - apply IH. intros; apply H; auto.
  Qed.

  Lemma emap_find_perm m m' k :
    NoDup (map tid m) -> Permutation m m' -> emap_find tid m k = emap_find tid m' k.
  Proof.
    intros ND P. destruct (emap_find tid m k) as [x|] eqn:E.
    - destruct (emap_find_some T tid _ _ _ E) as [Hx Hk].
      destruct (emap_find tid m' k) as [y|] eqn:E'.
      + destruct (emap_find_some T tid _ _ _ E') as [Hy Hk'].
        f_equal. eapply NoDup_map_inj; eauto.
        * eapply Permutation_in; [symmetry; exact P|exact Hy].
        * congruence.
      + exfalso. eapply (emap_find_none T tid trefs tcmp _ _ E'); [eapply Permutation_in; [exact P|exact Hx]|exact Hk].
    - symmetry. apply emap_find_none_iff. intros x Hx.
      eapply (emap_find_none T tid trefs tcmp _ _ E). eapply Permutation_in; [symmetry; exact P|exact Hx].
  Qed.

  (* two states that differ only in the order of the map entries and in how the degree
     function was built *)
  Definition st_equiv (s s' : kst T) : Prop :=
    NoDup (map tid (k_map s)) /\ Permutation (k_map s) (k_map s') /\
    (forall a, k_deg s a = k_deg s' a) /\ k_queue s = k_queue s' /\ k_graph s = k_graph s'.

  Lemma relax_equiv s s' a : st_equiv s s' -> st_equiv (kahn_relax tid s a) (kahn_relax tid s' a).
  Proof.
    intros [ND [P [D [Q G]]]]. unfold kahn_relax.
    assert (Hd : deg_dec (k_deg s) a a = deg_dec (k_deg s') a a).
    { unfold deg_dec, deg_add. rewrite D. reflexivity. }
    assert (Hdall : forall b, deg_dec (k_deg s) a b = deg_dec (k_deg s') a b).
    { intro b. unfold deg_dec, deg_add. rewrite D. reflexivity. }
    rewrite <- Hd. destruct (_ =? 0)%Z.
    - rewrite <- (emap_find_perm _ _ a ND P).
      destruct (emap_find tid (k_map s) a) as [x|]; repeat split; simpl; auto.
      + unfold emap_del. apply NoDup_map_filter. exact ND.
      + unfold emap_del. apply perm_filter. exact P.
      + rewrite Q. reflexivity.
    - repeat split; simpl; auto.
  Qed.

  Lemma relax_fold_equiv rs : forall s s',
    st_equiv s s' -> st_equiv (fold_left (kahn_relax tid) rs s) (fold_left (kahn_relax tid) rs s').
  Proof.
    induction rs as [|a r IH]; intros s s' E; simpl; [exact E|]. apply IH. apply relax_equiv. exact E.
  Qed.

  Lemma step_equiv s s' :
    st_equiv s s' ->
    match kahn_step tid trefs tcmp s, kahn_step tid trefs tcmp s' with
    | Some t, Some t' => st_equiv t t'
    | None, None => True
    | _, _ => False
    end.
  Proof.
    intros E. pose proof E as [ND [P [D [Q G]]]]. unfold kahn_step. rewrite <- Q.
    destruct (pop_last (k_queue s)) as [[e q]|]; [|exact I].
    assert (E0 : st_equiv (mkKst (k_map s) (k_deg s) q (e :: k_graph s))
                          (mkKst (k_map s') (k_deg s') q (e :: k_graph s'))).
    { repeat split; simpl; auto. rewrite G. reflexivity. }
    apply (relax_fold_equiv (trefs e)) in E0. destruct E0 as [ND1 [P1 [D1 [Q1 G1]]]].
    repeat split; simpl; auto. rewrite Q1. reflexivity.
  Qed.

  Lemma loop_equiv fuel : forall s s',
    st_equiv s s' -> st_equiv (kahn_loop tid trefs tcmp fuel s) (kahn_loop tid trefs tcmp fuel s').
  Proof.
    induction fuel as [|f IH]; intros s s' E; simpl; [exact E|].
    pose proof (step_equiv s s' E) as H.
    destruct (kahn_step tid trefs tcmp s), (kahn_step tid trefs tcmp s'); try contradiction; auto.
  Qed.

  Variable sh sh' : list T -> list T.
  Hypothesis sh_perm : forall l, Permutation (sh l) l.
  Hypothesis sh'_perm : forall l, Permutation (sh' l) l.

  Theorem kahn_set_only (l l' : list T) :
    NoDup (map tid l) -> Permutation l l' ->
    kahn tid trefs tcmp sh l = kahn tid trefs tcmp sh' l'.
  Proof.
    intros ND P.
    assert (ND' : NoDup (map tid l')).
    { eapply Permutation_NoDup; [apply Permutation_map; exact P|exact ND]. }
    unfold kahn.
    destruct (kahn_init_nodup T tid trefs l ND) as [Hm Hd].
    destruct (kahn_init_nodup T tid trefs l' ND') as [Hm' Hd'].
    assert (Hdeg : forall a, snd (kahn_init tid trefs l) a = snd (kahn_init tid trefs l') a).
    { intro a. rewrite Hd, Hd'. f_equal. apply refcount_perm. exact P. }
    assert (E0 : st_equiv (kahn_start tid trefs tcmp sh l) (kahn_start tid trefs tcmp sh' l')).
    { unfold kahn_start. rewrite Hm, Hm'. repeat split; simpl.
      - apply NoDup_map_filter. exact ND.
      - rewrite (filter_ext _ (fun x => negb (is_zero tid (snd (kahn_init tid trefs l')) x))).
        + apply perm_filter. exact P.
        + intro x. unfold is_zero. rewrite Hdeg. reflexivity.
      - exact Hdeg.
      - rewrite (filter_ext (is_zero tid (snd (kahn_init tid trefs l))) (is_zero tid (snd (kahn_init tid trefs l')))).
        + apply sort_same.
          * apply NoDup_map_filter. eapply Permutation_NoDup; [apply Permutation_map; symmetry; apply sh_perm|exact ND].
          * apply perm_filter. rewrite sh_perm, sh'_perm. exact P.
        + intro x. unfold is_zero. rewrite Hdeg. reflexivity. }
    rewrite Hm, Hm'. rewrite <- (Permutation_length P).
    apply (loop_equiv (length l)) in E0. destruct E0 as [ND1 [P1 [D1 [Q1 G1]]]].
    rewrite G1. f_equal. apply sort_same.
    - eapply Permutation_NoDup; [apply Permutation_map; symmetry; apply sh_perm|exact ND1].
    - rewrite sh_perm, sh'_perm. exact P1.
  Qed.
End KahnSet.
