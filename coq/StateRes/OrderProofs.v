(* The orderings on events: what Kahn's theorem gives for reverseTopologicalOrdering by auth
   events and by prev events, for the public entry points (which drop repeated entries first)
   and for LineariseStateResponse. *)
From Coq Require Import Permutation Lia.
From Verif Require Import Lib.Bytes StateRes.Event StateRes.Kahn StateRes.V2 StateRes.V1 StateRes.Entry
     StateRes.SortProofs StateRes.KahnProofs.
Local Open Scope nat_scope.

(* an acyclic reference relation on a list of events: some rank decreases along every
   reference that stays inside the list (every finite cycle-free graph has one - the length of
   the longest path; room DAGs have one by construction, an event can only name events that
   existed before it) *)
Definition acyclic (refs : event -> list bytes) (l : list event) : Prop :=
  exists rank : bytes -> nat,
    forall e a, In e l -> In a (refs e) -> In a (ids_of l) -> rank a < rank (e_id e).

(* output is a rearrangement of input in which every event comes after each event it refers
   to that is present in the input *)
Definition topological_permutation (refs : event -> list bytes) (input output : list event) : Prop :=
  Permutation output input /\
  forall g1 e g2, output = g1 ++ e :: g2 ->
  forall a, In a (refs e) -> In a (ids_of input) -> In a (ids_of g1).

(* ---------- dedup_events ---------- *)
Lemma dedup_acc_in l : forall seen e, In e (dedup_events_acc l seen) -> In e l /\ ~ In (e_id e) seen.
Proof.
  induction l as [|x r IH]; intros seen e; simpl; [tauto|].
  destruct (mem_bytes (e_id x) seen) eqn:E.
  - intro H. destruct (IH _ _ H). auto.
  - intros [<-|H].
    + split; [auto|]. intro Hin. apply mem_bytes_In in Hin. congruence.
    + destruct (IH _ _ H) as [H1 H2]. split; [auto|]. intro; apply H2; right; assumption.
Qed.

Lemma dedup_acc_nodup l : forall seen, NoDup (ids_of (dedup_events_acc l seen)).
Proof.
  induction l as [|x r IH]; intro seen; simpl; [constructor|].
  destruct (mem_bytes (e_id x) seen); [apply IH|]. simpl. constructor; [|apply IH].
  intro Hin. apply in_map_iff in Hin as [y [E Hy]]. apply dedup_acc_in in Hy as [_ Hn].
  apply Hn. left. symmetry. exact E.
Qed.

Lemma dedup_nodup l : NoDup (ids_of (dedup_events l)).
Proof. apply dedup_acc_nodup. Qed.

Lemma dedup_in l e : In e (dedup_events l) -> In e l.
Proof. intro H. apply dedup_acc_in in H. tauto. Qed.

Lemma dedup_acc_ids l : forall seen k, In k (ids_of l) -> In k seen \/ In k (ids_of (dedup_events_acc l seen)).
Proof.
  induction l as [|x r IH]; intros seen k; simpl; [tauto|]. intros [<-|H].
  - destruct (mem_bytes (e_id x) seen) eqn:E; [left; apply mem_bytes_In; exact E|right; left; reflexivity].
  - destruct (mem_bytes (e_id x) seen) eqn:E; [apply IH; exact H|].
    destruct (IH (e_id x :: seen) k H) as [[<-|Hs]|Hd]; [right; left; reflexivity|left; exact Hs|right; right; exact Hd].
Qed.

(* every event ID of the list survives *)
Lemma dedup_ids l k : In k (ids_of l) -> In k (ids_of (dedup_events l)).
Proof. intro H. destruct (dedup_acc_ids l [] k H) as [[]|H']. exact H'. Qed.


Lemma dedup_acc_id l : forall seen,
  NoDup (ids_of l) -> (forall k, In k (ids_of l) -> ~ In k seen) -> dedup_events_acc l seen = l.
Proof.
  induction l as [|x r IH]; intros seen ND Hs; simpl; [reflexivity|].
  inversion ND; subst.
  destruct (mem_bytes (e_id x) seen) eqn:E.
  - apply mem_bytes_In in E. exfalso. apply (Hs (e_id x)); [left; reflexivity|exact E].
  - f_equal. apply IH; [assumption|].
    intros k Hk [<-|Hin]; [contradiction|]. apply (Hs k); [right; exact Hk|exact Hin].
Qed.

(* a list without repeated IDs is left alone *)
Lemma dedup_id l : NoDup (ids_of l) -> dedup_events l = l.
Proof. intro ND. apply dedup_acc_id; [exact ND|]. intros k _ []. Qed.

Lemma acyclic_perm refs l l' : Permutation l l' -> acyclic refs l -> acyclic refs l'.
Proof.
  intros P [rank R]. exists rank. intros e a He Ha Hin.
  apply R; [eapply Permutation_in; [symmetry; exact P|exact He]|exact Ha|].
  eapply Permutation_in; [symmetry; apply Permutation_map; exact P|exact Hin].
Qed.

Lemma topological_permutation_perm refs l l' out :
  Permutation l l' -> topological_permutation refs l out -> topological_permutation refs l' out.
Proof.
  intros P [P1 A]. split; [etransitivity; eassumption|].
  intros g1 e g2 Hs a Ha Hin. eapply A; eauto.
  eapply Permutation_in; [symmetry; apply Permutation_map; exact P|exact Hin].
Qed.

(* ---------- transfer from wrapped items to events ---------- *)
Section Wrapped.
  Variable W : Type.
  Variable wev : W -> event.
  Variable refs : event -> list bytes.
  Variable wcmp : W -> W -> comparison.
  Variable shW : list W -> list W.
  Hypothesis shW_perm : forall l, Permutation (shW l) l.
  Variable wrap : event -> W.
  Hypothesis wrap_ev : forall e, wev (wrap e) = e.

  Lemma wrapped_order l :
    NoDup (ids_of l) -> acyclic refs l ->
    topological_permutation refs l
      (map wev (kahn (fun w => e_id (wev w)) (fun w => refs (wev w)) wcmp shW (map wrap l))).
  Proof.
    intros ND [rank R].
    assert (Hids : map (fun w => e_id (wev w)) (map wrap l) = ids_of l).
    { rewrite map_map. apply map_ext. intro e. rewrite wrap_ev. reflexivity. }
    assert (Hev : map wev (map wrap l) = l).
    { rewrite map_map. rewrite <- (map_id l) at 2. apply map_ext. exact wrap_ev. }
    destruct (kahn_topological W (fun w => e_id (wev w)) (fun w => refs (wev w)) wcmp shW shW_perm
                               (map wrap l)) with (rank := rank) as [P A].
    - rewrite Hids. exact ND.
    - intros w a Hw Ha Hin. rewrite Hids in Hin. apply in_map_iff in Hw as [e [<- He]].
      rewrite wrap_ev in *. apply R; assumption.
    - split.
      + rewrite <- Hev at 2. apply Permutation_map. exact P.
      + intros g1 e g2 Hsplit a Ha Hin.
        apply map_eq_app in Hsplit as [k1 [k2' [Hk [H1 H2]]]].
        apply map_eq_cons in H2 as [w [k2 [Hk2 [Hw H3]]]]. subst.
        unfold ancestors_first in A. specialize (A k1 w k2 Hk a).
        rewrite Hids in A. specialize (A Ha Hin).
        unfold ids_of. rewrite map_map. exact A.
  Qed.
End Wrapped.

Section Orders.
  Variable shP : list pwrap -> list pwrap.
  Variable shO : list owrap -> list owrap.
  Hypothesis shP_perm : forall l, Permutation (shP l) l.
  Hypothesis shO_perm : forall l, Permutation (shO l) l.

  (* reverseTopologicalOrdering by auth events, whatever the power lookup yields *)
  Theorem power_order_topological (priv : bool) (cl ud : Z) (authmap : list event) (create : option event) (l : list event) :
    NoDup (ids_of l) -> acyclic e_auth l ->
    topological_permutation e_auth l (power_order shP priv cl ud authmap create l).
  Proof.
    intros ND Ac. unfold power_order.
    apply (wrapped_order pwrap pw_ev e_auth pw_cmp shP shP_perm
                         (fun e => mkPw e (sender_power priv cl ud authmap create e))); auto.
  Qed.

  (* reverseTopologicalOrdering by prev events *)
  Theorem prev_order_topological (authmap : list event) (pos : list (bytes * Z)) (l : list event) :
    NoDup (ids_of l) -> acyclic e_prev l ->
    topological_permutation e_prev l (prev_order shO authmap pos l).
  Proof.
    intros ND Ac. unfold prev_order.
    apply (wrapped_order owrap ow_ev e_prev ow_cmp shO shO_perm (wrap_other authmap pos)); auto.
  Qed.

  (* ReverseTopologicalOrdering / HeaderedReverseTopologicalOrdering: any input list, repeated
     entries included; the result orders the distinct events *)
  Theorem reverse_topological_ordering_topological (ver : bytes) (by_auth : bool) (input : list event) :
    acyclic (if by_auth then e_auth else e_prev) (dedup_events input) ->
    topological_permutation (if by_auth then e_auth else e_prev) (dedup_events input)
                            (reverse_topological_ordering shP shO ver by_auth input).
  Proof.
    intro Ac. unfold reverse_topological_ordering. destruct by_auth.
    - apply power_order_topological; [apply dedup_nodup|exact Ac].
    - apply prev_order_topological; [apply dedup_nodup|exact Ac].
  Qed.

  (* LineariseStateResponse: the auth events and state events, one entry per event ID, in an
     order where every event comes after its auth events *)
  Variable shE : list event -> list event.
  Hypothesis shE_perm : forall l, Permutation (shE l) l.

  Theorem linearise_topological (ver : bytes) (auth_events state_events : list event) :
    acyclic e_auth (dedup_events (auth_events ++ state_events)) ->
    topological_permutation e_auth (dedup_events (auth_events ++ state_events))
                            (linearise_state_response shE shP shO ver auth_events state_events).
  Proof.
    intro Ac. unfold linearise_state_response.
    set (X := dedup_events (auth_events ++ state_events)) in *.
    assert (ND : NoDup (ids_of (shE X))).
    { eapply Permutation_NoDup; [apply Permutation_map; symmetry; apply shE_perm|apply dedup_nodup]. }
    apply topological_permutation_perm with (l := shE X); [apply shE_perm|].
    rewrite <- (dedup_id (shE X) ND) at 1.
    apply (reverse_topological_ordering_topological ver true).
    rewrite (dedup_id (shE X) ND). eapply acyclic_perm; [symmetry; apply shE_perm|exact Ac].
  Qed.
End Orders.
