(* Order-independence of the orderings on events: the power ordering, the prev-event ordering
   and the public entry points return the same list for every presentation order of the same
   events and every iteration order of the Go maps. *)
From Coq Require Import Permutation Lia.
From Verif Require Import Lib.Bytes StateRes.Event StateRes.Kahn StateRes.V2 StateRes.V1 StateRes.Entry
     StateRes.SortProofs StateRes.KahnProofs StateRes.CmpProofs StateRes.KahnSetProofs StateRes.OrderProofs.
Local Open Scope nat_scope.

(* event IDs identify events (an ID is a hash of the event) *)
Definition ids_identify (l : list event) : Prop :=
  forall a b, In a l -> In b l -> e_id a = e_id b -> a = b.

Lemma dedup_in_iff l x : ids_identify l -> (In x (dedup_events l) <-> In x l).
Proof.
  intro H. split; [apply dedup_in|]. intro Hx.
  assert (Hid : In (e_id x) (ids_of (dedup_events l))) by (apply dedup_ids, in_map; exact Hx).
  apply in_map_iff in Hid as [y [E Hy]].
  assert (y = x) by (apply H; [apply dedup_in; exact Hy|exact Hx|exact E]). subst. exact Hy.
Qed.

Lemma dedup_perm l l' : ids_identify l -> Permutation l l' -> Permutation (dedup_events l) (dedup_events l').
Proof.
  intros H P.
  assert (H' : ids_identify l').
  { intros a b Ha Hb. apply H; eapply Permutation_in; try (symmetry; exact P); assumption. }
  apply NoDup_Permutation.
  - eapply NoDup_map_inv. apply dedup_nodup.
  - eapply NoDup_map_inv. apply dedup_nodup.
  - intro x. rewrite (dedup_in_iff l x H), (dedup_in_iff l' x H'). split; apply Permutation_in; [|symmetry]; exact P.
Qed.

Section OrderSet.
  Variables shP shP' : list pwrap -> list pwrap.
  Variables shO shO' : list owrap -> list owrap.
  Hypothesis shP_perm : forall l, Permutation (shP l) l.
  Hypothesis shP'_perm : forall l, Permutation (shP' l) l.
  Hypothesis shO_perm : forall l, Permutation (shO l) l.
  Hypothesis shO'_perm : forall l, Permutation (shO' l) l.

  Theorem power_order_set_only (priv : bool) (cl ud : Z) (authmap : list event) (create : option event)
          (l l' : list event) :
    NoDup (ids_of l) -> Permutation l l' ->
    power_order shP priv cl ud authmap create l = power_order shP' priv cl ud authmap create l'.
  Proof.
    intros ND P. unfold power_order. f_equal.
    apply (kahn_set_only pwrap (fun w => e_id (pw_ev w)) (fun w => e_auth (pw_ev w)) pw_cmp
                         pw_cmp_good pw_cmp_eq shP shP' shP_perm shP'_perm).
    - rewrite map_map. exact ND.
    - apply Permutation_map. exact P.
  Qed.

  Theorem prev_order_set_only (authmap : list event) (pos : list (bytes * Z)) (l l' : list event) :
    NoDup (ids_of l) -> Permutation l l' ->
    prev_order shO authmap pos l = prev_order shO' authmap pos l'.
  Proof.
    intros ND P. unfold prev_order. f_equal.
    apply (kahn_set_only owrap (fun w => e_id (ow_ev w)) (fun w => e_prev (ow_ev w)) ow_cmp
                         ow_cmp_good ow_cmp_eq shO shO' shO_perm shO'_perm).
    - rewrite map_map. exact ND.
    - apply Permutation_map. exact P.
  Qed.

  (* the create event the public orderings look up: at most one in any room *)
  Definition one_create (l : list event) : Prop :=
    forall a b, In a l -> In b l -> is_create a = true -> is_create b = true -> a = b.

  Lemma first_create_perm l l' : one_create l -> Permutation l l' -> first_create_event l = first_create_event l'.
  Proof.
    intros H P. unfold first_create_event.
    assert (Pf : Permutation (filter is_create l) (filter is_create l')) by (apply perm_filter; exact P).
    destruct (filter is_create l) as [|a r] eqn:E; destruct (filter is_create l') as [|a' r'] eqn:E'.
    - reflexivity.
    - apply Permutation_nil in Pf. discriminate.
    - symmetry in Pf. apply Permutation_nil in Pf. discriminate.
    - f_equal.
      assert (Ha : In a l /\ is_create a = true) by (apply filter_In; rewrite E; left; reflexivity).
      assert (Ha' : In a' l' /\ is_create a' = true) by (apply filter_In; rewrite E'; left; reflexivity).
      destruct Ha as [Ha1 Ha2], Ha' as [Hb1 Hb2]. apply H; auto.
      eapply Permutation_in; [symmetry; exact P|exact Hb1].
  Qed.

  (* ReverseTopologicalOrdering / HeaderedReverseTopologicalOrdering: same events, any
     presentation order, any number of repeats permuted along: same result *)
  Theorem reverse_topological_ordering_set_only (ver : bytes) (by_auth : bool) (input input' : list event) :
    ids_identify input -> one_create input -> Permutation input input' ->
    reverse_topological_ordering shP shO ver by_auth input
    = reverse_topological_ordering shP' shO' ver by_auth input'.
  Proof.
    intros Hid Hc P. unfold reverse_topological_ordering.
    pose proof (dedup_perm input input' Hid P) as PD.
    destruct by_auth.
    - rewrite (first_create_perm (dedup_events input) (dedup_events input')); [|
        intros a b Ha Hb; apply Hc; apply dedup_in; assumption | exact PD].
      apply power_order_set_only; [apply dedup_nodup|exact PD].
    - apply prev_order_set_only; [apply dedup_nodup|exact PD].
  Qed.
End OrderSet.

(* mainlineOrdering: a sort by a total order - the result depends only on the set of events *)
Theorem mainline_order_set_only (authmap : list event) (resolved_power : option event) (l l' : list event) :
  NoDup (ids_of l) -> Permutation l l' ->
  mainline_order authmap resolved_power l = mainline_order authmap resolved_power l'.
Proof.
  intros ND P. unfold mainline_order. f_equal.
  apply ssort_canonical.
  - apply (good_antisym _ _ ow_cmp_good).
  - apply (good_le_trans _ _ ow_cmp_good).
  - intros a b Ha Hb E. apply ow_cmp_eq in E.
    eapply (NoDup_map_inj _ _ (fun w => e_id (ow_ev w))); eauto.
    rewrite map_map. exact ND.
  - apply Permutation_map. exact P.
Qed.
