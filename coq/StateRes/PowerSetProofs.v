(* The power set of state resolution v2 (DESIGN.md 6.2 r5): the conflicted control events and
   everything they reach through auth events that are themselves conflicted events.  The Go
   code computes it with fullControlSet, a recursive walk with ONE visited set shared by all
   roots, and returns a list with repeats; as a SET it is exactly the specification's closure. *)
From Coq Require Import Permutation Lia.
From Verif Require Import Lib.Bytes StateRes.Event StateRes.Kahn StateRes.V2 StateRes.V2Spec
     StateRes.SubsetProofs StateRes.ChainProofs StateRes.ChainCompleteProofs.
Local Open Scope nat_scope.

(* x is a conflicted control event of the full conflicted set, or reachable from one through
   auth events found in the conflicted map *)
Definition spec_power_set (cm unconflicted full : list event) (x : event) : Prop :=
  exists root, In root full /\ has_event (e_id root) unconflicted = false /\ is_control_event root = true /\
               (x = root \/ auth_reach cm root x).

Section PowerSet.
  Variable cm : list event.

  (* ---------- soundness ---------- *)
  Lemma fcs_sound fuel : forall ev visited x,
    In x (fst (full_control_set fuel cm ev visited)) -> x = ev \/ auth_reach cm ev x.
  Proof.
    induction fuel as [|f IH]; intros ev visited x; simpl; [intros [<-|[]]; auto|].
    apply (fold_left_inv _ (fun acc : list event * list bytes => forall x, In x (fst acc) -> x = ev \/ auth_reach cm ev x)).
    - simpl. intros y [<-|[]]. auto.
    - intros acc a Hacc Ha. destruct (mem_bytes a (snd acc)); [exact Hacc|].
      destruct (find_event a cm) as [c|] eqn:E; [|exact Hacc]. intros y Hy.
      change (In y (fst acc ++ fst (full_control_set f cm c (snd acc)))) in Hy.
      apply in_app_or in Hy as [Hy|Hy]; [auto|]. right.
      assert (St : auth_step cm ev c) by (exists a; auto).
      destruct (IH _ _ _ Hy) as [->|R]; [apply ar_step; exact St|eapply ar_trans; eassumption].
  Qed.

  (* ---------- completeness ---------- *)
  Variable rank : bytes -> nat.
  Hypothesis acyclic_steps : forall a b, auth_step cm a b -> rank (e_id b) < rank (e_id a).

  (* everything a visited ID stands for has been collected together with its own auth IDs *)
  Definition closed (V : list bytes) (C : list event) : Prop :=
    forall a y, In a V -> find_event a cm = Some y -> In y C /\ forall b, In b (e_auth y) -> In b V.

  Lemma closed_mono V C C' : closed V C -> (forall y, In y C -> In y C') -> closed V C'.
  Proof. intros H I a y Ha E. destruct (H a y Ha E). auto. Qed.

  Lemma fcs_closed fuel : forall ev V stack C0,
    NoDup stack -> (forall y, In y stack -> In y cm) ->
    (forall y, In y stack -> rank (e_id ev) <= rank (e_id y)) ->
    S (length cm) <= fuel + length stack ->
    closed V C0 ->
    let r := full_control_set fuel cm ev V in
    In ev (fst r) /\ (forall a, In a V -> In a (snd r)) /\ (forall b, In b (e_auth ev) -> In b (snd r)) /\
    closed (snd r) (C0 ++ fst r).
  Proof.
    induction fuel as [|f IH]; intros ev V stack C0 ND Hcm Hrank Hfuel Hcl.
    - exfalso. assert (length stack <= length cm) by (apply NoDup_incl_length; assumption). simpl in Hfuel. lia.
    - simpl.
      set (step := fun (acc : list event * list bytes) (a : bytes) =>
                     if mem_bytes a (snd acc) then acc
                     else match find_event a cm with
                          | Some x => let r := full_control_set f cm x (snd acc) in (fst acc ++ fst r, a :: snd r)
                          | None => (fst acc, a :: snd acc)
                          end).
      assert (G : forall auths acc,
                 In ev (fst acc) -> (forall a, In a V -> In a (snd acc)) -> closed (snd acc) (C0 ++ fst acc) ->
                 (forall b, In b auths -> In b (e_auth ev)) ->
                 let r := fold_left step auths acc in
                 In ev (fst r) /\ (forall a, In a (snd acc) -> In a (snd r)) /\ (forall b, In b auths -> In b (snd r)) /\
                 closed (snd r) (C0 ++ fst r)).
      { induction auths as [|a rest IHa]; intros acc Hev HV Hc Hsub; simpl; [split; [exact Hev|]; split; [auto|]; split; [intros ? []|exact Hc]|].
        assert (Hsub' : forall b, In b rest -> In b (e_auth ev)) by (intros; apply Hsub; right; assumption).
        destruct (mem_bytes a (snd acc)) eqn:Em.
        - assert (Es : step acc a = acc) by (unfold step; rewrite Em; reflexivity). rewrite Es.
          apply mem_bytes_In in Em. destruct (IHa acc Hev HV Hc Hsub') as [I1 [I2 [I3 I4]]].
          split; [exact I1|]. split; [exact I2|]. split; [|exact I4].
          intros b [<-|Hb]; [apply I2; exact Em|apply I3; exact Hb].
        - destruct (find_event a cm) as [x|] eqn:Ex.
          + assert (St : auth_step cm ev x) by (exists a; split; [apply Hsub; left; reflexivity|exact Ex]).
            pose proof (acyclic_steps _ _ St) as Rx.
            destruct (IH x (snd acc) (x :: stack) (C0 ++ fst acc)) as [J1 [J2 [J3 J4]]].
            { constructor; [|exact ND]. intro Hin. specialize (Hrank x Hin). lia. }
            { intros y [<-|Hy]; [eapply find_event_in; exact Ex|auto]. }
            { intros y [<-|Hy]; [lia|]. specialize (Hrank y Hy). lia. }
            { simpl. lia. }
            { exact Hc. }
            set (r := full_control_set f cm x (snd acc)) in *.
            assert (Es : step acc a = (fst acc ++ fst r, a :: snd r)) by (unfold step; rewrite Em, Ex; reflexivity). rewrite Es.
            destruct (IHa (fst acc ++ fst r, a :: snd r)) as [I1 [I2 [I3 I4]]].
            { simpl. apply in_or_app. left. exact Hev. }
            { simpl. intros b Hb. right. apply J2. apply HV. exact Hb. }
            { simpl. rewrite app_assoc. intros b y [<-|Hb] E.
              - assert (y = x) by congruence. subst y. split; [apply in_or_app; right; exact J1|].
                intros b Hb. right. apply J3. exact Hb.
              - destruct (J4 b y Hb E) as [K1 K2]. split; [exact K1|]. intros b0 Hb0. right. apply K2. exact Hb0. }
            { exact Hsub'. }
            split; [exact I1|]. split; [|split; [|exact I4]].
            * intros b Hb. apply I2. simpl. right. apply J2. exact Hb.
            * intros b [<-|Hb]; [apply I2; simpl; left; reflexivity|apply I3; exact Hb].
          + assert (Es : step acc a = (fst acc, a :: snd acc)) by (unfold step; rewrite Em, Ex; reflexivity). rewrite Es.
            destruct (IHa (fst acc, a :: snd acc)) as [I1 [I2 [I3 I4]]].
            { exact Hev. }
            { simpl. intros b Hb. right. apply HV. exact Hb. }
            { simpl. intros b y [<-|Hb] E; [congruence|].
              destruct (Hc b y Hb E) as [K1 K2]. split; [exact K1|]. intros b0 Hb0. right. apply K2. exact Hb0. }
            { exact Hsub'. }
            split; [exact I1|]. split; [|split; [|exact I4]].
            * intros b Hb. apply I2. simpl. right. exact Hb.
            * intros b [<-|Hb]; [apply I2; simpl; left; reflexivity|apply I3; exact Hb]. }
      destruct (G (e_auth ev) ([ev], V)) as [I1 [I2 [I3 I4]]]; simpl; auto.
      eapply closed_mono; [exact Hcl|]. intros y Hy. apply in_or_app. left. exact Hy.
  Qed.

  Lemma closed_reach V C a x :
    closed V C -> (forall k, In k (e_auth a) -> In k V) -> auth_reach cm a x -> In x C.
  Proof.
    intros Hc Ha R. induction R as [a b [k [Hk E]]|a b c [k [Hk E]] R IH].
    - destruct (Hc k b (Ha k Hk) E). assumption.
    - destruct (Hc k b (Ha k Hk) E) as [_ Hb]. apply IH. exact Hb.
  Qed.

  (* ---------- the theorem ---------- *)
  Theorem power_set_spec unconflicted full x :
    In x (control_events cm unconflicted full) <-> spec_power_set cm unconflicted full x.
  Proof.
    unfold control_events.
    set (step := fun (acc : list event * list bytes) (p : event) =>
                   if has_event (e_id p) unconflicted then acc
                   else if is_control_event p
                        then let r := full_control_set (S (length cm)) cm p (snd acc) in (fst acc ++ fst r, snd r)
                        else acc).
    split.
    - (* soundness *)
      assert (G : forall l acc, (forall y, In y (fst acc) -> spec_power_set cm unconflicted full y) ->
                  (forall p, In p l -> In p full) ->
                  forall y, In y (fst (fold_left step l acc)) -> spec_power_set cm unconflicted full y).
      { induction l as [|p r IH]; intros acc Hacc Hl; simpl; [exact Hacc|]. apply IH; [|intros; apply Hl; right; assumption].
        unfold step at 1. destruct (has_event (e_id p) unconflicted) eqn:Eu; [exact Hacc|].
        destruct (is_control_event p) eqn:Ec; [|exact Hacc]. intros y Hy.
        change (In y (fst acc ++ fst (full_control_set (S (length cm)) cm p (snd acc)))) in Hy.
        apply in_app_or in Hy as [Hy|Hy]; [auto|].
        exists p. split; [apply Hl; left; reflexivity|]. split; [exact Eu|]. split; [exact Ec|].
        eapply fcs_sound. exact Hy. }
      apply (G full ([], [])); [intros ? []|auto].
    - (* completeness *)
      intros [root [Hroot [Eu [Ec Hx]]]].
      assert (G : forall l acc, closed (snd acc) (fst acc) ->
                  closed (snd (fold_left step l acc)) (fst (fold_left step l acc)) /\
                  (forall y, In y (fst acc) -> In y (fst (fold_left step l acc))) /\
                  (forall a, In a (snd acc) -> In a (snd (fold_left step l acc))) /\
                  (In root l -> In root (fst (fold_left step l acc)) /\
                                forall k, In k (e_auth root) -> In k (snd (fold_left step l acc)))).
      { induction l as [|p r IH]; intros acc Hc; simpl; [split; [exact Hc|]; split; [auto|]; split; [auto|intros []]|].
        assert (Hstep : closed (snd (step acc p)) (fst (step acc p)) /\
                        (forall y, In y (fst acc) -> In y (fst (step acc p))) /\
                        (forall a, In a (snd acc) -> In a (snd (step acc p))) /\
                        (p = root -> In root (fst (step acc p)) /\ forall k, In k (e_auth root) -> In k (snd (step acc p)))).
        { unfold step. destruct (has_event (e_id p) unconflicted) eqn:Eu'.
          - split; [exact Hc|]. split; [auto|]. split; [auto|]. intros ->. congruence.
          - destruct (is_control_event p) eqn:Ec'.
            + destruct (fcs_closed (S (length cm)) p (snd acc) [] (fst acc)) as [J1 [J2 [J3 J4]]];
                [constructor|intros ? []|intros ? []|simpl; lia|exact Hc|].
              cbv zeta. cbn [fst snd]. split; [exact J4|]. split; [|split; [exact J2|]].
              * intros y Hy. apply in_or_app. left. exact Hy.
              * intros ->. split; [apply in_or_app; right; exact J1|exact J3].
            + split; [exact Hc|]. split; [auto|]. split; [auto|]. intros ->. congruence. }
        destruct Hstep as [S1 [S2 [S3 S4]]]. destruct (IH (step acc p) S1) as [I1 [I2 [I3 I4]]].
        split; [exact I1|]. split; [auto|]. split; [auto|].
        intros [->|Hin]; [|apply I4; exact Hin].
        destruct (S4 eq_refl) as [T1 T2]. split; [apply I2; exact T1|]. intros k Hk. apply I3. apply T2. exact Hk. }
      destruct (G full ([], [])) as [Hc [_ [_ Hr]]]; [intros a y []|].
      destruct (Hr Hroot) as [R1 R2]. destruct Hx as [->|Hx]; [exact R1|].
      eapply closed_reach; eassumption.
  Qed.
End PowerSet.
