(* Well-formedness of the resolved state of the v2 / v2.1 resolvers: the partial state is a map,
   so whatever the auth rules answer, the result holds at most one event per
   (type, state_key) and every event sits under its own key. *)
From Coq Require Import Permutation Lia.
From Verif Require Import Lib.Bytes StateRes.Event StateRes.Kahn StateRes.V2 StateRes.KahnProofs.
Local Open Scope nat_scope.

Lemma tkey_eqb_eq a b : tkey_eqb a b = true <-> a = b.
Proof.
  destruct a as [a1 a2], b as [b1 b2]. unfold tkey_eqb. simpl.
  rewrite andb_true_iff, !bytes_eqb_eq. split; [intros [-> ->]; reflexivity|intro H; inversion H; auto].
Qed.

Lemma tkey_eq_dec (a b : tkey) : {a = b} + {a <> b}.
Proof.
  destruct (tkey_eqb a b) eqn:E; [left; apply tkey_eqb_eq; exact E|right].
  intro H. apply tkey_eqb_eq in H. congruence.
Qed.

Definition smap_wf (m : smap) : Prop :=
  NoDup (map fst m) /\ forall k e, In (k, e) m -> event_tkey e = Some k.

Lemma smap_set_keys_in m k e : In k (map fst m) -> map fst (smap_set m k e) = map fst m.
Proof.
  induction m as [|[k0 e0] r IH]; simpl; [tauto|].
  destruct (tkey_eqb k0 k) eqn:E.
  - apply tkey_eqb_eq in E. subst. reflexivity.
  - intros [H|H]; [subst; rewrite (proj2 (tkey_eqb_eq k k) eq_refl) in E; discriminate|].
    simpl. rewrite IH; auto.
Qed.

Lemma smap_set_keys_notin m k e : ~ In k (map fst m) -> map fst (smap_set m k e) = map fst m ++ [k].
Proof.
  induction m as [|[k0 e0] r IH]; simpl; [reflexivity|]. intro H.
  destruct (tkey_eqb k0 k) eqn:E.
  - apply tkey_eqb_eq in E. subst. exfalso. apply H. left. reflexivity.
  - simpl. rewrite IH; auto.
Qed.

Lemma smap_set_in m k e k' e' : In (k', e') (smap_set m k e) -> (k' = k /\ e' = e) \/ In (k', e') m.
Proof.
  induction m as [|[k0 e0] r IH]; simpl.
  - intros [H|[]]. inversion H; auto.
  - destruct (tkey_eqb k0 k).
    + intros [H|H]; [inversion H; auto|auto].
    + intros [H|H]; [auto|]. destruct (IH H); auto.
Qed.

Lemma NoDup_app_comm_one {A} (l : list A) x : NoDup l -> ~ In x l -> NoDup (l ++ [x]).
Proof.
  intros ND H. eapply Permutation_NoDup; [apply Permutation_cons_append|]. constructor; assumption.
Qed.

Lemma smap_set_wf m k e : smap_wf m -> event_tkey e = Some k -> smap_wf (smap_set m k e).
Proof.
  intros [ND V] Hk. split.
  - destruct (in_dec tkey_eq_dec k (map fst m)) as [Hin|Hn].
    + rewrite smap_set_keys_in; assumption.
    + rewrite smap_set_keys_notin; [|assumption].
      apply NoDup_app_comm_one; assumption.
  - intros k' e' H. apply smap_set_in in H as [[-> ->]|H]; auto.
Qed.

Lemma apply_event_wf m e : smap_wf m -> smap_wf (apply_event m e).
Proof.
  intro W. unfold apply_event. destruct (event_tkey e) as [k|] eqn:E; [|exact W].
  apply smap_set_wf; assumption.
Qed.

Lemma apply_events_wf l : forall m, smap_wf m -> smap_wf (apply_events m l).
Proof.
  unfold apply_events. induction l as [|e r IH]; intros m W; simpl; [exact W|].
  apply IH. apply apply_event_wf. exact W.
Qed.

Lemma smap_wf_nil : smap_wf [].
Proof. split; [constructor|intros k e []]. Qed.

(* at most one event per key among the values of a well-formed map *)
Lemma smap_wf_unique m e1 e2 :
  smap_wf m -> In e1 (smap_values m) -> In e2 (smap_values m) ->
  event_tkey e1 = event_tkey e2 -> e1 = e2.
Proof.
  intros [ND V] H1 H2 E. unfold smap_values in *.
  apply in_map_iff in H1 as [[k1 x1] [<- H1]]. apply in_map_iff in H2 as [[k2 x2] [<- H2]]. simpl in *.
  pose proof (V _ _ H1) as V1. pose proof (V _ _ H2) as V2. rewrite V1, V2 in E. inversion E; subst.
  assert (P : (k2, x1) = (k2, x2)) by (eapply NoDup_map_inj; eauto).
  inversion P. reflexivity.
Qed.

Lemma smap_wf_state_events m e : smap_wf m -> In e (smap_values m) -> e_skey e <> None.
Proof.
  intros [_ V] H. apply in_map_iff in H as [[k x] [<- H]]. simpl. specialize (V _ _ H).
  unfold event_tkey in V. destruct (e_skey x); [discriminate|discriminate].
Qed.


(* ---------- re-applying a list of events: the last event of a key wins ---------- *)
Definition has_key (k : tkey) (e : event) : bool :=
  match event_tkey e with Some k' => tkey_eqb k' k | None => false end.

Fixpoint last_with_key (k : tkey) (l : list event) : option event :=
  match l with
  | [] => None
  | e :: r => match last_with_key k r with
              | Some x => Some x
              | None => if has_key k e then Some e else None
              end
  end.

Lemma smap_get_set_same m k e : smap_get (smap_set m k e) k = Some e.
Proof.
  induction m as [|[k0 e0] r IH]; simpl.
  - rewrite (proj2 (tkey_eqb_eq k k) eq_refl). reflexivity.
  - destruct (tkey_eqb k0 k) eqn:E; simpl.
    + rewrite (proj2 (tkey_eqb_eq k k) eq_refl). reflexivity.
    + rewrite E. exact IH.
Qed.

Lemma smap_get_set_other m k k' e : k' <> k -> smap_get (smap_set m k e) k' = smap_get m k'.
Proof.
  intro N. induction m as [|[k0 e0] r IH]; simpl.
  - destruct (tkey_eqb k k') eqn:E; [apply tkey_eqb_eq in E; congruence|reflexivity].
  - destruct (tkey_eqb k0 k) eqn:E; simpl.
    + apply tkey_eqb_eq in E. subst k0.
      destruct (tkey_eqb k k') eqn:E'; [apply tkey_eqb_eq in E'; congruence|reflexivity].
    + destruct (tkey_eqb k0 k'); [reflexivity|exact IH].
Qed.

Lemma apply_events_get l : forall m k,
  smap_get (apply_events m l) k =
  match last_with_key k l with Some e => Some e | None => smap_get m k end.
Proof.
  unfold apply_events. induction l as [|e r IH]; intros m k; simpl; [reflexivity|].
  rewrite IH. destruct (last_with_key k r); [reflexivity|].
  unfold apply_event, has_key. destruct (event_tkey e) as [k'|]; [|reflexivity].
  destruct (tkey_eqb k' k) eqn:E.
  - apply tkey_eqb_eq in E. subst. apply smap_get_set_same.
  - apply smap_get_set_other. intro; subst. rewrite (proj2 (tkey_eqb_eq k' k') eq_refl) in E. discriminate.
Qed.

Lemma smap_get_in m k e : smap_get m k = Some e -> In e (smap_values m).
Proof.
  induction m as [|[k0 e0] r IH]; simpl; [discriminate|].
  destruct (tkey_eqb k0 k); [intro H; inversion H; auto|auto].
Qed.

(* an event that is the only one of its key in the list is the last of its key *)
Lemma last_with_key_unique l e k :
  In e l -> event_tkey e = Some k ->
  (forall e', In e' l -> event_tkey e' = Some k -> e' = e) ->
  last_with_key k l = Some e.
Proof.
  induction l as [|x r IH]; simpl; [tauto|]. intros Hin Hk U.
  destruct (last_with_key k r) as [y|] eqn:L.
  - (* y has key k and is in r *)
    assert (Hy : In y r /\ event_tkey y = Some k).
    { clear -L. induction r as [|z r' IHr]; simpl in L; [discriminate|].
      destruct (last_with_key k r') eqn:L'.
      - inversion L; subst. destruct (IHr eq_refl). split; [right; assumption|assumption].
      - unfold has_key in L. destruct (event_tkey z) as [kz|] eqn:Ez; [|discriminate].
        destruct (tkey_eqb kz k) eqn:E; [|discriminate]. inversion L; subst.
        apply tkey_eqb_eq in E. subst. split; [left; reflexivity|assumption]. }
    destruct Hy as [Hy1 Hy2]. f_equal. apply U; auto.
  - destruct Hin as [->|Hin].
    + unfold has_key. rewrite Hk, (proj2 (tkey_eqb_eq k k) eq_refl). reflexivity.
    + assert (L2 : None = Some e) by (apply IH; auto). discriminate.
Qed.

Section Resolved.
  Variable allowed : event -> list event -> bool.
  Variable rejected : bytes -> bool.
  Variable shE : list event -> list event.
  Variable shP : list pwrap -> list pwrap.
  Variable shG : list (tkey * list event) -> list (tkey * list event).
  Variable priv : bool.
  Variable cl ud : Z.

  Lemma auth_and_apply_wf authmap l : forall r,
    smap_wf (r_state r) -> smap_wf (r_state (auth_and_apply allowed rejected authmap r l)).
  Proof.
    unfold auth_and_apply. induction l as [|e l' IH]; intros r W; simpl; [exact W|].
    apply IH. unfold auth_and_apply_one. destruct (allowed e _); simpl; [apply apply_event_wf|]; exact W.
  Qed.

  Lemma resolve_tail_wf authmap r0 control others unconflicted :
    smap_wf (r_state r0) ->
    smap_wf (r_state (resolve_tail allowed rejected shP priv cl ud authmap r0 control others unconflicted)).
  Proof.
    intro W. unfold resolve_tail, r_apply. simpl. apply apply_events_wf.
    apply auth_and_apply_wf. apply auth_and_apply_wf. exact W.
  Qed.


  (* the unconflicted events are applied after everything else, without auth checks *)
  Theorem unconflicted_applied_last authmap r0 control others unconflicted :
    exists r2, r_state (resolve_tail allowed rejected shP priv cl ud authmap r0 control others unconflicted)
               = apply_events (r_state r2) unconflicted.
  Proof. eexists. reflexivity. Qed.

  Theorem unconflicted_event_kept authmap r0 control others unconflicted e k :
    In e unconflicted -> event_tkey e = Some k ->
    (forall e', In e' unconflicted -> event_tkey e' = Some k -> e' = e) ->
    In e (result_events (resolve_tail allowed rejected shP priv cl ud authmap r0 control others unconflicted)).
  Proof.
    intros Hin Hk U. destruct (unconflicted_applied_last authmap r0 control others unconflicted) as [r2 E].
    unfold result_events. rewrite E. apply smap_get_in with (k := k).
    rewrite apply_events_get, (last_with_key_unique _ e k); auto.
  Qed.

  Theorem resolve_v2_new_wf v21 sets auth_events :
    smap_wf (r_state (resolve_v2_new allowed rejected shE shP shG priv cl ud v21 sets auth_events)).
  Proof.
    unfold resolve_v2_new.
    destruct (fst (split_conflicted shG false sets)) eqn:E1;
      destruct (snd (split_conflicted shG false sets)) eqn:E2;
      destruct auth_events eqn:E3; try apply smap_wf_nil;
      destruct v21; apply resolve_tail_wf; simpl; try apply smap_wf_nil;
      apply apply_events_wf; apply smap_wf_nil.
  Qed.

  Theorem resolve_v2_old_wf conflicted unconflicted auth_events :
    smap_wf (r_state (resolve_v2_old allowed rejected shE shP priv cl ud conflicted unconflicted auth_events)).
  Proof.
    unfold resolve_v2_old. destruct (filter is_create _); [apply smap_wf_nil|].
    apply resolve_tail_wf. simpl. apply apply_events_wf. apply smap_wf_nil.
  Qed.
End Resolved.
