(* The stable insertion sort of StateRes/Kahn.v: it permutes, it sorts, and for a total order
   whose ties are identities the result depends only on the set of elements. *)
From Coq Require Import Permutation Sorted.
From Verif Require Import Lib.Bytes StateRes.Kahn.

Section SortFacts.
  Variable T : Type.
  Variable cmp : T -> T -> comparison.

  Definition cle (a b : T) : Prop := cmp a b <> Gt.

  Lemma sinsert_perm x l : Permutation (sinsert cmp x l) (x :: l).
  Proof.
    induction l as [|y r IH]; simpl; [reflexivity|].
    destruct (cmp x y); try reflexivity.
    rewrite IH. apply perm_swap.
  Qed.

  Lemma ssort_perm l : Permutation (ssort cmp l) l.
  Proof.
    induction l as [|x r IH]; simpl; [reflexivity|].
    rewrite sinsert_perm. constructor. exact IH.
  Qed.

  Lemma ssort_In x l : In x (ssort cmp l) <-> In x l.
  Proof. split; apply Permutation_in; [|symmetry]; apply ssort_perm. Qed.

  Lemma ssort_length l : length (ssort cmp l) = length l.
  Proof. apply Permutation_length, ssort_perm. Qed.

  Hypothesis cmp_antisym : forall a b, cmp b a = CompOpp (cmp a b).
  Hypothesis cle_trans : forall a b c, cle a b -> cle b c -> cle a c.

  Lemma cle_total a b : cle a b \/ cle b a.
  Proof.
    unfold cle. rewrite (cmp_antisym a b). destruct (cmp a b); simpl; (left; discriminate) || (right; discriminate).
  Qed.

  Lemma sinsert_sorted x l : StronglySorted cle l -> StronglySorted cle (sinsert cmp x l).
  Proof.
    induction 1 as [|y r Hs IH Hall]; simpl; [repeat constructor|].
    destruct (cmp x y) eqn:E.
    - constructor; [constructor; assumption|].
      constructor; [unfold cle; rewrite E; discriminate|].
      eapply Forall_impl; [|exact Hall]. intros z Hz. eapply cle_trans; [|exact Hz]. unfold cle; rewrite E; discriminate.
    - constructor; [constructor; assumption|].
      constructor; [unfold cle; rewrite E; discriminate|].
      eapply Forall_impl; [|exact Hall]. intros z Hz. eapply cle_trans; [|exact Hz]. unfold cle; rewrite E; discriminate.
    - constructor; [exact IH|].
      assert (Hyx : cle y x) by (unfold cle; rewrite cmp_antisym, E; discriminate).
      apply Forall_forall. intros z Hz.
      apply (Permutation_in _ (sinsert_perm x r)) in Hz. destruct Hz as [<-|Hz]; [exact Hyx|].
      rewrite Forall_forall in Hall. auto.
  Qed.

  Lemma ssort_sorted l : StronglySorted cle (ssort cmp l).
  Proof. induction l; simpl; [constructor|]. apply sinsert_sorted. assumption. Qed.

  (* two sorted arrangements of the same elements coincide when ties are identities *)
  Lemma sorted_perm_unique l1 : forall l2,
    (forall a b, In a l1 -> In b l1 -> cmp a b = Eq -> a = b) ->
    StronglySorted cle l1 -> StronglySorted cle l2 -> Permutation l1 l2 -> l1 = l2.
  Proof.
    induction l1 as [|x xs IH]; intros l2 Heq S1 S2 P.
    - apply Permutation_nil in P. subst. reflexivity.
    - destruct l2 as [|y ys]; [symmetry in P; apply Permutation_nil in P; discriminate|].
      inversion S1 as [|? ? S1' A1]; subst. inversion S2 as [|? ? S2' A2]; subst.
      rewrite Forall_forall in A1, A2.
      assert (Hxy : x = y).
      { assert (Hy : In y (x :: xs)) by (eapply Permutation_in; [symmetry; exact P|left; reflexivity]).
        assert (Hx : In x (y :: ys)) by (eapply Permutation_in; [exact P|left; reflexivity]).
        destruct Hy as [Hy|Hy]; [exact Hy|]. destruct Hx as [Hx|Hx]; [symmetry; exact Hx|].
        assert (L1 : cle x y) by auto. assert (L2 : cle y x) by auto.
        apply Heq; [left; reflexivity|right; exact Hy|].
        unfold cle in L1, L2. rewrite cmp_antisym in L2. destruct (cmp x y); simpl in *; congruence. }
      subst y. f_equal. apply IH; auto.
      + intros a b Ha Hb. apply Heq; right; assumption.
      + eapply Permutation_cons_inv; exact P.
  Qed.

  Theorem ssort_canonical l l' :
    (forall a b, In a l -> In b l -> cmp a b = Eq -> a = b) ->
    Permutation l l' -> ssort cmp l = ssort cmp l'.
  Proof.
    intros Heq P. apply sorted_perm_unique.
    - intros a b Ha Hb. apply Heq; apply ssort_In; assumption.
    - apply ssort_sorted.
    - apply ssort_sorted.
    - rewrite !ssort_perm. exact P.
  Qed.
End SortFacts.
