(* splitConflictedUnconflicted (v2 / v2.1 reading) computes the specification's unconflicted
   state map: V2Spec.spec_unconflicted.  The Go code groups the distinct events by key in a
   map and counts how often each event ID was seen; the specification says "present in every
   state set with the same value". *)
From Coq Require Import Permutation Lia.
From Verif Require Import Lib.Bytes StateRes.Event StateRes.Kahn StateRes.V2 StateRes.V2Spec
     StateRes.KahnProofs StateRes.OrderProofs StateRes.ResultProofs StateRes.OrderSetProofs.
Local Open Scope nat_scope.

Definition grp (k : tkey) (l : list event) : list event := filter (has_key k) l.

Lemma has_key_iff k e : has_key k e = true <-> event_tkey e = Some k.
Proof.
  unfold has_key. destruct (event_tkey e) as [k'|]; [|split; discriminate].
  rewrite tkey_eqb_eq. split; [intros ->; reflexivity|intro H; inversion H; reflexivity].
Qed.

Lemma grp_snoc k l e : grp k (l ++ [e]) = grp k l ++ (if has_key k e then [e] else []).
Proof. unfold grp. rewrite filter_app. simpl. destruct (has_key k e); reflexivity. Qed.

(* ---------- the groups as a finite map ---------- *)
Definition groups := list (tkey * list event).

Fixpoint gget (g : groups) (k : tkey) : option (list event) :=
  match g with
  | [] => None
  | (k', l) :: r => if tkey_eqb k' k then Some l else gget r k
  end.

Lemma tkey_eqb_refl k : tkey_eqb k k = true.
Proof. apply tkey_eqb_eq. reflexivity. Qed.

Lemma tkey_eqb_neq a b : a <> b -> tkey_eqb a b = false.
Proof. intro N. destruct (tkey_eqb a b) eqn:E; [apply tkey_eqb_eq in E; contradiction|reflexivity]. Qed.

Lemma gget_add_same g k e :
  gget (group_add g k e) k = Some (match gget g k with Some old => old ++ [e] | None => [e] end).
Proof.
  induction g as [|[k0 l0] r IH]; simpl.
  - rewrite tkey_eqb_refl. reflexivity.
  - destruct (tkey_eqb k0 k) eqn:E; simpl.
    + apply tkey_eqb_eq in E. subst. rewrite tkey_eqb_refl. reflexivity.
    + rewrite E. exact IH.
Qed.

Lemma gget_add_other g k e k' : k' <> k -> gget (group_add g k e) k' = gget g k'.
Proof.
  intro N. induction g as [|[k0 l0] r IH]; simpl.
  - rewrite tkey_eqb_neq; [reflexivity|congruence].
  - destruct (tkey_eqb k0 k) eqn:E; simpl.
    + apply tkey_eqb_eq in E. subst. rewrite tkey_eqb_neq; [|congruence]. reflexivity.
    + destruct (tkey_eqb k0 k'); [reflexivity|exact IH].
Qed.

Lemma group_add_keys_in g k e : In k (map fst g) -> map fst (group_add g k e) = map fst g.
Proof.
  induction g as [|[k0 l0] r IH]; simpl; [tauto|].
  destruct (tkey_eqb k0 k) eqn:E; [reflexivity|].
  intros [H|H]; [subst; rewrite tkey_eqb_refl in E; discriminate|].
  simpl. rewrite IH; auto.
Qed.

Lemma group_add_keys_notin g k e : ~ In k (map fst g) -> map fst (group_add g k e) = map fst g ++ [k].
Proof.
  induction g as [|[k0 l0] r IH]; simpl; [reflexivity|]. intro H.
  destruct (tkey_eqb k0 k) eqn:E.
  - apply tkey_eqb_eq in E. subst. exfalso. apply H. left. reflexivity.
  - simpl. rewrite IH; auto.
Qed.

Lemma group_add_nodup g k e : NoDup (map fst g) -> NoDup (map fst (group_add g k e)).
Proof.
  intro ND. destruct (in_dec tkey_eq_dec k (map fst g)) as [Hin|Hn].
  - rewrite group_add_keys_in; assumption.
  - rewrite group_add_keys_notin; [|assumption]. apply NoDup_app_comm_one; assumption.
Qed.

Lemma gget_in g k l : NoDup (map fst g) -> (In (k, l) g <-> gget g k = Some l).
Proof.
  induction g as [|[k0 l0] r IH]; simpl; intro ND; [split; [tauto|discriminate]|].
  inversion ND; subst. destruct (tkey_eqb k0 k) eqn:E.
  - apply tkey_eqb_eq in E. subst. split.
    + intros [H|H]; [inversion H; reflexivity|]. exfalso. apply H1. apply in_map_iff. exists (k, l). auto.
    + intro H. inversion H. left. reflexivity.
  - rewrite <- IH; [|assumption]. split; [|auto].
    intros [H|H]; [inversion H; subst; rewrite tkey_eqb_refl in E; discriminate|exact H].
Qed.

(* ---------- group_events: the groups of the distinct state events ---------- *)
Definition some_nonempty (l : list event) : option (list event) :=
  match l with [] => None | _ => Some l end.

Definition groups_of (g : groups) (p : list event) : Prop :=
  NoDup (map fst g) /\ forall k, gget g k = some_nonempty (grp k p).

Definition group_step (g : groups) (e : event) : groups :=
  match event_tkey e with Some k => group_add g k e | None => g end.

Lemma group_step_inv g p e : groups_of g p -> groups_of (group_step g e) (p ++ [e]).
Proof.
  intros [ND H]. unfold group_step. destruct (event_tkey e) as [k|] eqn:Ek.
  - split; [apply group_add_nodup; exact ND|]. intro k'. rewrite grp_snoc.
    destruct (tkey_eq_dec k' k) as [->|N].
    + rewrite gget_add_same, H. rewrite (proj2 (has_key_iff k e) Ek).
      destruct (grp k p); reflexivity.
    + rewrite gget_add_other; [|exact N]. rewrite H.
      assert (Hk : has_key k' e = false).
      { destruct (has_key k' e) eqn:E; [|reflexivity]. apply has_key_iff in E. congruence. }
      rewrite Hk, app_nil_r. reflexivity.
  - split; [exact ND|]. intro k'. rewrite grp_snoc, H.
    assert (Hk : has_key k' e = false).
    { destruct (has_key k' e) eqn:E; [|reflexivity]. apply has_key_iff in E. congruence. }
    rewrite Hk, app_nil_r. reflexivity.
Qed.

Lemma group_fold_inv r : forall g p, groups_of g p -> groups_of (fold_left group_step r g) (p ++ r).
Proof.
  induction r as [|e r IH]; intros g p H; simpl; [rewrite app_nil_r; exact H|].
  replace (p ++ e :: r) with ((p ++ [e]) ++ r) by (rewrite <- app_assoc; reflexivity).
  apply IH. apply group_step_inv. exact H.
Qed.

Lemma group_events_spec l : groups_of (group_events l) (dedup_events l).
Proof.
  unfold group_events. change (dedup_events l) with ([] ++ dedup_events l) at 2.
  apply (group_fold_inv (dedup_events l) [] []).
  split; [constructor|]. intro k. reflexivity.
Qed.

(* ---------- split_groups: what ends up unconflicted ---------- *)
Lemma split_groups_snd v1 sets gs : forall a b,
  snd (fold_left (fun acc g => let p := split_group v1 sets g in (fst acc ++ fst p, snd acc ++ snd p)) gs (a, b))
  = b ++ concat (map (fun g => snd (split_group v1 sets g)) gs).
Proof.
  induction gs as [|g r IH]; intros a b; simpl; [rewrite app_nil_r; reflexivity|].
  rewrite IH. rewrite <- app_assoc. reflexivity.
Qed.

Lemma split_groups_fst v1 sets gs : forall a b,
  fst (fold_left (fun acc g => let p := split_group v1 sets g in (fst acc ++ fst p, snd acc ++ snd p)) gs (a, b))
  = a ++ concat (map (fun g => fst (split_group v1 sets g)) gs).
Proof.
  induction gs as [|g r IH]; intros a b; simpl; [rewrite app_nil_r; reflexivity|].
  rewrite IH. rewrite <- app_assoc. reflexivity.
Qed.

(* ---------- counting: with repeat-free sets, seen in every set = count is the number of sets *)
Definition count_in (i : bytes) (s : list event) : nat := length (filter (fun e => bytes_eqb (e_id e) i) s).

Lemma count_in_le1 i s : NoDup (ids_of s) -> count_in i s <= 1.
Proof.
  unfold count_in. induction s as [|x r IH]; simpl; intro ND; [lia|]. inversion ND; subst.
  destruct (bytes_eqb (e_id x) i) eqn:E; simpl; [|auto].
  apply bytes_eqb_eq in E. subst.
  assert (Z : filter (fun e => bytes_eqb (e_id e) (e_id x)) r = []).
  { clear -H1. induction r as [|y r IHr]; simpl; [reflexivity|].
    destruct (bytes_eqb (e_id y) (e_id x)) eqn:E.
    - apply bytes_eqb_eq in E. exfalso. apply H1. left. exact E.
    - apply IHr. intro; apply H1; right; assumption. }
  rewrite Z. simpl. lia.
Qed.

Lemma count_in_pos i s : count_in i s <> 0 <-> In i (ids_of s).
Proof.
  unfold count_in. induction s as [|x r IH]; simpl; [split; [congruence|tauto]|].
  destruct (bytes_eqb (e_id x) i) eqn:E; simpl.
  - apply bytes_eqb_eq in E. split; [auto|lia].
  - rewrite IH. apply bytes_eqb_neq in E. split; [auto|intros [H|H]; [contradiction|exact H]].
Qed.

Lemma has_event_ids i s : has_event i s = true <-> In i (ids_of s).
Proof.
  unfold has_event. induction s as [|x r IH]; simpl; [split; [discriminate|tauto]|].
  destruct (bytes_eqb i (e_id x)) eqn:E.
  - apply bytes_eqb_eq in E. split; [auto|reflexivity].
  - rewrite IH. apply bytes_eqb_neq in E. split; [auto|intros [H|H]; [congruence|exact H]].
Qed.

Lemma filter_length_le {A} (p : A -> bool) l : length (filter p l) <= length l.
Proof. induction l as [|x r IH]; simpl; [lia|]. destruct (p x); simpl; lia. Qed.

(* an event counts once per state set that lists it (after the F80 repair), so "seen in every
   set" needs no assumption on repeated entries; the hypothesis is kept for the callers *)
Lemma count_full i sets :
  (forall s, In s sets -> NoDup (ids_of s)) ->
  (count_id i sets = length sets <-> forall s, In s sets -> In i (ids_of s)).
Proof.
  intros _. unfold count_id. induction sets as [|s r IH]; simpl; [split; [tauto|reflexivity]|].
  pose proof (filter_length_le (has_event i) r) as L.
  destruct (has_event i s) eqn:E; simpl.
  - apply has_event_ids in E. split.
    + intros H s' [<-|Hs']; [exact E|]. apply IH; [lia|exact Hs'].
    + intro H. f_equal. apply IH. intros; apply H; right; assumption.
  - split; [lia|]. intro H. exfalso.
    assert (has_event i s = true) by (apply has_event_ids, H; left; reflexivity). congruence.
Qed.

(* ---------- the theorem ---------- *)
Lemma filter_single {A} (p : A -> bool) (l : list A) e :
  NoDup l -> In e l -> p e = true -> (forall x, In x l -> p x = true -> x = e) -> filter p l = [e].
Proof.
  induction l as [|y r IH]; simpl; intros ND Hin Hp U; [tauto|]. inversion ND; subst.
  destruct Hin as [->|Hin].
  - rewrite Hp. f_equal.
    assert (Z : forall x, In x r -> p x = false).
    { intros x Hx. destruct (p x) eqn:E; [|reflexivity]. assert (x = e) by (apply U; auto). subst. contradiction. }
    clear -Z. induction r as [|z r IHr]; simpl; [reflexivity|]. rewrite (Z z (or_introl eq_refl)). apply IHr.
    intros; apply Z; right; assumption.
  - destruct (p y) eqn:E.
    + assert (y = e) by (apply U; auto). subst. contradiction.
    + apply IH; auto.
Qed.

Section SplitSpec.
  Variable shG : groups -> groups.
  Hypothesis shG_perm : forall l, Permutation (shG l) l.
  Variable sets : list (list event).
  Hypothesis sets_repeat_free : forall s, In s sets -> NoDup (ids_of s).
  Hypothesis ids_ok : ids_identify (concat sets).

  Let D := dedup_events (concat sets).

  Lemma D_in e : In e D <-> In e (concat sets).
  Proof. apply dedup_in_iff. exact ids_ok. Qed.

  Lemma D_nodup : NoDup D.
  Proof. eapply NoDup_map_inv. apply dedup_nodup. Qed.

  Lemma in_some_set e : In e (concat sets) <-> exists s, In s sets /\ In e s.
  Proof. rewrite in_concat. split; intros [s [H1 H2]]; exists s; auto. Qed.

  Theorem split_unconflicted_is_spec e :
    In e (snd (split_conflicted shG false sets)) <-> In e D /\ spec_unconflicted sets e.
  Proof.
    unfold split_conflicted, split_groups. rewrite split_groups_snd. simpl.
    destruct (group_events_spec (concat sets)) as [NDg Hg]. fold D in Hg.
    rewrite in_concat. split.
    - intros [l [Hl He]]. apply in_map_iff in Hl as [[k evs] [<- Hg']].
      apply (Permutation_in _ (shG_perm _)) in Hg'.
      apply (gget_in _ _ _ NDg) in Hg'. rewrite Hg in Hg'.
      unfold split_group in He. simpl in He.
      destruct evs as [|x [|y r]]; simpl in He; try contradiction.
      destruct (Nat.eqb (count_id (e_id x) sets) (length sets)) eqn:Ec; simpl in He; [|contradiction].
      destruct He as [<-|[]]. apply Nat.eqb_eq in Ec.
      assert (Hgrp : grp k D = [x]).
      { destruct (grp k D) as [|a b]; simpl in Hg'; [discriminate|]. inversion Hg'. reflexivity. }
      assert (HxD : In x D /\ has_key k x = true) by (apply filter_In; unfold grp in Hgrp; rewrite Hgrp; left; reflexivity).
      destruct HxD as [HxD Hxk]. split; [exact HxD|]. apply has_key_iff in Hxk.
      split; [unfold event_tkey in Hxk; destruct (e_skey x); discriminate|]. split.
      + intros s Hs. pose proof (proj1 (count_full (e_id x) sets sets_repeat_free) Ec s Hs) as Hi.
        apply in_map_iff in Hi as [e' [E He']]. exists e'. split; [exact He'|exact E].
      + intros s e' Hs He' Ek. unfold same_id. f_equal.
        assert (He'D : In e' D) by (apply D_in, in_some_set; exists s; auto).
        assert (In e' (grp k D)) by (apply filter_In; split; [exact He'D|apply has_key_iff; congruence]).
        rewrite Hgrp in H. destruct H as [<-|[]]. reflexivity.
    - intros [HeD [Hsk [Hall Hsame]]].
      destruct (event_tkey e) as [k|] eqn:Ek; [|unfold event_tkey in Ek; destruct (e_skey e); [discriminate|contradiction]].
      assert (Hgrp : grp k D = [e]).
      { apply filter_single; [exact D_nodup|exact HeD|apply has_key_iff; exact Ek|].
        intros x Hx Hxk. apply has_key_iff in Hxk.
        apply D_in, in_some_set in Hx as [s [Hs Hxs]].
        apply ids_ok.
        - apply in_some_set. exists s; auto.
        - apply D_in. exact HeD.
        - apply (Hsame s x Hs Hxs). congruence. }
      exists [e]. split; [|left; reflexivity].
      apply in_map_iff. exists (k, [e]). split.
      + unfold split_group. simpl.
        assert (Ec : count_id (e_id e) sets = length sets).
        { apply (count_full _ _ sets_repeat_free). intros s Hs. destruct (Hall s Hs) as [e' [He' E]].
          apply in_map_iff. exists e'. split; [exact E|exact He']. }
        rewrite Ec, Nat.eqb_refl. reflexivity.
      + apply (Permutation_in _ (Permutation_sym (shG_perm _))).
        apply (gget_in _ _ _ NDg). rewrite Hg, Hgrp. reflexivity.
  Qed.
End SplitSpec.
