(* v2.1 conflicted subgraph: the path enumeration of calculateFullAuthChainAndConflictedSubgraph
   against the set definition V2Spec.spec_conflicted_subgraph (the events on an auth path from a
   conflicted event of a state set to a conflicted event, end points included, as far as they
   are among the auth events). *)
From Coq Require Import Permutation Lia.
From Verif Require Import Lib.Bytes StateRes.Event StateRes.Kahn StateRes.V2 StateRes.V2Spec
     StateRes.SubsetProofs StateRes.ChainProofs StateRes.ChainCompleteProofs.
Local Open Scope nat_scope.

Lemma reach_refl_step authmap a b c : reach_refl authmap a b -> auth_step authmap b c -> reach_refl authmap a c.
Proof.
  intros [->|R] S; right; [apply ar_step; exact S|eapply auth_reach_snoc; eassumption].
Qed.

Lemma lookup_ids_find u ids y : In y (lookup_ids u ids) -> exists v, In v ids /\ find_event v u = Some y.
Proof.
  induction ids as [|k r IH]; simpl; [tauto|].
  destruct (find_event k u) as [a|] eqn:E.
  - intros [<-|H]; [exists k; auto|]. destruct (IH H) as [v [Hv Ev]]. exists v; auto.
  - intro H. destruct (IH H) as [v [Hv Ev]]. exists v; auto.
Qed.

Section Subgraph.
  Variable authmap conflicted : list event.
  Variable o : event.
  Hypothesis o_conflicted : has_event (e_id o) conflicted = true.

  (* x lies on an auth path from o to a conflicted event and is the auth map's event of its ID *)
  Definition on_path (x : event) : Prop :=
    find_event (e_id x) authmap = Some x /\
    exists c, has_event (e_id c) conflicted = true /\ reach_refl authmap o x /\ reach_refl authmap x c.

  Definition path_inv (visiting : list bytes) (curr : event) : Prop :=
    (forall v y, In v visiting -> find_event v authmap = Some y -> reach_refl authmap o y /\ reach_refl authmap y curr) /\
    reach_refl authmap o curr /\
    (forall y, find_event (e_id curr) authmap = Some y -> y = curr).

  Lemma union_events_P (P : event -> Prop) a b :
    (forall x, In x a -> P x) -> (forall x, In x b -> P x) -> forall x, In x (union_events a b) -> P x.
  Proof.
    intros Pa Pb. unfold union_events.
    apply (fold_left_inv (fun s e => add_event e s) (fun s => forall x, In x s -> P x)); [exact Pa|].
    intros s e Ps He x. unfold add_event. destruct (has_event (e_id e) s); [apply Ps|].
    intro H. apply in_app_or in H as [H|[<-|[]]]; auto.
  Qed.

  Lemma subgraph_walk_sound depth : forall curr visiting,
    path_inv visiting curr ->
    forall x, In x (subgraph_walk depth authmap conflicted curr visiting) -> on_path x.
  Proof.
    induction depth as [|d IH]; intros curr visiting [Hv [Ho Hc]].
    - assert (Hhere : forall x, In x (if has_event (e_id curr) conflicted
                                       then lookup_ids authmap (visiting ++ [e_id curr]) else []) -> on_path x).
      { destruct (has_event (e_id curr) conflicted) eqn:Ec; [|intros ? []].
        intros x Hx. apply lookup_ids_find in Hx as [v [Hin Ev]].
        split; [rewrite (find_event_id _ _ _ Ev); exact Ev|]. exists curr. split; [exact Ec|].
        apply in_app_or in Hin as [Hin|[<-|[]]].
        - apply (Hv v x Hin Ev).
        - rewrite (Hc x Ev). split; [exact Ho|left; reflexivity]. }
      exact Hhere.
    - simpl.
      assert (Hhere : forall x, In x (if has_event (e_id curr) conflicted
                                       then lookup_ids authmap (visiting ++ [e_id curr]) else []) -> on_path x).
      { destruct (has_event (e_id curr) conflicted) eqn:Ec; [|intros ? []].
        intros x Hx. apply lookup_ids_find in Hx as [v [Hin Ev]].
        split; [rewrite (find_event_id _ _ _ Ev); exact Ev|]. exists curr. split; [exact Ec|].
        apply in_app_or in Hin as [Hin|[<-|[]]].
        - apply (Hv v x Hin Ev).
        - rewrite (Hc x Ev). split; [exact Ho|left; reflexivity]. }
      apply (fold_left_inv _ (fun acc => forall x, In x acc -> on_path x)).
      + apply union_events_P; [intros ? []|exact Hhere].
      + intros acc k Hacc Hk. destruct (find_event k authmap) as [a|] eqn:Ea; [|exact Hacc].
        apply union_events_P; [exact Hacc|]. apply IH.
        assert (St : auth_step authmap curr a) by (exists k; auto).
        split; [|split].
        * intros v y Hin Ev. apply in_app_or in Hin as [Hin|[<-|[]]].
          -- destruct (Hv v y Hin Ev) as [R1 R2]. split; [exact R1|eapply reach_refl_step; eassumption].
          -- rewrite (Hc y Ev). split; [exact Ho|right; apply ar_step; exact St].
        * eapply reach_refl_step; eassumption.
        * intros y Ey. rewrite (find_event_id _ _ _ Ea) in Ey. congruence.
  Qed.
End Subgraph.

(* the conflicted subgraph of one state set: only events of the specification's subgraph *)
Theorem conflicted_subgraph_sound authmap conflicted sets s x :
  In s sets ->
  (forall o y, In o s -> find_event (e_id o) authmap = Some y -> y = o) ->
  In x (conflicted_subgraph authmap conflicted s) ->
  spec_conflicted_subgraph authmap conflicted sets x.
Proof.
  intros Hs Hcons. unfold conflicted_subgraph.
  apply (fold_left_inv _ (fun acc => In x acc -> spec_conflicted_subgraph authmap conflicted sets x)); [intros []|].
  intros acc p Hacc Hp. destruct (has_event (e_id p) conflicted) eqn:Ec; [|exact Hacc].
  intro H. revert x H Hacc.
  assert (G : forall x, In x (union_events acc (subgraph_walk (S (length authmap)) authmap conflicted p [])) ->
                        In x acc \/ on_path authmap conflicted p x).
  { apply union_events_P; [auto|]. intros x Hx. right.
    eapply subgraph_walk_sound; [|exact Hx]. split; [intros ? ? []|]. split; [left; reflexivity|]. intros y Ey. eapply Hcons; eauto. }
  intros x H Hacc. destruct (G x H) as [H1|[F [c [Hc [R1 R2]]]]]; [auto|].
  split; [exact F|]. exists s, p, c. repeat split; assumption.
Qed.

(* ====================================================================================
   Completeness: every event of the specification's subgraph is found, for an acyclic auth
   relation (then a path visits at most |authmap| auth events, which is the walk's depth).
   ==================================================================================== *)
Section Complete.
  Variable authmap conflicted : list event.
  Variable rank : bytes -> nat.
  Hypothesis acyclic_steps : forall a b, auth_step authmap a b -> rank (e_id b) < rank (e_id a).
  Hypothesis authmap_ids : NoDup (ids_of authmap).

  Definition selfmap (y : event) : Prop := find_event (e_id y) authmap = Some y.

  (* a -> p1 -> ... -> pn *)
  Fixpoint chain (a : event) (p : list event) : Prop :=
    match p with
    | [] => True
    | b :: r => auth_step authmap a b /\ chain b r
    end.

  Lemma step_selfmap a b : auth_step authmap a b -> selfmap b.
  Proof. intros [k [_ E]]. unfold selfmap. rewrite (find_event_id _ _ _ E). exact E. Qed.

  Lemma reach_chain a b : auth_reach authmap a b -> exists p, chain a (p ++ [b]).
  Proof.
    induction 1 as [a b S|a b c S R [p IH]].
    - exists []. simpl. auto.
    - exists (b :: p). simpl. auto.
  Qed.

  Lemma chain_app a p : forall q b, chain a (p ++ [b]) -> chain b q -> chain a (p ++ b :: q).
  Proof.
    revert a. induction p as [|x r IH]; intros a q b; simpl.
    - intros [S _] C. auto.
    - intros [S C1] C2. split; [exact S|]. apply IH; assumption.
  Qed.

  Lemma chain_ranks p : forall a, chain a p -> (forall y, In y p -> rank (e_id y) < rank (e_id a)) /\ NoDup p /\ forall y, In y p -> In y authmap.
  Proof.
    induction p as [|b r IH]; intros a C; simpl in *; [repeat split; [tauto|constructor|tauto]|].
    destruct C as [S C]. destruct (IH b C) as [R [ND IN]]. pose proof (acyclic_steps a b S) as Rb. repeat split.
    - intros y [<-|Hy]; [exact Rb|]. specialize (R y Hy). lia.
    - constructor; [|exact ND]. intro Hin. specialize (R b Hin). lia.
    - intros y [<-|Hy]; [|auto]. destruct S as [k [_ E]]. eapply find_event_in. exact E.
  Qed.

  Lemma chain_length a p : chain a p -> length p <= length authmap.
  Proof.
    intro C. destruct (chain_ranks p a C) as [_ [ND IN]]. apply NoDup_incl_length; [exact ND|exact IN].
  Qed.

  (* ---------- membership in unions of consistent lists ---------- *)
  Lemma selfmap_in x s : selfmap x -> (forall y, In y s -> selfmap y) -> has_event (e_id x) s = true -> In x s.
  Proof.
    intros Fx Fs H. unfold has_event in H. destruct (find_event (e_id x) s) as [y|] eqn:E; [|discriminate].
    pose proof (find_event_in _ _ _ E) as Hy. pose proof (find_event_id _ _ _ E) as Ey.
    specialize (Fs y Hy). unfold selfmap in *. rewrite Ey in Fs. congruence.
  Qed.

  Lemma add_event_keeps e s x : In x s -> In x (add_event e s).
  Proof. intro H. unfold add_event. destruct (has_event _ _); [exact H|apply in_or_app; left; exact H]. Qed.

  Lemma union_keeps a b x : In x a -> In x (union_events a b).
  Proof.
    unfold union_events. revert a. induction b as [|e r IH]; intros a H; simpl; [exact H|].
    apply IH. apply add_event_keeps. exact H.
  Qed.

  Lemma union_adds b : forall a x,
    (forall y, In y a -> selfmap y) -> (forall y, In y b -> selfmap y) -> In x b -> In x (union_events a b).
  Proof.
    unfold union_events. induction b as [|e r IH]; intros a x Fa Fb H; simpl; [destruct H|].
    assert (Fa' : forall y, In y (add_event e a) -> selfmap y).
    { intros y Hy. unfold add_event in Hy. destruct (has_event _ _); [auto|].
      apply in_app_or in Hy as [Hy|[<-|[]]]; [auto|apply Fb; left; reflexivity]. }
    destruct H as [<-|H].
    - change (In e (union_events (add_event e a) r)). apply union_keeps.
      unfold add_event. destruct (has_event (e_id e) a) eqn:E.
      + apply selfmap_in; [apply Fb; left; reflexivity|exact Fa|exact E].
      + apply in_or_app. right. left. reflexivity.
    - apply IH; [exact Fa'|intros; apply Fb; right; assumption|exact H].
  Qed.

  Lemma lookup_selfmap ids y : In y (lookup_ids authmap ids) -> selfmap y.
  Proof. intro H. apply lookup_ids_find in H as [v [_ E]]. unfold selfmap. rewrite (find_event_id _ _ _ E). exact E. Qed.

  Lemma subgraph_walk_selfmap depth : forall curr visiting y,
    In y (subgraph_walk depth authmap conflicted curr visiting) -> selfmap y.
  Proof.
    induction depth as [|d IH]; intros curr visiting y; simpl.
    - destruct (has_event _ _); [apply lookup_selfmap|intros []].
    - revert y. apply (fold_left_inv _ (fun acc => forall y, In y acc -> selfmap y)).
      + apply (union_events_P selfmap); [intros ? []|]. destruct (has_event _ _); [intro; apply lookup_selfmap|intros ? []].
      + intros acc k Hacc _. destruct (find_event k authmap); [|exact Hacc].
        apply (union_events_P selfmap); [exact Hacc|]. intro y. apply IH.
  Qed.

  Lemma fold_walk_keeps d curr visiting ks : forall acc x,
    In x acc ->
    In x (fold_left (fun acc k => match find_event k authmap with
                                  | Some a => union_events acc (subgraph_walk d authmap conflicted a (visiting ++ [e_id curr]))
                                  | None => acc
                                  end) ks acc).
  Proof.
    induction ks as [|k r IH]; intros acc x H; simpl; [exact H|]. apply IH.
    destruct (find_event k authmap); [apply union_keeps|]; exact H.
  Qed.

  Lemma fold_walk_finds d curr visiting ks : forall acc k a x,
    (forall y, In y acc -> selfmap y) -> In k ks -> find_event k authmap = Some a ->
    In x (subgraph_walk d authmap conflicted a (visiting ++ [e_id curr])) ->
    In x (fold_left (fun acc k => match find_event k authmap with
                                  | Some a => union_events acc (subgraph_walk d authmap conflicted a (visiting ++ [e_id curr]))
                                  | None => acc
                                  end) ks acc).
  Proof.
    induction ks as [|k0 r IH]; intros acc k a x Fa Hk Ea Hx; simpl; [destruct Hk|].
    destruct Hk as [->|Hk].
    - rewrite Ea. apply fold_walk_keeps. apply union_adds; [exact Fa|intro y; apply subgraph_walk_selfmap|exact Hx].
    - apply (IH _ k a x); auto. destruct (find_event k0 authmap); [|exact Fa].
      apply (union_events_P selfmap); [exact Fa|intro y; apply subgraph_walk_selfmap].
  Qed.

  Fixpoint last_of (a : event) (p : list event) : event :=
    match p with [] => a | b :: r => last_of b r end.

  Lemma walk_complete p : forall depth curr visiting,
    chain curr p -> length p <= depth -> has_event (e_id (last_of curr p)) conflicted = true ->
    forall x, In x (lookup_ids authmap (visiting ++ ids_of (curr :: p))) ->
    In x (subgraph_walk depth authmap conflicted curr visiting).
  Proof.
    induction p as [|b r IH]; intros depth curr visiting C L Hc x Hx.
    - simpl in Hc, Hx. destruct depth as [|d]; simpl; rewrite Hc; [exact Hx|].
      apply fold_walk_keeps. apply union_adds; [intros ? []|intro y; apply lookup_selfmap|exact Hx].
    - destruct depth as [|d]; [simpl in L; lia|]. simpl in C. destruct C as [[k [Hk Ek]] C].
      simpl subgraph_walk.
      apply (fold_walk_finds d curr visiting (e_auth curr) _ k b x).
      + apply (union_events_P selfmap); [intros ? []|]. destruct (has_event (e_id curr) conflicted); [intros y Hy; eapply lookup_selfmap; exact Hy|intros ? []].
      + exact Hk.
      + exact Ek.
      + apply IH; [exact C|simpl in L; lia|exact Hc|].
        simpl in Hx. rewrite <- app_assoc. exact Hx.
  Qed.

  Lemma lookup_ids_has ids y : selfmap y -> In (e_id y) ids -> In y (lookup_ids authmap ids).
  Proof.
    intros F. induction ids as [|k r IH]; simpl; [tauto|]. intros [->|H].
    - unfold selfmap in F. rewrite F. left. reflexivity.
    - destruct (find_event k authmap); [right|]; apply IH; exact H.
  Qed.

  Lemma last_of_app a p b : last_of a (p ++ [b]) = b.
  Proof. revert a. induction p as [|x r IH]; intro a; simpl; [reflexivity|apply IH]. Qed.

  Lemma last_of_app2 a p b q : last_of a (p ++ b :: q) = last_of b q.
  Proof. revert a. induction p as [|x r IH]; intro a; simpl; [reflexivity|apply IH]. Qed.

  (* the walk from a conflicted origin finds every event of the specification's subgraph *)
  Lemma origin_complete o x c :
    selfmap x -> has_event (e_id c) conflicted = true ->
    reach_refl authmap o x -> reach_refl authmap x c ->
    In x (subgraph_walk (S (length authmap)) authmap conflicted o []).
  Proof.
    intros Fx Hc R1 R2.
    (* a chain o -> ... -> c through x *)
    assert (H : exists p, chain o p /\ last_of o p = c /\ In x (o :: p)).
    { destruct R1 as [->|R1]; destruct R2 as [->|R2].
      - exists []. simpl. auto.
      - destruct (reach_chain _ _ R2) as [p C]. exists (p ++ [c]). rewrite last_of_app. simpl. auto.
      - destruct (reach_chain _ _ R1) as [p C]. exists (p ++ [c]). rewrite last_of_app. split; [exact C|]. split; [reflexivity|].
        right. apply in_or_app. right. left. reflexivity.
      - destruct (reach_chain _ _ R1) as [p C1]. destruct (reach_chain _ _ R2) as [q C2].
        exists (p ++ x :: q ++ [c]). split; [apply chain_app; assumption|]. split.
        + rewrite last_of_app2. apply last_of_app.
        + right. apply in_or_app. right. left. reflexivity. }
    destruct H as [p [C [L Hin]]].
    apply (walk_complete p (S (length authmap)) o []); [exact C|pose proof (chain_length o p C); lia|rewrite L; exact Hc|].
    change ([] ++ ids_of (o :: p)) with (ids_of (o :: p)). apply lookup_ids_has; [exact Fx|]. unfold ids_of. apply in_map. exact Hin.
  Qed.

  (* one state set *)
  Lemma conflicted_subgraph_complete_set s : forall o x c,
    In o s -> has_event (e_id o) conflicted = true -> selfmap x -> has_event (e_id c) conflicted = true ->
    reach_refl authmap o x -> reach_refl authmap x c ->
    In x (conflicted_subgraph authmap conflicted s).
  Proof.
    unfold conflicted_subgraph. intros o x c Ho Hoc Fx Hc R1 R2.
    assert (G : forall l acc, (forall y, In y acc -> selfmap y) -> (In x acc \/ In o l) ->
              In x (fold_left (fun acc p => if has_event (e_id p) conflicted
                                            then union_events acc (subgraph_walk (S (length authmap)) authmap conflicted p [])
                                            else acc) l acc)).
    { induction l as [|p r IH]; intros acc Fa H; cbn [fold_left]; [destruct H as [H|[]]; exact H|].
      assert (Fa' : forall y, In y (if has_event (e_id p) conflicted
                                    then union_events acc (subgraph_walk (S (length authmap)) authmap conflicted p [])
                                    else acc) -> selfmap y).
      { destruct (has_event (e_id p) conflicted); [|exact Fa]. apply (union_events_P selfmap); [exact Fa|intro y; apply subgraph_walk_selfmap]. }
      apply IH; [exact Fa'|]. destruct H as [H|[->|H]].
      - left. destruct (has_event (e_id p) conflicted); [apply union_keeps|]; exact H.
      - left. rewrite Hoc. apply union_adds; [exact Fa|intro y; apply subgraph_walk_selfmap|].
        eapply origin_complete; eassumption.
      - right. exact H. }
    apply G; [intros ? []|right; exact Ho].
  Qed.
End Complete.

(* the v2.1 part of calculateAuthDifferenceNew: the union over the state sets *)
Definition complete_subgraph (authmap conflicted : list event) (sets : list (list event)) : list event :=
  fold_left (fun acc s => union_events acc (conflicted_subgraph authmap conflicted s)) sets [].

Theorem conflicted_subgraph_spec authmap conflicted sets (rank : bytes -> nat) x :
  (forall a b, auth_step authmap a b -> rank (e_id b) < rank (e_id a)) ->
  (forall s o y, In s sets -> In o s -> find_event (e_id o) authmap = Some y -> y = o) ->
  (In x (complete_subgraph authmap conflicted sets) <-> spec_conflicted_subgraph authmap conflicted sets x).
Proof.
  intros Hac Hcons. unfold complete_subgraph.
  assert (Self : forall s y, In y (conflicted_subgraph authmap conflicted s) -> selfmap authmap y).
  { intros s y. unfold conflicted_subgraph.
    apply (fold_left_inv _ (fun acc => In y acc -> selfmap authmap y)); [intros []|].
    intros acc p Hacc _. destruct (has_event (e_id p) conflicted); [|exact Hacc].
    intro H. revert y H Hacc.
    assert (G : forall y, In y (union_events acc (subgraph_walk (S (length authmap)) authmap conflicted p [])) ->
                          In y acc \/ selfmap authmap y).
    { apply (union_events_P (fun y => In y acc \/ selfmap authmap y)); [auto|].
      intros y Hy. right. eapply subgraph_walk_selfmap. exact Hy. }
    intros y H Hacc. destruct (G y H); auto. }
  split.
  - apply (fold_left_inv _ (fun acc => In x acc -> spec_conflicted_subgraph authmap conflicted sets x)); [intros []|].
    intros acc s Hacc Hs H.
    assert (G : In x acc \/ In x (conflicted_subgraph authmap conflicted s)).
    { revert x H Hacc. 
      assert (G0 : forall x, In x (union_events acc (conflicted_subgraph authmap conflicted s)) ->
                             In x acc \/ In x (conflicted_subgraph authmap conflicted s)).
      { apply (union_events_P (fun x => In x acc \/ In x (conflicted_subgraph authmap conflicted s))); auto. }
      intros x H _. apply G0. exact H. }
    destruct G as [G|G]; [auto|]. eapply conflicted_subgraph_sound; [exact Hs| |exact G].
    intros o y Ho. apply (Hcons s o y Hs Ho).
  - intros [Fx [s [o [c [Hs [Ho [Hoc [Hc [R1 R2]]]]]]]]].
    assert (Hin : In x (conflicted_subgraph authmap conflicted s)).
    { eapply (conflicted_subgraph_complete_set authmap conflicted rank Hac s o x c); eassumption. }
    assert (G : forall l acc, (forall y, In y acc -> selfmap authmap y) -> (In x acc \/ In s l) ->
              In x (fold_left (fun acc s => union_events acc (conflicted_subgraph authmap conflicted s)) l acc)).
    { induction l as [|s0 r IH]; intros acc Fa H; cbn [fold_left]; [destruct H as [H|[]]; exact H|].
      apply IH.
      - apply (union_events_P (selfmap authmap)); [exact Fa|apply Self].
      - destruct H as [H|[->|H]]; [left; apply union_keeps; exact H| |right; exact H].
        left. apply (union_adds authmap); [exact Fa|apply Self|exact Hin]. }
    apply G; [intros ? []|right; exact Hs].
Qed.
