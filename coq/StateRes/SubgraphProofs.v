(* v2.1 conflicted subgraph: the path enumeration of calculateFullAuthChainAndConflictedSubgraph
   against the set definition V2Spec.spec_conflicted_subgraph (the events on an auth path from a
   conflicted event of a state set to a conflicted event, end points included, as far as they
   are among the auth events). *)
From Coq Require Import Permutation Lia.
From Verif Require Import Lib.Bytes StateRes.Event StateRes.Kahn StateRes.V2 StateRes.V2Spec
     StateRes.SubsetProofs StateRes.ChainProofs StateRes.ChainCompleteProofs StateRes.AuthDiffProofs.
Local Open Scope nat_scope.

Lemma reach_refl_step authmap a b c : reach_refl authmap a b -> auth_step authmap b c -> reach_refl authmap a c.
Proof.
  intros [->|R] S; right; [apply ar_step; exact S|eapply auth_reach_snoc; eassumption].
Qed.

Lemma lookup_ids_find u ids y : In y (lookup_ids u ids) -> exists v, In v ids /\ find_event v u = Some y.
Proof.
  induction ids as [|k r IH]; simpl; [tauto|].
  destruct (find_event k u) as [a|] eqn:E.
  - intros [<-|H]; [exists k; auto|]. destruct (IH H) as [v [Hv Ev]]. exists v; auto.
  - intro H. destruct (IH H) as [v [Hv Ev]]. exists v; auto.
Qed.


Lemma union_events_P (P : event -> Prop) a b :
  (forall x, In x a -> P x) -> (forall x, In x b -> P x) -> forall x, In x (union_events a b) -> P x.
Proof.
  intros Pa Pb. unfold union_events.
  apply (fold_left_inv (fun s e => add_event e s) (fun s => forall x, In x s -> P x)); [exact Pa|].
  intros s e Ps He x. unfold add_event. destruct (has_event (e_id e) s); [apply Ps|].
  intro H. apply in_app_or in H as [H|[<-|[]]]; auto.
Qed.

Section Self.
  Variable authmap : list event.

  Definition selfmap (y : event) : Prop := find_event (e_id y) authmap = Some y.

  Lemma step_selfmap a b : auth_step authmap a b -> selfmap b.
  Proof. intros [k [_ E]]. unfold selfmap. rewrite (find_event_id _ _ _ E). exact E. Qed.

  Lemma reach_selfmap a b : auth_reach authmap a b -> selfmap b.
  Proof. induction 1 as [a b S|a b c S R IH]; [eapply step_selfmap; exact S|exact IH]. Qed.

  Lemma selfmap_in x s : selfmap x -> (forall y, In y s -> selfmap y) -> has_event (e_id x) s = true -> In x s.
  Proof.
    intros Fx Fs H. unfold has_event in H. destruct (find_event (e_id x) s) as [y|] eqn:E; [|discriminate].
    pose proof (find_event_in _ _ _ E) as Hy. pose proof (find_event_id _ _ _ E) as Ey.
    specialize (Fs y Hy). unfold selfmap in *. rewrite Ey in Fs. congruence.
  Qed.

  Lemma add_event_keeps e s x : In x s -> In x (add_event e s).
  Proof. intro H. unfold add_event. destruct (has_event _ _); [exact H|apply in_or_app; left; exact H]. Qed.

  Lemma union_keeps a b x : In x a -> In x (union_events a b).
  Proof.
    unfold union_events. revert a. induction b as [|e r IH]; intros a H; simpl; [exact H|].
    apply IH. apply add_event_keeps. exact H.
  Qed.

  Lemma union_adds b : forall a x,
    (forall y, In y a -> selfmap y) -> (forall y, In y b -> selfmap y) -> In x b -> In x (union_events a b).
  Proof.
    unfold union_events. induction b as [|e r IH]; intros a x Fa Fb H; simpl; [destruct H|].
    assert (Fa' : forall y, In y (add_event e a) -> selfmap y).
    { intros y Hy. unfold add_event in Hy. destruct (has_event _ _); [auto|].
      apply in_app_or in Hy as [Hy|[<-|[]]]; [auto|apply Fb; left; reflexivity]. }
    destruct H as [<-|H].
    - change (In e (union_events (add_event e a) r)). apply union_keeps.
      unfold add_event. destruct (has_event (e_id e) a) eqn:E.
      + apply selfmap_in; [apply Fb; left; reflexivity|exact Fa|exact E].
      + apply in_or_app. right. left. reflexivity.
    - apply IH; [exact Fa'|intros; apply Fb; right; assumption|exact H].
  Qed.

  Lemma lookup_selfmap ids y : In y (lookup_ids authmap ids) -> selfmap y.
  Proof. intro H. apply lookup_ids_find in H as [v [_ E]]. unfold selfmap. rewrite (find_event_id _ _ _ E). exact E. Qed.

  Lemma lookup_ids_has ids y : selfmap y -> In (e_id y) ids -> In y (lookup_ids authmap ids).
  Proof.
    intros F. induction ids as [|k r IH]; simpl; [tauto|]. intros [->|H].
    - unfold selfmap in F. rewrite F. left. reflexivity.
    - destruct (find_event k authmap); [right|]; apply IH; exact H.
  Qed.

  (* ---------- one state set ---------- *)
  Variable conflicted : list event.

  Lemma reaches_conflicted_iff z :
    reaches_conflicted authmap conflicted z = true <->
    exists c, has_event (e_id c) conflicted = true /\ reach_refl authmap z c.
  Proof.
    unfold reaches_conflicted. rewrite orb_true_iff, existsb_exists. split.
    - intros [H|[y [Hy Hc]]]; [exists z; split; [exact H|left; reflexivity]|].
      exists y. split; [exact Hc|]. right. apply (full_auth_chain_spec authmap [z] y) in Hy.
      destruct Hy as [e [[<-|[]] R]]. exact R.
    - intros [c [Hc [<-|R]]]; [left; exact Hc|]. right. exists c. split; [|exact Hc].
      apply (full_auth_chain_spec authmap [z] c). exists z. split; [left; reflexivity|exact R].
  Qed.

  Definition origin_part (p : event) : list event :=
    lookup_ids authmap (ids_of (filter (reaches_conflicted authmap conflicted) (p :: full_auth_chain authmap [p]))).

  Lemma origin_part_spec p x :
    (forall y, find_event (e_id p) authmap = Some y -> y = p) ->
    (In x (origin_part p) <->
     selfmap x /\ exists c, has_event (e_id c) conflicted = true /\ reach_refl authmap p x /\ reach_refl authmap x c).
  Proof.
    intro Hp. unfold origin_part. split.
    - intro H. pose proof (lookup_selfmap _ _ H) as Fx. split; [exact Fx|].
      apply lookup_ids_find in H as [v [Hv Ev]]. apply in_map_iff in Hv as [z [<- Hz]].
      apply filter_In in Hz as [Hz Rz]. apply reaches_conflicted_iff in Rz as [c [Hc Rc]].
      destruct Hz as [<-|Hz].
      + rewrite (Hp x Ev) in *. exists c. repeat split; [exact Hc|left; reflexivity|exact Rc].
      + apply (full_auth_chain_spec authmap [p] z) in Hz. destruct Hz as [e [[<-|[]] R]].
        assert (x = z).
        { pose proof (reach_selfmap _ _ R) as Fz. unfold selfmap in Fz. congruence. }
        subst z. exists c. repeat split; [exact Hc|right; exact R|exact Rc].
    - intros [Fx [c [Hc [R1 R2]]]]. apply lookup_ids_has; [exact Fx|]. unfold ids_of. apply in_map.
      apply filter_In. split.
      + destruct R1 as [->|R1]; [left; reflexivity|right].
        apply (full_auth_chain_spec authmap [p] x). exists p. split; [left; reflexivity|exact R1].
      + apply reaches_conflicted_iff. exists c. split; assumption.
  Qed.

  Lemma conflicted_subgraph_selfmap s y : In y (conflicted_subgraph authmap conflicted s) -> selfmap y.
  Proof.
    unfold conflicted_subgraph.
    apply (fold_left_inv _ (fun acc => In y acc -> selfmap y)); [intros []|].
    intros acc p Hacc _. destruct (has_event (e_id p) conflicted); [|exact Hacc].
    intro H. revert y H Hacc.
    assert (G : forall y, In y (union_events acc (origin_part p)) -> In y acc \/ selfmap y).
    { apply (union_events_P (fun y => In y acc \/ selfmap y)); [auto|]. intros y Hy. right. eapply lookup_selfmap. exact Hy. }
    intros y H Hacc. destruct (G y H); auto.
  Qed.

  Lemma conflicted_subgraph_set_spec s x :
    (forall o y, In o s -> find_event (e_id o) authmap = Some y -> y = o) ->
    (In x (conflicted_subgraph authmap conflicted s) <->
     selfmap x /\ exists o c, In o s /\ has_event (e_id o) conflicted = true /\
                              has_event (e_id c) conflicted = true /\
                              reach_refl authmap o x /\ reach_refl authmap x c).
  Proof.
    intro Hcons. unfold conflicted_subgraph. fold origin_part.
    assert (G : forall l acc,
              (forall y, In y acc -> selfmap y) -> (forall o, In o l -> In o s) ->
              (In x (fold_left (fun acc p => if has_event (e_id p) conflicted then union_events acc (origin_part p) else acc) l acc)
               <-> In x acc \/ (selfmap x /\ exists o c, In o l /\ has_event (e_id o) conflicted = true /\
                                                          has_event (e_id c) conflicted = true /\
                                                          reach_refl authmap o x /\ reach_refl authmap x c))).
    { induction l as [|p r IH]; intros acc Fa Hl; cbn [fold_left].
      - split; [auto|]. intros [H|[_ [o [c [[] _]]]]]. exact H.
      - assert (Hps : forall y, find_event (e_id p) authmap = Some y -> y = p) by (intro y; apply Hcons, Hl; left; reflexivity).
        destruct (has_event (e_id p) conflicted) eqn:Ep.
        + rewrite IH; [|apply (union_events_P selfmap); [exact Fa|intro y; apply lookup_selfmap]|intros; apply Hl; right; assumption].
          split.
          * intros [H|[Fx [o [c [Ho R]]]]].
            -- assert (H' : In x acc \/ In x (origin_part p)).
               { exact (union_events_P (fun z => In z acc \/ In z (origin_part p)) acc (origin_part p)
                                       (fun z Hz => or_introl Hz) (fun z Hz => or_intror Hz) x H). }
               destruct H' as [H'|H']; [auto|]. right. apply (origin_part_spec p x Hps) in H' as [Fx [c [Hc [R1 R2]]]].
               split; [exact Fx|]. exists p, c. repeat split; auto. left. reflexivity.
            -- right. split; [exact Fx|]. exists o, c. destruct R as [R0 R]. repeat split; try tauto. right. exact Ho.
          * intros [H|[Fx [o [c [[<-|Ho] [Hoc [Hc [R1 R2]]]]]]]].
            -- left. apply union_keeps. exact H.
            -- left. apply union_adds; [exact Fa|intro y; apply lookup_selfmap|].
               apply (origin_part_spec p x Hps). split; [exact Fx|]. exists c. auto.
            -- right. split; [exact Fx|]. exists o, c. auto.
        + rewrite IH; [|exact Fa|intros; apply Hl; right; assumption]. split.
          * intros [H|[Fx [o [c [Ho R]]]]]; [auto|]. right. split; [exact Fx|]. exists o, c. split; [right; exact Ho|exact R].
          * intros [H|[Fx [o [c [[<-|Ho] [Hoc R]]]]]]; [auto|congruence|]. right. split; [exact Fx|]. exists o, c. auto. }
    rewrite (G s []); [|intros ? []|auto]. split; [intros [[]|H]; exact H|auto].
  Qed.
End Self.

(* the v2.1 part of calculateAuthDifferenceNew: the union over the state sets *)
Definition complete_subgraph (authmap conflicted : list event) (sets : list (list event)) : list event :=
  fold_left (fun acc s => union_events acc (conflicted_subgraph authmap conflicted s)) sets [].

Theorem conflicted_subgraph_spec authmap conflicted sets x :
  (forall s o y, In s sets -> In o s -> find_event (e_id o) authmap = Some y -> y = o) ->
  (In x (complete_subgraph authmap conflicted sets) <-> spec_conflicted_subgraph authmap conflicted sets x).
Proof.
  intros Hcons. unfold complete_subgraph, spec_conflicted_subgraph.
  assert (G : forall l acc, (forall y, In y acc -> selfmap authmap y) -> (forall s, In s l -> In s sets) ->
            (In x (fold_left (fun acc s => union_events acc (conflicted_subgraph authmap conflicted s)) l acc)
             <-> In x acc \/ exists s, In s l /\ In x (conflicted_subgraph authmap conflicted s))).
  { induction l as [|s0 r IH]; intros acc Fa Hl; cbn [fold_left].
    - split; [auto|]. intros [H|[s [[] _]]]. exact H.
    - rewrite IH; [|apply (union_events_P (selfmap authmap)); [exact Fa|apply conflicted_subgraph_selfmap]|intros; apply Hl; right; assumption].
      split.
      + intros [H|[s [Hs Hx]]]; [|right; exists s; split; [right; exact Hs|exact Hx]].
        assert (H' : In x acc \/ In x (conflicted_subgraph authmap conflicted s0)).
        { exact (union_events_P (fun z => In z acc \/ In z (conflicted_subgraph authmap conflicted s0)) acc _
                                (fun z Hz => or_introl Hz) (fun z Hz => or_intror Hz) x H). }
        destruct H' as [H'|H']; [auto|]. right. exists s0. split; [left; reflexivity|exact H'].
      + intros [H|[s [[<-|Hs] Hx]]].
        * left. apply union_keeps. exact H.
        * left. apply (union_adds authmap); [exact Fa|apply conflicted_subgraph_selfmap|exact Hx].
        * right. exists s. auto. }
  rewrite (G sets []); [|intros ? []|auto]. split.
  - intros [[]|[s [Hs Hx]]]. apply (conflicted_subgraph_set_spec authmap conflicted s x) in Hx as [Fx [o [c [Ho R]]]]; [|intros o y; apply Hcons; exact Hs].
    split; [exact Fx|]. exists s, o, c. tauto.
  - intros [Fx [s [o [c [Hs [Ho R]]]]]]. right. exists s. split; [exact Hs|].
    apply (conflicted_subgraph_set_spec authmap conflicted s x); [intros o' y; apply Hcons; exact Hs|].
    split; [exact Fx|]. exists o, c. tauto.
Qed.
