(* The deprecated v2 driver (ResolveStateConflictsV2): its result consists only of the
   conflicted, unconflicted and auth events it was given. *)
From Coq Require Import Permutation Lia.
From Verif Require Import Lib.Bytes StateRes.Event StateRes.Kahn StateRes.V2 StateRes.SortProofs
     StateRes.KahnProofs StateRes.OrderProofs StateRes.ResultProofs StateRes.SplitProofs
     StateRes.KahnMemberProofs StateRes.SubsetProofs.
Local Open Scope nat_scope.

Section SubsetOld.
  Variable allowed : event -> list event -> bool.
  Variable rejected : bytes -> bool.
  Variable shE : list event -> list event.
  Variable shP : list pwrap -> list pwrap.
  Hypothesis shE_perm : forall l, Permutation (shE l) l.
  Hypothesis shP_perm : forall l, Permutation (shP l) l.
  Variable priv : bool.
  Variable cl ud : Z.

  Theorem result_subset_of_inputs_v2_old conflicted unconflicted auth_events x :
    In x (result_events (resolve_v2_old allowed rejected shE shP priv cl ud conflicted unconflicted auth_events)) ->
    In x conflicted \/ In x unconflicted \/ In x auth_events.
  Proof.
    unfold resolve_v2_old. destruct (filter is_create _); [intros []|].
    set (authmap := dedup_events auth_events). set (cm := dedup_events conflicted).
    set (full := conflicted ++ auth_difference_old shE authmap cm).
    assert (Hfull : forall y, In y full -> In y conflicted \/ In y auth_events).
    { intros y Hy. unfold full in Hy. apply in_app_or in Hy as [Hy|Hy]; [auto|]. right.
      unfold auth_difference_old in Hy. apply filter_In in Hy as [Hy _].
      apply (Permutation_in _ (shE_perm _)) in Hy. apply dedup_in. exact Hy. }
    intro H. apply (resolve_tail_values allowed rejected shP shP_perm priv cl ud) in H.
    destruct H as [H|[H|[H|H]]].
    - simpl in H. apply apply_events_values in H as [[]|H]. auto.
    - apply control_events_sub in H as [H|H]; [destruct (Hfull _ H); auto|].
      left. apply dedup_in. exact H.
    - unfold other_events in H. apply filter_In in H as [H _]. destruct (Hfull _ H); auto.
    - auto.
  Qed.
End SubsetOld.
