(* The resolved state of the v2 / v2.1 driver consists only of supplied events: every event of
   the result is an event of one of the state sets or one of the auth events - for every auth
   oracle, every rejected-event oracle and every map order, with no assumption on the input. *)
From Coq Require Import Permutation Lia.
From Verif Require Import Lib.Bytes StateRes.Event StateRes.Kahn StateRes.V2 StateRes.SortProofs
     StateRes.KahnProofs StateRes.OrderProofs StateRes.ResultProofs StateRes.SplitProofs
     StateRes.KahnMemberProofs.
Local Open Scope nat_scope.

Lemma fold_left_inv {A B} (f : A -> B -> A) (P : A -> Prop) l : forall a,
  P a -> (forall a b, P a -> In b l -> P (f a b)) -> P (fold_left f l a).
Proof.
  induction l as [|x r IH]; intros a Ha Hf; simpl; [exact Ha|].
  apply IH; [apply Hf; [exact Ha|left; reflexivity]|]. intros a' b Pa Hb. apply Hf; [exact Pa|right; exact Hb].
Qed.

Lemma find_event_in k l a : find_event k l = Some a -> In a l.
Proof.
  induction l as [|x r IH]; simpl; [discriminate|].
  destruct (bytes_eqb k (e_id x)); [intro H; inversion H; auto|auto].
Qed.

Lemma lookup_ids_in u ids x : In x (lookup_ids u ids) -> In x u.
Proof.
  induction ids as [|k r IH]; simpl; [tauto|].
  destruct (find_event k u) eqn:E; [|exact IH]. intros [<-|H]; [eapply find_event_in; eauto|auto].
Qed.

(* ---------- applying events ---------- *)
Lemma apply_event_values m e x : In x (smap_values (apply_event m e)) -> In x (smap_values m) \/ x = e.
Proof.
  unfold apply_event. destruct (event_tkey e) as [k|]; [|auto].
  unfold smap_values. intro H. apply in_map_iff in H as [[k' e'] [<- H]]. simpl.
  apply smap_set_in in H as [[-> ->]|H]; [auto|]. left. apply in_map_iff. exists (k', e'). auto.
Qed.

Lemma apply_events_values l : forall m x,
  In x (smap_values (apply_events m l)) -> In x (smap_values m) \/ In x l.
Proof.
  unfold apply_events. induction l as [|e r IH]; intros m x; simpl; [auto|]. intro H.
  destruct (IH _ _ H) as [H1|H1]; [|auto]. apply apply_event_values in H1 as [H1| ->]; auto.
Qed.

Section Subset.
  Variable allowed : event -> list event -> bool.
  Variable rejected : bytes -> bool.
  Variable shE : list event -> list event.
  Variable shP : list pwrap -> list pwrap.
  Variable shG : groups -> groups.
  Hypothesis shE_perm : forall l, Permutation (shE l) l.
  Hypothesis shP_perm : forall l, Permutation (shP l) l.
  Hypothesis shG_perm : forall l, Permutation (shG l) l.
  Variable priv : bool.
  Variable cl ud : Z.

  Lemma auth_and_apply_values authmap l : forall r x,
    In x (smap_values (r_state (auth_and_apply allowed rejected authmap r l))) ->
    In x (smap_values (r_state r)) \/ In x l.
  Proof.
    unfold auth_and_apply. induction l as [|e l' IH]; intros r x; simpl; [auto|]. intro H.
    destruct (IH _ _ H) as [H1|H1]; [|auto].
    unfold auth_and_apply_one in H1. destruct (allowed e _); simpl in H1; [|auto].
    apply apply_event_values in H1 as [H1| ->]; auto.
  Qed.

  Lemma mainline_order_in authmap pl l x : In x (mainline_order authmap pl l) -> In x l.
  Proof.
    unfold mainline_order. intro H. apply in_map_iff in H as [w [<- Hw]].
    apply ssort_In in Hw. apply in_map_iff in Hw as [e [<- He]]. exact He.
  Qed.

  Lemma power_order_in authmap create l x : In x (power_order shP priv cl ud authmap create l) -> In x l.
  Proof.
    unfold power_order. intro H. apply in_map_iff in H as [w [<- Hw]].
    apply kahn_in in Hw; [|exact shP_perm]. apply in_map_iff in Hw as [e [<- He]]. exact He.
  Qed.

  Lemma resolve_tail_values authmap r0 control others unconflicted x :
    In x (result_events (resolve_tail allowed rejected shP priv cl ud authmap r0 control others unconflicted)) ->
    In x (smap_values (r_state r0)) \/ In x control \/ In x others \/ In x unconflicted.
  Proof.
    unfold result_events, resolve_tail, r_apply. simpl. intro H.
    apply apply_events_values in H as [H|H]; [|auto].
    apply auth_and_apply_values in H as [H|H]; [|right; right; left; eapply mainline_order_in; eauto].
    apply auth_and_apply_values in H as [H|H]; [auto|right; left; apply dedup_in; eapply power_order_in; eauto].
  Qed.

  (* ---------- the split hands out events of the state sets ---------- *)
  Lemma split_group_sub v1 sets g x :
    In x (fst (split_group v1 sets g)) \/ In x (snd (split_group v1 sets g)) -> In x (snd g).
  Proof.
    unfold split_group. destruct (snd g) as [|a [|b r]]; simpl; [tauto| |tauto].
    destruct v1; simpl; [tauto|]. destruct (Nat.eqb _ _); simpl; tauto.
  Qed.

  Lemma split_conflicted_sub v1 sets x :
    In x (fst (split_conflicted shG v1 sets)) \/ In x (snd (split_conflicted shG v1 sets)) ->
    In x (concat sets).
  Proof.
    unfold split_conflicted, split_groups. rewrite split_groups_fst, split_groups_snd. simpl.
    destruct (group_events_spec (concat sets)) as [NDg Hg].
    assert (Hgrp : forall g, In g (shG (group_events (concat sets))) -> forall y, In y (snd g) -> In y (concat sets)).
    { intros [k evs] Hin y Hy. apply (Permutation_in _ (shG_perm _)) in Hin.
      apply (gget_in _ _ _ NDg) in Hin. rewrite Hg in Hin. simpl in Hy.
      destruct (grp k (dedup_events (concat sets))) eqn:E; simpl in Hin; [discriminate|]. inversion Hin; subst.
      rewrite <- E in Hy. apply filter_In in Hy as [Hy _]. apply dedup_in. exact Hy. }
    intros [H|H]; apply in_concat in H as [l [Hl Hx]]; apply in_map_iff in Hl as [g [<- Hg']];
      apply (Hgrp g Hg'); apply (split_group_sub v1 sets g x); auto.
  Qed.

  (* ---------- the auth difference hands out auth events ---------- *)
  Lemma add_event_sub (P : event -> Prop) e s : P e -> (forall x, In x s -> P x) -> forall x, In x (add_event e s) -> P x.
  Proof.
    intros Pe Ps x. unfold add_event. destruct (has_event (e_id e) s); [apply Ps|].
    intro H. apply in_app_or in H as [H|[<-|[]]]; auto.
  Qed.

  Lemma union_events_sub (P : event -> Prop) a b :
    (forall x, In x a -> P x) -> (forall x, In x b -> P x) -> forall x, In x (union_events a b) -> P x.
  Proof.
    intros Pa Pb. unfold union_events.
    apply (fold_left_inv (fun s e => add_event e s) (fun s => forall x, In x s -> P x)); [exact Pa|].
    intros s e Ps He. apply add_event_sub; auto.
  Qed.

  Lemma chain_walk_sub fuel authmap : forall work seen,
    (forall x, In x seen -> In x authmap) -> forall x, In x (chain_walk fuel authmap work seen) -> In x authmap.
  Proof.
    induction fuel as [|f IH]; intros work seen Hs; simpl; [exact Hs|].
    destruct work as [|k rest]; [exact Hs|].
    destruct (find_event k authmap) as [a|] eqn:E; [|apply IH; exact Hs].
    destruct (has_event (e_id a) seen); [apply IH; exact Hs|].
    apply IH. intros x Hx. apply in_app_or in Hx as [Hx|[<-|[]]]; [auto|eapply find_event_in; eauto].
  Qed.

  Lemma auth_difference_new_sub v21 authmap conflicted sets x :
    In x (auth_difference_new shE v21 authmap conflicted sets) -> In x authmap.
  Proof.
    unfold auth_difference_new.
    assert (Hunion : forall y, In y (fold_left union_events (map (full_auth_chain authmap) sets) []) -> In y authmap).
    { apply (fold_left_inv union_events (fun acc => forall y, In y acc -> In y authmap)); [intros ? []|].
      intros acc c Hacc Hc. apply union_events_sub; [exact Hacc|].
      apply in_map_iff in Hc as [s [<- _]]. unfold full_auth_chain. apply chain_walk_sub. intros ? []. }
    assert (Hdiff : forall y, In y (diff_events (fold_left union_events (map (full_auth_chain authmap) sets) [])
                                            match map (full_auth_chain authmap) sets with
                                            | [] => []
                                            | c :: r => fold_left inter_events r c
                                            end) -> In y authmap).
    { intros y Hy. unfold diff_events in Hy. apply filter_In in Hy as [Hy _]. auto. }
    destruct v21; intro H; apply (Permutation_in _ (shE_perm _)) in H; [|auto].
    revert x H. apply union_events_sub; [exact Hdiff|].
    apply (fold_left_inv _ (fun acc => forall y, In y acc -> In y authmap)); [intros ? []|].
    intros acc s Hacc _. apply union_events_sub; [exact Hacc|].
    unfold conflicted_subgraph.
    apply (fold_left_inv _ (fun acc => forall y, In y acc -> In y authmap)); [intros ? []|].
    intros acc' p Hacc' _. destruct (has_event _ _); [|exact Hacc'].
    apply union_events_sub; [exact Hacc'|]. intro y. apply lookup_ids_in.
  Qed.

  (* ---------- the control set ---------- *)
  Lemma full_control_set_sub fuel cm : forall ev visited x,
    In x (fst (full_control_set fuel cm ev visited)) -> x = ev \/ In x cm.
  Proof.
    induction fuel as [|f IH]; intros ev visited x; simpl; [intros [<-|[]]; auto|].
    apply (fold_left_inv _ (fun acc : list event * list bytes => forall x, In x (fst acc) -> x = ev \/ In x cm)).
    - simpl. intros y [<-|[]]. auto.
    - intros acc a Hacc _. destruct (mem_bytes a (snd acc)); [exact Hacc|].
      destruct (find_event a cm) as [c|] eqn:E; [|exact Hacc]. simpl. intros y Hy.
      apply in_app_or in Hy as [Hy|Hy]; [auto|]. right.
      destruct (IH _ _ _ Hy) as [->|H]; [eapply find_event_in; eauto|exact H].
  Qed.

  Lemma control_events_sub cm unconflicted full x :
    In x (control_events cm unconflicted full) -> In x full \/ In x cm.
  Proof.
    unfold control_events.
    apply (fold_left_inv _ (fun acc : list event * list bytes => forall x, In x (fst acc) -> In x full \/ In x cm)).
    - simpl. intros ? [].
    - intros acc p Hacc Hp. destruct (has_event _ _); [exact Hacc|].
      destruct (is_control_event p); [|exact Hacc]. intros y Hy.
      change (In y (fst acc ++ fst (full_control_set (S (length cm)) cm p (snd acc)))) in Hy.
      apply in_app_or in Hy as [Hy|Hy]; [auto|].
      destruct (full_control_set_sub _ _ _ _ _ Hy) as [->|H]; auto.
  Qed.

  (* ---------- the theorem ---------- *)
  Theorem result_subset_of_inputs_v2 v21 sets auth_events x :
    In x (result_events (resolve_v2_new allowed rejected shE shP shG priv cl ud v21 sets auth_events)) ->
    In x (concat sets) \/ In x auth_events.
  Proof.
    unfold resolve_v2_new.
    set (cu := split_conflicted shG false sets).
    assert (Hc : forall y, In y (fst cu) -> In y (concat sets)) by (intros; apply (split_conflicted_sub false); auto).
    assert (Hu : forall y, In y (snd cu) -> In y (concat sets)) by (intros; apply (split_conflicted_sub false); auto).
    set (authmap := dedup_events auth_events).
    set (full := fst cu ++ auth_difference_new shE v21 authmap (fst cu) sets).
    assert (Hfull : forall y, In y full -> In y (concat sets) \/ In y auth_events).
    { intros y Hy. unfold full in Hy. apply in_app_or in Hy as [Hy|Hy]; [auto|].
      right. apply auth_difference_new_sub in Hy. apply dedup_in. exact Hy. }
    assert (Hctl : forall skip y, In y (control_events (dedup_events (fst cu)) skip full) -> In y (concat sets) \/ In y auth_events).
    { intros skip y Hy. apply control_events_sub in Hy as [Hy|Hy]; [auto|]. left. apply Hc, dedup_in. exact Hy. }
    assert (Hoth : forall skip ctl y, In y (other_events skip full ctl) -> In y (concat sets) \/ In y auth_events).
    { intros skip ctl y Hy. unfold other_events in Hy. apply filter_In in Hy as [Hy _]. auto. }
    assert (M : forall (A B : Type) (c u a : list A) (X Y : B) (P : B -> Prop),
               P X -> P Y -> P (match c, u, a with [], [], [] => X | _, _, _ => Y end)).
    { intros A B c u a X Y P HX HY. destruct c, u, a; assumption. }
    apply (M _ _ (fst cu) (snd cu) auth_events _ _
             (fun r => In x (result_events r) -> In x (concat sets) \/ In x auth_events)); [intros []|].
    fold authmap full. destruct v21; intro H; apply resolve_tail_values in H; cbn [r_state] in H.
    - destruct H as [[]|[H|[H|H]]]; eauto.
    - destruct H as [H|[H|[H|H]]]; eauto.
      + unfold r_apply in H. cbn [r_state] in H. apply apply_events_values in H as [[]|H].
        apply power_order_in in H. apply dedup_in in H. auto.
      + apply power_order_in in H. apply dedup_in in H. auto.
  Qed.

  (* the same argument for any predicate: what holds of the state-set events and of the auth
     difference holds of the result *)
  Theorem result_from_sets_and_auth_difference (P : event -> Prop) v21 sets auth_events :
    (forall y, In y (concat sets) -> P y) ->
    (forall y, In y (auth_difference_new shE v21 (dedup_events auth_events)
                       (fst (split_conflicted shG false sets)) sets) -> P y) ->
    forall x,
    In x (result_events (resolve_v2_new allowed rejected shE shP shG priv cl ud v21 sets auth_events)) -> P x.
  Proof.
    intros Hsets Hdiff x. unfold resolve_v2_new.
    set (cu := split_conflicted shG false sets) in *.
    assert (Hc : forall y, In y (fst cu) -> P y) by (intros; apply Hsets, (split_conflicted_sub false); auto).
    assert (Hu : forall y, In y (snd cu) -> P y) by (intros; apply Hsets, (split_conflicted_sub false); auto).
    set (authmap := dedup_events auth_events) in *.
    set (full := fst cu ++ auth_difference_new shE v21 authmap (fst cu) sets).
    assert (Hfull : forall y, In y full -> P y).
    { intros y Hy. unfold full in Hy. apply in_app_or in Hy as [Hy|Hy]; auto. }
    assert (Hctl : forall skip y, In y (control_events (dedup_events (fst cu)) skip full) -> P y).
    { intros skip y Hy. apply control_events_sub in Hy as [Hy|Hy]; [auto|]. apply Hc, dedup_in. exact Hy. }
    assert (Hoth : forall skip ctl y, In y (other_events skip full ctl) -> P y).
    { intros skip ctl y Hy. unfold other_events in Hy. apply filter_In in Hy as [Hy _]. auto. }
    assert (M : forall (A B : Type) (c u a : list A) (X Y : B) (Q : B -> Prop),
               Q X -> Q Y -> Q (match c, u, a with [], [], [] => X | _, _, _ => Y end)).
    { intros A B c u a X Y Q HX HY. destruct c, u, a; assumption. }
    apply (M _ _ (fst cu) (snd cu) auth_events _ _ (fun r => In x (result_events r) -> P x)); [intros []|].
    fold authmap full. destruct v21; intro H; apply resolve_tail_values in H; cbn [r_state] in H.
    - destruct H as [[]|[H|[H|H]]]; eauto.
    - destruct H as [H|[H|[H|H]]]; eauto.
      + unfold r_apply in H. cbn [r_state] in H. apply apply_events_values in H as [[]|H].
        apply power_order_in in H. apply dedup_in in H. auto.
      + apply power_order_in in H. apply dedup_in in H. auto.
  Qed.
End Subset.
