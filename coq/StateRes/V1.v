(* State resolution v1 as stateresolution.go computes it (ResolveStateConflicts), model only.

   The resolver state (resolvedCreate / PowerLevels / JoinRules / Members / ThirdPartyInvites)
   is one map keyed by (type, state_key) restricted to the five auth types.  The auth query
   handed to [allowed] lists the create, join-rules and power-levels entries (the allower
   context loads these three unconditionally) and the member / third-party-invite entries
   StateNeededForAuth names for the event. *)
From Verif Require Import Lib.Bytes StateRes.Event StateRes.Kahn StateRes.V2.
Open Scope N_scope.

(* conflictedEventSorter: depth ascending, SHA-1 of the event ID descending *)
Definition v1_cmp (a b : event) : comparison :=
  lex (cmp_Z (e_depth a) (e_depth b)) (bytes_cmp (e_sha1 b) (e_sha1 a)).

Fixpoint smap_remove (m : smap) (k : tkey) : smap :=
  match m with
  | [] => []
  | (k', e) :: r => if tkey_eqb k' k then smap_remove r k else (k', e) :: smap_remove r k
  end.

(* the key under which addAuthEvent / removeAuthEvent file an event, if any *)
Definition auth_key (t : bytes) (sk : option bytes) : option tkey :=
  match sk with
  | None => None
  | Some k =>
      if bytes_eqb t t_create || bytes_eqb t t_power || bytes_eqb t t_join_rules
      then (if bytes_eqb k [] then Some (t, k) else None)
      else if bytes_eqb t t_member || bytes_eqb t t_3pid then Some (t, k)
      else None
  end.

Definition add_auth_event (m : smap) (e : event) : smap :=
  match auth_key (e_type e) (e_skey e) with
  | Some k => smap_set m k e
  | None => m
  end.

Definition remove_auth_event (m : smap) (e : event) : smap :=
  match auth_key (e_type e) (e_skey e) with
  | Some k => smap_remove m k
  | None => m
  end.

Definition opt_list {A} (o : option A) : list A := match o with Some x => [x] | None => [] end.

Definition v1_provider (m : smap) (e : event) : list event :=
  let n := state_needed e in
  opt_list (smap_get m (t_create, [])) ++ opt_list (smap_get m (t_join_rules, []))
  ++ opt_list (smap_get m (t_power, []))
  ++ concat (map (fun k => opt_list (smap_get m (t_member, k))) (n_member n))
  ++ concat (map (fun k => opt_list (smap_get m (t_3pid, k))) (n_3pid n)).

Section V1.
  Variable allowed : event -> list event -> bool.

  Record v1state := mkV1 { v_auth : smap; v_result : list event; v_log : list query }.

  Definition v1_allowed (st : v1state) (e : event) : bool * v1state :=
    let prov := v1_provider (v_auth st) e in
    (allowed e prov, mkV1 (v_auth st) (v_result st) (v_log st ++ [(e_id e, ids_of prov)])).

  (* ---------- addConflicted: blocks in first-seen order ---------- *)
  Definition blocks := list (tkey * list event).

  Fixpoint block_add (g : blocks) (k : tkey) (e : event) : blocks :=
    match g with
    | [] => [(k, [e])]
    | (k', l) :: r => if tkey_eqb k' k then (k', l ++ [e]) :: r else (k', l) :: block_add r k e
    end.

  Record v1blocks := mkB {
    b_creates : list event; b_powers : list event; b_jrs : list event;
    b_3pids : blocks; b_members : blocks; b_others : blocks }.

  Definition add_conflicted_one (b : v1blocks) (e : event) : v1blocks :=
    match e_skey e with
    | None => b   (* Go dereferences the nil state key here; the entry points never pass one *)
    | Some sk =>
        let k := (e_type e, sk) in
        let empty := bytes_eqb sk [] in
        if bytes_eqb (e_type e) t_create && empty
        then mkB (b_creates b ++ [e]) (b_powers b) (b_jrs b) (b_3pids b) (b_members b) (b_others b)
        else if bytes_eqb (e_type e) t_power && empty
        then mkB (b_creates b) (b_powers b ++ [e]) (b_jrs b) (b_3pids b) (b_members b) (b_others b)
        else if bytes_eqb (e_type e) t_join_rules && empty
        then mkB (b_creates b) (b_powers b) (b_jrs b ++ [e]) (b_3pids b) (b_members b) (b_others b)
        else if bytes_eqb (e_type e) t_member
        then mkB (b_creates b) (b_powers b) (b_jrs b) (b_3pids b) (block_add (b_members b) k e) (b_others b)
        else if bytes_eqb (e_type e) t_3pid
        then mkB (b_creates b) (b_powers b) (b_jrs b) (block_add (b_3pids b) k e) (b_members b) (b_others b)
        else mkB (b_creates b) (b_powers b) (b_jrs b) (b_3pids b) (b_members b) (block_add (b_others b) k e)
    end.

  Definition add_conflicted (l : list event) : v1blocks :=
    fold_left add_conflicted_one l (mkB [] [] [] [] [] []).

  (* ---------- resolveAuthBlock ---------- *)
  (* walk the newer candidates while they pass against the current candidate *)
  Fixpoint auth_block_walk (rest : list event) (cand : event) (st : v1state) : event * v1state :=
    match rest with
    | [] => (cand, st)
    | e :: r =>
        let vs := v1_allowed st e in
        if fst vs
        then auth_block_walk r e (mkV1 (add_auth_event (v_auth (snd vs)) e) (v_result (snd vs)) (v_log (snd vs)))
        else (cand, snd vs)
    end.

  Definition resolve_auth_block (block : list event) (st : v1state) : option event * v1state :=
    match ssort v1_cmp block with
    | [] => (None, st)
    | first :: rest =>
        (* what the auth events held for this key before (F78: it is put back afterwards) *)
        let previous := match auth_key (e_type first) (e_skey first) with
                        | Some k => smap_get (v_auth st) k
                        | None => None
                        end in
        let st1 := mkV1 (add_auth_event (v_auth st) first) (v_result st) (v_log st) in
        let cs := auth_block_walk rest first st1 in
        let st2 := snd cs in
        let removed := remove_auth_event (v_auth st2) (fst cs) in
        (Some (fst cs),
         mkV1 (match previous with Some p => add_auth_event removed p | None => removed end)
              (v_result st2) (v_log st2))
    end.

  (* resolveAndAddAuthBlocks: results are registered for auth only once the whole type is done *)
  Definition resolve_and_add_auth_blocks (bl : list (list event)) (st : v1state) : v1state :=
    let rs := fold_left (fun acc block =>
                           match block with
                           | [] => acc
                           | _ => let r := resolve_auth_block block (snd acc) in
                                  (fst acc ++ opt_list (fst r), snd r)
                           end) bl ([], st) in
    let st1 := snd rs in
    mkV1 (fold_left add_auth_event (fst rs) (v_auth st1)) (v_result st1 ++ fst rs) (v_log st1).

  (* ---------- resolveNormalBlock: newest first, stop at the first that passes ---------- *)
  Fixpoint normal_block_walk (newest_first : list event) (oldest : event) (st : v1state)
    : event * v1state :=
    match newest_first with
    | [] => (oldest, st)
    | e :: r => let vs := v1_allowed st e in
                if fst vs then (e, snd vs) else normal_block_walk r oldest (snd vs)
    end.

  Definition resolve_normal_block (block : list event) (st : v1state) : v1state :=
    match ssort v1_cmp block with
    | [] => st
    | first :: rest =>
        let cs := normal_block_walk (rev rest) first st in
        let st1 := snd cs in
        mkV1 (v_auth st1) (v_result st1 ++ [fst cs]) (v_log st1)
    end.

  (* ResolveStateConflicts *)
  Definition resolve_v1 (conflicted auth_events : list event) : v1state :=
    let b := add_conflicted conflicted in
    let st0 := mkV1 (fold_left add_auth_event auth_events []) [] [] in
    let st1 := resolve_and_add_auth_blocks [b_creates b] st0 in
    let st2 := resolve_and_add_auth_blocks [b_powers b] st1 in
    let st3 := resolve_and_add_auth_blocks [b_jrs b] st2 in
    let st4 := resolve_and_add_auth_blocks (map snd (b_3pids b)) st3 in
    let st5 := resolve_and_add_auth_blocks (map snd (b_members b)) st4 in
    fold_left (fun st bl => resolve_normal_block (snd bl) st) (b_others b) st5.
End V1.
