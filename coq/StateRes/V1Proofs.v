(* State resolution v1 picks, for every conflicted key, one of the conflicted events: every
   event ResolveStateConflicts returns is one of the conflicted events it was given - for
   every auth oracle and every auth-event list. *)
From Coq Require Import Permutation Lia.
From Verif Require Import Lib.Bytes StateRes.Event StateRes.Kahn StateRes.V2 StateRes.V1
     StateRes.SortProofs StateRes.SubsetProofs.
Local Open Scope nat_scope.

Section V1Facts.
  Variable allowed : event -> list event -> bool.


  Lemma v1_allowed_result s e : v_result (snd (v1_allowed allowed s e)) = v_result s.
  Proof. reflexivity. Qed.

  Lemma auth_block_walk_spec rest : forall cand s,
    (fst (auth_block_walk allowed rest cand s) = cand \/ In (fst (auth_block_walk allowed rest cand s)) rest) /\
    v_result (snd (auth_block_walk allowed rest cand s)) = v_result s.
  Proof.
    induction rest as [|e r IH]; intros cand s; simpl; [auto|].
    destruct (allowed e _); simpl.
    - destruct (IH e (mkV1 (add_auth_event (v_auth s) e) (v_result s) (v_log s ++ [(e_id e, ids_of (v1_provider (v_auth s) e))]))) as [[H|H] R].
      + split; [right; left; symmetry; exact H|exact R].
      + split; [right; right; exact H|exact R].
    - auto.
  Qed.

  Lemma resolve_auth_block_spec block s :
    (forall c, fst (resolve_auth_block allowed block s) = Some c -> In c block) /\
    v_result (snd (resolve_auth_block allowed block s)) = v_result s.
  Proof.
    unfold resolve_auth_block. destruct (ssort v1_cmp block) as [|first rest] eqn:E; simpl; [split; [discriminate|reflexivity]|].
    destruct (auth_block_walk_spec rest first (mkV1 (add_auth_event (v_auth s) first) (v_result s) (v_log s))) as [H R].
    split; [|exact R]. intros c Hc. inversion Hc; subst. apply (ssort_In _ v1_cmp). rewrite E.
    destruct H as [->|H]; [left; reflexivity|right; exact H].
  Qed.

  Lemma resolve_and_add_spec bl s x :
    In x (v_result (resolve_and_add_auth_blocks allowed bl s)) -> In x (v_result s) \/ In x (concat bl).
  Proof.
    unfold resolve_and_add_auth_blocks. simpl.
    set (F := fun (acc : list event * v1state) (block : list event) =>
                match block with
                | [] => acc
                | _ :: _ => let r := resolve_auth_block allowed block (snd acc) in (fst acc ++ opt_list (fst r), snd r)
                end).
    assert (Inv : forall bl0 acc,
               (forall y, In y (fst (fold_left F bl0 acc)) -> In y (fst acc) \/ In y (concat bl0)) /\
               v_result (snd (fold_left F bl0 acc)) = v_result (snd acc)).
    { induction bl0 as [|b r IH]; intro acc; simpl; [auto|].
      destruct (IH (F acc b)) as [I1 I2]. split.
      - intros y Hy. destruct (I1 y Hy) as [H|H]; [|right; apply in_or_app; right; exact H].
        unfold F in H. destruct b as [|b0 b']; [auto|]. simpl in H. apply in_app_or in H as [H|H]; [auto|].
        right. apply in_or_app. left.
        destruct (resolve_auth_block_spec (b0 :: b') (snd acc)) as [S1 _].
        destruct (fst (resolve_auth_block allowed (b0 :: b') (snd acc))) as [c|]; simpl in H; [|contradiction].
        destruct H as [<-|[]]. apply S1. reflexivity.
      - rewrite I2. unfold F. destruct b; [reflexivity|]. simpl.
        apply (proj2 (resolve_auth_block_spec _ _)). }
    destruct (Inv bl ([], s)) as [I1 I2]. fold F. intro H. apply in_app_or in H as [H|H].
    - left. rewrite I2 in H. exact H.
    - destruct (I1 x H) as [[]|H']. auto.
  Qed.

  Lemma normal_block_walk_spec l : forall oldest s,
    (fst (normal_block_walk allowed l oldest s) = oldest \/ In (fst (normal_block_walk allowed l oldest s)) l) /\
    v_result (snd (normal_block_walk allowed l oldest s)) = v_result s.
  Proof.
    induction l as [|e r IH]; intros oldest s; simpl; [auto|].
    destruct (allowed e _); simpl; [auto|].
    destruct (IH oldest (mkV1 (v_auth s) (v_result s) (v_log s ++ [(e_id e, ids_of (v1_provider (v_auth s) e))]))) as [[H|H] R]; auto.
  Qed.

  Lemma resolve_normal_block_spec block s x :
    In x (v_result (resolve_normal_block allowed block s)) -> In x (v_result s) \/ In x block.
  Proof.
    unfold resolve_normal_block. destruct (ssort v1_cmp block) as [|first rest] eqn:E; [auto|]. simpl.
    destruct (normal_block_walk_spec (rev rest) first s) as [H R]. rewrite R. intro Hx.
    apply in_app_or in Hx as [Hx|[<-|[]]]; [auto|]. right. apply (ssort_In _ v1_cmp). rewrite E.
    destruct H as [->|H]; [left; reflexivity|right; apply in_rev; exact H].
  Qed.

  (* ---------- the blocks hold conflicted events ---------- *)
  Lemma block_add_in g k e k' evs x : In (k', evs) (block_add g k e) -> In x evs -> x = e \/ exists evs0, In (k', evs0) g /\ In x evs0.
  Proof.
    induction g as [|[k0 l0] r IH]; simpl.
    - intros [H|[]] Hx. inversion H; subst. destruct Hx as [<-|[]]. auto.
    - destruct (tkey_eqb k0 k).
      + intros [H|H] Hx.
        * inversion H; subst. apply in_app_or in Hx as [Hx|[<-|[]]]; [|auto]. right. exists l0. auto.
        * right. exists evs. auto.
      + intros [H|H] Hx.
        * inversion H; subst. right. exists evs. auto.
        * destruct (IH H Hx) as [->|[evs0 [H1 H2]]]; [auto|]. right. exists evs0. auto.
  Qed.

  Definition blocks_within (b : v1blocks) (l : list event) : Prop :=
    (forall x, In x (b_creates b) -> In x l) /\ (forall x, In x (b_powers b) -> In x l) /\
    (forall x, In x (b_jrs b) -> In x l) /\
    (forall k evs x, In (k, evs) (b_3pids b) -> In x evs -> In x l) /\
    (forall k evs x, In (k, evs) (b_members b) -> In x evs -> In x l) /\
    (forall k evs x, In (k, evs) (b_others b) -> In x evs -> In x l).

  Lemma add_conflicted_within l : blocks_within (add_conflicted l) l.
  Proof.
    unfold add_conflicted.
    apply (fold_left_inv add_conflicted_one (fun b => blocks_within b l)).
    - repeat split; simpl; intros; contradiction.
    - intros b e [H1 [H2 [H3 [H4 [H5 H6]]]]] He. unfold add_conflicted_one.
      destruct (e_skey e) as [sk|]; [|repeat split; assumption].
      assert (A : forall (g : blocks) k, (forall k0 evs x, In (k0, evs) g -> In x evs -> In x l) ->
                  forall k0 evs x, In (k0, evs) (block_add g k e) -> In x evs -> In x l).
      { intros g k Hg k0 evs x Hin Hx. destruct (block_add_in _ _ _ _ _ _ Hin Hx) as [->|[evs0 [G1 G2]]]; eauto. }
      assert (S : forall (c : list event), (forall x, In x c -> In x l) -> forall x, In x (c ++ [e]) -> In x l).
      { intros c Hc x Hx. apply in_app_or in Hx as [Hx|[<-|[]]]; auto. }
      repeat match goal with |- context [if ?c then _ else _] => destruct c end;
        repeat split; simpl; eauto.
  Qed.

  Theorem v1_picks_conflicted_events conflicted auth_events x :
    In x (v_result (resolve_v1 allowed conflicted auth_events)) -> In x conflicted.
  Proof.
    unfold resolve_v1. destruct (add_conflicted_within conflicted) as [H1 [H2 [H3 [H4 [H5 H6]]]]].
    set (b := add_conflicted conflicted) in *.
    assert (Hmap : forall (g : blocks), (forall k evs y, In (k, evs) g -> In y evs -> In y conflicted) ->
                   forall y, In y (concat (map snd g)) -> In y conflicted).
    { intros g Hg y Hy. apply in_concat in Hy as [l [Hl Hy]]. apply in_map_iff in Hl as [[k evs] [<- Hin]]. eauto. }
    assert (Hone : forall (c : list event), (forall y, In y c -> In y conflicted) -> forall y, In y (concat [c]) -> In y conflicted).
    { intros c Hc y Hy. simpl in Hy. rewrite app_nil_r in Hy. auto. }
    intro H.
    assert (Hothers : forall g s, (forall k evs y, In (k, evs) g -> In y evs -> In y conflicted) ->
              (forall y, In y (v_result s) -> In y conflicted) ->
              forall y, In y (v_result (fold_left (fun (s0 : v1state) (bl : tkey * list event) => resolve_normal_block allowed (snd bl) s0) g s)) -> In y conflicted).
    { induction g as [|[k evs] r IH]; intros s Hg Hs; simpl; [exact Hs|]. apply IH.
      - intros; eapply Hg; [right; eassumption|assumption].
      - intros y Hy. apply resolve_normal_block_spec in Hy as [Hy|Hy]; [auto|].
        simpl in Hy. eapply Hg; [left; reflexivity|exact Hy]. }
    revert x H. apply Hothers; [exact H6|].
    intros y Hy.
    repeat (apply resolve_and_add_spec in Hy as [Hy|Hy]);
      [simpl in Hy; contradiction|eauto|eauto|eauto|eauto|eauto].
  Qed.
End V1Facts.
