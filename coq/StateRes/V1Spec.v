(* State resolution v1 (DESIGN.md 6.2 r7), written per conflicted key from the specification
   text: "for each conflicted (type, state_key), in the order create, power_levels,
   join_rules, third_party_invite, member: take the candidates ordered by depth (ties: greater
   SHA-1 of the event ID first); start from the oldest; each newer candidate replaces it if it
   passes the auth rules against the state resolved so far plus the current candidate; stop at
   the first that fails. The winners of one type join the auth state only when the whole type
   is done. Every other conflicted key: the newest candidate that passes against the final
   auth state, else the oldest."  No blocks, no fold over the input order. *)
From Verif Require Import Lib.Bytes StateRes.Event.
Open Scope N_scope.

(* a is an older candidate than b *)
Definition v1_older (a b : event) : bool :=
  if (e_depth a <? e_depth b)%Z then true
  else if (e_depth b <? e_depth a)%Z then false
  else bytes_ltb (e_sha1 b) (e_sha1 a).

(* the key under which an event is part of the auth state, if it is *)
Definition spec_auth_key (e : event) : option tkey :=
  match e_skey e with
  | None => None
  | Some k =>
      let t := e_type e in
      if bytes_eqb t t_create || bytes_eqb t t_power || bytes_eqb t t_join_rules
      then (match k with [] => Some (t, k) | _ => None end)
      else if bytes_eqb t t_member || bytes_eqb t t_3pid then Some (t, k)
      else None
  end.

Definition astate := tkey -> option event.

Definition upd (s : astate) (k : tkey) (e : event) : astate :=
  fun k' => if tkey_eqb k' k then Some e else s k'.

(* the unconflicted auth events: a later entry of a key replaces an earlier one *)
Fixpoint state_of_list (l : list event) (s : astate) : astate :=
  match l with
  | [] => s
  | e :: r => state_of_list r (match spec_auth_key e with Some k => upd s k e | None => s end)
  end.

Definition opt_to_list {A} (o : option A) : list A := match o with Some x => [x] | None => [] end.

(* what the auth rules look at *)
Definition spec_auth_events (s : astate) (e : event) : list event :=
  let n := state_needed e in
  opt_to_list (s (t_create, [])) ++ opt_to_list (s (t_join_rules, [])) ++ opt_to_list (s (t_power, []))
  ++ flat_map (fun u => opt_to_list (s (t_member, u))) (n_member n)
  ++ flat_map (fun t => opt_to_list (s (t_3pid, t))) (n_3pid n).

Section V1Spec.
  Variable allowed : event -> list event -> bool.

  (* candidates of a key, oldest first: repeatedly extract the oldest *)
  Definition oldest_of (u : event) (us : list event) : event :=
    fold_left (fun best y => if v1_older y best then y else best) us u.

  Fixpoint oldest_first (fuel : nat) (l : list event) : list event :=
    match fuel, l with
    | S f, u :: us =>
        let m := oldest_of u us in
        m :: oldest_first f (filter (fun y => negb (bytes_eqb (e_id y) (e_id m))) l)
    | _, _ => []
    end.

  Fixpoint auth_winner (s : astate) (k : tkey) (cand : event) (newer : list event) : event :=
    match newer with
    | [] => cand
    | e :: r => if allowed e (spec_auth_events (upd s k cand) e) then auth_winner s k e r else cand
    end.

  Fixpoint first_passing (s : astate) (newest_first : list event) : option event :=
    match newest_first with
    | [] => None
    | e :: r => if allowed e (spec_auth_events s e) then Some e else first_passing s r
    end.

  Definition candidates (conflicted : list event) (k : tkey) : list event :=
    let l := filter (fun e => match e_skey e with
                              | Some sk => tkey_eqb (e_type e, sk) k
                              | None => false
                              end) conflicted in
    oldest_first (length l) l.

  Definition keys_where (p : event -> bool) (conflicted : list event) : list tkey :=
    fold_left (fun acc e => match e_skey e with
                            | Some sk => if p e && negb (existsb (tkey_eqb (e_type e, sk)) acc)
                                         then acc ++ [(e_type e, sk)] else acc
                            | None => acc
                            end) conflicted [].

  Definition is_auth_stage (t : bytes) (e : event) : bool :=
    bytes_eqb (e_type e) t && match spec_auth_key e with Some _ => true | None => false end.

  (* one type: every key of the type is resolved against the same state s *)
  Definition stage_winners (s : astate) (conflicted : list event) (t : bytes) : list (tkey * event) :=
    flat_map (fun k => match candidates conflicted k with
                       | [] => []
                       | c :: newer => [(k, auth_winner s k c newer)]
                       end) (keys_where (is_auth_stage t) conflicted).

  Definition after_stage (s : astate) (w : list (tkey * event)) : astate :=
    fold_left (fun s kw => upd s (fst kw) (snd kw)) w s.

  Definition spec_resolve_v1 (conflicted auth_events : list event) : list event :=
    let s0 := state_of_list auth_events (fun _ => None) in
    let w1 := stage_winners s0 conflicted t_create in
    let s1 := after_stage s0 w1 in
    let w2 := stage_winners s1 conflicted t_power in
    let s2 := after_stage s1 w2 in
    let w3 := stage_winners s2 conflicted t_join_rules in
    let s3 := after_stage s2 w3 in
    let w4 := stage_winners s3 conflicted t_3pid in
    let s4 := after_stage s3 w4 in
    let w5 := stage_winners s4 conflicted t_member in
    let s5 := after_stage s4 w5 in
    let others := flat_map (fun k => match candidates conflicted k with
                                     | [] => []
                                     | oldest :: newer =>
                                         [match first_passing s5 (rev newer) with
                                          | Some e => e
                                          | None => oldest
                                          end]
                                     end)
                           (keys_where (fun e => match spec_auth_key e with Some _ => false | None => true end) conflicted) in
    map snd (w1 ++ w2 ++ w3 ++ w4 ++ w5) ++ others.

  (* the documented precondition: none of the auth events sits under a conflicted key *)
  Definition auth_events_unconflicted (conflicted auth_events : list event) : bool :=
    forallb (fun a => match spec_auth_key a with
                      | Some k => negb (existsb (fun c => match e_skey c with
                                                          | Some sk => tkey_eqb (e_type c, sk) k
                                                          | None => false
                                                          end) conflicted)
                      | None => true
                      end) auth_events.
End V1Spec.
