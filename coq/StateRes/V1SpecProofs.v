(* resolve_v1 (the model of ResolveStateConflicts, StateRes/V1.v) computes spec_resolve_v1
   (StateRes/V1Spec.v, DESIGN.md 6.2 r7 written per conflicted key). Part 1: the candidate
   order, one auth block, one normal block, the auth state. *)
From Coq Require Import Permutation Sorted Lia.
From Verif Require Import Lib.Bytes StateRes.Event StateRes.Kahn StateRes.V2 StateRes.V1 StateRes.V1Spec
     StateRes.SortProofs StateRes.CmpProofs StateRes.KahnProofs StateRes.ResultProofs StateRes.SplitProofs.
Local Open Scope nat_scope.

(* ---------- the candidate order ---------- *)
Lemma v1_older_lt a b : v1_older a b = true <-> v1_cmp a b = Lt.
Proof.
  unfold v1_older, v1_cmp, lex, cmp_Z, bytes_ltb.
  destruct (Z.ltb_spec (e_depth a) (e_depth b)) as [L|L].
  - apply Z.compare_lt_iff in L. rewrite L. tauto.
  - destruct (Z.ltb_spec (e_depth b) (e_depth a)) as [L2|L2].
    + assert (G : (e_depth a ?= e_depth b)%Z = Gt) by (apply Z.compare_gt_iff; exact L2). rewrite G. split; discriminate.
    + assert (E : (e_depth a ?= e_depth b)%Z = Eq) by (apply Z.compare_eq_iff; lia). rewrite E.
      destruct (bytes_cmp (e_sha1 b) (e_sha1 a)); split; congruence.
Qed.


Lemma perm_remove_id_ev (m : list event) (x : event) :
  NoDup (ids_of m) -> In x m ->
  Permutation m (x :: filter (fun y => negb (bytes_eqb (e_id y) (e_id x))) m).
Proof.
  induction m as [|y r IH]; simpl; intros ND Hin; [tauto|]. inversion ND; subst.
  destruct Hin as [->|Hin].
  - rewrite bytes_eqb_refl. simpl. constructor.
    rewrite forallb_filter_id; [reflexivity|]. apply forallb_forall. intros z Hz.
    apply negb_true_iff, bytes_eqb_neq. intro E. apply H1. rewrite <- E. apply in_map. exact Hz.
  - destruct (bytes_eqb (e_id y) (e_id x)) eqn:E.
    + apply bytes_eqb_eq in E. exfalso. apply H1. rewrite E. apply in_map. exact Hin.
    + simpl. rewrite perm_swap. constructor. apply IH; assumption.
Qed.

Section Order.
  Variable l0 : list event.
  Hypothesis ties : forall a b, In a l0 -> In b l0 -> v1_cmp a b = Eq -> a = b.

  Notation cle1 := (cle event v1_cmp).

  Lemma oldest_of_spec us : forall u,
    In (oldest_of u us) (u :: us) /\ forall y, In y (u :: us) -> cle1 (oldest_of u us) y.
  Proof.
    unfold oldest_of. induction us as [|x r IH]; intro u; simpl.
    - split; [auto|]. intros y [<-|[]]. unfold cle. pose proof (good_antisym _ _ v1_cmp_good u u) as A.
      destruct (v1_cmp u u); simpl in A; congruence.
    - destruct (IH (if v1_older x u then x else u)) as [I1 I2]. split.
      + destruct I1 as [I1|I1]; [|auto]. rewrite <- I1. destruct (v1_older x u); auto.
      + intros y Hy.
        assert (Hb : cle1 (fold_left (fun best y0 => if v1_older y0 best then y0 else best) r (if v1_older x u then x else u))
                          (if v1_older x u then x else u)) by (apply I2; left; reflexivity).
        destruct Hy as [<-|[<-|Hy]]; [| |apply I2; right; exact Hy].
        * eapply (good_le_trans _ _ v1_cmp_good); [exact Hb|].
          destruct (v1_older x u) eqn:E; [apply v1_older_lt in E; unfold cle; rewrite E; discriminate|].
          unfold cle. pose proof (good_antisym _ _ v1_cmp_good u u) as A. destruct (v1_cmp u u); simpl in A; congruence.
        * eapply (good_le_trans _ _ v1_cmp_good); [exact Hb|].
          destruct (v1_older x u) eqn:E.
          -- unfold cle. pose proof (good_antisym _ _ v1_cmp_good x x) as A. destruct (v1_cmp x x); simpl in A; congruence.
          -- unfold cle. rewrite (good_antisym _ _ v1_cmp_good x u).
             destruct (v1_cmp x u) eqn:C; simpl; try discriminate.
             apply v1_older_lt in C. congruence.
  Qed.

  Lemma oldest_first_sorted fuel : forall l,
    (forall x, In x l -> In x l0) -> NoDup (ids_of l) -> length l <= fuel ->
    Permutation (oldest_first fuel l) l /\ StronglySorted cle1 (oldest_first fuel l).
  Proof.
    induction fuel as [|f IH]; intros l Hsub ND L.
    - destruct l; [simpl; split; constructor|simpl in L; lia].
    - destruct l as [|u us]; [simpl; split; constructor|].
      change (oldest_first (S f) (u :: us)) with
        (oldest_of u us :: oldest_first f (filter (fun y => negb (bytes_eqb (e_id y) (e_id (oldest_of u us)))) (u :: us))).
      set (m := oldest_of u us).
      destruct (oldest_of_spec us u) as [Hin Hmin]. fold m in Hin, Hmin.
      set (rest := filter (fun y => negb (bytes_eqb (e_id y) (e_id m))) (u :: us)).
      assert (Prest : Permutation (u :: us) (m :: rest)).
      { apply (perm_remove_id_ev (u :: us) m ND Hin). }
      destruct (IH rest) as [P S].
      { intros x Hx. apply Hsub. apply filter_In in Hx. tauto. }
      { apply NoDup_map_filter. exact ND. }
      { apply Permutation_length in Prest. simpl in *. lia. }
      split.
      + rewrite P. symmetry. exact Prest.
      + constructor; [exact S|]. apply Forall_forall. intros y Hy.
        apply Hmin. apply (Permutation_in _ P) in Hy. apply filter_In in Hy. tauto.
  Qed.

  Lemma ssort_is_oldest_first l :
    (forall x, In x l -> In x l0) -> NoDup (ids_of l) ->
    ssort v1_cmp l = oldest_first (length l) l.
  Proof.
    intros Hsub ND. destruct (oldest_first_sorted (length l) l Hsub ND (le_n _)) as [P S].
    apply sorted_perm_unique with (cmp := v1_cmp).
    - apply (good_antisym _ _ v1_cmp_good).
    - intros a b Ha Hb. apply ties; apply Hsub; apply (ssort_In _ v1_cmp); assumption.
    - apply ssort_sorted; [apply (good_antisym _ _ v1_cmp_good)|apply (good_le_trans _ _ v1_cmp_good)].
    - exact S.
    - rewrite ssort_perm. symmetry. exact P.
  Qed.
End Order.

(* ---------- the auth state: association list (model) against function (spec) ---------- *)
Definition st_agree (m : smap) (s : astate) : Prop := forall k, smap_get m k = s k.

Lemma auth_key_spec e : auth_key (e_type e) (e_skey e) = spec_auth_key e.
Proof.
  unfold auth_key, spec_auth_key. destruct (e_skey e) as [k|]; [|reflexivity].
  destruct (_ || _ || _); [destruct k; reflexivity|reflexivity].
Qed.

Lemma smap_get_remove_same m k : smap_get (smap_remove m k) k = None.
Proof.
  induction m as [|[k0 e0] r IH]; simpl; [reflexivity|].
  destruct (tkey_eqb k0 k) eqn:E; [exact IH|]. simpl. rewrite E. exact IH.
Qed.

Lemma smap_get_remove_other m k k' : k' <> k -> smap_get (smap_remove m k) k' = smap_get m k'.
Proof.
  intro N. induction m as [|[k0 e0] r IH]; simpl; [reflexivity|].
  destruct (tkey_eqb k0 k) eqn:E.
  - apply tkey_eqb_eq in E. subst. rewrite tkey_eqb_neq; [exact IH|congruence].
  - simpl. destruct (tkey_eqb k0 k'); [reflexivity|exact IH].
Qed.

Lemma agree_add m s e k : st_agree m s -> spec_auth_key e = Some k -> st_agree (add_auth_event m e) (upd s k e).
Proof.
  intros A K k'. unfold add_auth_event, upd. rewrite auth_key_spec, K.
  destruct (tkey_eqb k' k) eqn:E.
  - apply tkey_eqb_eq in E. subst. apply smap_get_set_same.
  - rewrite smap_get_set_other; [apply A|]. intro; subst. rewrite tkey_eqb_refl in E. discriminate.
Qed.

Lemma agree_add_none m e : spec_auth_key e = None -> add_auth_event m e = m.
Proof. intro K. unfold add_auth_event. rewrite auth_key_spec, K. reflexivity. Qed.

Lemma agree_remove m s e k :
  st_agree m s -> spec_auth_key e = Some k ->
  st_agree (remove_auth_event m e) (fun k' => if tkey_eqb k' k then None else s k').
Proof.
  intros A K k'. unfold remove_auth_event. rewrite auth_key_spec, K.
  destruct (tkey_eqb k' k) eqn:E.
  - apply tkey_eqb_eq in E. subst. apply smap_get_remove_same.
  - rewrite smap_get_remove_other; [apply A|]. intro; subst. rewrite tkey_eqb_refl in E. discriminate.
Qed.

Lemma opt_list_same {A} (o : option A) : opt_list o = opt_to_list o.
Proof. destruct o; reflexivity. Qed.

Lemma provider_agree m s e : st_agree m s -> v1_provider m e = spec_auth_events s e.
Proof.
  intro A. unfold v1_provider, spec_auth_events. rewrite !A, !opt_list_same, !flat_map_concat_map.
  f_equal. f_equal. f_equal. f_equal.
  - f_equal. apply map_ext. intro u. rewrite A, opt_list_same. reflexivity.
  - f_equal. apply map_ext. intro u. rewrite A, opt_list_same. reflexivity.
Qed.

Lemma agree_state_of_list l : forall m s, st_agree m s -> st_agree (fold_left add_auth_event l m) (state_of_list l s).
Proof.
  induction l as [|e r IH]; intros m s A; simpl; [exact A|]. apply IH.
  destruct (spec_auth_key e) as [k|] eqn:K; [apply agree_add; assumption|rewrite agree_add_none; assumption].
Qed.

(* every entry sits under its own key *)
Definition keyed (s : astate) : Prop := forall k p, s k = Some p -> spec_auth_key p = Some k.

Lemma keyed_upd s k e : keyed s -> spec_auth_key e = Some k -> keyed (upd s k e).
Proof.
  intros K E k' p. unfold upd. destruct (tkey_eqb k' k) eqn:T; [|apply K].
  apply tkey_eqb_eq in T. subst. intro H. inversion H; subst. exact E.
Qed.

Lemma keyed_state_of_list l : forall s, keyed s -> keyed (state_of_list l s).
Proof.
  induction l as [|e r IH]; intros s K; simpl; [exact K|]. apply IH.
  destruct (spec_auth_key e) as [k|] eqn:E; [apply keyed_upd; assumption|exact K].
Qed.

Section Walks.
  Variable allowed : event -> list event -> bool.

  (* ---------- one auth block ---------- *)
  Lemma auth_block_walk_is_spec s k rest : forall cand st,
    st_agree (v_auth st) (upd s k cand) ->
    (forall e, In e rest -> spec_auth_key e = Some k) ->
    let r := auth_block_walk allowed rest cand st in
    fst r = auth_winner allowed s k cand rest /\
    st_agree (v_auth (snd r)) (upd s k (fst r)) /\ v_result (snd r) = v_result st.
  Proof.
    induction rest as [|e r IH]; intros cand st A K; simpl; [auto|].
    rewrite (provider_agree _ _ e A).
    destruct (allowed e (spec_auth_events (upd s k cand) e)); simpl; [|auto].
    destruct (IH e (mkV1 (add_auth_event (v_auth st) e) (v_result st)
                         (v_log st ++ [(e_id e, ids_of (spec_auth_events (upd s k cand) e))]))) as [H1 [H2 H3]].
    - simpl. intro k'. pose proof (agree_add _ _ e k A (K e (or_introl eq_refl)) k') as H.
      rewrite H. unfold upd. destruct (tkey_eqb k' k); reflexivity.
    - intros; apply K; right; assumption.
    - split; [exact H1|]. split; [exact H2|exact H3].
  Qed.

  Lemma resolve_auth_block_is_spec s k block st first rest :
    st_agree (v_auth st) s -> keyed s ->
    ssort v1_cmp block = first :: rest ->
    (forall e, In e block -> spec_auth_key e = Some k) ->
    let r := resolve_auth_block allowed block st in
    fst r = Some (auth_winner allowed s k first rest) /\
    st_agree (v_auth (snd r)) s /\ v_result (snd r) = v_result st.
  Proof.
    intros A Hkeyed E K. unfold resolve_auth_block. rewrite E.
    assert (Kall : forall e, In e (first :: rest) -> spec_auth_key e = Some k).
    { intros e He. apply K. apply (ssort_In _ v1_cmp). rewrite E. exact He. }
    assert (Kf : auth_key (e_type first) (e_skey first) = Some k).
    { rewrite auth_key_spec. apply Kall. left. reflexivity. }
    rewrite Kf.
    destruct (auth_block_walk_is_spec s k rest first
                (mkV1 (add_auth_event (v_auth st) first) (v_result st) (v_log st))) as [W [A2 R]].
    { simpl. apply agree_add; [exact A|apply Kall; left; reflexivity]. }
    { intros; apply Kall; right; assumption. }
    cbv zeta. cbn [fst snd v_result].
    split; [rewrite W; reflexivity|]. split; [|exact R].
    assert (Kw : spec_auth_key (fst (auth_block_walk allowed rest first
                  (mkV1 (add_auth_event (v_auth st) first) (v_result st) (v_log st)))) = Some k).
    { rewrite W. clear -Kall. revert first Kall. induction rest as [|e r IH]; intros first Kall; simpl.
      - apply Kall. left. reflexivity.
      - destruct (allowed e _).
        + apply IH. intros x [<-|Hx]; apply Kall; [right; left; reflexivity|right; right; exact Hx].
        + apply Kall. left. reflexivity. }
    pose proof (agree_remove _ _ _ k A2 Kw) as Arm.
    cbn [v_auth]. rewrite (A k). destruct (s k) as [p|] eqn:Esk.
    - intro k'. rewrite (agree_add _ _ p k Arm (Hkeyed k p Esk) k'). unfold upd.
      destruct (tkey_eqb k' k) eqn:E'; [apply tkey_eqb_eq in E'; subst; symmetry; exact Esk|reflexivity].
    - intro k'. rewrite (Arm k'). unfold upd.
      destruct (tkey_eqb k' k) eqn:E'; [apply tkey_eqb_eq in E'; subst; symmetry; exact Esk|reflexivity].
  Qed.

  (* ---------- one normal block ---------- *)
  Lemma normal_block_walk_is_spec s l : forall oldest st,
    st_agree (v_auth st) s ->
    let r := normal_block_walk allowed l oldest st in
    fst r = match first_passing allowed s l with Some e => e | None => oldest end /\
    v_auth (snd r) = v_auth st /\ v_result (snd r) = v_result st.
  Proof.
    induction l as [|e r IH]; intros oldest st A; simpl; [auto|].
    rewrite (provider_agree _ _ e A). destruct (allowed e (spec_auth_events s e)); simpl; [auto|].
    destruct (IH oldest (mkV1 (v_auth st) (v_result st) (v_log st ++ [(e_id e, ids_of (spec_auth_events s e))])) A) as [H1 [H2 H3]].
    split; [exact H1|]. split; [exact H2|exact H3].
  Qed.
End Walks.

(* ====================================================================================
   Part 2: the blocks addConflicted builds are, per class of key, the keys in first-seen
   order with the events of each key.
   ==================================================================================== *)
Definition cls (e : event) : nat :=
  match e_skey e with
  | None => 9
  | Some sk =>
      if bytes_eqb (e_type e) t_create && bytes_eqb sk [] then 0
      else if bytes_eqb (e_type e) t_power && bytes_eqb sk [] then 1
      else if bytes_eqb (e_type e) t_join_rules && bytes_eqb sk [] then 2
      else if bytes_eqb (e_type e) t_member then 4
      else if bytes_eqb (e_type e) t_3pid then 3
      else 5
  end.

Definition in_cls (c : nat) (e : event) : bool := Nat.eqb (cls e) c.

Lemma block_add_is_group_add g k e : block_add g k e = group_add g k e.
Proof. induction g as [|[k0 l0] r IH]; simpl; [reflexivity|]. rewrite IH. reflexivity. Qed.

Definition addif (c : nat) (g : blocks) (e : event) : blocks :=
  if in_cls c e then group_step g e else g.

Lemma add_conflicted_fold l : forall b,
  fold_left add_conflicted_one l b =
  mkB (b_creates b ++ filter (in_cls 0) l) (b_powers b ++ filter (in_cls 1) l) (b_jrs b ++ filter (in_cls 2) l)
      (fold_left (addif 3) l (b_3pids b)) (fold_left (addif 4) l (b_members b)) (fold_left (addif 5) l (b_others b)).
Proof.
  induction l as [|e r IH]; intro b; simpl.
  - rewrite !app_nil_r. destruct b; reflexivity.
  - rewrite IH. unfold add_conflicted_one, addif, in_cls, cls, group_step, event_tkey.
    destruct (e_skey e) as [sk|]; simpl; [|reflexivity].
    destruct (bytes_eqb (e_type e) t_create && bytes_eqb sk []); simpl; [rewrite <- app_assoc; reflexivity|].
    destruct (bytes_eqb (e_type e) t_power && bytes_eqb sk []); simpl; [rewrite <- app_assoc; reflexivity|].
    destruct (bytes_eqb (e_type e) t_join_rules && bytes_eqb sk []); simpl; [rewrite <- app_assoc; reflexivity|].
    destruct (bytes_eqb (e_type e) t_member); simpl; [rewrite block_add_is_group_add; reflexivity|].
    destruct (bytes_eqb (e_type e) t_3pid); simpl; rewrite block_add_is_group_add; reflexivity.
Qed.

Lemma addif_filter c l : forall g, fold_left (addif c) l g = fold_left group_step (filter (in_cls c) l) g.
Proof.
  induction l as [|e r IH]; intro g; simpl; [reflexivity|]. unfold addif at 2.
  destruct (in_cls c e); simpl; apply IH.
Qed.

(* the keys of a list in first-seen order *)
Definition key_step (acc : list tkey) (e : event) : list tkey :=
  match event_tkey e with
  | Some k => if existsb (tkey_eqb k) acc then acc else acc ++ [k]
  | None => acc
  end.
Definition keys_of (l : list event) : list tkey := fold_left key_step l [].

Lemma tkey_eqb_sym a b : tkey_eqb a b = tkey_eqb b a.
Proof.
  destruct (tkey_eqb a b) eqn:E.
  - apply tkey_eqb_eq in E. subst. symmetry. apply tkey_eqb_refl.
  - symmetry. apply tkey_eqb_neq. intro; subst. rewrite tkey_eqb_refl in E. discriminate.
Qed.

Lemma group_add_keys g k e :
  map fst (group_add g k e) = if existsb (tkey_eqb k) (map fst g) then map fst g else map fst g ++ [k].
Proof.
  induction g as [|[k0 l0] r IH]; simpl; [reflexivity|].
  rewrite (tkey_eqb_sym k k0). destruct (tkey_eqb k0 k); simpl; [reflexivity|].
  rewrite IH. destruct (existsb (tkey_eqb k) (map fst r)); reflexivity.
Qed.

Lemma group_fold_keys l : forall g, map fst (fold_left group_step l g) = fold_left key_step l (map fst g).
Proof.
  induction l as [|e r IH]; intro g; simpl; [reflexivity|]. rewrite IH. f_equal.
  unfold group_step, key_step. destruct (event_tkey e); [apply group_add_keys|reflexivity].
Qed.

Lemma keys_where_filter p l : forall acc,
  fold_left (fun acc e => match e_skey e with
                          | Some sk => if p e && negb (existsb (tkey_eqb (e_type e, sk)) acc)
                                       then acc ++ [(e_type e, sk)] else acc
                          | None => acc
                          end) l acc
  = fold_left key_step (filter p l) acc.
Proof.
  induction l as [|e r IH]; intro acc; simpl; [reflexivity|].
  destruct (p e) eqn:P; simpl.
  - rewrite IH. f_equal. unfold key_step, event_tkey. destruct (e_skey e); [|reflexivity].
    destruct (existsb _ acc); reflexivity.
  - rewrite <- IH. f_equal. destruct (e_skey e); reflexivity.
Qed.

Lemma keys_where_is p l : keys_where p l = keys_of (filter p l).
Proof. apply keys_where_filter. Qed.

Lemma groups_shape (g : groups) (F : tkey -> list event) :
  (forall k evs, In (k, evs) g -> evs = F k) -> g = map (fun k => (k, F k)) (map fst g).
Proof.
  induction g as [|[k evs] r IH]; intro H; simpl; [reflexivity|].
  rewrite (H k evs (or_introl eq_refl)). f_equal. apply IH. intros; apply H; right; assumption.
Qed.

(* the blocks of one class *)
Lemma class_blocks c l :
  fold_left (addif c) l [] = map (fun k => (k, grp k (filter (in_cls c) l))) (keys_of (filter (in_cls c) l))
  /\ forall k, In k (keys_of (filter (in_cls c) l)) -> grp k (filter (in_cls c) l) <> [].
Proof.
  rewrite addif_filter. set (l' := filter (in_cls c) l).
  pose proof (group_fold_inv l' [] []) as G. simpl in G.
  destruct G as [ND Hg]; [split; [constructor|intro; reflexivity]|].
  assert (Hk : map fst (fold_left group_step l' []) = keys_of l') by (apply (group_fold_keys l' [])).
  assert (Hin : forall k evs, In (k, evs) (fold_left group_step l' []) -> evs = grp k l' /\ evs <> []).
  { intros k evs H. apply (gget_in _ _ _ ND) in H. rewrite Hg in H.
    destruct (grp k l') eqn:E; simpl in H; [discriminate|]. inversion H. split; [reflexivity|discriminate]. }
  split.
  - rewrite <- Hk. apply groups_shape. intros k evs H. apply Hin in H. tauto.
  - intros k Hkin. rewrite <- Hk in Hkin. apply in_map_iff in Hkin as [[k' evs] [<- H]].
    destruct (Hin _ _ H) as [-> N]. exact N.
Qed.

(* ---------- the classes against the specification's predicates ---------- *)
Lemma types_distinct :
  bytes_eqb t_create t_power = false /\ bytes_eqb t_create t_join_rules = false /\
  bytes_eqb t_create t_member = false /\ bytes_eqb t_create t_3pid = false /\
  bytes_eqb t_power t_create = false /\ bytes_eqb t_power t_join_rules = false /\
  bytes_eqb t_power t_member = false /\ bytes_eqb t_power t_3pid = false /\
  bytes_eqb t_join_rules t_create = false /\ bytes_eqb t_join_rules t_power = false /\
  bytes_eqb t_join_rules t_member = false /\ bytes_eqb t_join_rules t_3pid = false /\
  bytes_eqb t_member t_create = false /\ bytes_eqb t_member t_power = false /\
  bytes_eqb t_member t_join_rules = false /\ bytes_eqb t_member t_3pid = false /\
  bytes_eqb t_3pid t_create = false /\ bytes_eqb t_3pid t_power = false /\
  bytes_eqb t_3pid t_join_rules = false /\ bytes_eqb t_3pid t_member = false.
Proof. vm_compute. repeat split; reflexivity. Qed.

Ltac by_type e :=
  let E := fresh "E" in
  pose proof types_distinct as TD; decompose [and] TD; clear TD;
  destruct (bytes_eqb (e_type e) t_create) eqn:E;
  [apply bytes_eqb_eq in E; rewrite E in *|
   let E2 := fresh "E" in destruct (bytes_eqb (e_type e) t_power) eqn:E2;
   [apply bytes_eqb_eq in E2; rewrite E2 in *|
    let E3 := fresh "E" in destruct (bytes_eqb (e_type e) t_join_rules) eqn:E3;
    [apply bytes_eqb_eq in E3; rewrite E3 in *|
     let E4 := fresh "E" in destruct (bytes_eqb (e_type e) t_member) eqn:E4;
     [apply bytes_eqb_eq in E4; rewrite E4 in *|
      let E5 := fresh "E" in destruct (bytes_eqb (e_type e) t_3pid) eqn:E5;
      [apply bytes_eqb_eq in E5; rewrite E5 in *|]]]]];
  repeat match goal with H : bytes_eqb _ _ = false |- _ => rewrite ?H; clear H end.

Lemma stage_is_class e :
  is_auth_stage t_create e = in_cls 0 e /\ is_auth_stage t_power e = in_cls 1 e /\
  is_auth_stage t_join_rules e = in_cls 2 e /\ is_auth_stage t_3pid e = in_cls 3 e /\
  is_auth_stage t_member e = in_cls 4 e.
Proof.
  unfold is_auth_stage, in_cls, cls, spec_auth_key. destruct (e_skey e) as [sk|].
  - by_type e; rewrite ?bytes_eqb_refl; simpl; destruct sk; simpl; repeat split; reflexivity.
  - rewrite !andb_false_r. repeat split; reflexivity.
Qed.

Lemma other_is_class e : e_skey e <> None ->
  match spec_auth_key e with Some _ => false | None => true end = in_cls 5 e.
Proof.
  intro H. unfold in_cls, cls, spec_auth_key. destruct (e_skey e) as [sk|]; [|contradiction].
  by_type e; rewrite ?bytes_eqb_refl; simpl; destruct sk; simpl; reflexivity.
Qed.

Lemma class_auth_key e : cls e < 5 -> spec_auth_key e = event_tkey e.
Proof.
  unfold cls, spec_auth_key, event_tkey. destruct (e_skey e) as [sk|]; [|simpl; lia].
  by_type e; rewrite ?bytes_eqb_refl; simpl; destruct sk; simpl; intro; try reflexivity; lia.
Qed.

Lemma cls_of_key e e' k : event_tkey e = Some k -> event_tkey e' = Some k -> cls e = cls e'.
Proof.
  unfold event_tkey, cls. destruct (e_skey e) as [sk|]; [|discriminate]. destruct (e_skey e') as [sk'|]; [|discriminate].
  intros H1 H2. rewrite <- H2 in H1. inversion H1 as [[Ht Hs]]. rewrite Ht. reflexivity.
Qed.

(* ====================================================================================
   Part 3: one stage (all blocks of one auth type), then the composition.
   ==================================================================================== *)
Definition rab_step (allowed : event -> list event -> bool) (acc : list event * v1state) (block : list event)
  : list event * v1state :=
  match block with
  | [] => acc
  | _ :: _ => let r := resolve_auth_block allowed block (snd acc) in (fst acc ++ opt_list (fst r), snd r)
  end.

Lemma rab_unfold allowed bl st :
  resolve_and_add_auth_blocks allowed bl st =
  let rs := fold_left (rab_step allowed) bl ([], st) in
  mkV1 (fold_left add_auth_event (fst rs) (v_auth (snd rs))) (v_result (snd rs) ++ fst rs) (v_log (snd rs)).
Proof. reflexivity. Qed.

Lemma keys_of_in l : forall acc k,
  In k (fold_left key_step l acc) -> In k acc \/ exists e, In e l /\ event_tkey e = Some k.
Proof.
  induction l as [|x r IH]; intros acc k H; simpl in *; [auto|].
  destruct (IH _ _ H) as [H1|[e [He Ek]]]; [|right; exists e; auto].
  unfold key_step in H1. destruct (event_tkey x) as [kx|] eqn:Ex; [|auto].
  destruct (existsb (tkey_eqb kx) acc); [auto|].
  apply in_app_or in H1 as [H1|[<-|[]]]; [auto|]. right. exists x. auto.
Qed.

Lemma agree_fold W : forall m s,
  st_agree m s -> (forall k w, In (k, w) W -> spec_auth_key w = Some k) ->
  st_agree (fold_left add_auth_event (map snd W) m) (after_stage s W).
Proof.
  unfold after_stage. induction W as [|[k w] r IH]; intros m s A K; simpl; [exact A|].
  apply IH; [apply agree_add; [exact A|apply K; left; reflexivity]|]. intros; apply K; right; assumption.
Qed.

Section Stage.
  Variable allowed : event -> list event -> bool.
  Variable conflicted : list event.
  Hypothesis ND : NoDup (ids_of conflicted).
  Hypothesis ties : forall a b, In a conflicted -> In b conflicted -> v1_cmp a b = Eq -> a = b.

  Definition key_filter (k : tkey) : list event :=
    filter (fun e => match e_skey e with Some sk => tkey_eqb (e_type e, sk) k | None => false end) conflicted.

  Lemma candidates_unfold k : candidates conflicted k = oldest_first (length (key_filter k)) (key_filter k).
  Proof. reflexivity. Qed.

  Lemma grp_is_key_filter k l : grp k l = filter (fun e => match e_skey e with Some sk => tkey_eqb (e_type e, sk) k | None => false end) l.
  Proof. unfold grp. apply filter_ext. intro e. unfold has_key, event_tkey. destruct (e_skey e); reflexivity. Qed.

  Lemma grp_class c k :
    In k (keys_of (filter (in_cls c) conflicted)) -> grp k (filter (in_cls c) conflicted) = key_filter k.
  Proof.
    intro Hk. unfold keys_of in Hk. apply keys_of_in in Hk as [[]|[e0 [He0 Ek0]]].
    apply filter_In in He0 as [_ Hc0]. unfold key_filter. rewrite <- grp_is_key_filter. unfold grp.
    apply filter_filter_absorb. intros y _ Hy.
    destruct (has_key k y) eqn:Hk; [|reflexivity]. apply has_key_iff in Hk.
    unfold in_cls in *. rewrite (cls_of_key y e0 k Hk Ek0) in Hy. congruence.
  Qed.

  Lemma sorted_block c k :
    In k (keys_of (filter (in_cls c) conflicted)) ->
    ssort v1_cmp (grp k (filter (in_cls c) conflicted)) = candidates conflicted k.
  Proof.
    intro Hk. rewrite (grp_class c k Hk), candidates_unfold.
    apply (ssort_is_oldest_first conflicted ties).
    - intros x Hx. apply filter_In in Hx. tauto.
    - apply NoDup_map_filter. exact ND.
  Qed.

  Lemma block_keys c k e : c < 5 -> In e (grp k (filter (in_cls c) conflicted)) -> spec_auth_key e = Some k.
  Proof.
    intros Hc He. apply filter_In in He as [He Hk]. apply filter_In in He as [_ Hcl].
    apply has_key_iff in Hk. rewrite class_auth_key; [exact Hk|]. unfold in_cls in Hcl. apply Nat.eqb_eq in Hcl. lia.
  Qed.

  Definition winners_of (s : astate) (ks : list tkey) : list (tkey * event) :=
    flat_map (fun k => match candidates conflicted k with
                       | [] => []
                       | c :: newer => [(k, auth_winner allowed s k c newer)]
                       end) ks.

  Lemma auth_winner_in s k newer : forall c, In (auth_winner allowed s k c newer) (c :: newer).
  Proof.
    induction newer as [|e r IH]; intro c; simpl; [auto|].
    destruct (allowed e _); [destruct (IH e); auto|auto].
  Qed.

  Lemma stage_blocks c s : c < 5 -> keyed s -> forall ks acc st,
    (forall k, In k ks -> In k (keys_of (filter (in_cls c) conflicted))) ->
    st_agree (v_auth st) s ->
    let r := fold_left (rab_step allowed) (map (fun k => grp k (filter (in_cls c) conflicted)) ks) (acc, st) in
    fst r = acc ++ map snd (winners_of s ks) /\ st_agree (v_auth (snd r)) s /\ v_result (snd r) = v_result st.
  Proof.
    intros Hc Hkeyed. induction ks as [|k ks IH]; intros acc st Hks A; simpl.
    - rewrite app_nil_r. auto.
    - assert (Hk : In k (keys_of (filter (in_cls c) conflicted))) by (apply Hks; left; reflexivity).
      pose proof (sorted_block c k Hk) as Hs.
      destruct (class_blocks c conflicted) as [_ Hne]. specialize (Hne k Hk).
      destruct (grp k (filter (in_cls c) conflicted)) as [|b0 b'] eqn:Eb; [contradiction|].
      destruct (candidates conflicted k) as [|c0 newer] eqn:Ec.
      { exfalso. assert (P : Permutation (ssort v1_cmp (b0 :: b')) (b0 :: b')) by apply ssort_perm.
        rewrite Hs in P. apply Permutation_nil in P. discriminate. }
      unfold rab_step at 2. simpl snd.
      destruct (resolve_auth_block_is_spec allowed s k (b0 :: b') st c0 newer A Hkeyed) as [W [A2 R]].
      { exact Hs. }
      { intros e He. apply (block_keys c k e Hc). rewrite Eb. exact He. }
      rewrite W. simpl opt_list. simpl fst.
      destruct (IH (acc ++ [auth_winner allowed s k c0 newer]) (snd (resolve_auth_block allowed (b0 :: b') st))) as [I1 [I2 I3]].
      { intros; apply Hks; right; assumption. }
      { exact A2. }
      split; [|split; [exact I2|congruence]].
      rewrite I1. simpl. rewrite <- app_assoc. reflexivity.
  Qed.

  Lemma winners_keys c s ks :
    c < 5 -> (forall k, In k ks -> In k (keys_of (filter (in_cls c) conflicted))) ->
    forall k w, In (k, w) (winners_of s ks) -> spec_auth_key w = Some k.
  Proof.
    intros Hc Hks k w H. unfold winners_of in H. apply in_flat_map in H as [k' [Hk' H]].
    destruct (candidates conflicted k') as [|c0 newer] eqn:Ec; [contradiction|]. destruct H as [H|[]]. inversion H; subst.
    apply (block_keys c k). { exact Hc. }
    assert (Hin : In (auth_winner allowed s k c0 newer) (candidates conflicted k)) by (rewrite Ec; apply auth_winner_in).
    rewrite <- (sorted_block c k (Hks k Hk')) in Hin. apply (ssort_In _ v1_cmp). exact Hin.
  Qed.

  (* a whole stage of the model: the blocks of class c *)
  Lemma stage_total c s st :
    c < 5 -> st_agree (v_auth st) s -> keyed s ->
    let W := winners_of s (keys_of (filter (in_cls c) conflicted)) in
    let st' := resolve_and_add_auth_blocks allowed (map snd (fold_left (addif c) conflicted [])) st in
    v_result st' = v_result st ++ map snd W /\ st_agree (v_auth st') (after_stage s W).
  Proof.
    intros Hc A Hkeyed W st'. unfold st'. rewrite rab_unfold.
    destruct (class_blocks c conflicted) as [Hb _]. rewrite Hb, map_map. simpl.
    destruct (stage_blocks c s Hc Hkeyed (keys_of (filter (in_cls c) conflicted)) [] st (fun k H => H) A) as [I1 [I2 I3]].
    simpl in I1. cbv zeta. rewrite I1, I3. split; [reflexivity|].
    apply agree_fold; [exact I2|]. apply (winners_keys c s _ Hc (fun k H => H)).
  Qed.
End Stage.

(* ---------- the single-key classes (create, power levels, join rules) ---------- *)
Definition class_key (c : nat) : tkey :=
  match c with 0 => (t_create, []) | 1 => (t_power, []) | _ => (t_join_rules, []) end.

Lemma class_key_of c e : c < 3 -> in_cls c e = true -> event_tkey e = Some (class_key c).
Proof.
  unfold in_cls, cls, event_tkey, class_key. intro Hc. destruct (e_skey e) as [sk|]; [|intro H; apply Nat.eqb_eq in H; lia].
  by_type e; rewrite ?bytes_eqb_refl; simpl; destruct sk; simpl;
    destruct c as [|[|[|c]]]; simpl; try discriminate; try lia; try reflexivity; congruence.
Qed.

Lemma key_step_const k l : (forall e, In e l -> event_tkey e = Some k) -> fold_left key_step l [k] = [k].
Proof.
  induction l as [|x r IH]; intro H; simpl; [reflexivity|].
  unfold key_step at 2. rewrite (H x (or_introl eq_refl)). simpl. rewrite tkey_eqb_refl. simpl.
  apply IH. intros; apply H; right; assumption.
Qed.

Lemma single_block c l :
  c < 3 ->
  map snd (fold_left (addif c) l []) = match filter (in_cls c) l with [] => [] | _ :: _ => [filter (in_cls c) l] end.
Proof.
  intro Hc. destruct (class_blocks c l) as [Hb _]. rewrite Hb, map_map. simpl.
  set (l' := filter (in_cls c) l).
  assert (Hk : forall e, In e l' -> event_tkey e = Some (class_key c)).
  { intros e He. apply filter_In in He as [_ He]. apply class_key_of; assumption. }
  destruct l' as [|x r] eqn:El; [reflexivity|].
  assert (G : grp (class_key c) (x :: r) = x :: r).
  { unfold grp. apply forallb_filter_id. apply forallb_forall. intros e He. apply has_key_iff. apply Hk. exact He. }
  assert (Kk : keys_of (x :: r) = [class_key c]).
  { unfold keys_of. simpl. unfold key_step at 2. rewrite (Hk x (or_introl eq_refl)). simpl.
    apply key_step_const. intros; apply Hk; right; assumption. }
  rewrite Kk. cbn [map]. rewrite G. reflexivity.
Qed.

Lemma rab_single allowed blk st :
  resolve_and_add_auth_blocks allowed [blk] st
  = resolve_and_add_auth_blocks allowed (match blk with [] => [] | _ :: _ => [blk] end) st.
Proof. destruct blk; reflexivity. Qed.

(* ---------- the other keys ---------- *)
Section Others.
  Variable allowed : event -> list event -> bool.
  Variable conflicted : list event.
  Hypothesis ND : NoDup (ids_of conflicted).
  Hypothesis ties : forall a b, In a conflicted -> In b conflicted -> v1_cmp a b = Eq -> a = b.

  Definition other_winners (s : astate) (ks : list tkey) : list event :=
    flat_map (fun k => match candidates conflicted k with
                       | [] => []
                       | oldest :: newer => [match first_passing allowed s (rev newer) with Some e => e | None => oldest end]
                       end) ks.

  Lemma others_blocks c s : forall ks st,
    (forall k, In k ks -> In k (keys_of (filter (in_cls c) conflicted))) ->
    st_agree (v_auth st) s ->
    v_result (fold_left (fun (s0 : v1state) (bl : tkey * list event) => resolve_normal_block allowed (snd bl) s0)
                        (map (fun k => (k, grp k (filter (in_cls c) conflicted))) ks) st)
    = v_result st ++ other_winners s ks.
  Proof.
    induction ks as [|k ks IH]; intros st Hks A; simpl; [rewrite app_nil_r; reflexivity|].
    assert (Hk : In k (keys_of (filter (in_cls c) conflicted))) by (apply Hks; left; reflexivity).
    pose proof (sorted_block allowed conflicted ND ties c k Hk) as Hs.
    unfold resolve_normal_block at 2. simpl snd. rewrite Hs.
    unfold other_winners. cbn [flat_map]. fold (other_winners s ks).
    destruct (candidates conflicted k) as [|oldest newer] eqn:Ec.
    - cbn [app]. apply IH; [intros; apply Hks; right; assumption|exact A].
    - destruct (normal_block_walk_is_spec allowed s (rev newer) oldest st A) as [W [A2 R]].
      rewrite IH.
      + cbn [v_result]. rewrite R, W, <- app_assoc. reflexivity.
      + intros; apply Hks; right; assumption.
      + cbn [v_auth]. rewrite A2. exact A.
  Qed.
End Others.

Lemma keyed_after_stage W : forall s, keyed s -> (forall k w, In (k, w) W -> spec_auth_key w = Some k) -> keyed (after_stage s W).
Proof.
  unfold after_stage. induction W as [|[k w] r IH]; intros s K H; simpl; [exact K|].
  apply IH; [apply keyed_upd; [exact K|apply H; left; reflexivity]|intros; apply H; right; assumption].
Qed.

Section Compose.
  Variable allowed : event -> list event -> bool.
  Variable conflicted auth_events : list event.
  Hypothesis ND : NoDup (ids_of conflicted).
  Hypothesis ties : forall a b, In a conflicted -> In b conflicted -> v1_cmp a b = Eq -> a = b.
  Hypothesis state_events : forall e, In e conflicted -> e_skey e <> None.

  Notation Kc c := (keys_of (filter (in_cls c) conflicted)).
  Notation Wc s c := (winners_of allowed conflicted s (Kc c)).

  Lemma keyed_next c s : c < 5 -> keyed s -> keyed (after_stage s (Wc s c)).
  Proof.
    intros Hc K. apply keyed_after_stage; [exact K|]. apply (winners_keys allowed conflicted ND ties c s _ Hc (fun k H => H)).
  Qed.

  Lemma stage_winners_is s c t :
    (forall e, is_auth_stage t e = in_cls c e) -> stage_winners allowed s conflicted t = Wc s c.
  Proof.
    intro H. unfold stage_winners, winners_of. rewrite keys_where_is. rewrite (filter_ext _ _ H). reflexivity.
  Qed.

  Theorem resolve_v1_is_spec :
    v_result (resolve_v1 allowed conflicted auth_events) = spec_resolve_v1 allowed conflicted auth_events.
  Proof.
    unfold resolve_v1, add_conflicted. rewrite add_conflicted_fold. simpl.
    set (st0 := mkV1 (fold_left add_auth_event auth_events []) [] []).
    set (s0 := state_of_list auth_events (fun _ => None)).
    assert (A0 : st_agree (v_auth st0) s0).
    { unfold st0, s0. simpl. apply agree_state_of_list. intro k. reflexivity. }
    assert (K0 : keyed s0) by (apply keyed_state_of_list; intros k p H; discriminate).
    (* create, power levels, join rules: single blocks *)
    rewrite (rab_single allowed (filter (in_cls 0) conflicted)), <- (single_block 0 conflicted) by lia.
    destruct (stage_total allowed conflicted ND ties 0 s0 st0 ltac:(lia) A0 K0) as [R1 A1].
    set (st1 := resolve_and_add_auth_blocks allowed (map snd (fold_left (addif 0) conflicted [])) st0) in *.
    set (s1 := after_stage s0 (Wc s0 0)) in *.
    pose proof (keyed_next 0 s0 ltac:(lia) K0) as K1. fold s1 in K1.
    rewrite (rab_single allowed (filter (in_cls 1) conflicted)), <- (single_block 1 conflicted) by lia.
    destruct (stage_total allowed conflicted ND ties 1 s1 st1 ltac:(lia) A1 K1) as [R2 A2].
    set (st2 := resolve_and_add_auth_blocks allowed (map snd (fold_left (addif 1) conflicted [])) st1) in *.
    set (s2 := after_stage s1 (Wc s1 1)) in *.
    pose proof (keyed_next 1 s1 ltac:(lia) K1) as K2. fold s2 in K2.
    rewrite (rab_single allowed (filter (in_cls 2) conflicted)), <- (single_block 2 conflicted) by lia.
    destruct (stage_total allowed conflicted ND ties 2 s2 st2 ltac:(lia) A2 K2) as [R3 A3].
    set (st3 := resolve_and_add_auth_blocks allowed (map snd (fold_left (addif 2) conflicted [])) st2) in *.
    set (s3 := after_stage s2 (Wc s2 2)) in *.
    pose proof (keyed_next 2 s2 ltac:(lia) K2) as K3. fold s3 in K3.
    destruct (stage_total allowed conflicted ND ties 3 s3 st3 ltac:(lia) A3 K3) as [R4 A4].
    set (st4 := resolve_and_add_auth_blocks allowed (map snd (fold_left (addif 3) conflicted [])) st3) in *.
    set (s4 := after_stage s3 (Wc s3 3)) in *.
    pose proof (keyed_next 3 s3 ltac:(lia) K3) as K4. fold s4 in K4.
    destruct (stage_total allowed conflicted ND ties 4 s4 st4 ltac:(lia) A4 K4) as [R5 A5].
    set (st5 := resolve_and_add_auth_blocks allowed (map snd (fold_left (addif 4) conflicted [])) st4) in *.
    set (s5 := after_stage s4 (Wc s4 4)) in *.
    (* the other keys *)
    destruct (class_blocks 5 conflicted) as [Hb5 _]. rewrite Hb5.
    rewrite (others_blocks allowed conflicted ND ties 5 s5 (Kc 5) st5 (fun k H => H) A5).
    rewrite R5, R4, R3, R2, R1. simpl.
    (* the specification side *)
    unfold spec_resolve_v1. fold s0.
    rewrite (stage_winners_is s0 0 t_create (fun e => proj1 (stage_is_class e))). fold s1.
    rewrite (stage_winners_is s1 1 t_power (fun e => proj1 (proj2 (stage_is_class e)))). fold s2.
    rewrite (stage_winners_is s2 2 t_join_rules (fun e => proj1 (proj2 (proj2 (stage_is_class e))))). fold s3.
    rewrite (stage_winners_is s3 3 t_3pid (fun e => proj1 (proj2 (proj2 (proj2 (stage_is_class e)))))). fold s4.
    rewrite (stage_winners_is s4 4 t_member (fun e => proj2 (proj2 (proj2 (proj2 (stage_is_class e)))))). fold s5.
    rewrite keys_where_is.
    rewrite (filter_ext_in _ (in_cls 5) conflicted (fun e He => other_is_class e (state_events e He))).
    unfold other_winners. rewrite !map_app, <- !app_assoc. reflexivity.
  Qed.
End Compose.
