(* State resolution v2 / v2.1 as stateresolutionv2.go computes it (model, no proofs).

   Parameters (Section variables):
     allowed  : the auth rules: event -> the events in the auth provider -> verdict
     rejected : the IsRejected callback
     shE, shP, shO, shG : the orders in which Go visits the entries of its maps / hash sets of
                events, of power-wrapped events and of mainline-wrapped events
                (arbitrary rearrangements)
     priv     : the room version has privileged creators (v12)
     creator_level, users_default0 : constants regenerated from the Go source. *)
From Verif Require Import Lib.Bytes StateRes.Event StateRes.Kahn.
Open Scope N_scope.

(* ---------- sort keys ---------- *)
Definition cmp_Z (a b : Z) : comparison := (a ?= b)%Z.

Definition lex (c : comparison) (d : comparison) : comparison :=
  match c with Eq => d | _ => c end.

(* stateResV2ConflictedPowerLevel *)
Record pwrap := mkPw { pw_ev : event; pw_level : Z }.
(* sortStateResV2ConflictedPowerLevelHeap: power descending, timestamp ascending, ID ascending *)
Definition pw_cmp (a b : pwrap) : comparison :=
  lex (cmp_Z (pw_level b) (pw_level a))
      (lex (cmp_Z (e_ts (pw_ev a)) (e_ts (pw_ev b)))
           (bytes_cmp (e_id (pw_ev a)) (e_id (pw_ev b)))).

(* stateResV2ConflictedOther *)
Record owrap := mkOw { ow_ev : event; ow_pos : Z; ow_steps : Z }.
(* sortStateResV2ConflictedOtherHeap: position, steps, timestamp, ID, all ascending *)
Definition ow_cmp (a b : owrap) : comparison :=
  lex (cmp_Z (ow_pos a) (ow_pos b))
      (lex (cmp_Z (ow_steps a) (ow_steps b))
           (lex (cmp_Z (e_ts (ow_ev a)) (e_ts (ow_ev b)))
                (bytes_cmp (e_id (ow_ev a)) (e_id (ow_ev b))))).

(* ---------- the resolved partial state: one map keyed by (type, state_key) ----------
   (Go splits it over resolvedCreate / PowerLevels / JoinRules / Members / ThirdPartyInvites /
   Others; the partition is by key, so one association list with replace-in-place is the same
   map. The only observable difference - a member or third-party-invite entry with the empty
   state key lives in resolvedOthers and is not found by the Member / ThirdPartyInvite
   lookups - is kept in [st_lookup_nonempty].) *)
Definition smap := list (tkey * event).

Fixpoint smap_set (m : smap) (k : tkey) (e : event) : smap :=
  match m with
  | [] => [(k, e)]
  | (k', e') :: r => if tkey_eqb k' k then (k, e) :: r else (k', e') :: smap_set r k e
  end.

Fixpoint smap_get (m : smap) (k : tkey) : option event :=
  match m with
  | [] => None
  | (k', e') :: r => if tkey_eqb k' k then Some e' else smap_get r k
  end.

Definition smap_values (m : smap) : list event := map snd m.

(* applyEvents *)
Definition apply_event (m : smap) (e : event) : smap :=
  match event_tkey e with
  | Some k => smap_set m k e
  | None => m
  end.
Definition apply_events (m : smap) (l : list event) : smap := fold_left apply_event l m.

Definition st_lookup_nonempty (m : smap) (t k : bytes) : option event :=
  match k with [] => None | _ => smap_get m (t, k) end.

(* one logged auth query: the event and the IDs of the events in the provider *)
Definition query := (bytes * list bytes)%type.

Section V2.
  Variable allowed : event -> list event -> bool.
  Variable rejected : bytes -> bool.
  Variable shE : list event -> list event.
  Variable shP : list pwrap -> list pwrap.
  Variable shO : list owrap -> list owrap.
  Variable shG : list (tkey * list event) -> list (tkey * list event).
  Variable priv : bool.
  Variable creator_level : Z.
  Variable users_default0 : Z.

  (* ---------- splitConflictedUnconflicted (stateresolution.go) ---------- *)
  (* in how many state sets the event is listed (an event a list names twice is in the set once) *)
  Definition count_id (k : bytes) (sets : list (list event)) : nat :=
    length (filter (has_event k) sets).

  (* eventMap: per (type, state_key) the distinct events in first-seen order *)
  Definition group := (tkey * list event)%type.
  Fixpoint group_add (g : list group) (k : tkey) (e : event) : list group :=
    match g with
    | [] => [(k, [e])]
    | (k', l) :: r => if tkey_eqb k' k then (k', l ++ [e]) :: r else (k', l) :: group_add r k e
    end.
  Definition group_events (l : list event) : list group :=
    fold_left (fun g e => match event_tkey e with
                          | Some k => group_add g k e
                          | None => g
                          end) (dedup_events l) [].

  (* v1: a key with one distinct event is unconflicted; v2: only if every set has it *)
  Definition split_group (v1 : bool) (sets : list (list event)) (g : group)
    : list event * list event :=
    match snd g with
    | [e] => if v1 then ([], [e])
             else if Nat.eqb (count_id (e_id e) sets) (length sets) then ([], [e]) else ([e], [])
    | l => (l, [])
    end.

  Definition split_groups (v1 : bool) (sets : list (list event)) (gs : list group)
    : list event * list event :=
    fold_left (fun acc g => let p := split_group v1 sets g in
                            (fst acc ++ fst p, snd acc ++ snd p)) gs ([], []).

  (* [shG]: the iteration order of eventMap *)
  Definition split_conflicted (v1 : bool) (sets : list (list event)) : list event * list event :=
    split_groups v1 sets (shG (group_events (concat sets))).

  (* ---------- sender power (getPowerLevelFromAuthEvents, after the F8 / F12 repair) ---------- *)
  Fixpoint first_create (authmap : list event) (ids : list bytes) : option event :=
    match ids with
    | [] => None
    | k :: r => match find_event k authmap with
                | Some e => if is_create e then Some e else first_create authmap r
                | None => first_create authmap r
                end
    end.

  Fixpoint first_power (authmap : list event) (ids : list bytes) : option event :=
    match ids with
    | [] => None
    | k :: r => match find_event k authmap with
                | Some e => if bytes_eqb (e_type e) t_power && skey_is e [] then Some e
                            else first_power authmap r
                | None => first_power authmap r
                end
    end.

  Definition sender_power (authmap : list event) (resolved_create : option event) (e : event) : Z :=
    let create := if priv then
                    match resolved_create with
                    | Some c => Some c
                    | None => first_create authmap (e_auth e)
                    end
                  else None in
    let is_creator := match create with
                      | Some c => mem_bytes (e_sender e) (creators_of c)
                      | None => false
                      end in
    if is_creator then creator_level
    else match first_power authmap (e_auth e) with
         | Some pl => match pl_user_level users_default0 pl (e_sender e) with
                      | Some z => z
                      | None => 0%Z
                      end
         | None => 0%Z
         end.

  (* reverseTopologicalOrdering(..., TopologicalOrderByAuthEvents) *)
  Definition power_order (authmap : list event) (resolved_create : option event)
             (l : list event) : list event :=
    map pw_ev
        (kahn (fun w => e_id (pw_ev w)) (fun w => e_auth (pw_ev w)) pw_cmp shP
              (map (fun e => mkPw e (sender_power authmap resolved_create e)) l)).

  (* ---------- full auth chains, auth difference, conflicted subgraph ---------- *)
  Definition add_event (e : event) (s : list event) : list event :=
    if has_event (e_id e) s then s else s ++ [e].

  Definition union_events (a b : list event) : list event := fold_left (fun s e => add_event e s) b a.

  (* the events reachable through auth_events inside authmap (the start events themselves are
     not part of the chain unless reached) - depth-first with a visited set; every call either
     adds an event to the chain or consumes a work item, so |authmap| + work items bound it *)
  Fixpoint chain_walk (fuel : nat) (authmap : list event) (work : list bytes) (seen : list event)
    : list event :=
    match fuel with
    | O => seen
    | S f =>
        match work with
        | [] => seen
        | k :: rest =>
            match find_event k authmap with
            | None => chain_walk f authmap rest seen
            | Some a => if has_event (e_id a) seen then chain_walk f authmap rest seen
                        else chain_walk f authmap (e_auth a ++ rest) (seen ++ [a])
            end
        end
    end.

  Definition total_refs (l : list event) : nat := length (concat (map e_auth l)).

  Definition full_auth_chain (authmap : list event) (set : list event) : list event :=
    chain_walk (S (total_refs set + total_refs authmap + length authmap)) authmap
               (concat (map e_auth set)) [].

  (* v2.1, the conflicted subgraph of one state set: the auth-map events of the IDs that are
     reachable (or equal) from a conflicted event of the set and reach (or are) a conflicted
     event. (The Go code: one walk over the events reachable from the conflicted origins, one
     memoised answer to "reaches a conflicted event"; before the F81 repair it enumerated the
     paths.) *)
  Definition reaches_conflicted (authmap conflicted : list event) (x : event) : bool :=
    has_event (e_id x) conflicted
    || existsb (fun y => has_event (e_id y) conflicted) (full_auth_chain authmap [x]).

  Definition conflicted_subgraph (authmap conflicted set : list event) : list event :=
    fold_left (fun acc p => if has_event (e_id p) conflicted
                            then union_events acc
                                   (lookup_ids authmap
                                      (ids_of (filter (reaches_conflicted authmap conflicted)
                                                      (p :: full_auth_chain authmap [p]))))
                            else acc) set [].

  Definition inter_events (a b : list event) : list event :=
    filter (fun e => has_event (e_id e) b) a.
  Definition diff_events (a b : list event) : list event :=
    filter (fun e => negb (has_event (e_id e) b)) a.

  (* calculateAuthDifferenceNew *)
  Definition auth_difference_new (v21 : bool) (authmap conflicted : list event)
             (sets : list (list event)) : list event :=
    let chains := map (full_auth_chain authmap) sets in
    let union := fold_left union_events chains [] in
    let inter := match chains with
                 | [] => []
                 | c :: r => fold_left inter_events r c
                 end in
    let d := diff_events union inter in
    if v21 then
      shE (union_events d (fold_left (fun acc s => union_events acc (conflicted_subgraph authmap conflicted s))
                                     sets []))
    else shE d.

  (* calculateAuthDifference of the deprecated driver: authSets[c] = the auth chain of the
     conflicted event c inside authmap (exists only when non-empty); an auth event is in the
     difference iff authSets[its own id] has an entry k with k not in authSets[k] *)
  Definition auth_set_of (authmap : list event) (c : event) : list event :=
    chain_walk (S (total_refs [c] + total_refs authmap + length authmap)) authmap (e_auth c) [].

  Definition auth_difference_old (authmap conflictedmap : list event) : list event :=
    filter (fun a =>
              match find_event (e_id a) conflictedmap with
              | None => false
              | Some c =>
                  existsb (fun k =>
                             negb (match find_event (e_id k) conflictedmap with
                                   | Some ck => has_event (e_id k) (auth_set_of authmap ck)
                                   | None => false
                                   end))
                          (auth_set_of authmap c)
              end) (shE authmap).

  (* ---------- the power set: control events and what they pull in ---------- *)
  (* fullControlSet with its shared visited set; returns the events and the new visited set *)
  Fixpoint full_control_set (fuel : nat) (conflictedmap : list event) (ev : event)
           (visited : list bytes) : list event * list bytes :=
    match fuel with
    | O => ([ev], visited)
    | S f =>
        fold_left (fun acc a =>
                     if mem_bytes a (snd acc) then acc
                     else match find_event a conflictedmap with
                          | Some x => let r := full_control_set f conflictedmap x (snd acc) in
                                      (fst acc ++ fst r, a :: snd r)
                          | None => (fst acc, a :: snd acc)
                          end) (e_auth ev) ([ev], visited)
    end.

  Definition control_events (conflictedmap unconflicted full : list event) : list event :=
    fst (fold_left (fun acc p =>
                      if has_event (e_id p) unconflicted then acc
                      else if is_control_event p then
                        let r := full_control_set (S (length conflictedmap)) conflictedmap p (snd acc) in
                        (fst acc ++ fst r, snd r)
                      else acc) full ([], [])).

  Definition other_events (unconflicted full control : list event) : list event :=
    filter (fun p => negb (has_event (e_id p) unconflicted) && negb (is_control_event p)
                     && negb (has_event (e_id p) control)) full.

  (* ---------- mainline ---------- *)
  (* createPowerLevelMainline (after the F99 repair): the resolved power-levels event, the FIRST
     power-levels event among its auth events, and so on; [fuel] bounds the length (acyclic: at
     most |authmap| + 1) *)
  Fixpoint mainline_chain (fuel : nat) (authmap : list event) (e : event) : list event :=
    match fuel with
    | O => [e]
    | S f => e :: match first_power authmap (e_auth e) with
                  | Some p => mainline_chain f authmap p
                  | None => []
                  end
    end.

  Definition mainline (authmap : list event) (resolved_power : option event) : list event :=
    match resolved_power with
    | Some p => rev (mainline_chain (length authmap) authmap p)
    | None => []
    end.

  (* powerLevelMainlinePos: a later position overwrites an earlier one *)
  Fixpoint positions_from (n : Z) (l : list event) (acc : list (bytes * Z)) : list (bytes * Z) :=
    match l with
    | [] => acc
    | e :: r => positions_from (n + 1)%Z r ((e_id e, n) :: acc)
    end.
  Definition mainline_positions (ml : list event) : list (bytes * Z) := positions_from 0%Z ml [].

  Fixpoint pos_lookup (k : bytes) (m : list (bytes * Z)) : option Z :=
    match m with
    | [] => None
    | (k', p) :: r => if bytes_eqb k k' then Some p else pos_lookup k r
    end.

  (* getFirstPowerLevelMainlineEvent: (position, steps) - back along the first power-levels auth
     event of every step until one is on the mainline; none: position 0 *)
  Fixpoint first_mainline (fuel : nat) (authmap : list event) (pos : list (bytes * Z))
           (e : event) (steps : Z) : Z * Z :=
    match fuel with
    | O => (0%Z, steps)
    | S f => match first_power authmap (e_auth e) with
             | None => (0%Z, steps)
             | Some p => match pos_lookup (e_id p) pos with
                         | Some k => (k, steps)
                         | None => first_mainline f authmap pos p (steps + 1)%Z
                         end
             end
    end.

  Definition wrap_other (authmap : list event) (pos : list (bytes * Z)) (e : event) : owrap :=
    let ps := first_mainline (S (length authmap)) authmap pos e 0%Z in
    mkOw e (fst ps) (snd ps).

  (* mainlineOrdering *)
  Definition mainline_order (authmap : list event) (resolved_power : option event)
             (l : list event) : list event :=
    let pos := mainline_positions (mainline authmap resolved_power) in
    map ow_ev (ssort ow_cmp (map (wrap_other authmap pos) l)).

  (* reverseTopologicalOrdering(..., TopologicalOrderByPrevEvents) *)
  Definition prev_order (authmap : list event) (pos : list (bytes * Z)) (l : list event) : list event :=
    map ow_ev
        (kahn (fun w => e_id (ow_ev w)) (fun w => e_prev (ow_ev w)) ow_cmp shO
              (map (wrap_other authmap pos) l)).

  (* ---------- iterative auth checks ---------- *)
  (* AuthEvents.AddEvent *)
  Definition provider_add (p : smap) (e : event) : smap := apply_event p e.

  (* addFromAuthEventsIfNotRejected (after the F7 repair: the auth event is added) *)
  Definition add_from_auth_events (authmap : list event) (e : event) (t k : bytes) (p : smap) : smap :=
    fold_left (fun p a =>
                 if rejected a then p
                 else match find_event a authmap with
                      | Some ae => if bytes_eqb (e_type ae) t && skey_is ae k then provider_add p ae else p
                      | None => p
                      end) (e_auth e) p.

  Definition provide (authmap : list event) (e : event) (resolved : option event) (t k : bytes)
             (p : smap) : smap :=
    match resolved with
    | Some r => provider_add p r
    | None => add_from_auth_events authmap e t k p
    end.

  Definition auth_provider (authmap : list event) (st : smap) (e : event) : smap :=
    let n := state_needed e in
    let p0 : smap := [] in
    let p1 := if n_create n then provide authmap e (smap_get st (t_create, [])) t_create [] p0 else p0 in
    let p2 := if n_join_rules n then provide authmap e (smap_get st (t_join_rules, [])) t_join_rules [] p1 else p1 in
    let p3 := if n_power n then provide authmap e (smap_get st (t_power, [])) t_power [] p2 else p2 in
    let p4 := fold_left (fun p k => provide authmap e (st_lookup_nonempty st t_member k) t_member k p)
                        (n_member n) p3 in
    fold_left (fun p k => provide authmap e (st_lookup_nonempty st t_3pid k) t_3pid k p) (n_3pid n) p4.

  Record rstate := mkR { r_state : smap; r_log : list query }.

  (* authAndApplyEvents *)
  Definition auth_and_apply_one (authmap : list event) (r : rstate) (e : event) : rstate :=
    let prov := smap_values (auth_provider authmap (r_state r) e) in
    let log := r_log r ++ [(e_id e, ids_of prov)] in
    if allowed e prov then mkR (apply_event (r_state r) e) log else mkR (r_state r) log.

  Definition auth_and_apply (authmap : list event) (r : rstate) (l : list event) : rstate :=
    fold_left (auth_and_apply_one authmap) l r.

  Definition r_apply (r : rstate) (l : list event) : rstate := mkR (apply_events (r_state r) l) (r_log r).

  (* ---------- the drivers ---------- *)
  Definition resolve_tail (authmap : list event) (r0 : rstate) (control others unconflicted : list event)
    : rstate :=
    let control_sorted := power_order authmap (smap_get (r_state r0) (t_create, [])) (dedup_events control) in
    let r1 := auth_and_apply authmap r0 control_sorted in
    let others_sorted := mainline_order authmap (smap_get (r_state r1) (t_power, [])) others in
    let r2 := auth_and_apply authmap r1 others_sorted in
    r_apply r2 unconflicted.

  (* ResolveStateConflictsV2New *)
  Definition resolve_v2_new (v21 : bool) (sets : list (list event)) (auth_events : list event) : rstate :=
    let cu := split_conflicted false sets in
    let conflicted := fst cu in
    let unconflicted := snd cu in
    match conflicted, unconflicted, auth_events with
    | [], [], [] => mkR [] []
    | _, _, _ =>
        let authmap := dedup_events auth_events in
        let conflictedmap := dedup_events conflicted in
        let full := conflicted ++ auth_difference_new v21 authmap conflicted sets in
        (* v2 leaves the events of the unconflicted state out of the full conflicted set; v2.1,
           which starts from the empty state, replays them (F77) *)
        let skip := if v21 then [] else unconflicted in
        let control := control_events conflictedmap skip full in
        let others := other_events skip full control in
        let r0 := mkR [] [] in
        if v21 then resolve_tail authmap r0 control others unconflicted
        else
          let unconflicted' := power_order authmap None (dedup_events unconflicted) in
          resolve_tail authmap (r_apply r0 unconflicted') control others unconflicted'
    end.

  (* ResolveStateConflictsV2 (deprecated) *)
  Definition resolve_v2_old (conflicted unconflicted auth_events : list event) : rstate :=
    match filter is_create (auth_events ++ unconflicted ++ conflicted) with
    | [] => mkR [] []
    | _ =>
        let authmap := dedup_events auth_events in
        let conflictedmap := dedup_events conflicted in
        let full := conflicted ++ auth_difference_old authmap conflictedmap in
        let control := control_events conflictedmap unconflicted full in
        let others := other_events unconflicted full control in
        resolve_tail authmap (r_apply (mkR [] []) unconflicted) control others unconflicted
    end.

  (* the deprecated entry point groups ALL given events by key: >1 distinct events = conflicted *)
  Definition split_old (events : list event) : list event * list event :=
    fold_left (fun acc g => match snd g with
                            | _ :: _ :: _ => (fst acc ++ snd g, snd acc)
                            | l => (fst acc, snd acc ++ l)
                            end) (shG (group_events events)) ([], []).

  Definition result_events (r : rstate) : list event := smap_values (r_state r).
End V2.
