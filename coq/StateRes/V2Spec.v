(* State resolution v2 / v2.1: the definitions of the algorithm's stages, written from the
   Matrix specification text plus DESIGN.md 6.2 in set / relation style, independently of the
   model's data structures (no grouping, no counters, no work lists).  Each definition has a
   naive executable reading (suffix b / _list) used as an oracle on the implementation's
   stage outputs. *)
From Verif Require Import Lib.Bytes StateRes.Event.
Open Scope N_scope.

(* ---------- conflicted / unconflicted ----------
   "If a given key K is present in every Si with the same value V in each state map, then the
   pair (K, V) belongs to the unconflicted state map. Otherwise, V belongs to the conflicted
   state set." *)
Definition same_id (a b : event) : Prop := e_id a = e_id b.

Definition present_in (e : event) (s : list event) : Prop := exists e', In e' s /\ same_id e' e.

Definition spec_unconflicted (sets : list (list event)) (e : event) : Prop :=
  e_skey e <> None /\
  (forall s, In s sets -> present_in e s) /\
  (forall s e', In s sets -> In e' s -> event_tkey e' = event_tkey e -> same_id e' e).

Definition spec_conflicted (sets : list (list event)) (e : event) : Prop :=
  e_skey e <> None /\ (exists s, In s sets /\ In e s) /\ ~ spec_unconflicted sets e.

Definition present_inb (e : event) (s : list event) : bool := has_event (e_id e) s.

Definition same_key (a b : event) : bool :=
  match event_tkey a, event_tkey b with
  | Some k, Some k' => tkey_eqb k k'
  | _, _ => false
  end.

Definition spec_unconflictedb (sets : list (list event)) (e : event) : bool :=
  match e_skey e with
  | None => false
  | Some _ =>
      forallb (present_inb e) sets
      && forallb (fun s => forallb (fun e' => negb (same_key e' e) || bytes_eqb (e_id e') (e_id e)) s) sets
  end.

(* ---------- auth chains ----------
   one step of the auth relation inside the supplied auth events *)
Definition auth_step (authmap : list event) (a b : event) : Prop :=
  exists k, In k (e_auth a) /\ find_event k authmap = Some b.

Inductive auth_reach (authmap : list event) : event -> event -> Prop :=
| ar_step a b : auth_step authmap a b -> auth_reach authmap a b
| ar_trans a b c : auth_step authmap a b -> auth_reach authmap b c -> auth_reach authmap a c.

(* "The full auth chain of a state set: the union of the auth chains of its events" *)
Definition in_full_chain (authmap set : list event) (x : event) : Prop :=
  exists e, In e set /\ auth_reach authmap e x.

(* "The auth difference: the union of the full auth chains minus their intersection" *)
Definition spec_auth_difference (authmap : list event) (sets : list (list event)) (x : event) : Prop :=
  (exists s, In s sets /\ in_full_chain authmap s x) /\
  ~ (forall s, In s sets -> in_full_chain authmap s x).

(* v2.1 "conflicted subgraph": the events on an auth path from a conflicted event of a state
   set to a conflicted event (end points included), as far as they are among the auth events *)
Definition reach_refl (authmap : list event) (a b : event) : Prop := a = b \/ auth_reach authmap a b.

Definition spec_conflicted_subgraph (authmap conflicted : list event) (sets : list (list event))
           (x : event) : Prop :=
  find_event (e_id x) authmap = Some x /\
  exists s o c, In s sets /\ In o s /\ has_event (e_id o) conflicted = true /\
                has_event (e_id c) conflicted = true /\
                reach_refl authmap o x /\ reach_refl authmap x c.

(* --- executable: saturation instead of a walk --- *)
Definition add_new (e : event) (s : list event) : list event :=
  if has_event (e_id e) s then s else e :: s.

Definition auth_events_of (authmap : list event) (e : event) : list event :=
  lookup_ids authmap (e_auth e).

Definition sat_step (authmap : list event) (s : list event) : list event :=
  fold_left (fun acc e => fold_left (fun acc a => add_new a acc) (auth_events_of authmap e) acc) s s.

Fixpoint saturate (n : nat) (authmap : list event) (s : list event) : list event :=
  match n with O => s | S n' => saturate n' authmap (sat_step authmap s) end.

(* everything reachable in one or more steps from the events of [from] *)
Definition reach_list (authmap : list event) (from : list event) : list event :=
  saturate (length authmap)
           authmap (fold_left (fun acc e => fold_left (fun acc a => add_new a acc) (auth_events_of authmap e) acc) from []).

Definition spec_auth_difference_list (authmap : list event) (sets : list (list event)) : list event :=
  let chains := map (reach_list authmap) sets in
  filter (fun x => negb (forallb (has_event (e_id x)) chains))
         (fold_left (fun acc c => fold_left (fun acc a => add_new a acc) c acc) chains []).

Definition reach_reflb (authmap : list event) (a b : event) : bool :=
  bytes_eqb (e_id a) (e_id b) || has_event (e_id b) (reach_list authmap [a]).

(* (one reach list per event, computed once) *)
Definition spec_conflicted_subgraph_list (authmap conflicted : list event) (sets : list (list event))
  : list event :=
  let origins := filter (fun o => has_event (e_id o) conflicted) (concat sets) in
  let from_origins := fold_left (fun acc o => fold_left (fun acc a => add_new a acc) (reach_list authmap [o]) acc)
                                origins [] in
  filter (fun x => (has_event (e_id x) origins || has_event (e_id x) from_origins)
                   && (has_event (e_id x) conflicted
                       || existsb (fun c => has_event (e_id c) conflicted) (reach_list authmap [x]))) authmap.

(* ---------- the power set (6.2 r5) and the rest ---------- *)
(* control events: power levels, join rules, and bans / kicks of somebody else *)
Definition spec_is_power_event (e : event) : Prop :=
  (e_type e = t_power /\ e_skey e = Some []) \/
  (e_type e = t_join_rules /\ e_skey e = Some []) \/
  (e_type e = t_member /\ (exists sk, e_skey e = Some sk /\ sk <> [] /\ sk <> e_sender e) /\
   (membership_of e = bs "leave" \/ membership_of e = bs "ban")).

(* ====================================================================================
   The two orderings, as DESIGN.md 6.2 defines them (executable readings; no in-degree
   counters, no work list, no insertion sort).
   ==================================================================================== *)

(* ---------- r2: the sender's power for the power ordering ---------- *)
Definition first_power_auth (authmap : list event) (e : event) : option event :=
  hd_error (filter is_power (lookup_ids authmap (e_auth e))).

Definition spec_sender_power (priv : bool) (creator_level users_default0 : Z) (authmap : list event)
           (resolved_create : option event) (e : event) : Z :=
  let create := match resolved_create with
                | Some c => Some c
                | None => hd_error (filter is_create (lookup_ids authmap (e_auth e)))
                end in
  if priv && match create with Some c => mem_bytes (e_sender e) (creators_of c) | None => false end
  then creator_level
  else match first_power_auth authmap e with
       | Some pl => match pl_user_level users_default0 pl (e_sender e) with Some z => z | None => 0%Z end
       | None => 0%Z
       end.

(* ---------- r1 / r3: the power ordering of a list without repeated entries ---------- *)
Definition pitem := (event * Z)%type.

(* a sorts strictly before b: greater power first, then earlier timestamp, then smaller ID *)
Definition power_before (a b : pitem) : bool :=
  if (snd b <? snd a)%Z then true
  else if (snd a <? snd b)%Z then false
  else if (e_ts (fst a) <? e_ts (fst b))%Z then true
  else if (e_ts (fst b) <? e_ts (fst a))%Z then false
  else bytes_ltb (e_id (fst a)) (e_id (fst b)).

Definition named_by_remaining (rem : list pitem) (x : pitem) : bool :=
  existsb (fun e => mem_bytes (e_id (fst x)) (e_auth (fst e))) rem.

Definition without (x : pitem) (l : list pitem) : list pitem :=
  filter (fun y => negb (bytes_eqb (e_id (fst y)) (e_id (fst x)))) l.

(* the element that sorts last *)
Definition last_under (before : pitem -> pitem -> bool) (u : pitem) (us : list pitem) : pitem :=
  fold_left (fun best y => if before best y then y else best) us u.
Definition first_under (before : pitem -> pitem -> bool) (u : pitem) (us : list pitem) : pitem :=
  fold_left (fun best y => if before y best then y else best) us u.

Fixpoint selection_sort (fuel : nat) (before : pitem -> pitem -> bool) (l : list pitem) : list pitem :=
  match fuel, l with
  | S f, u :: us => let m := first_under before u us in m :: selection_sort f before (without m l)
  | _, _ => []
  end.

(* repeatedly: among the events no remaining event names, the one that sorts last goes last;
   events that never become unnamed (r3) are sorted by the same key and placed first *)
Fixpoint spec_power_order (fuel : nat) (rem : list pitem) : list pitem :=
  match fuel with
  | O => []
  | S f =>
      match filter (fun x => negb (named_by_remaining rem x)) rem with
      | [] => selection_sort (length rem) power_before rem
      | u :: us => let x := last_under power_before u us in
                   spec_power_order f (without x rem) ++ [x]
      end
  end.

(* ---------- r4: the mainline key ---------- *)
(* the mainline: the resolved power-levels event, the power-levels event it names, and so on *)
Fixpoint spec_mainline_chain (fuel : nat) (authmap : list event) (e : event) : list event :=
  match fuel with
  | O => [e]
  | S f => e :: match first_power_auth authmap e with
                | Some p => spec_mainline_chain f authmap p
                | None => []
                end
  end.

(* position counted from the oldest end *)
Fixpoint chain_position (k : bytes) (chain : list event) : option Z :=
  match chain with
  | [] => None
  | x :: r => if bytes_eqb k (e_id x) then Some (Z.of_nat (length r)) else chain_position k r
  end.

(* (position of the closest mainline ancestor along power-levels auth events, number of
   non-mainline power-levels events passed on the way); no mainline ancestor: position 0 *)
Fixpoint spec_closest_mainline (fuel : nat) (authmap chain : list event) (e : event) (steps : Z) : Z * Z :=
  match fuel with
  | O => (0%Z, steps)
  | S f => match first_power_auth authmap e with
           | None => (0%Z, steps)
           | Some p => match chain_position (e_id p) chain with
                       | Some k => (k, steps)
                       | None => spec_closest_mainline f authmap chain p (steps + 1)%Z
                       end
           end
  end.

Definition mainline_key (authmap : list event) (resolved_power : option event) (e : event) : Z * Z :=
  let chain := match resolved_power with
               | Some p => spec_mainline_chain (length authmap) authmap p
               | None => []
               end in
  spec_closest_mainline (S (length authmap)) authmap chain e 0%Z.

(* a comes no later than b under (position, steps, timestamp, ID) *)
Definition mainline_le (ka kb : Z * Z) (a b : event) : bool :=
  if (fst ka <? fst kb)%Z then true else if (fst kb <? fst ka)%Z then false
  else if (snd ka <? snd kb)%Z then true else if (snd kb <? snd ka)%Z then false
  else if (e_ts a <? e_ts b)%Z then true else if (e_ts b <? e_ts a)%Z then false
  else bytes_leb (e_id a) (e_id b).

Fixpoint sorted_by_mainline (authmap : list event) (resolved_power : option event) (l : list event) : bool :=
  match l with
  | a :: ((b :: _) as r) =>
      mainline_le (mainline_key authmap resolved_power a) (mainline_key authmap resolved_power b) a b
      && sorted_by_mainline authmap resolved_power r
  | _ => true
  end.

(* the definitions above follow THE power-levels auth event of an event; an event naming
   several (outside every property's domain) is not covered *)
Definition at_most_one_power_auth (authmap : list event) (l : list event) : bool :=
  forallb (fun e => Nat.leb (length (filter is_power (lookup_ids authmap (e_auth e)))) 1) l.

(* ====================================================================================
   Iterative auth checks: what the auth rules are shown for one event.
   "Each event is checked against the partial state; where the partial state has no event for
   a key the event needs, the event's own auth events of that key are used, unless rejected."
   ==================================================================================== *)
Definition needed_keys (e : event) : list tkey :=
  let n := state_needed e in
  (if n_create n then [(t_create, [])] else []) ++
  (if n_join_rules n then [(t_join_rules, [])] else []) ++
  (if n_power n then [(t_power, [])] else []) ++
  map (fun u => (t_member, u)) (n_member n) ++ map (fun t => (t_3pid, t)) (n_3pid n).

Definition last_opt {A} (l : list A) : option A := fold_left (fun _ x => Some x) l None.

Definition sits_under (k : tkey) (a : event) : bool :=
  match event_tkey a with Some k' => tkey_eqb k' k | None => false end.

(* the event's own auth events of key k that are supplied and not rejected; the last one counts *)
Definition own_auth_entry (rejected : bytes -> bool) (authmap : list event) (e : event) (k : tkey) : option event :=
  last_opt (filter (sits_under k) (lookup_ids authmap (filter (fun a => negb (rejected a)) (e_auth e)))).

Definition spec_auth_entry (rejected : bytes -> bool) (authmap : list event)
           (st : tkey -> option event) (e : event) (k : tkey) : option event :=
  match st k with
  | Some r => Some r
  | None => own_auth_entry rejected authmap e k
  end.

Definition spec_auth_events_v2 (rejected : bytes -> bool) (authmap : list event)
           (st : tkey -> option event) (e : event) : list event :=
  flat_map (fun k => match spec_auth_entry rejected authmap st e k with Some a => [a] | None => [] end)
           (needed_keys e).
