(* State resolution v2 / v2.1: the definitions of the algorithm's stages, written from the
   Matrix specification text plus DESIGN.md 6.2 in set / relation style, independently of the
   model's data structures (no grouping, no counters, no work lists).  Each definition has a
   naive executable reading (suffix b / _list) used as an oracle on the implementation's
   stage outputs. *)
From Verif Require Import Lib.Bytes StateRes.Event.
Open Scope N_scope.

(* ---------- conflicted / unconflicted ----------
   "If a given key K is present in every Si with the same value V in each state map, then the
   pair (K, V) belongs to the unconflicted state map. Otherwise, V belongs to the conflicted
   state set." *)
Definition same_id (a b : event) : Prop := e_id a = e_id b.

Definition present_in (e : event) (s : list event) : Prop := exists e', In e' s /\ same_id e' e.

Definition spec_unconflicted (sets : list (list event)) (e : event) : Prop :=
  e_skey e <> None /\
  (forall s, In s sets -> present_in e s) /\
  (forall s e', In s sets -> In e' s -> event_tkey e' = event_tkey e -> same_id e' e).

Definition spec_conflicted (sets : list (list event)) (e : event) : Prop :=
  e_skey e <> None /\ (exists s, In s sets /\ In e s) /\ ~ spec_unconflicted sets e.

Definition present_inb (e : event) (s : list event) : bool := has_event (e_id e) s.

Definition same_key (a b : event) : bool :=
  match event_tkey a, event_tkey b with
  | Some k, Some k' => tkey_eqb k k'
  | _, _ => false
  end.

Definition spec_unconflictedb (sets : list (list event)) (e : event) : bool :=
  match e_skey e with
  | None => false
  | Some _ =>
      forallb (present_inb e) sets
      && forallb (fun s => forallb (fun e' => negb (same_key e' e) || bytes_eqb (e_id e') (e_id e)) s) sets
  end.

(* ---------- auth chains ----------
   one step of the auth relation inside the supplied auth events *)
Definition auth_step (authmap : list event) (a b : event) : Prop :=
  exists k, In k (e_auth a) /\ find_event k authmap = Some b.

Inductive auth_reach (authmap : list event) : event -> event -> Prop :=
| ar_step a b : auth_step authmap a b -> auth_reach authmap a b
| ar_trans a b c : auth_step authmap a b -> auth_reach authmap b c -> auth_reach authmap a c.

(* "The full auth chain of a state set: the union of the auth chains of its events" *)
Definition in_full_chain (authmap set : list event) (x : event) : Prop :=
  exists e, In e set /\ auth_reach authmap e x.

(* "The auth difference: the union of the full auth chains minus their intersection" *)
Definition spec_auth_difference (authmap : list event) (sets : list (list event)) (x : event) : Prop :=
  (exists s, In s sets /\ in_full_chain authmap s x) /\
  ~ (forall s, In s sets -> in_full_chain authmap s x).

(* v2.1 "conflicted subgraph": the events on an auth path from a conflicted event of a state
   set to a conflicted event (end points included), as far as they are among the auth events *)
Definition reach_refl (authmap : list event) (a b : event) : Prop := a = b \/ auth_reach authmap a b.

Definition spec_conflicted_subgraph (authmap conflicted : list event) (sets : list (list event))
           (x : event) : Prop :=
  find_event (e_id x) authmap = Some x /\
  exists s o c, In s sets /\ In o s /\ has_event (e_id o) conflicted = true /\
                has_event (e_id c) conflicted = true /\
                reach_refl authmap o x /\ reach_refl authmap x c.

(* --- executable: saturation instead of a walk --- *)
Definition add_new (e : event) (s : list event) : list event :=
  if has_event (e_id e) s then s else e :: s.

Definition auth_events_of (authmap : list event) (e : event) : list event :=
  lookup_ids authmap (e_auth e).

Definition sat_step (authmap : list event) (s : list event) : list event :=
  fold_left (fun acc e => fold_left (fun acc a => add_new a acc) (auth_events_of authmap e) acc) s s.

Fixpoint saturate (n : nat) (authmap : list event) (s : list event) : list event :=
  match n with O => s | S n' => saturate n' authmap (sat_step authmap s) end.

(* everything reachable in one or more steps from the events of [from] *)
Definition reach_list (authmap : list event) (from : list event) : list event :=
  saturate (length authmap)
           authmap (fold_left (fun acc e => fold_left (fun acc a => add_new a acc) (auth_events_of authmap e) acc) from []).

Definition spec_auth_difference_list (authmap : list event) (sets : list (list event)) : list event :=
  let chains := map (reach_list authmap) sets in
  filter (fun x => negb (forallb (has_event (e_id x)) chains))
         (fold_left (fun acc c => fold_left (fun acc a => add_new a acc) c acc) chains []).

Definition reach_reflb (authmap : list event) (a b : event) : bool :=
  bytes_eqb (e_id a) (e_id b) || has_event (e_id b) (reach_list authmap [a]).

Definition spec_conflicted_subgraph_list (authmap conflicted : list event) (sets : list (list event))
  : list event :=
  let origins := filter (fun o => has_event (e_id o) conflicted) (concat sets) in
  filter (fun x => existsb (fun o => reach_reflb authmap o x) origins
                   && existsb (fun c => reach_reflb authmap x c) conflicted) authmap.

(* ---------- the power set (6.2 r5) and the rest ---------- *)
(* control events: power levels, join rules, and bans / kicks of somebody else *)
Definition spec_is_power_event (e : event) : Prop :=
  (e_type e = t_power /\ e_skey e = Some []) \/
  (e_type e = t_join_rules /\ e_skey e = Some []) \/
  (e_type e = t_member /\ (exists sk, e_skey e = Some sk /\ sk <> [] /\ sk <> e_sender e) /\
   (membership_of e = bs "leave" \/ membership_of e = bs "ban")).
