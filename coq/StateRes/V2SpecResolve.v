(* State resolution v2 / v2.1 end to end, assembled ONLY from the specification-side definitions
   of StateRes/V2Spec.v (no model loops): unconflicted / conflicted by definition, auth
   difference and conflicted subgraph by saturation, power set by closure, power order by 6.2
   r1 on the distinct events, iterative auth checks with the specified auth events, mainline
   order by the r4 key, unconflicted state re-applied last. Used as an oracle on the
   implementation's result. *)
From Verif Require Import Lib.Bytes StateRes.Event StateRes.V2Spec.
Open Scope N_scope.

(* a partial state: association list, one entry per key *)
Definition pstate := list (tkey * event).

Fixpoint ps_get (m : pstate) (k : tkey) : option event :=
  match m with
  | [] => None
  | (k', e) :: r => if tkey_eqb k' k then Some e else ps_get r k
  end.

Fixpoint ps_set (m : pstate) (k : tkey) (e : event) : pstate :=
  match m with
  | [] => [(k, e)]
  | (k', e') :: r => if tkey_eqb k' k then (k, e) :: r else (k', e') :: ps_set r k e
  end.

Definition ps_apply (m : pstate) (e : event) : pstate :=
  match event_tkey e with Some k => ps_set m k e | None => m end.

Definition distinct (l : list event) : list event := fold_left (fun acc e => if has_event (e_id e) acc then acc else acc ++ [e]) l [].

Section SpecResolve.
  Variable allowed : event -> list event -> bool.
  Variable rejected : bytes -> bool.
  Variable priv : bool.
  Variable creator_level users_default0 : Z.

  Definition iterate_auth (authmap : list event) (st : pstate) (l : list event) : pstate :=
    fold_left (fun st e => if allowed e (spec_auth_events_v2 rejected authmap (ps_get st) e) then ps_apply st e else st) l st.

  (* insertion by the mainline key *)
  Fixpoint insert_by (le : event -> event -> bool) (x : event) (l : list event) : list event :=
    match l with
    | [] => [x]
    | y :: r => if le x y then x :: l else y :: insert_by le x r
    end.

  Definition spec_resolve_v2 (v21 : bool) (sets : list (list event)) (auth_events : list event) : list event :=
    let all := filter (fun e => match e_skey e with Some _ => true | None => false end) (distinct (concat sets)) in
    let unc := filter (spec_unconflictedb sets) all in
    let conf := filter (fun e => negb (spec_unconflictedb sets e)) all in
    let authmap := distinct auth_events in
    let extra := spec_auth_difference_list authmap sets
                 ++ (if v21 then spec_conflicted_subgraph_list authmap conf sets else []) in
    let full0 := distinct (conf ++ extra) in
    (* v2 keeps the events of the unconflicted state out; v2.1 replays them *)
    let full := if v21 then full0 else filter (fun e => negb (has_event (e_id e) unc)) full0 in
    let roots := filter is_control_event full in
    let power := distinct (roots ++ reach_list conf roots) in
    let others := filter (fun e => negb (is_control_event e) && negb (has_event (e_id e) power)) full in
    let st0 : pstate := if v21 then [] else fold_left ps_apply unc [] in
    let items := map (fun e => (e, spec_sender_power priv creator_level users_default0 authmap
                                                     (ps_get st0 (t_create, [])) e)) power in
    let power_sorted := map fst (spec_power_order (S (length items)) items) in
    let st1 := iterate_auth authmap st0 power_sorted in
    let resolved_power := ps_get st1 (t_power, []) in
    let le := fun a b => mainline_le (mainline_key authmap resolved_power a) (mainline_key authmap resolved_power b) a b in
    let others_sorted := fold_right (insert_by le) [] others in
    let st2 := iterate_auth authmap st1 others_sorted in
    map snd (fold_left ps_apply unc st2).

  (* the definitions follow THE power-levels auth event of an event *)
  Definition spec_resolve_applies (sets : list (list event)) (auth_events : list event) : bool :=
    at_most_one_power_auth (distinct auth_events) (distinct (concat sets ++ auth_events)).
End SpecResolve.
