(* Executable statements of the C11 well-formedness clauses (specification side: written from
   the property text, not from the resolver). Used as oracles on the implementation's outputs;
   Props/C11.v proves that the model's outputs satisfy their Prop counterparts. *)
From Verif Require Import Lib.Bytes StateRes.Event.
Open Scope N_scope.

Fixpoint nodup_bytes (l : list bytes) : bool :=
  match l with
  | [] => true
  | x :: r => negb (mem_bytes x r) && nodup_bytes r
  end.

Definition subset_bytes (a b : list bytes) : bool := forallb (fun x => mem_bytes x b) a.

(* output is a rearrangement of the distinct IDs of input *)
Definition is_permutation_of_distinct (input output : list bytes) : bool :=
  nodup_bytes output && subset_bytes output input && subset_bytes input output.

(* every event comes after each event it refers to that is present in the input *)
Fixpoint ancestors_first (refs : event -> list bytes) (input_ids : list bytes)
         (output : list event) (seen : list bytes) : bool :=
  match output with
  | [] => true
  | e :: r =>
      forallb (fun a => negb (mem_bytes a input_ids) || mem_bytes a seen) (refs e)
      && ancestors_first refs input_ids r (e_id e :: seen)
  end.

Definition is_topological_permutation (refs : event -> list bytes) (input output : list event) : bool :=
  is_permutation_of_distinct (ids_of input) (ids_of output)
  && ancestors_first refs (ids_of input) output [].

(* ---------- resolved state ---------- *)
Fixpoint nodup_tkeys (l : list tkey) : bool :=
  match l with
  | [] => true
  | k :: r => negb (existsb (tkey_eqb k) r) && nodup_tkeys r
  end.

Fixpoint state_keys (l : list event) : list tkey :=
  match l with
  | [] => []
  | e :: r => match event_tkey e with Some k => k :: state_keys r | None => state_keys r end
  end.

(* at most one event per (type, state_key), and only state events *)
Definition at_most_one_per_key (result : list event) : bool :=
  forallb (fun e => match e_skey e with Some _ => true | None => false end) result
  && nodup_tkeys (state_keys result).

Definition only_supplied (supplied result : list event) : bool :=
  subset_bytes (ids_of result) (ids_of supplied).

(* the event every state set has under key k, if they all have the same one *)
Definition event_at (k : tkey) (set : list event) : option event :=
  match filter (fun e => match event_tkey e with Some k' => tkey_eqb k k' | None => false end) set with
  | e :: _ => Some e
  | [] => None
  end.

Definition agreed_on (sets : list (list event)) (e : event) : bool :=
  match event_tkey e with
  | Some k => forallb (fun s => match event_at k s with
                                | Some e' => bytes_eqb (e_id e) (e_id e')
                                | None => false
                                end) sets
  | None => false
  end.

(* for every key on which all state sets agree, exactly that event is in the result *)
Definition agreed_keys_kept (sets : list (list event)) (result : list event) : bool :=
  match sets with
  | [] => true
  | s :: _ => forallb (fun e => negb (agreed_on sets e) || mem_bytes (e_id e) (ids_of result)) s
  end.

Definition same_id_set (a b : list event) : bool :=
  subset_bytes (ids_of a) (ids_of b) && subset_bytes (ids_of b) (ids_of a).

(* state sets that are all equal resolve to that state *)
Definition equal_sets_fixed_point (sets : list (list event)) (result : list event) : bool :=
  match sets with
  | [] => true
  | s :: r => if forallb (same_id_set s) r then same_id_set s result else true
  end.

(* deprecated entry point (one list of events): a key with a single distinct event keeps it *)
Definition single_keys_kept (l result : list event) : bool :=
  forallb (fun e => match event_tkey e with
                    | None => true
                    | Some k =>
                        existsb (fun e' => match event_tkey e' with
                                           | Some k' => tkey_eqb k k' && negb (bytes_eqb (e_id e) (e_id e'))
                                           | None => false
                                           end) l
                        || mem_bytes (e_id e) (ids_of result)
                    end) l.
