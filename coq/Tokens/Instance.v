(* The free term algebra as an instance of the HMAC chain: shows the premises of the
   C20 theorems are satisfiable, and is the instance the extracted model runs with. *)
From Verif Require Import Lib.Bytes Tokens.Model.
Open Scope N_scope.

Inductive sterm := S0 (k i : bytes) | SS (s : sterm) (c : bytes).

Fixpoint sterm_eqb (a b : sterm) : bool :=
  match a, b with
  | S0 k i, S0 k' i' => bytes_eqb k k' && bytes_eqb i i'
  | SS s c, SS s' c' => sterm_eqb s s' && bytes_eqb c c'
  | _, _ => false
  end.

Lemma sterm_eqb_spec a : forall b, sterm_eqb a b = true <-> a = b.
Proof.
  induction a as [k i|s IH c]; intros [k' i'|s' c']; simpl; split; intro H; try discriminate.
  - apply andb_true_iff in H as [H1 H2]. apply bytes_eqb_eq in H1, H2. subst; reflexivity.
  - inversion H; subst. rewrite !bytes_eqb_refl. reflexivity.
  - apply andb_true_iff in H as [H1 H2]. apply IH in H1. apply bytes_eqb_eq in H2. subst; reflexivity.
  - inversion H; subst. rewrite bytes_eqb_refl. rewrite (proj2 (IH s')); reflexivity.
Qed.

Definition t_issue := issue sterm S0 SS.
Definition t_validate := validate sterm S0 SS sterm_eqb.
Definition t_add_caveat := add_caveat sterm SS.
Definition t_mint := mint sterm S0 SS.
Definition t_validate_at := validate_at sterm S0 SS sterm_eqb.
