(* Model of tokens/tokens.go + tokens/tokens_handlers.go (login tokens as macaroons).
   The macaroon library (gopkg.in/macaroon.v2) is modelled symbolically: a token is its
   identifier, its ordered list of first-party caveats and a signature term built by the
   HMAC chain  sig0 = mac0 key id ; sig_{i+1} = macS sig_i caveat_i.
   The chain functions are parameters of the model (Section variables); the theorems in
   Tokens/Proofs.v assume only that the chain is injective (ideal HMAC), the executable
   instance in Run/RunC20.v uses the free term algebra. *)
From Verif Require Import Lib.Bytes.
Open Scope N_scope.

(* constants; re-checked against the source by Gen/GenConsts.v (see Props/C20.v) *)
Definition user_prefix : bytes := bs "user_id = ".
Definition time_prefix : bytes := bs "time < ".
Definition gen_caveat : bytes := bs "gen = 1".
Definition default_duration : Z := 120.

Section Tokens.
  Variable sigT : Type.
  Variable mac0 : bytes -> bytes -> sigT.
  Variable macS : sigT -> bytes -> sigT.
  Variable sig_eqb : sigT -> sigT -> bool.

  Record token := { tid : bytes; tcavs : list bytes; tsig : sigT }.

  Definition chain (key id : bytes) (cavs : list bytes) : sigT :=
    fold_left macS cavs (mac0 key id).

  (* macaroon.New + AddFirstPartyCaveat *)
  Definition mint (key id : bytes) (cavs : list bytes) : token :=
    {| tid := id; tcavs := cavs; tsig := chain key id cavs |}.

  (* anybody holding a token can append a caveat (no key needed) *)
  Definition add_caveat (t : token) (c : bytes) : token :=
    {| tid := tid t; tcavs := tcavs t ++ [c]; tsig := macS (tsig t) c |}.

  (* GenerateLoginToken; t0 = time.Now().Unix() at issue *)
  Definition duration_of (d : Z) : Z := if (d =? 0)%Z then default_duration else d.

  (* the expiry instant: now + duration in int64 arithmetic; a sum that would pass 2^63 - 1 (the
     Go sum wraps to the distant past, seen as expiry < now for a positive duration) is replaced
     by the largest instant (repair of F97). [t0] is a clock reading, so 0 <= t0 < 2^63. *)
  Definition expiry_of (t0 d : Z) : Z :=
    let e := (t0 + duration_of d)%Z in
    if (2 ^ 63 <=? e)%Z then (2 ^ 63 - 1)%Z else e.

  Definition issue (key user : bytes) (t0 d : Z) : token :=
    mint key user [gen_caveat; user_prefix ++ user; time_prefix ++ print_int (expiry_of t0 d)].

  (* strconv.ParseInt(t, 10, 64) *)
  Definition parse_int64 (s : bytes) : option Z :=
    match parse_int s with
    | Some z => if ((- 2 ^ 63 <=? z) && (z <? 2 ^ 63))%Z then Some z else None
    | None => None
    end.

  Definition verify_expiry (t : bytes) (now : Z) : bool :=
    match parse_int64 t with
    | Some e => (now <? e)%Z
    | None => false
    end.

  (* verifyCaveats: state = bitmap of the three required caveats seen so far.
     Result: None = refused, Some bits = still fine. *)
  Inductive cav_kind := CGen | CUser (u : bytes) | CTime (t : bytes) | CUnknown.

  Definition classify (c : bytes) : cav_kind :=
    if bytes_eqb c gen_caveat then CGen
    else if is_prefix user_prefix c then CUser (drop (length user_prefix) c)
    else if is_prefix time_prefix c then CTime (drop (length time_prefix) c)
    else CUnknown.

  Record seen := { s_gen : bool; s_user : bool; s_time : bool }.
  Definition seen0 := {| s_gen := false; s_user := false; s_time := false |}.

  Definition step_caveat (user : bytes) (now : Z) (st : option seen) (c : bytes) : option seen :=
    match st with
    | None => None
    | Some s =>
        match classify c with
        | CGen => if s_gen s then None
                  else Some {| s_gen := true; s_user := s_user s; s_time := s_time s |}
        | CUser u => if s_user s then None
                     else if bytes_eqb u user
                          then Some {| s_gen := s_gen s; s_user := true; s_time := s_time s |}
                          else None
        | CTime t => if s_time s then None
                     else if verify_expiry t now
                          then Some {| s_gen := s_gen s; s_user := s_user s; s_time := true |}
                          else None
        | CUnknown => None
        end
    end.

  Definition verify_caveats (cavs : list bytes) (user : bytes) (now : Z) : bool :=
    match fold_left (step_caveat user now) cavs (Some seen0) with
    | Some s => s_gen s && s_user s && s_time s
    | None => false
    end.

  (* ValidateToken on a well-formed (deserialisable) macaroon *)
  Definition validate (key user : bytes) (now : Z) (t : token) : bool :=
    sig_eqb (tsig t) (chain key (tid t) (tcavs t)) && verify_caveats (tcavs t) user now.

  (* ValidateToken with the server name: the macaroon's location - where GenerateLoginToken
     records the issuing server, outside what the signature covers - must be the name of the
     validating server when that is given (repair of F96) *)
  Definition validate_at (srv loc key user : bytes) (now : Z) (t : token) : bool :=
    match srv with
    | [] => validate key user now t
    | _ => bytes_eqb loc srv && validate key user now t
    end.

  (* GetUserFromToken *)
  Definition user_of (t : token) : bytes := tid t.
End Tokens.

Arguments tid {sigT} _.
Arguments tcavs {sigT} _.
Arguments tsig {sigT} _.
