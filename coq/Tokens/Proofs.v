(* Proofs about the login-token model (Tokens/Model.v). *)
From Verif Require Import Lib.Bytes Lib.BytesFacts Tokens.Model.
From Coq Require Import Permutation.
Open Scope N_scope.

Section TokenProofs.
  Variable sigT : Type.
  Variable mac0 : bytes -> bytes -> sigT.
  Variable macS : sigT -> bytes -> sigT.
  Variable sig_eqb : sigT -> sigT -> bool.
  (* ideal HMAC chain: injective, base and step images disjoint *)
  Hypothesis mac0_inj : forall k i k' i', mac0 k i = mac0 k' i' -> k = k' /\ i = i'.
  Hypothesis macS_inj : forall s c s' c', macS s c = macS s' c' -> s = s' /\ c = c'.
  Hypothesis mac0_macS : forall k i s c, mac0 k i <> macS s c.
  Hypothesis sig_eqb_spec : forall a b, sig_eqb a b = true <-> a = b.

  Notation token := (token sigT).
  Notation chain := (chain sigT mac0 macS).
  Notation mint := (mint sigT mac0 macS).
  Notation issue := (issue sigT mac0 macS).
  Notation add_caveat := (add_caveat sigT macS).
  Notation validate := (validate sigT mac0 macS sig_eqb).

  (* ---------- the chain is injective ---------- *)
  Lemma chain_snoc k i cs c : chain k i (cs ++ [c]) = macS (chain k i cs) c.
  Proof. unfold Model.chain. rewrite fold_left_app. reflexivity. Qed.

  Lemma chain_inj k i cs : forall k' i' cs',
    chain k i cs = chain k' i' cs' -> k = k' /\ i = i' /\ cs = cs'.
  Proof.
    induction cs as [|c cs IH] using rev_ind; intros k' i' cs' H.
    - destruct cs' as [|c' cs'] using rev_ind.
      + apply mac0_inj in H. tauto.
      + rewrite chain_snoc in H. exfalso. eapply mac0_macS. exact H.
    - destruct cs' as [|c' cs' _] using rev_ind.
      + rewrite chain_snoc in H. exfalso. eapply mac0_macS. symmetry. exact H.
      + rewrite !chain_snoc in H. apply macS_inj in H as [H1 H2].
        apply IH in H1 as (-> & -> & ->). subst. tauto.
  Qed.

  (* ---------- classification of caveats ---------- *)
  Lemma classify_gen c : classify c = CGen -> c = gen_caveat.
  Proof.
    unfold classify. destruct (bytes_eqb c gen_caveat) eqn:E.
    - intros _. apply bytes_eqb_eq. exact E.
    - destruct (is_prefix user_prefix c); [discriminate|].
      destruct (is_prefix time_prefix c); discriminate.
  Qed.

  Lemma classify_user c u : classify c = CUser u -> c = user_prefix ++ u.
  Proof.
    unfold classify. destruct (bytes_eqb c gen_caveat); [discriminate|].
    destruct (is_prefix user_prefix c) eqn:E.
    - intro H. inversion H. apply is_prefix_app. exact E.
    - destruct (is_prefix time_prefix c); discriminate.
  Qed.

  Lemma classify_time c t : classify c = CTime t -> c = time_prefix ++ t.
  Proof.
    unfold classify. destruct (bytes_eqb c gen_caveat); [discriminate|].
    destruct (is_prefix user_prefix c); [discriminate|].
    destruct (is_prefix time_prefix c) eqn:E; [|discriminate].
    intro H. inversion H. apply is_prefix_app. exact E.
  Qed.

  Lemma classify_gen_caveat : classify gen_caveat = CGen.
  Proof. reflexivity. Qed.

  Lemma classify_user_caveat u : classify (user_prefix ++ u) = CUser u.
  Proof.
    unfold classify.
    replace (bytes_eqb (user_prefix ++ u) gen_caveat) with false by reflexivity.
    rewrite is_prefix_self_app, drop_app_length. reflexivity.
  Qed.

  Lemma classify_time_caveat t : classify (time_prefix ++ t) = CTime t.
  Proof.
    unfold classify.
    replace (bytes_eqb (time_prefix ++ t) gen_caveat) with false by reflexivity.
    replace (is_prefix user_prefix (time_prefix ++ t)) with false by reflexivity.
    rewrite is_prefix_self_app, drop_app_length. reflexivity.
  Qed.

  (* ---------- what an accepted caveat list looks like ---------- *)
  Definition good_caveat (user : bytes) (now : Z) (c : bytes) : Prop :=
    c = gen_caveat \/ c = user_prefix ++ user \/
    exists t, c = time_prefix ++ t /\ verify_expiry t now = true.

  Definition cnt (s : seen) : nat :=
    (if s_gen s then 1 else 0) + (if s_user s then 1 else 0) + (if s_time s then 1 else 0).

  Lemma fold_none user now cavs : fold_left (step_caveat user now) cavs None = None.
  Proof. induction cavs; simpl; auto. Qed.

  Lemma fold_inv user now cavs : forall s s',
    fold_left (step_caveat user now) cavs (Some s) = Some s' ->
    Forall (good_caveat user now) cavs /\
    (length cavs + cnt s = cnt s')%nat /\
    (s_gen s' = true -> s_gen s = true \/ In gen_caveat cavs) /\
    (s_user s' = true -> s_user s = true \/ In (user_prefix ++ user) cavs) /\
    (s_time s' = true -> s_time s = true \/
        exists t, In (time_prefix ++ t) cavs /\ verify_expiry t now = true).
  Proof.
    induction cavs as [|c cavs IH]; intros s s' H.
    - simpl in H. inversion H; subst. simpl. repeat split; auto.
    - cbn [fold_left] in H.
      destruct (step_caveat user now (Some s) c) as [s1|] eqn:E;
        [|rewrite fold_none in H; discriminate].
      destruct (IH _ _ H) as (Hall & Hcnt & Hg & Hu & Ht).
      cbn [step_caveat] in E.
      destruct (classify c) as [|u|t|] eqn:Ec.
      + apply classify_gen in Ec. destruct (s_gen s) eqn:Eg; [discriminate|].
        inversion E; subst s1; clear E. unfold cnt in *; cbn [s_gen s_user s_time] in *; rewrite ?Eg in *.
        repeat split.
        * constructor; [left; exact Ec|exact Hall].
        * cbn [length]; lia.
        * intros; right; left; exact Ec.
        * intro X. destruct (Hu X) as [?|?]; [left|right; right]; assumption.
        * intro X. destruct (Ht X) as [?|(t & ? & ?)]; [left; assumption|right; exists t; split; [right|]; assumption].
      + apply classify_user in Ec. destruct (s_user s) eqn:Eu; [discriminate|].
        destruct (bytes_eqb u user) eqn:Euu; [|discriminate].
        apply bytes_eqb_eq in Euu; subst u.
        inversion E; subst s1; clear E. unfold cnt in *; cbn [s_gen s_user s_time] in *; rewrite ?Eu in *.
        repeat split.
        * constructor; [right; left; exact Ec|exact Hall].
        * cbn [length]; lia.
        * intro X. destruct (Hg X) as [?|?]; [left|right; right]; assumption.
        * intros; right; left; exact Ec.
        * intro X. destruct (Ht X) as [?|(t & ? & ?)]; [left; assumption|right; exists t; split; [right|]; assumption].
      + apply classify_time in Ec. destruct (s_time s) eqn:Et; [discriminate|].
        destruct (verify_expiry t now) eqn:Ev; [|discriminate].
        inversion E; subst s1; clear E. unfold cnt in *; cbn [s_gen s_user s_time] in *; rewrite ?Et in *.
        repeat split.
        * constructor; [right; right; exists t; split; assumption|exact Hall].
        * cbn [length]; lia.
        * intro X. destruct (Hg X) as [?|?]; [left|right; right]; assumption.
        * intro X. destruct (Hu X) as [?|?]; [left|right; right]; assumption.
        * intros _. right. exists t. split; [left; exact Ec|exact Ev].
      + discriminate.
  Qed.

  (* soundness of verify_caveats: exactly the three required caveats, each satisfied *)
  Lemma verify_caveats_sound cavs user now :
    verify_caveats cavs user now = true ->
    length cavs = 3%nat /\
    Forall (good_caveat user now) cavs /\
    In gen_caveat cavs /\ In (user_prefix ++ user) cavs /\
    exists t, In (time_prefix ++ t) cavs /\ verify_expiry t now = true.
  Proof.
    unfold verify_caveats.
    destruct (fold_left (step_caveat user now) cavs (Some seen0)) as [s|] eqn:E; [|discriminate].
    intro H. apply andb_true_iff in H as [H Ht]. apply andb_true_iff in H as [Hg Hu].
    destruct (fold_inv _ _ _ _ _ E) as (Hall & Hcnt & Hg' & Hu' & Ht').
    unfold cnt in Hcnt. rewrite Hg, Hu, Ht in Hcnt. cbn in Hcnt.
    repeat split.
    - lia.
    - exact Hall.
    - destruct (Hg' Hg) as [X|X]; [discriminate X|exact X].
    - destruct (Hu' Hu) as [X|X]; [discriminate X|exact X].
    - destruct (Ht' Ht) as [X|X]; [discriminate X|exact X].
  Qed.

  (* ---------- issued tokens ---------- *)
  Definition in_int64 (z : Z) : Prop := (- 2 ^ 63 <= z < 2 ^ 63)%Z.

  Lemma verify_expiry_print e now : in_int64 e -> verify_expiry (print_int e) now = (now <? e)%Z.
  Proof.
    intros [H1 H2]. unfold verify_expiry, parse_int64. rewrite parse_print_int.
    replace ((- 2 ^ 63 <=? e)%Z) with true by (symmetry; apply Z.leb_le; exact H1).
    replace ((e <? 2 ^ 63)%Z) with true by (symmetry; apply Z.ltb_lt; exact H2).
    reflexivity.
  Qed.

  Lemma step_gen user now s :
    step_caveat user now (Some s) gen_caveat =
    if s_gen s then None else Some {| s_gen := true; s_user := s_user s; s_time := s_time s |}.
  Proof. unfold step_caveat. rewrite classify_gen_caveat. reflexivity. Qed.

  Lemma step_user user now s u :
    step_caveat user now (Some s) (user_prefix ++ u) =
    if s_user s then None else if bytes_eqb u user
      then Some {| s_gen := s_gen s; s_user := true; s_time := s_time s |} else None.
  Proof. unfold step_caveat. rewrite classify_user_caveat. reflexivity. Qed.

  Lemma step_time user now s t :
    step_caveat user now (Some s) (time_prefix ++ t) =
    if s_time s then None else if verify_expiry t now
      then Some {| s_gen := s_gen s; s_user := s_user s; s_time := true |} else None.
  Proof. unfold step_caveat. rewrite classify_time_caveat. reflexivity. Qed.

  Lemma verify_caveats_issued user user' now e : in_int64 e ->
    verify_caveats [gen_caveat; user_prefix ++ user; time_prefix ++ print_int e] user' now
    = bytes_eqb user user' && (now <? e)%Z.
  Proof.
    intro He. unfold verify_caveats. cbn [fold_left].
    rewrite step_gen. cbn [s_gen s_user s_time seen0].
    rewrite step_user. cbn [s_gen s_user s_time].
    destruct (bytes_eqb user user') eqn:Eu; [|reflexivity].
    rewrite step_time. cbn [s_gen s_user s_time].
    rewrite verify_expiry_print by exact He.
    destruct (now <? e)%Z; reflexivity.
  Qed.

  Lemma sig_eqb_refl a : sig_eqb a a = true.
  Proof. apply sig_eqb_spec. reflexivity. Qed.

  Lemma expiry_of_in_range t0 d : in_int64 (t0 + duration_of d) -> expiry_of t0 d = (t0 + duration_of d)%Z.
  Proof.
    unfold in_int64, expiry_of. intro H. cbv zeta.
    destruct (2 ^ 63 <=? t0 + duration_of d)%Z eqn:E; [apply Z.leb_le in E; lia|reflexivity].
  Qed.

  (* a duration that would carry the expiry past the largest instant: the token expires there *)
  Lemma expiry_of_saturates t0 d : (2 ^ 63 <= t0 + duration_of d)%Z -> expiry_of t0 d = (2 ^ 63 - 1)%Z.
  Proof. unfold expiry_of. intro H. cbv zeta. apply Z.leb_le in H. rewrite H. reflexivity. Qed.

  Lemma expiry_of_int64 t0 d : (- 2 ^ 63 <= t0 + duration_of d)%Z -> in_int64 (expiry_of t0 d).
  Proof.
    unfold in_int64, expiry_of. intro H. cbv zeta.
    destruct (2 ^ 63 <=? t0 + duration_of d)%Z eqn:E; [lia|apply Z.leb_gt in E; lia].
  Qed.

  (* C20 main statement for issued tokens *)
  Lemma issued_validates_iff key user t0 d key' user' now :
    in_int64 (t0 + duration_of d) ->
    validate key' user' now (issue key user t0 d) = true <->
    key' = key /\ user' = user /\ (now < t0 + duration_of d)%Z.
  Proof.
    intro He. unfold Model.validate, Model.issue. rewrite (expiry_of_in_range _ _ He).
    cbn [tsig tid tcavs Model.mint].
    rewrite verify_caveats_issued by exact He.
    rewrite !andb_true_iff, sig_eqb_spec, bytes_eqb_eq, Z.ltb_lt.
    split.
    - intros (Hs & Hu & Hn). apply chain_inj in Hs as (Hk & _ & _). subst. tauto.
    - intros (-> & -> & Hn). tauto.
  Qed.

  Lemma issued_expires key user t0 d key' user' now :
    in_int64 (t0 + duration_of d) -> (t0 + duration_of d <= now)%Z ->
    validate key' user' now (issue key user t0 d) = false.
  Proof.
    intros He Hn. destruct (validate key' user' now (issue key user t0 d)) eqn:E; [|reflexivity].
    apply issued_validates_iff in E; [|exact He]. lia.
  Qed.

  (* the same for every duration that does not carry the sum below the smallest instant (the
     clock reading is not negative, so that needs a duration below -2^63 + t0): the expiry instant
     is expiry_of, i.e. the sum, or the largest instant where the sum would pass it *)
  Lemma issued_validates_iff_gen key user t0 d key' user' now :
    (- 2 ^ 63 <= t0 + duration_of d)%Z ->
    validate key' user' now (issue key user t0 d) = true <->
    key' = key /\ user' = user /\ (now < expiry_of t0 d)%Z.
  Proof.
    intro He. pose proof (expiry_of_int64 _ _ He) as Hi.
    unfold Model.validate, Model.issue. cbn [tsig tid tcavs Model.mint].
    rewrite verify_caveats_issued by exact Hi.
    rewrite !andb_true_iff, sig_eqb_spec, bytes_eqb_eq, Z.ltb_lt.
    split.
    - intros (Hs & Hu & Hn). apply chain_inj in Hs as (Hk & _ & _). subst. tauto.
    - intros (-> & -> & Hn). tauto.
  Qed.

  (* the server name (repair of F96): with a validating server named, a token whose location is
     another name is refused; and whatever validate_at accepts, validate accepts *)
  Lemma validate_at_other_server srv loc key user now t :
    srv <> [] -> loc <> srv -> validate_at sigT mac0 macS sig_eqb srv loc key user now t = false.
  Proof.
    intros Hs Hl. unfold validate_at. destruct srv as [|c r]; [congruence|].
    destruct (bytes_eqb loc (c :: r)) eqn:E; [apply bytes_eqb_eq in E; congruence|reflexivity].
  Qed.

  Lemma validate_at_sound srv loc key user now t :
    validate_at sigT mac0 macS sig_eqb srv loc key user now t = true ->
    validate key user now t = true /\ (srv = [] \/ loc = srv).
  Proof.
    unfold validate_at. destruct srv as [|c r]; [intro H; split; [exact H|left; reflexivity]|].
    intro H. apply andb_true_iff in H as [E H]. apply bytes_eqb_eq in E. split; [exact H|right; exact E].
  Qed.

  Lemma issued_reveals_user key user t0 d : user_of sigT (issue key user t0 d) = user.
  Proof. reflexivity. Qed.

  (* ---------- arbitrary tokens: validation characterised ---------- *)
  Lemma validate_sound key user now (t : token) :
    validate key user now t = true ->
    tsig t = chain key (tid t) (tcavs t) /\
    length (tcavs t) = 3%nat /\
    Forall (good_caveat user now) (tcavs t) /\
    In gen_caveat (tcavs t) /\ In (user_prefix ++ user) (tcavs t) /\
    exists e, In (time_prefix ++ e) (tcavs t) /\ verify_expiry e now = true.
  Proof.
    unfold Model.validate. rewrite andb_true_iff, sig_eqb_spec. intros [Hs Hc].
    split; [exact Hs|]. apply verify_caveats_sound. exact Hc.
  Qed.

  (* a token minted under another key is refused *)
  Lemma other_key_refused key key' id cavs user now :
    key <> key' -> validate key' user now (mint key id cavs) = false.
  Proof.
    intro Hk. unfold Model.validate, Model.mint. cbn [tsig tid tcavs].
    destruct (sig_eqb (chain key id cavs) (chain key' id cavs)) eqn:E; [|reflexivity].
    apply sig_eqb_spec, chain_inj in E. tauto.
  Qed.

  (* any extension of an acceptable token is refused (4 caveats) *)
  Lemma extended_refused key user now (t : token) c key' user' now' :
    validate key user now t = true -> validate key' user' now' (add_caveat t c) = false.
  Proof.
    intro H. apply validate_sound in H as (_ & Hlen & _).
    destruct (validate key' user' now' (add_caveat t c)) eqn:E; [|reflexivity].
    apply validate_sound in E as (_ & Hlen' & _).
    unfold Model.add_caveat in Hlen'. cbn [tcavs] in Hlen'. rewrite app_length in Hlen'.
    simpl in Hlen'. lia.
  Qed.

  (* any alteration of identifier or caveats that keeps the signature is refused:
     two acceptable tokens with the same signature are the same token under the same key *)
  Lemma altered_refused key user now (t : token) key' user' now' (t' : token) :
    validate key user now t = true -> validate key' user' now' t' = true ->
    tsig t' = tsig t -> key' = key /\ tid t' = tid t /\ tcavs t' = tcavs t.
  Proof.
    intros H H' Hs. apply validate_sound in H as (Hc & _). apply validate_sound in H' as (Hc' & _).
    rewrite Hc, Hc' in Hs. apply chain_inj in Hs. tauto.
  Qed.

  (* a token lacking a required caveat, or carrying an unknown one, is refused *)
  Lemma unknown_caveat_refused key user now (t : token) c :
    In c (tcavs t) -> classify c = CUnknown -> validate key user now t = false.
  Proof.
    intros Hin Hc. destruct (validate key user now t) eqn:E; [|reflexivity].
    apply validate_sound in E as (_ & _ & Hall & _).
    rewrite Forall_forall in Hall. specialize (Hall c Hin).
    destruct Hall as [->|[->|(e & -> & _)]].
    - rewrite classify_gen_caveat in Hc. discriminate.
    - rewrite classify_user_caveat in Hc. discriminate.
    - rewrite classify_time_caveat in Hc. discriminate.
  Qed.

  Lemma missing_caveat_refused key user now (t : token) :
    (~ In gen_caveat (tcavs t) \/ ~ In (user_prefix ++ user) (tcavs t) \/
     (forall e, In (time_prefix ++ e) (tcavs t) -> verify_expiry e now = false)) ->
    validate key user now t = false.
  Proof.
    intros H. destruct (validate key user now t) eqn:E; [|reflexivity].
    apply validate_sound in E as (_ & _ & _ & Hg & Hu & e & He & Hv).
    destruct H as [H|[H|H]]; [contradiction|contradiction|].
    rewrite (H e He) in Hv. discriminate.
  Qed.

  (* only the user the token was issued for: a token acceptable for two users names one *)
  Lemma wrong_user_refused key user now (t : token) user' :
    validate key user now t = true -> user' <> user -> validate key user' now t = false.
  Proof.
    intros H Hne. destruct (validate key user' now t) eqn:E; [|reflexivity].
    apply validate_sound in H as (_ & Hlen & Hall & Hg & Hu & e & He & _).
    apply validate_sound in E as (_ & _ & _ & _ & Hu' & _).
    rewrite Forall_forall in Hall. specialize (Hall _ Hu').
    destruct Hall as [X|[X|(e' & X & _)]].
    - exfalso. assert (C : classify (user_prefix ++ user') = classify gen_caveat) by (rewrite X; reflexivity).
      rewrite classify_user_caveat, classify_gen_caveat in C. discriminate.
    - apply app_inv_head in X. congruence.
    - exfalso. assert (C : classify (user_prefix ++ user') = classify (time_prefix ++ e')) by (rewrite X; reflexivity).
      rewrite classify_user_caveat, classify_time_caveat in C. discriminate.
  Qed.
End TokenProofs.

(* the premises, bundled *)
Record ideal_chain {sigT : Type} (mac0 : bytes -> bytes -> sigT) (macS : sigT -> bytes -> sigT)
       (sig_eqb : sigT -> sigT -> bool) : Prop := {
  ic_mac0_inj : forall k i k' i', mac0 k i = mac0 k' i' -> k = k' /\ i = i';
  ic_macS_inj : forall s c s' c', macS s c = macS s' c' -> s = s' /\ c = c';
  ic_mac0_macS : forall k i s c, mac0 k i <> macS s c;
  ic_eqb_spec : forall a b, sig_eqb a b = true <-> a = b }.

(* completeness of the caveat check for every order of the three required caveats *)
Section Completeness.
  Definition perms3 (a b c : bytes) : list (list bytes) :=
    [[a; b; c]; [a; c; b]; [b; a; c]; [b; c; a]; [c; a; b]; [c; b; a]].

  Lemma verify_caveats_complete_perm user now e cavs :
    in_int64 e -> (now < e)%Z ->
    In cavs (perms3 gen_caveat (user_prefix ++ user) (time_prefix ++ print_int e)) ->
    verify_caveats cavs user now = true.
  Proof.
    intros He Hn Hin.
    assert (Hv : verify_expiry (print_int e) now = true).
    { rewrite verify_expiry_print by exact He. apply Z.ltb_lt. exact Hn. }
    unfold perms3 in Hin. cbn [In] in Hin.
    destruct Hin as [<-|[<-|[<-|[<-|[<-|[<-|[]]]]]]];
      unfold verify_caveats; cbn [fold_left];
      repeat (first [rewrite step_gen | rewrite step_user | rewrite step_time];
              cbn [s_gen s_user s_time seen0]; rewrite ?bytes_eqb_refl, ?Hv);
      reflexivity.
  Qed.
End Completeness.
