package main

import (
	gmsl "github.com/matrix-org/gomatrixserverlib"
)

func init() {
	RegisterImpl("json.canonical", func(args [][]byte) ([][]byte, []byte) {
		out, err := gmsl.CanonicalJSON(args[0])
		if err != nil {
			return args, B("invalid")
		}
		return args, append(B("ok:"), out...)
	})
	RegisterProp("C00", func(c *Ctx) {
		for _, t := range []string{`{"b":1,"a":[1, 2 ,{"z":null,"y":true}], "c":"xA\n\/😀é"}`, `[]`, `{}`, ` [ ] `, `-0`, `1.5e+3`, `{"a":-0,"b":-12}`,
			`"\u0000\u001f\u007f"`, `{"a":1,"a":2}`, `[1,]`, `{"a"}`, `tru`, `01`, `1.`, `"\x"`, `"abc`, `{"a":{"b":{"c":[[],{}]}}}`, "\"\x01\"", `"\ud800"`, `"é"`, `nul`, `1e5`, `[1 2]`, `{"a":1,}`, ``, ` `, `{"a":1,"B":2}`} {
			c.Run("json.canonical", Args(t), "json.canonical", "", "smoke")
		}
	})
}
