package main

// C01: canonical JSON. Implementation side: CanonicalJSON, CanonicalJSONAssumeValid,
// EnforcedCanonicalJSON (all room versions), gjson.Valid.

import (
	"bytes"
	"fmt"
	"math/rand"
	"sort"
	"strconv"
	"strings"
	"unicode/utf8"

	gmsl "github.com/matrix-org/gomatrixserverlib"
	"github.com/tidwall/gjson"
)

func c01show(out []byte, err error) []byte {
	if err != nil {
		return B("err")
	}
	return append(B("ok:"), out...)
}

func init() {
	RegisterImpl("C01.canonical", func(args [][]byte) ([][]byte, []byte) {
		in := append([]byte{}, args[0]...)
		out, err := gmsl.CanonicalJSON(in)
		if !bytes.Equal(in, args[0]) {
			return args, B("INPUT-MODIFIED")
		}
		return args, c01show(out, err)
	})
	// same, through the entry point that skips the validity gate (only called on valid texts)
	RegisterImpl("C01.assume_valid", func(args [][]byte) ([][]byte, []byte) {
		if !gjson.ValidBytes(args[0]) {
			return args, B("err")
		}
		return args, c01show(gmsl.CanonicalJSONAssumeValid(append([]byte{}, args[0]...)), nil)
	})
	// CompactJSON and SortJSON composed by hand, appended to non-empty output buffers
	RegisterImpl("C01.compact_sort", func(args [][]byte) ([][]byte, []byte) {
		if !gjson.ValidBytes(args[0]) {
			return args, B("err")
		}
		c := gmsl.CompactJSON(args[0], []byte("#"))
		s := gmsl.SortJSON(c[1:], []byte("ok:"))
		return args, s
	})
	RegisterImpl("C01.enforced", func(args [][]byte) ([][]byte, []byte) {
		out, err := gmsl.EnforcedCanonicalJSON(append([]byte{}, args[0]...), gmsl.RoomVersion(args[1]))
		return args, c01show(out, err)
	})
	// the same decision through the IRoomVersion interface
	RegisterImpl("C01.enforced_iface", func(args [][]byte) ([][]byte, []byte) {
		impl, err := gmsl.GetRoomVersion(gmsl.RoomVersion(args[1]))
		if err != nil {
			return args, B("err")
		}
		if err := impl.CheckCanonicalJSON(args[0]); err != nil {
			return args, B("err")
		}
		out, err := gmsl.CanonicalJSON(args[0])
		return args, c01show(out, err)
	})
	RegisterImpl("C01.valid", func(args [][]byte) ([][]byte, []byte) {
		if gjson.Valid(string(args[0])) {
			return args, B("valid")
		}
		return args, B("invalid")
	})
	RegisterImpl("C01.pair", func(args [][]byte) ([][]byte, []byte) {
		c1, e1 := gmsl.CanonicalJSON(args[0])
		c2, e2 := gmsl.CanonicalJSON(args[1])
		if e1 != nil || e2 != nil {
			return args, B("err")
		}
		tag := "differ:"
		if bytes.Equal(c1, c2) {
			tag = "same:"
		}
		return args, append(append(append(B(tag), c1...), '\n'), c2...)
	})
	RegisterImpl("C01.twice", func(args [][]byte) ([][]byte, []byte) {
		c1, e1 := gmsl.CanonicalJSON(args[0])
		if e1 != nil {
			return args, B("same")
		}
		c2, e2 := gmsl.CanonicalJSON(c1)
		if e2 != nil {
			return args, B("second-refused")
		}
		if !bytes.Equal(c1, c2) {
			return args, append(B("changed:"), c2...)
		}
		return args, B("same")
	})
	// [alphabet; n; prefix]: every text prefix+w, |w| <= n over the alphabet, that gjson.Valid
	// accepts, with its canonical form and a "!" when a v6+ room version refuses it
	RegisterImpl("C01.enum", func(args [][]byte) ([][]byte, []byte) {
		n, _ := strconv.Atoi(string(args[1]))
		var out []byte
		var rec func(t []byte, n int)
		rec = func(t []byte, n int) {
			if gjson.Valid(string(t)) {
				c, err := gmsl.CanonicalJSON(t)
				if err != nil {
					c = B("GATE-MISMATCH")
				}
				out = append(append(append(out, t...), '>'), c...)
				if _, err := gmsl.EnforcedCanonicalJSON(t, gmsl.RoomVersionV10); err != nil {
					out = append(out, '!')
				}
				out = append(out, '\n')
			} else if _, err := gmsl.CanonicalJSON(t); err == nil {
				out = append(append(out, t...), B(">GATE-MISMATCH\n")...)
			}
			if n == 0 {
				return
			}
			for _, c := range args[0] {
				rec(append(t[:len(t):len(t)], c), n-1)
			}
		}
		rec(append([]byte{}, args[2]...), n)
		return args, out
	})
	// CompactJSON on ANY bytes; a run-time panic is the observable PANIC (compared with the model's Crash)
	RegisterImpl("C01.compact_raw", func(args [][]byte) ([][]byte, []byte) {
		return args, c01compactRaw(args[0], true)
	})
	// [alphabet; n; prefix]: every text (valid or not) with what CompactJSON makes of it
	RegisterImpl("C01.enum_compact", func(args [][]byte) ([][]byte, []byte) {
		n, _ := strconv.Atoi(string(args[1]))
		var out []byte
		var rec func(t []byte, n int)
		rec = func(t []byte, n int) {
			out = append(append(out, t...), '>')
			out = append(append(out, c01compactRaw(t, false)...), '\n')
			if n == 0 {
				return
			}
			for _, c := range args[0] {
				rec(append(t[:len(t):len(t)], c), n-1)
			}
		}
		rec(append([]byte{}, args[2]...), n)
		return args, out
	})
	// jsonNestingExceeds(t, maxJSONDepth) and jsonNestingExceeds(t, limit)
	RegisterImpl("C01.accepts", func(args [][]byte) ([][]byte, []byte) {
		if _, err := gmsl.CanonicalJSON(args[0]); err != nil {
			return args, B("err")
		}
		return args, B("ok")
	})
	RegisterImpl("C01.enforced_accepts", func(args [][]byte) ([][]byte, []byte) {
		if _, err := gmsl.EnforcedCanonicalJSON(args[0], gmsl.RoomVersion(args[1])); err != nil {
			return args, B("err")
		}
		return args, B("ok")
	})
	RegisterImpl("C01.nesting", func(args [][]byte) ([][]byte, []byte) {
		if gmsl.VerifJSONNestingExceeds(args[0], gmsl.VerifMaxJSONDepth) {
			return args, B("exceeds")
		}
		return args, B("within")
	})
	RegisterImpl("C01.nesting_lim", func(args [][]byte) ([][]byte, []byte) {
		l, _ := strconv.Atoi(string(args[1]))
		if gmsl.VerifJSONNestingExceeds(args[0], l) {
			return args, B("exceeds")
		}
		return args, B("within")
	})
	RegisterProp("C01", genC01)
}

func c01compactRaw(in []byte, tagged bool) (res []byte) {
	defer func() {
		if r := recover(); r != nil {
			if tagged {
				res = B("PANIC")
			} else {
				res = B("!P")
			}
		}
	}()
	cp := append([]byte{}, in...)
	out := gmsl.CompactJSON(cp, nil)
	if !bytes.Equal(cp, in) {
		return B("INPUT-MODIFIED")
	}
	if tagged {
		return append(B("ok:"), out...)
	}
	return out
}

// ---------------------------------------------------------------- values and presentations

type c01val struct {
	kind int // 0 null 1 false 2 true 3 number 4 string 5 array 6 object
	num  string
	str  []rune
	arr  []*c01val
	keys [][]rune
}

var c01ints = []string{"0", "1", "-1", "7", "10", "42", "-12", "100", "255", "1000000", "9007199254740991", "-9007199254740991",
	"9007199254740992", "-9007199254740992", "9007199254740990", "-9007199254740990", "9007199254740993", "18446744073709551616",
	"-123456789012345678901234567890", "90071992547409910", "900719925474099", "9007199254740981"}
var c01nonints = []string{"0.5", "-0.5", "1.5", "0.0", "-0.0", "1.0", "-1.0", "1e5", "1E5", "1e+5", "1E+5", "1e-5", "1E-5", "1e-05", "0e5", "0E5",
	"-0e1", "-0E1", "0e0", "1e0", "1e-0", "-1e-0", "12.25e2", "1.5e300", "1e999", "-1e999", "0.1e1", "100e-2", "9007199254740991.0", "9.007199254740991e15",
	"1E2", "1E-05", "2E-0", "-3E-01", "2e00", "-2.50", "0.000", "10.01", "1e9007199254740993"}

var c01chars = []rune{'a', 'b', 'z', 'A', 'Z', '0', '9', ' ', '_', '-', '.', 'e', 'E', 'u',
	'"', '\\', '/', 0, 1, 7, 8, 9, 10, 11, 12, 13, 14, 15, 16, 0x1a, 0x1b, 0x1f, 0x20, 0x7e, 0x7f, 0x80, 0xa0, 0xe9, 0xff, 0x100, 0x7ff, 0x800,
	0x2028, 0x2029, 0xd7ff, 0xe000, 0xfffd, 0xfffe, 0xffff, 0x10000, 0x1f600, 0x1f4a9, 0x10ffff, 0xfeff, '<', '>', '&', '{', '}', '[', ']', ':', ','}

func c01genStr(r *rand.Rand, max int) []rune {
	n := r.Intn(max + 1)
	s := make([]rune, n)
	for i := range s {
		switch r.Intn(10) {
		case 0:
			s[i] = rune(r.Intn(0x20)) // control
		case 1:
			s[i] = rune(0x20 + r.Intn(0x60)) // printable ASCII
		case 2:
			for {
				s[i] = rune(r.Intn(0x110000))
				if s[i] < 0xd800 || s[i] > 0xdfff {
					break
				}
			}
		default:
			s[i] = c01chars[r.Intn(len(c01chars))]
		}
	}
	return s
}

func c01genNum(r *rand.Rand) string {
	switch r.Intn(8) {
	case 0, 1, 2:
		return c01ints[r.Intn(len(c01ints))]
	case 3:
		return c01nonints[r.Intn(len(c01nonints))]
	case 4:
		return strconv.FormatInt(r.Int63n(2000001)-1000000, 10)
	case 5:
		// around the safe-integer bound
		d := r.Int63n(5) - 2
		v := int64(9007199254740991) + d
		if r.Intn(2) == 0 {
			v = -v
		}
		return strconv.FormatInt(v, 10)
	case 6:
		return "0"
	default:
		return strconv.FormatInt(r.Int63(), 10)
	}
}

func c01genVal(r *rand.Rand, depth int, intsOnly bool) *c01val {
	k := r.Intn(9)
	if depth <= 0 && k >= 7 {
		k = r.Intn(7)
	}
	switch k {
	case 0:
		return &c01val{kind: 0}
	case 1:
		return &c01val{kind: 1}
	case 2:
		return &c01val{kind: 2}
	case 3, 4:
		n := c01genNum(r)
		if intsOnly && strings.ContainsAny(n, ".eE") {
			n = c01ints[r.Intn(len(c01ints))]
		}
		return &c01val{kind: 3, num: n}
	case 5, 6:
		return &c01val{kind: 4, str: c01genStr(r, 6)}
	case 7:
		n := r.Intn(5)
		v := &c01val{kind: 5}
		for i := 0; i < n; i++ {
			v.arr = append(v.arr, c01genVal(r, depth-1, intsOnly))
		}
		return v
	default:
		n := r.Intn(6)
		if r.Intn(40) == 0 {
			n = 13 + r.Intn(8) // beyond the insertion-sort threshold of the library's sort
		}
		v := &c01val{kind: 6}
		seen := map[string]bool{}
		for i := 0; i < n; i++ {
			key := c01genStr(r, 3)
			if r.Intn(3) == 0 && len(v.keys) > 0 {
				// a key sharing a prefix with an earlier one (ordering of prefixes)
				key = append(append([]rune{}, v.keys[r.Intn(len(v.keys))]...), c01genStr(r, 1)...)
			}
			if seen[string(key)] {
				continue
			}
			seen[string(key)] = true
			v.keys = append(v.keys, key)
			v.arr = append(v.arr, c01genVal(r, depth-1, intsOnly))
		}
		return v
	}
}

func c01ws(r *rand.Rand, level int) string {
	if level == 0 || r.Intn(3) != 0 {
		return ""
	}
	n := 1 + r.Intn(2)
	b := make([]byte, n)
	for i := range b {
		b[i] = " \t\n\r"[r.Intn(4)]
	}
	return string(b)
}

func c01hex4(r *rand.Rand, v rune) string {
	s := fmt.Sprintf("%04x", v)
	b := []byte(s)
	for i := range b {
		if r.Intn(2) == 0 {
			b[i] = strings.ToUpper(string(b[i]))[0]
		}
	}
	return string(b)
}

// one spelling of a code point inside a JSON string; esc: 0 = shortest, 1 = random
func c01char(r *rand.Rand, c rune, esc int) string {
	two := map[rune]string{'"': `\"`, '\\': `\\`, 8: `\b`, 12: `\f`, 10: `\n`, 13: `\r`, 9: `\t`, '/': `\/`}
	uesc := func() string {
		if c >= 0x10000 {
			c2 := c - 0x10000
			return `\u` + c01hex4(r, 0xd800+(c2>>10)) + `\u` + c01hex4(r, 0xdc00+(c2&0x3ff))
		}
		return `\u` + c01hex4(r, c)
	}
	mustEscape := c < 0x20 || c == '"' || c == '\\'
	if esc == 0 {
		if t, ok := two[c]; ok && c != '/' {
			return t
		}
		if c < 0x20 {
			return fmt.Sprintf(`\u%04x`, c)
		}
		return string(c)
	}
	switch r.Intn(4) {
	case 0:
		return uesc()
	case 1:
		if t, ok := two[c]; ok {
			return t
		}
	}
	if mustEscape {
		if t, ok := two[c]; ok && r.Intn(2) == 0 {
			return t
		}
		return uesc()
	}
	return string(c)
}

func c01strText(r *rand.Rand, s []rune, level int) string {
	var b strings.Builder
	b.WriteByte('"')
	for _, c := range s {
		e := 1
		if level == 0 {
			e = 0
		}
		b.WriteString(c01char(r, c, e))
	}
	b.WriteByte('"')
	return b.String()
}

// level 0: canonical-looking presentation in source order; 1: random whitespace, escapes, member order, -0
func c01render(r *rand.Rand, v *c01val, level int, b *strings.Builder) {
	switch v.kind {
	case 0:
		b.WriteString("null")
	case 1:
		b.WriteString("false")
	case 2:
		b.WriteString("true")
	case 3:
		if level > 0 && v.num == "0" && r.Intn(2) == 0 {
			b.WriteString("-0")
		} else {
			b.WriteString(v.num)
		}
	case 4:
		b.WriteString(c01strText(r, v.str, level))
	case 5:
		b.WriteByte('[')
		b.WriteString(c01ws(r, level))
		for i, e := range v.arr {
			if i > 0 {
				b.WriteByte(',')
				b.WriteString(c01ws(r, level))
			}
			c01render(r, e, level, b)
			b.WriteString(c01ws(r, level))
		}
		b.WriteByte(']')
	case 6:
		idx := make([]int, len(v.keys))
		for i := range idx {
			idx[i] = i
		}
		if level > 0 {
			r.Shuffle(len(idx), func(i, j int) { idx[i], idx[j] = idx[j], idx[i] })
		}
		b.WriteByte('{')
		b.WriteString(c01ws(r, level))
		for n, i := range idx {
			if n > 0 {
				b.WriteByte(',')
				b.WriteString(c01ws(r, level))
			}
			b.WriteString(c01strText(r, v.keys[i], level))
			b.WriteString(c01ws(r, level))
			b.WriteByte(':')
			b.WriteString(c01ws(r, level))
			c01render(r, v.arr[i], level, b)
			b.WriteString(c01ws(r, level))
		}
		b.WriteByte('}')
	}
}

func c01text(r *rand.Rand, v *c01val, level int) string {
	var b strings.Builder
	b.WriteString(c01ws(r, level))
	c01render(r, v, level, &b)
	b.WriteString(c01ws(r, level))
	return b.String()
}

func c01clone(v *c01val) *c01val {
	w := *v
	w.str = append([]rune{}, v.str...)
	w.arr = nil
	for _, e := range v.arr {
		w.arr = append(w.arr, c01clone(e))
	}
	w.keys = nil
	for _, k := range v.keys {
		w.keys = append(w.keys, append([]rune{}, k...))
	}
	return &w
}

// change the value somewhere (small edits a sloppy canonicaliser could lose); false if nothing changed
func c01perturb(r *rand.Rand, v *c01val) bool {
	switch v.kind {
	case 0:
		v.kind = 1
		return true
	case 1:
		v.kind = 2
		return true
	case 2:
		v.kind = 0
		return true
	case 3:
		if v.num == "0" {
			v.num = "1"
		} else if strings.ContainsAny(v.num, ".eE") {
			if v.num == "0.25" {
				v.num = "0.75"
			} else {
				v.num = "0.25"
			}
		} else if v.num[0] == '-' {
			v.num = v.num[1:]
		} else {
			v.num = "-" + v.num
		}
		return true
	case 4:
		if len(v.str) == 0 || r.Intn(3) == 0 {
			v.str = append(v.str, c01chars[r.Intn(len(c01chars))])
			return true
		}
		i := r.Intn(len(v.str))
		switch r.Intn(3) {
		case 0:
			v.str = append(v.str[:i:i], v.str[i+1:]...)
		case 1:
			if v.str[i] == 'q' {
				v.str[i] = 'r'
			} else {
				v.str[i] = 'q'
			}
		default:
			if len(v.str) >= 2 && v.str[0] != v.str[len(v.str)-1] {
				v.str[0], v.str[len(v.str)-1] = v.str[len(v.str)-1], v.str[0]
			} else {
				v.str = append(v.str, 0)
			}
		}
		return true
	case 5:
		if len(v.arr) == 0 {
			v.arr = append(v.arr, &c01val{kind: 0})
			return true
		}
		i := r.Intn(len(v.arr))
		switch r.Intn(4) {
		case 0:
			v.arr = append(v.arr[:i:i], v.arr[i+1:]...)
			return true
		case 1:
			j := r.Intn(len(v.arr))
			a, b := c01text(r, v.arr[i], 0), c01text(r, v.arr[j], 0)
			if a == b {
				return c01perturb(r, v.arr[i])
			}
			v.arr[i], v.arr[j] = v.arr[j], v.arr[i]
			return true
		default:
			return c01perturb(r, v.arr[i])
		}
	default:
		if len(v.arr) == 0 {
			v.keys = append(v.keys, []rune("k"))
			v.arr = append(v.arr, &c01val{kind: 0})
			return true
		}
		i := r.Intn(len(v.arr))
		switch r.Intn(4) {
		case 0:
			v.arr = append(v.arr[:i:i], v.arr[i+1:]...)
			v.keys = append(v.keys[:i:i], v.keys[i+1:]...)
			return true
		case 1:
			nk := append(append([]rune{}, v.keys[i]...), 'x')
			for _, k := range v.keys {
				if string(k) == string(nk) {
					return c01perturb(r, v.arr[i])
				}
			}
			v.keys[i] = nk
			return true
		default:
			return c01perturb(r, v.arr[i])
		}
	}
}

// a gjson-valid text whose strings contain a \uXXXX surrogate escape that is not part of a
// high+low pair: outside the property's domain (ill-formed Unicode), model and library differ there
func c01loneSurrogate(t []byte) bool {
	in := false
	for i := 0; i < len(t); i++ {
		c := t[i]
		if !in {
			if c == '"' {
				in = true
			}
			continue
		}
		if c == '"' {
			in = false
			continue
		}
		if c != '\\' || i+1 >= len(t) {
			continue
		}
		i++
		if t[i] != 'u' || i+4 >= len(t) {
			continue
		}
		v, err := strconv.ParseUint(string(t[i+1:i+5]), 16, 32)
		if err != nil {
			continue
		}
		i += 4
		if v >= 0xdc00 && v <= 0xdfff {
			return true
		}
		if v >= 0xd800 && v <= 0xdbff {
			if i+6 < len(t) && t[i+1] == '\\' && t[i+2] == 'u' {
				w, err := strconv.ParseUint(string(t[i+3:i+7]), 16, 32)
				if err == nil && w >= 0xdc00 && w <= 0xdfff {
					i += 6
					continue
				}
			}
			return true
		}
	}
	return false
}

// an object somewhere in the (valid) text has two members with the same decoded key: outside the
// property's domain; the library's sort is not stable beyond 12 members
func c01dupKeys(t []byte) bool {
	dup := false
	var walk func(v gjson.Result)
	walk = func(v gjson.Result) {
		if dup {
			return
		}
		if v.IsObject() {
			seen := map[string]bool{}
			v.ForEach(func(k, x gjson.Result) bool {
				if seen[k.String()] {
					dup = true
					return false
				}
				seen[k.String()] = true
				walk(x)
				return true
			})
		} else if v.IsArray() {
			v.ForEach(func(_, x gjson.Result) bool {
				walk(x)
				return true
			})
		}
	}
	walk(gjson.ParseBytes(t))
	return dup
}

var c01versions = []string{"1", "2", "3", "4", "5", "6", "7", "8", "9", "10", "11", "12",
	"org.matrix.msc3667", "org.matrix.msc3787", "org.matrix.msc4014", "org.matrix.hydra.11"}
var c01unknownVersions = []string{"", "0", "13", "06", "6 ", "org.matrix.msc9999", "V6"}

func genC01(c *Ctx) {
	r := c.Rng
	one := func(t string, tag string) {
		c.Run("C01.canonical", Args(t), "C01.canonical", "C01.prop.all", tag)
	}
	allVersions := func(t string, tag string) {
		for _, ver := range c01versions {
			c.Run("C01.enforced", Args(t, ver), "C01.enforced", "C01.prop.enforced", tag)
			c.Run("C01.enforced_iface", Args(t, ver), "C01.enforced", "", tag)
		}
		for _, ver := range c01unknownVersions {
			c.Run("C01.enforced", Args(t, ver), "C01.enforced", "C01.prop.enforced", tag+"/unknown-version")
		}
		c.Count("enforced: all 16 versions + unknown names")
	}

	// ---- 0. hand-picked texts (the three repaired defects, boundaries)
	fixed := []string{`{"a\"b":1}`, `{"a\\b":1,"a\nb":2,"a\u0001b":3,"\u0000":4,"":5}`, `-0.5`, `[-0.5,-0,-0.0,-0e1,1e-05,-0E0]`,
		`1e-05`, `-0`, ` -0 `, `[-0]`, `{"a":-0}`, `1E2`, `0.0`, `-0.0`, `0e5`, `[1E2]`, `{"a":{"b":[0,0.0]}}`, `"1.5"`, `"1e5"`, `"-0"`, `["-0"]`, `true`, `false`, `null`,
		`[true,false,null]`, `{"e":true,".":false}`, `9007199254740991`, `9007199254740992`, `-9007199254740991`, `-9007199254740992`, `[9007199254740991,-9007199254740991]`,
		`{"b":2,"a":1}`, `{"a":1,"A":2,"\u0001":3,"\\":4}`, `"\ud83d\ude00"`, `"\uD83D\uDE00"`, `"\ud83D\uDe00x"`, `"\/"`, `"\u002f"`, `"\u0022\u005c\u005C"`, `"\u007f\u0080\u07ff\u0800\uffff"`,
		`"\u0008\u0009\u000a\u000A\u000b\u000c\u000d\u001f\u0020"`, `"\b\f\n\r\t"`, "\"\x7f\"", "\"\xc3\xa9\"", `[]`, `{}`, `[[]]`, `[{}]`, `{"a":{}}`, `{"":""}`, ` [ 1 , 2 ] `, "\t{\n\"a\"\r:\t1\n}\r",
		`[1,2,3]`, `[3,2,1]`, `{"a":[{"z":1,"y":2},{"y":1,"z":2}]}`, `{"aa":1,"a":2,"ab":3,"b":4,"":5}`, `1`, `0`, `10`, `-1`, `1.0`, `123456789012345678901234567890`,
		`{"\ud83d\ude00":1,"\uffff":2}`, `{"\u00ff":1,"\u0100":2,"z":3}`,
		// invalid
		``, ` `, `-`, `01`, `1.`, `.5`, `1e`, `1e+`, `+1`, `--1`, `[1,]`, `[,1]`, `{"a":1,}`, `{"a"}`, `{a:1}`, `{"a":1 "b":2}`, `[1 2]`, `tru`, `nul`, `True`, `"abc`, `"\x"`, `"\u12"`, `"\u12g4"`,
		"\"\x01\"", "\"\n\"", `[1]]`, `{}{}`, `1 2`, `"a" "b"`, `[`, `{`, `]`, `}`, `{"a":}`, `{:1}`, `'a'`, `NaN`, `Infinity`, `-Infinity`, `0x10`, `1_0`, "\x00", "[1]\x00", "\ufeff[]", "[\x0b]", "[\x0c1]",
		`-01`, `-0 1`, `- 0`, `1e-`, `"\"`, `"\\\"`, `[-]`, `[-,0]`}
	for _, t := range fixed {
		one(t, "fixed")
		c.Run("C01.valid", Args(t), "C01.valid", "", "fixed")
		c.Run("C01.assume_valid", Args(t), "C01.canonical_unguarded", "", "fixed")
		c.Run("C01.compact_sort", Args(t), "C01.canonical_unguarded", "", "fixed")
		c.Run("C01.twice", Args(t), "C01.const_same", "", "fixed")
		c.Run("C01.compact_raw", Args(t), "C01.compact_raw", "C01.prop.compact_safe", "fixed/compact-raw")
		allVersions(t, "fixed")
		c.Count("fixed texts")
	}
	// validity only: lone surrogates (outside the domain of the byte-level comparison)
	for _, t := range []string{`"\ud800"`, `"\udc00"`, `"\ud800x"`, `"\ud800\u0041"`, `"\udc00\ud800"`, `{"\ud800":1}`, `"\udbff"`, `"\ud800\n"`, `"\ud800\\"`, `"\ud800\""`, `["\udfff",-0]`, `"\ud800\ud800\udc00"`, `"\ud83d\ud83d"`} {
		c.Run("C01.valid", Args(t), "C01.valid", "", "lone-surrogate(validity only)")
		c.Run("C01.compact_raw", Args(t), "C01.compact_raw", "C01.prop.compact_safe", "lone-surrogate/compact-raw")
	}

	// ---- 1. numbers at every position, all versions
	numTexts := func(n string) []string {
		return []string{n, " " + n + " ", "[" + n + "]", "[1," + n + "]", "[" + n + ",1]", "[1,2," + n + ",3]", `{"a":` + n + `}`, `{"a":1,"b":` + n + `}`, `{"b":` + n + `,"a":1}`,
			`{"a":[{"b":[1,{"c":` + n + `}]}]}`, `[[[[` + n + `]]]]`, `[[1],[` + n + `]]`, `{"a":{"b":1},"c":{"d":` + n + `}}`, `["` + n + `"]`, `{"` + n + `":1}`, `[true,"1.5e5",null,` + n + `,false]`}
	}
	nums := append(append([]string{}, c01ints...), c01nonints...)
	nums = append(nums, "-0", "-1.5", "-9007199254740993")
	for _, n := range nums {
		ts := numTexts(n)
		for i, t := range ts {
			if i < 3 || c.Thorough() || r.Intn(4) == 0 {
				allVersions(t, "number-position")
			} else {
				ver := c01versions[r.Intn(len(c01versions))]
				c.Run("C01.enforced", Args(t, ver), "C01.enforced", "C01.prop.enforced", "number-position")
			}
			one(t, "number-position")
		}
		c.Count("number literals x positions")
	}

	// ---- 2. random values, two independent presentations, uniqueness, all entry points
	n := c.Scale(1500, 20000)
	for i := 0; i < n; i++ {
		intsOnly := r.Intn(3) > 0
		v := c01genVal(r, 1+r.Intn(4), intsOnly)
		t1 := c01text(r, v, 1)
		t2 := c01text(r, v, 1)
		t0 := c01text(r, v, 0)
		one(t1, "random/presentation")
		c.Run("C01.pair", Args(t1, t2), "C01.pair", "C01.prop.unique", "random/two presentations of one value")
		c.Run("C01.pair", Args(t0, t2), "C01.pair", "C01.prop.unique", "random/plain vs presented")
		w := c01clone(v)
		if c01perturb(r, w) {
			c.Run("C01.pair", Args(t1, c01text(r, w, 1)), "C01.pair", "C01.prop.unique", "random/perturbed value")
			c.Count("pairs: perturbed value")
		}
		c.Run("C01.assume_valid", Args(t2), "C01.canonical_unguarded", "", "random/assume-valid")
		c.Run("C01.compact_raw", Args(t1), "C01.compact_raw", "C01.prop.compact_safe", "random/compact-raw")
		if i%4 == 0 {
			c.Run("C01.compact_sort", Args(t1), "C01.canonical_unguarded", "", "random/compact+sort")
			c.Run("C01.twice", Args(t2), "C01.const_same", "", "random/twice")
			c.Run("C01.valid", Args(t1), "C01.valid", "", "random/valid")
		}
		if i%25 == 0 {
			allVersions(t1, "random/all-versions")
		} else {
			ver := c01versions[r.Intn(len(c01versions))]
			c.Run("C01.enforced", Args(t1, ver), "C01.enforced", "C01.prop.enforced", "random/enforced")
		}
		if intsOnly {
			c.Count("random values: integers only")
		} else {
			c.Count("random values: any number literal")
		}
		c.Count("pairs: same value")

		// ---- 3. malformed stream: truncation, byte flip, insertion, deletion
		for k := 0; k < 2; k++ {
			m := []byte(t1)
			if len(m) == 0 {
				continue
			}
			kind := r.Intn(5)
			switch kind {
			case 0:
				m = m[:r.Intn(len(m))]
			case 1:
				m[r.Intn(len(m))] ^= 1 << uint(r.Intn(8))
			case 2:
				p := r.Intn(len(m) + 1)
				ins := []byte(`{}[],:"\u0-.eE 1a` + "\x00\x1f\x7f\x80\xff\t\n")
				m = append(m[:p:p], append([]byte{ins[r.Intn(len(ins))]}, m[p:]...)...)
			case 3:
				p := r.Intn(len(m))
				m = append(m[:p:p], m[p+1:]...)
			default:
				p := r.Intn(len(m))
				m[p] = []byte(`{}[],:"\u0-.eE 1a`)[r.Intn(17)]
			}
			c.Run("C01.valid", [][]byte{m}, "C01.valid", "", "malformed/validity")
			if string(c.Run("C01.compact_raw", [][]byte{m}, "C01.compact_raw", "C01.prop.compact_safe", "malformed/compact-raw")) == "PANIC" {
				c.Count("compact_raw: panics (malformed stream)")
			}
			if gjson.ValidBytes(m) && c01loneSurrogate(m) {
				c.Count("malformed: still valid but lone surrogate (validity only)")
				continue
			}
			if gjson.ValidBytes(m) && c01dupKeys(m) {
				c.Count("malformed: still valid but duplicate keys (validity only)")
				continue
			}
			out := c.Run("C01.canonical", [][]byte{m}, "C01.canonical", "C01.prop.same_value", "malformed")
			ver := c01versions[r.Intn(len(c01versions))]
			c.Run("C01.enforced", [][]byte{m, B(ver)}, "C01.enforced", "", "malformed/enforced")
			if string(out) == "err" {
				c.Count("malformed: refused")
			} else if utf8.Valid(m) {
				c.Count("malformed: still valid")
			} else {
				c.Count("malformed: still valid, ill-formed UTF-8 passed through")
			}
		}
	}

	// ---- 4. key ordering: many keys, prefixes, escapes whose raw and decoded order differ
	for i := 0; i < c.Scale(100, 1000); i++ {
		nk := 2 + r.Intn(30)
		seen := map[string]bool{}
		v := &c01val{kind: 6}
		pool := []rune{'a', 'b', 'A', '\\', '"', 1, 0x1f, 0x7f, 0xe9, 0xffff, 0x10000, '/', 'u', '0'}
		for j := 0; j < nk; j++ {
			l := r.Intn(3)
			k := make([]rune, l)
			for x := range k {
				k[x] = pool[r.Intn(len(pool))]
			}
			if seen[string(k)] {
				continue
			}
			seen[string(k)] = true
			v.keys = append(v.keys, k)
			v.arr = append(v.arr, &c01val{kind: 3, num: strconv.Itoa(j)})
		}
		t1, t2 := c01text(r, v, 1), c01text(r, v, 1)
		one(t1, "key-order")
		c.Run("C01.pair", Args(t1, t2), "C01.pair", "C01.prop.unique", "key-order")
		c.Count("key-order objects")
	}

	// ---- 4b. CompactJSON on its own, valid or not: the index reads at the end of the input
	rawFixed := []string{"-", " -", "[-", "[1,-", "-0", "-0 ", "1e-", "e-0", "E-0x", "--", "-\"", `"\`, `"a\`, `"\\`, `"\\\`, `"\u`, `"\u1`, `"\u12`, `"\u123`, `"\u1234`,
		`"\ud800`, `"\ud800\`, `"\ud800\u`, `"\ud800\ud`, `"\ud800\udc0`, `"\ud800\udc00`, `"\ud800\udc00"`, `"\ud800x`, `"\ud800\x`, `"\ud800\n"`, `"\udc00`, `"\udc00\`, `"\udfff\u`,
		`"\udbff`, `"\uDBFF\`, `"\ue000`, `"\ud7ff`, `"\ud800\ud800"`, `"\udc00\udc00"`, `"\ud800\u0041"`, `"\u0000`, `"\u001f`, `"\u0020`, `"\u0022`, `"\u005c`, `"\u005C\`, `"\u00/0"`,
		`"\uzzzz"`, `"\u@@@@"`, "\"\\u\x60\x60\x60\x60\"", "\"\\u\x00\x00\x00\x00\"", "\"\\u\xff\xff\xff\xff\"", `"\u000g"`, `"\u00G0"`, `"\u:;<="`, `"\uPQRS"`, `"\upqrs"`, `"\u 1 2"`, `"\u0 0 "`, `"\uD8@0\`, `"\uMH00x`,
		`"\/`, `"\/"`, `"\"`, `"\""`, `"`, `""`, `"""`, `"a"-`, `"a"-0`, `{"a":-}`, `"-"`, `"\-`, "\x00-", "-\x00", "\x7f", "\xff-", "\"\xff\\", "\"\\\xff", "\"\\u\xff"}
	for _, t := range rawFixed {
		c.Run("C01.compact_raw", Args(t), "C01.compact_raw", "C01.prop.compact_safe", "compact-raw/fixed")
		c.Count("compact_raw: hand-picked ends of input")
	}
	// every truncation of texts that exercise all branches of compactUnicodeEscape
	for _, t := range []string{`{"k\ud83d\ude00\u0007\u0022\u005c\u00e9\n\/":[-0,-0.5,1e-05,"\udc00\ud800\u12"],"-":-1}`, `["\ud800\udc00\udbff\udfff\ud800x\ud800\u0041\ud800\\",-0]`} {
		for k := 0; k <= len(t); k++ {
			c.Run("C01.compact_raw", Args(t[:k]), "C01.compact_raw", "C01.prop.compact_safe", "compact-raw/truncation")
		}
		c.Count("compact_raw: all truncations of a branch-covering text")
	}
	// random texts over the bytes that steer the index arithmetic
	steer := []byte(`"\\uuddDD88990cCfFbB-0 e.x`)
	for i := 0; i < c.Scale(3000, 30000); i++ {
		l := r.Intn(16)
		m := make([]byte, l)
		for k := range m {
			m[k] = steer[r.Intn(len(steer))]
		}
		if r.Intn(2) == 0 {
			m = append([]byte{'"'}, m...)
		}
		if string(c.Run("C01.compact_raw", [][]byte{m}, "C01.compact_raw", "C01.prop.compact_safe", "compact-raw/steered")) == "PANIC" {
			c.Count("compact_raw: panics (steered random bytes)")
		} else {
			c.Count("compact_raw: returns (steered random bytes)")
		}
	}
	// arbitrary bytes after \u: the bit trick on garbage
	for i := 0; i < c.Scale(1200, 10000); i++ {
		m := []byte(`"\u`)
		for k := 0; k < 4; k++ {
			switch r.Intn(3) {
			case 0:
				m = append(m, byte(r.Intn(256)))
			case 1:
				m = append(m, "0123456789abcdefABCDEF"[r.Intn(22)])
			default:
				m = append(m, "/:@G\x60g OoPp"[r.Intn(11)])
			}
		}
		m = append(m, []byte(`\udc00"`)[:r.Intn(8)]...)
		c.Run("C01.compact_raw", [][]byte{m}, "C01.compact_raw", "C01.prop.compact_safe", "compact-raw/hex-garbage")
		c.Count("compact_raw: arbitrary bytes in the escape")
	}
	// all texts (valid or not) over the alphabet up to length 4 (quick) / 5 (thorough)
	{
		alpha := `{}[],:"\u01-.eEa `
		cd := c.Scale(4, 5)
		c.Run("C01.enum_compact", Args(alpha, "1", ""), "C01.enum_compact", "", "compact-raw/exhaustive")
		for _, a := range []byte(alpha) {
			c.Run("C01.enum_compact", Args(alpha, strconv.Itoa(cd-1), string([]byte{a})), "C01.enum_compact", "", "compact-raw/exhaustive")
		}
		c.Count(fmt.Sprintf("compact_raw exhaustive: all texts over %d symbols up to length %d", len(alpha), cd))
	}

	// ---- 4c. the nesting limit (maxJSONDepth = 10000): both sides of it, and what must not count
	{
		rep := strings.Repeat
		// verdicts (accepted / refused) on every text; the bytes of the output as well where [exact]
		// (the canonical printer of the model is quadratic in the depth: ~2.5 s per 10000 levels)
		cheapOnly := false // set for texts on which the reference parser is quadratic (nested objects)
		deep := func(t, tag string, exact bool) {
			if cheapOnly {
				c.Run("C01.accepts", Args(t), "C01.accepts", "", "nesting/"+tag)
				c.Run("C01.nesting", Args(t), "C01.nesting", "", "nesting/"+tag)
				c.Count("nesting: " + tag)
				return
			}
			c.Run("C01.accepts", Args(t), "C01.accepts", "C01.prop.depth", "nesting/"+tag)
			c.Run("C01.nesting", Args(t), "C01.nesting", "", "nesting/"+tag)
			for _, ver := range []string{"1", "10"} {
				c.Run("C01.enforced_accepts", Args(t, ver), "C01.enforced_accepts", "", "nesting/"+tag)
			}
			if exact {
				c.Run("C01.canonical", Args(t), "C01.canonical", "", "nesting/"+tag+"/bytes")
			}
			if exact && c.Thorough() {
				c.Run("C01.enforced", Args(t, "10"), "C01.enforced", "", "nesting/"+tag+"/bytes")
				one(t, "nesting/"+tag)
				c.Run("C01.assume_valid", Args(t), "C01.canonical_unguarded", "", "nesting/"+tag+"/assume-valid")
			}
			c.Count("nesting: " + tag)
		}
		th := c.Thorough()
		for _, n := range []int{9999, 10000, 10001, 20000} {
			tag := fmt.Sprintf("depth %d", n)
			deep(rep("[", n)+"1"+rep("]", n), tag+" arrays", n == 10000 || n == 10001 || th)
			if n >= 10000 || th {
				// (the reference parser is quadratic on nested objects: ~2.5 s per text of 10000 levels,
				// four times that at 20000: verdict only in the quick tier and at 20000)
				cheapOnly = !th || n > 10001
				deep(rep(`{"":`, n)+"1"+rep("}", n), tag+" objects", false)
				cheapOnly = false
			}
			if n == 10000 || n == 10001 || th {
				cheapOnly = n > 10001 || (n > 10000 && !th)
				deep(rep(`[{"":`, n/2)+rep("[", n%2)+`"x"`+rep("]", n%2)+rep("}]", n/2), tag+" mixed", false)
				cheapOnly = false
			}
		}
		// the innermost empty container counts as a level
		deep(rep("[", 9999)+"[]"+rep("]", 9999), "depth 10000 with empty innermost array", th)
		deep(rep("[", 10000)+"{}"+rep("]", 10000), "depth 10001 with empty innermost object", true)
		deep(rep("[ ", 10000)+"-0"+rep(" ]", 10000), "depth 10000 with whitespace", th)
		deep(rep("[ ", 10001)+"-0"+rep("\n]", 10001), "depth 10001 with whitespace", true)
		// the limit is on depth, not on the number of brackets
		deep("["+rep("[", 6000)+rep("]", 6000)+","+rep("[", 6000)+rep("]", 6000)+","+rep("[]", 6000)[1:11999]+"]", "siblings 6001 deep, 24000 brackets", th)
		deep(`{"a":`+rep("[", 9999)+rep("]", 9999)+`,"b":`+rep("[", 9998)+"0"+rep("]", 9998)+`}`, "object with two deep members, 10000", th)
		deep(`{"a":`+rep("[", 9999)+rep("]", 9999)+`,"b":`+rep("[", 10000)+rep("]", 10000)+`}`, "object with second member too deep, 10001", true)
		deep("["+rep("{},", 10001)+"{}]", "10002 sibling objects, depth 2", true)
		deep(`{"a":[`+rep("[],", 10001)+`[]],"b":[[[]]]}`, "10002 sibling arrays, depth 4", true)
		// an enforcing version: too deep and an unsafe number, within the limit and an unsafe number
		deep(rep("[", 10001)+"1.5"+rep("]", 10001), "depth 10001 and a fraction", true)
		deep(rep("[", 10000)+"1.5"+rep("]", 10000), "depth 10000 and a fraction", false)
		// brackets inside strings, after an escaped quote, and after an escaped backslash
		deep(`["`+rep("[", 20000)+`"]`, "brackets in a string", true)
		deep(`{"`+rep("{[", 10000)+`":"`+rep("]}", 10000)+`"}`, "brackets in key and value strings", true)
		deep(`["\"`+rep("[{", 10000)+`"]`, "brackets after an escaped quote stay in the string", true)
		deep(`["\\",`+rep("[", 9999)+rep("]", 9999)+`]`, "escaped backslash closes the string: 10000", th)
		deep(`["\\",`+rep("[", 10000)+rep("]", 10000)+`]`, "escaped backslash closes the string: 10001", true)
		deep(`["\u005b`+rep(`\u005b\u007B`, 7000)+`"]`, "escaped brackets", true)
		// not JSON, scanned all the same: closers first, unbalanced, unterminated
		for _, t := range []string{rep("]", 20000) + rep("[", 20000), rep("]", 5) + rep("[", 10005), rep("]", 5) + rep("[", 10006), rep("}", 3) + rep("{", 10003) + rep("}", 10000),
			rep("[", 10000), rep("[", 10001), rep("[", 10001) + `"`, `"` + rep("[", 10001), `"\`, `"\"` + rep("[", 10001), `"\\"` + rep("[", 10001), rep("[", 10000) + `"[`, rep("[", 10000) + `"\"[`, rep("[", 10000) + `"\\"[`,
			rep("[", 10000) + "]" + "[", rep("[", 10000) + "][[", rep("{", 10000) + "[", rep("[", 5000) + rep("{", 5000) + "[", rep("[", 10001) + rep("]", 10001) + "x", "x" + rep("[", 10001) + rep("]", 10001), rep("[1,", 10001)} {
			c.Run("C01.nesting", Args(t), "C01.nesting", "", "nesting/not-json")
			c.Run("C01.canonical", Args(t), "C01.canonical", "C01.prop.same_value", "nesting/not-json")
			c.Run("C01.enforced", Args(t, "10"), "C01.enforced", "", "nesting/not-json")
			c.Count("nesting: not JSON, scanned all the same")
		}
		// the scan with small limits on arbitrary short texts (every comparison and transition)
		al := []byte(`[]{}"\\ a,:1`)
		for i := 0; i < c.Scale(3000, 30000); i++ {
			l := r.Intn(14)
			m := make([]byte, l)
			for k := range m {
				m[k] = al[r.Intn(len(al))]
			}
			lim := strconv.Itoa(r.Intn(5) - 1)
			c.Run("C01.nesting_lim", [][]byte{m, B(lim)}, "C01.nesting_lim", "", "nesting/small-limit")
		}
		c.Count("nesting: random short texts, limits -1..3")
		for _, t := range fixed {
			c.Run("C01.nesting_lim", Args(t, "1"), "C01.nesting_lim", "", "nesting/fixed-limit-1")
		}
	}

	// ---- 5. bounded-exhaustive: all texts over the alphabet up to length N
	alpha := `{}[],:"\u01-.eEa `
	depth := c.Scale(6, 7)
	c.Run("C01.enum", Args(alpha, "1", ""), "C01.enum", "", "exhaustive/len<=1")
	syms := []byte(alpha)
	sort.Slice(syms, func(i, j int) bool { return syms[i] < syms[j] })
	for _, a := range syms {
		if c.Thorough() {
			for _, b := range syms {
				c.Run("C01.enum", Args(alpha, strconv.Itoa(depth-2), string([]byte{a, b})), "C01.enum", "", "exhaustive")
			}
		} else {
			c.Run("C01.enum", Args(alpha, strconv.Itoa(depth-1), string([]byte{a})), "C01.enum", "", "exhaustive")
		}
	}
	c.Count(fmt.Sprintf("exhaustive: all texts over %d symbols up to length %d", len(alpha), depth))
}
