package main

// C02 - SignJSON / VerifyJSON / ListKeyIDs with REAL ed25519 keys.
//
// Observables (never signature bytes):
//   C02.sign         err | ok:<output with the freshly made signature string replaced by SIG>
//   C02.verify_text  ok | err
//   C02.list         err | canonical JSON array of the key IDs, sorted
//   C02.scenario     signerr | comma-separated ok/err, one per query, after replaying the steps
//                    (sign with real keys, edits applied to the library's own output, random
//                    re-serialisation between steps) - the model replays the same steps
//                    symbolically on the value.
//
// Inputs kept out of the compared stream (said in props/C02.json): duplicate keys and ill-formed
// Unicode (outside the domain of the JSON properties).  Keys, entity names and key IDs that need
// escaping and -0.x / -0e number literals are in the stream (CanonicalJSON repairs F1-F3 landed).

import (
	"bytes"
	"crypto/ed25519"
	"encoding/base64"
	"encoding/json"
	"fmt"
	"math/rand"
	"sort"
	"strings"

	gmsl "github.com/matrix-org/gomatrixserverlib"
)

func c2key(seedOrPk []byte) (ed25519.PrivateKey, ed25519.PublicKey) {
	if len(seedOrPk) == ed25519.SeedSize {
		sk := ed25519.NewKeyFromSeed(seedOrPk)
		return sk, sk.Public().(ed25519.PublicKey)
	}
	// anything else stands for a malformed public key, used as it is
	return nil, ed25519.PublicKey(seedOrPk)
}

func c2verdict(err error) []byte {
	if err == nil {
		return B("ok")
	}
	return B("err")
}

func c2b64dec(s string) ([]byte, bool) {
	t := strings.NewReplacer("\n", "", "\r", "").Replace(s)
	enc := base64.RawStdEncoding
	if strings.ContainsAny(s, "-_") {
		enc = base64.RawURLEncoding
	}
	b, err := enc.DecodeString(t)
	return b, err == nil
}

func c2sigop(op, s string) string {
	switch op {
	case "urlsafe":
		return strings.NewReplacer("+", "-", "/", "_").Replace(s)
	case "pad":
		return s + "="
	case "newline":
		if len(s) >= 2 {
			return s[:2] + "\n" + s[2:]
		}
		return s
	}
	raw, ok := c2b64dec(s)
	if !ok {
		return s
	}
	switch op {
	case "flip":
		if len(raw) == 0 {
			return s
		}
		raw[0] ^= 1
		return base64.RawStdEncoding.EncodeToString(raw)
	case "trunc":
		if len(raw) > 0 {
			raw = raw[:len(raw)-1]
		}
		return base64.RawStdEncoding.EncodeToString(raw)
	case "extend":
		return base64.RawStdEncoding.EncodeToString(append(raw, 0))
	}
	return s
}

func c2strList(raw json.RawMessage) []string {
	var l []string
	if err := json.Unmarshal(raw, &l); err != nil {
		panic("c02: bad string list " + string(raw))
	}
	return l
}

func c2jsonStr(raw json.RawMessage) string {
	var s string
	if err := json.Unmarshal(raw, &s); err != nil {
		panic("c02: bad string " + string(raw))
	}
	return s
}

func init() {
	// [name; kid; seed; text]
	RegisterImpl("C02.sign", func(args [][]byte) ([][]byte, []byte) {
		sk, _ := c2key(args[2])
		out, err := gmsl.SignJSON(string(args[0]), gmsl.KeyID(args[1]), sk, args[3])
		if err != nil {
			return args, B("err")
		}
		// locate the new signature in the output and mask it
		// (exact member names: decoding into a struct would match them case-insensitively)
		var top, sigs, inner map[string]json.RawMessage
		var sig string
		ok := json.Unmarshal(out, &top) == nil && json.Unmarshal(top["signatures"], &sigs) == nil &&
			json.Unmarshal(sigs[string(args[0])], &inner) == nil && json.Unmarshal(inner[string(args[1])], &sig) == nil
		if !ok || len(sig) != 86 {
			return args, append(B("nosig:"), out...)
		}
		isNull := string(bytes.TrimSpace(args[3])) == "null" // signs the text null, yields an object
		if raw, ok := c2b64dec(sig); !isNull && (!ok || !ed25519.Verify(sk.Public().(ed25519.PublicKey), c2signedPart(out), raw)) {
			// the masked comparison below would hide a wrong signature; checked here against
			// ed25519 directly over the library's own canonical form of the stripped output
			return args, append(B("badsig:"), out...)
		}
		masked := bytes.Replace(out, []byte(`"`+sig+`"`), []byte(`"SIG"`), 1)
		return args, append(B("ok:"), masked...)
	})
	// [name; kid; key; text]
	RegisterImpl("C02.verify_text", func(args [][]byte) ([][]byte, []byte) {
		_, pk := c2key(args[2])
		return args, c2verdict(gmsl.VerifyJSON(string(args[0]), gmsl.KeyID(args[1]), pk, args[3]))
	})
	// [name; text]
	RegisterImpl("C02.list", func(args [][]byte) ([][]byte, []byte) {
		ids, err := gmsl.ListKeyIDs(string(args[0]), args[1])
		if err != nil {
			return args, B("err")
		}
		ss := make([]string, len(ids))
		for i, id := range ids {
			ss[i] = string(id)
		}
		sort.Strings(ss)
		var b bytes.Buffer
		b.WriteByte('[')
		for i, s := range ss {
			if i > 0 {
				b.WriteByte(',')
			}
			c2canonStr(&b, s)
		}
		b.WriteByte(']')
		return args, b.Bytes()
	})
	// [text0; steps; pseed; queries]
	RegisterImpl("C02.scenario", func(args [][]byte) ([][]byte, []byte) {
		var seed int64
		fmt.Sscan(string(args[2]), &seed)
		p := &c2presenter{r: rand.New(rand.NewSource(seed)), fancy: true}
		text := args[0]
		var steps [][]json.RawMessage
		if err := json.Unmarshal(args[1], &steps); err != nil {
			panic("c02: bad steps")
		}
		edit := func(f func(v interface{}) interface{}) {
			v, err := c2parse(text)
			if err != nil {
				panic("c02: library output unreadable: " + string(text))
			}
			text = p.text(f(v))
		}
		for _, st := range steps {
			switch c2jsonStr(st[0]) {
			case "sign":
				sk, _ := c2key([]byte(c2jsonStr(st[3])))
				out, err := gmsl.SignJSON(c2jsonStr(st[1]), gmsl.KeyID(c2jsonStr(st[2])), sk, text)
				if err != nil {
					return args, B("signerr")
				}
				text = out
			case "set":
				x, err := c2parse(st[2])
				if err != nil {
					panic("c02: bad edit value")
				}
				edit(func(v interface{}) interface{} { return c2set(v, c2strList(st[1]), x) })
			case "del":
				edit(func(v interface{}) interface{} { return c2del(v, c2strList(st[1])) })
			case "copy":
				edit(func(v interface{}) interface{} {
					if x, ok := c2get(v, c2strList(st[1])); ok {
						return c2set(v, c2strList(st[2]), c2clone(x))
					}
					return v
				})
			case "sigop":
				path := []string{"signatures", c2jsonStr(st[1]), c2jsonStr(st[2])}
				edit(func(v interface{}) interface{} {
					if x, ok := c2get(v, path); ok {
						if s, ok := x.(string); ok {
							return c2set(v, path, c2sigop(c2jsonStr(st[3]), s))
						}
					}
					return v
				})
			case "repr":
				edit(func(v interface{}) interface{} { return v })
			case "surr": // an unpaired surrogate escape at the end of a string value / a member name
				path := c2strList(st[1])
				onName := c2jsonStr(st[2]) == "name"
				edit(func(v interface{}) interface{} {
					if onName {
						if parent, ok := c2get(v, path[:len(path)-1]); ok {
							if o, ok := parent.(*c2obj); ok {
								if i := o.find(path[len(path)-1]); i >= 0 {
									o.keys[i] += string(c2surr)
								}
							}
						}
						return v
					}
					if x, ok := c2get(v, path); ok {
						if str, ok := x.(string); ok {
							return c2set(v, path, str+string(c2surr))
						}
					}
					return v
				})
			case "dup": // a second member of an existing name, directly before / after the first one
				k := c2jsonStr(st[1])
				x, err := c2parse(st[2])
				if err != nil {
					panic("c02: bad dup value")
				}
				before := c2jsonStr(st[3]) == "before"
				edit(func(v interface{}) interface{} {
					if o, ok := v.(*c2obj); ok {
						c2insertDup(o, k, x, before)
					}
					return v
				})
			default:
				panic("c02: unknown step")
			}
		}
		var queries [][]string
		if err := json.Unmarshal(args[3], &queries); err != nil {
			panic("c02: bad queries")
		}
		var out []string
		for _, q := range queries {
			_, pk := c2key([]byte(q[2]))
			out = append(out, string(c2verdict(gmsl.VerifyJSON(q[0], gmsl.KeyID(q[1]), pk, text))))
		}
		return args, B(strings.Join(out, ","))
	})
	RegisterProp("C02", genC02)
}

func c2insertDup(o *c2obj, k string, x interface{}, before bool) {
	i := o.find(k)
	if i < 0 {
		return
	}
	if !before {
		i++
	}
	o.keys = append(o.keys[:i], append([]string{k}, o.keys[i:]...)...)
	o.vals = append(o.vals[:i], append([]interface{}{x}, o.vals[i:]...)...)
}

// canonical form of a signed text without signatures/unsigned, computed with the harness's own
// tree (used only to check the fresh signature itself against ed25519)
func c2signedPart(signed []byte) []byte {
	v, err := c2parse(signed)
	if err != nil {
		return nil
	}
	v = c2del(c2del(v, []string{"signatures"}), []string{"unsigned"})
	c, err := gmsl.CanonicalJSON(c2plain(v))
	if err != nil {
		return nil
	}
	return c
}

// ---------------------------------------------------------------------------------------

type c2signer struct{ name, kid, seed string }

func c2seed(i int) string { return fmt.Sprintf("seed-%04d-%s", i, strings.Repeat("x", 22)) }

var c2names = []string{"example.org", "matrix.org", "a", "localhost:8448", "EXAMPLE.org", "é.example", "xn--e.example", "", "signatures", "b.c", "unsigned", "*", "日本",
	`ex"ample.org`, `back\slash.org`, "ctl\x01name", "tab\tname", `"`}
var c2kids = []string{"ed25519:1", "ed25519:auto", "ed25519:a_b", "ed25519:2", "ed25519:", "x", "", "ED25519:1", "ed25519:1 ", "ed25519:é",
	`ed25519:"q"`, `ed25519:\`, "ed25519:\n", "ed25519:\x00"}

func c2garbageSig(r *rand.Rand) string {
	switch r.Intn(10) {
	case 0:
		return "AA"
	case 1:
		return "AB" // non-zero unused bits; decodes to one byte and is re-encoded as AA
	case 2:
		return ""
	case 3:
		return "-_-_" // URL-safe alphabet, re-encoded in the standard one
	case 4:
		return "AAAA\nAAAA" // line breaks are skipped by the decoder
	case 5:
		return "QUJD\r\n"
	}
	b := make([]byte, []int{64, 64, 64, 63, 65, 32, 3}[r.Intn(7)])
	r.Read(b)
	if r.Intn(4) == 0 {
		return base64.RawURLEncoding.EncodeToString(b)
	}
	return base64.RawStdEncoding.EncodeToString(b)
}

var c2badSigs = []interface{}{"A", "AA==", "+/-_", "@@@@", "AAAAA", "AA AA", "é", c2num("5"), true, []interface{}{}, &c2obj{}, "AAA=", "=", "A\nA\nA\nA\nA"}

// a signatures value; wellFormed=false plants exactly one shape error somewhere
func (g *c2gen) sigMap(wellFormed bool, names, kids []string) interface{} {
	o := &c2obj{}
	n := g.r.Intn(4)
	for i := 0; i < n; i++ {
		name := g.pick(names)
		if o.find(name) >= 0 {
			continue
		}
		if g.r.Intn(8) == 0 {
			o.set(name, nil) // entity: null is tolerated (nil map)
			continue
		}
		inner := &c2obj{}
		for j := g.r.Intn(3); j >= 0; j-- {
			kid := g.pick(kids)
			if inner.find(kid) >= 0 {
				continue
			}
			if g.r.Intn(10) == 0 {
				inner.set(kid, nil) // signature: null is tolerated (empty)
			} else {
				inner.set(kid, c2garbageSig(g.r))
			}
		}
		o.set(name, inner)
	}
	if wellFormed {
		return o
	}
	switch g.r.Intn(4) {
	case 0: // the member itself
		return []interface{}{c2num("5"), "x", []interface{}{}, true, false, c2num("0")}[g.r.Intn(6)]
	case 1: // an entity entry
		o.set(g.pick(names)+"!", []interface{}{c2num("5"), "x", []interface{}{}, true}[g.r.Intn(4)])
	default: // a signature entry
		bad := c2badSigs[g.r.Intn(len(c2badSigs))]
		if len(o.keys) > 0 && g.r.Intn(2) == 0 {
			if inner, ok := o.vals[g.r.Intn(len(o.keys))].(*c2obj); ok {
				inner.set("ed25519:bad", bad)
				return o
			}
		}
		o.set(g.pick(names)+"!", c2obj1("ed25519:bad", bad))
	}
	return o
}

func c2stepsJSON(steps [][]interface{}) []byte {
	l := make([]interface{}, len(steps))
	for i, s := range steps {
		l[i] = []interface{}(s)
	}
	return c2plain(l)
}

func stepSign(s c2signer) []interface{} { return []interface{}{"sign", s.name, s.kid, s.seed} }
func stepSet(path []string, v interface{}) []interface{} {
	return []interface{}{"set", c2strs(path...), c2clone(v)}
}
func stepDel(path []string) []interface{}           { return []interface{}{"del", c2strs(path...)} }
func stepCopy(a, b []string) []interface{}          { return []interface{}{"copy", c2strs(a...), c2strs(b...)} }
func stepSigop(s c2signer, op string) []interface{} { return []interface{}{"sigop", s.name, s.kid, op} }
func stepSurr(path []string, onName bool) []interface{} {
	w := "value"
	if onName {
		w = "name"
	}
	return []interface{}{"surr", c2strs(path...), w}
}
func stepDup(k string, x interface{}, before bool) []interface{} {
	w := "after"
	if before {
		w = "before"
	}
	return []interface{}{"dup", k, c2clone(x), w}
}
func stepRepr() []interface{} { return []interface{}{"repr"} }

var c2escKeys = []string{`q"uote`, `back\\slash`, "tab\tkey", "nl\nkey", "\x01ctl", `"`, `\\`, "\x1f"}

var c2mutCount int

func c2fresh() string { c2mutCount++; return fmt.Sprintf("mut-%d", c2mutCount) }

// one edit of a member other than signatures/unsigned that changes the value of the object.
// Returns nil when the object offers no place for this class.
func (g *c2gen) breakingEdit(class int, obj *c2obj) (steps [][]interface{}, name string) {
	skip := map[string]bool{"signatures": true, "unsigned": true}
	var all, top, nested [][]string
	c2paths(obj, nil, skip, &all)
	for _, p := range all {
		if len(p) == 1 {
			top = append(top, p)
		} else {
			nested = append(nested, p)
		}
	}
	pickP := func(l [][]string) []string {
		if len(l) == 0 {
			return nil
		}
		return l[g.r.Intn(len(l))]
	}
	switch class {
	case 0:
		if p := pickP(top); p != nil {
			return [][]interface{}{stepSet(p, c2fresh())}, "value-change"
		}
	case 1:
		return [][]interface{}{stepSet([]string{"inserted-" + c2fresh()}, g.value(1))}, "insertion"
	case 2:
		if p := pickP(top); p != nil {
			return [][]interface{}{stepDel(p)}, "deletion"
		}
	case 3:
		if p := pickP(nested); p != nil {
			return [][]interface{}{stepSet(p, c2fresh())}, "nested-value-change"
		}
	case 4:
		if p := pickP(nested); p != nil {
			return [][]interface{}{stepDel(p)}, "nested-deletion"
		}
	case 5: // nested insertion: into any object-valued member
		var objs [][]string
		for _, p := range all {
			if v, _ := c2get(obj, p); v != nil {
				if _, ok := v.(*c2obj); ok {
					objs = append(objs, p)
				}
			}
		}
		if p := pickP(objs); p != nil {
			return [][]interface{}{stepSet(append(append([]string{}, p...), "inserted-"+c2fresh()), nil)}, "nested-insertion"
		}
	case 6: // smallest possible change of a leaf
		for tries := 0; tries < 8; tries++ {
			p := pickP(all)
			if p == nil {
				break
			}
			v, _ := c2get(obj, p)
			switch x := v.(type) {
			case bool:
				return [][]interface{}{stepSet(p, !x)}, "bool-flip"
			case nil:
				return [][]interface{}{stepSet(p, false)}, "null-to-false"
			case string:
				if g.r.Intn(2) == 0 {
					return [][]interface{}{stepSet(p, x+" ")}, "string-append-space"
				}
				if x != "" && strings.ToUpper(x) != x {
					return [][]interface{}{stepSet(p, strings.ToUpper(x))}, "string-case"
				}
				return [][]interface{}{stepSet(p, x+"\x00")}, "string-append-nul"
			case c2num:
				s := string(x)
				if strings.ContainsAny(s, ".eE") || s == "-0" || s == "0" {
					return [][]interface{}{stepSet(p, s)}, "number-to-string"
				}
				return [][]interface{}{stepSet(p, c2num(s+"0"))}, "number-times-ten"
			case []interface{}:
				l := c2clone(x).([]interface{})
				switch {
				case len(l) == 0 || g.r.Intn(3) == 0:
					return [][]interface{}{stepSet(p, append(l, nil))}, "array-append"
				case g.r.Intn(2) == 0:
					return [][]interface{}{stepSet(p, l[1:])}, "array-drop-first"
				default:
					l[len(l)-1] = c2fresh()
					return [][]interface{}{stepSet(p, l)}, "array-element-change"
				}
			}
		}
	case 7: // rename a member (same value under another key), incl. case change of the key
		if p := pickP(all); p != nil {
			v, _ := c2get(obj, p)
			q := append([]string{}, p...)
			last := q[len(q)-1]
			if up := strings.ToUpper(last); up != last && g.r.Intn(2) == 0 {
				q[len(q)-1] = up
			} else {
				q[len(q)-1] = last + "'"
			}
			if _, exists := c2get(obj, q); !exists {
				return [][]interface{}{stepDel(p), stepSet(q, v)}, "rename"
			}
		}
	case 8: // swap the values of two top-level members
		if len(top) >= 2 {
			a, b := pickP(top), pickP(top)
			va, _ := c2get(obj, a)
			vb, _ := c2get(obj, b)
			if string(c2plain(va)) != string(c2plain(vb)) {
				return [][]interface{}{stepSet(a, vb), stepSet(b, va)}, "swap"
			}
		}
	case 10, 11: // sign flip of a number; class 11: of a -0.x / -0e literal (bare -0 = 0 is no change)
		var cands [][]string
		for _, p := range all {
			v, _ := c2get(obj, p)
			n, ok := v.(c2num)
			if !ok || n == "0" || n == "-0" {
				continue
			}
			isNegZero := false
			for _, z := range c2negZero {
				if string(n) == z {
					isNegZero = true
				}
			}
			if class == 10 || isNegZero {
				cands = append(cands, p)
			}
		}
		if p := pickP(cands); p != nil {
			v, _ := c2get(obj, p)
			n := string(v.(c2num))
			if strings.HasPrefix(n, "-") {
				n = n[1:]
			} else {
				n = "-" + n
			}
			if class == 11 {
				return [][]interface{}{stepSet(p, c2num(n))}, "negzero-sign-flip"
			}
			return [][]interface{}{stepSet(p, c2num(n))}, "sign-flip"
		}
	case 12: // change under, or of, a key that needs escaping in canonical form
		var cands [][]string
		for _, p := range all {
			if strings.ContainsAny(p[len(p)-1], "\"\\\x01\x1f\t\n\b\f\r") {
				cands = append(cands, p)
			}
		}
		if p := pickP(cands); p != nil {
			switch g.r.Intn(3) {
			case 0:
				return [][]interface{}{stepSet(p, c2fresh())}, "escaped-key-value-change"
			case 1:
				return [][]interface{}{stepDel(p)}, "escaped-key-deletion"
			default: // the key itself: one escaped character replaced by another
				v, _ := c2get(obj, p)
				q := append([]string{}, p...)
				q[len(q)-1] = strings.NewReplacer("\"", "\\", "\\", "\"", "\t", "\n", "\n", "\t", "\x01", "\x02", "\x1f", "\x1e", "\b", "\f", "\f", "\b").Replace(q[len(q)-1])
				if _, exists := c2get(obj, q); !exists {
					return [][]interface{}{stepDel(p), stepSet(q, v)}, "escaped-key-rename"
				}
			}
		}
	case 16: // only the sign of the exponent differs: 1.5E-03 / 1.5E03 / 1.5E+03, 0e-0 / 0e0
		var cands [][]string
		for _, p := range all {
			if v, _ := c2get(obj, p); v != nil {
				if n, ok := v.(c2num); ok && strings.ContainsAny(string(n), "eE") {
					cands = append(cands, p)
				}
			}
		}
		if p := pickP(cands); p != nil {
			v, _ := c2get(obj, p)
			n := string(v.(c2num))
			i := strings.IndexAny(n, "eE")
			mant, mark, exp := n[:i], n[i:i+1], n[i+1:]
			switch {
			case strings.HasPrefix(exp, "-"):
				exp = []string{"", "+"}[g.r.Intn(2)] + exp[1:]
			case strings.HasPrefix(exp, "+"):
				exp = "-" + exp[1:]
			default:
				exp = "-" + exp
			}
			return [][]interface{}{stepSet(p, c2num(mant+mark+exp))}, "exponent-sign-flip"
		}
	case 13: // the same number spelled differently: not a re-serialisation, the signed bytes change
		var cands [][]string
		for _, p := range all {
			if v, _ := c2get(obj, p); v != nil {
				if _, ok := v.(c2num); ok {
					cands = append(cands, p)
				}
			}
		}
		if p := pickP(cands); p != nil {
			v, _ := c2get(obj, p)
			n := string(v.(c2num))
			switch {
			case strings.Contains(n, "e"):
				n = strings.Replace(n, "e", "E", 1)
			case strings.Contains(n, "E"):
				n = strings.Replace(n, "E", "e", 1)
			case strings.Contains(n, "."):
				n += "0"
			case g.r.Intn(3) == 0 && strings.HasSuffix(n, "00") && len(n) > 2:
				n = n[:len(n)-2] + "e2"
			case g.r.Intn(2) == 0:
				n += ".0"
			default:
				n += "e0"
			}
			return [][]interface{}{stepSet(p, c2num(n))}, "number-respelled"
		}
	case 14: // F68: unpaired surrogate escape appended to a signed string value
		var cands [][]string
		for _, p := range all {
			if v, _ := c2get(obj, p); v != nil {
				if _, ok := v.(string); ok {
					cands = append(cands, p)
				}
			}
		}
		if p := pickP(cands); p != nil {
			return [][]interface{}{stepSurr(p, false)}, "unpaired-surrogate-in-value"
		}
	case 15: // F68: ... to a member name below the top level (the only member of its object)
		var cands [][]string
		for _, p := range nested {
			if parent, _ := c2get(obj, p[:len(p)-1]); parent != nil {
				if o, ok := parent.(*c2obj); ok && len(o.keys) == 1 {
					cands = append(cands, p)
				}
			}
		}
		if p := pickP(cands); p != nil {
			return [][]interface{}{stepSurr(p, true)}, "unpaired-surrogate-in-name"
		}
	case 9: // move unsigned content into the signed part, or a signed member into unsigned
		if p := pickP(top); p != nil {
			v, _ := c2get(obj, p)
			return [][]interface{}{stepDel(p), stepSet([]string{"unsigned"}, c2obj1(p[0], v))}, "move-into-unsigned"
		}
	}
	return nil, ""
}

const c2breakingClasses = 17

// edits that must not affect any signature
func (g *c2gen) benignEdit(class int, signers []c2signer) ([][]interface{}, string) {
	switch class {
	case 0:
		return [][]interface{}{stepSet([]string{"unsigned"}, g.object(1, 0, 3, c2nestedKeys))}, "unsigned-replaced"
	case 1:
		return [][]interface{}{stepDel([]string{"unsigned"})}, "unsigned-deleted"
	case 2:
		return [][]interface{}{stepSet([]string{"unsigned"}, []interface{}{nil, c2num("5"), "x", []interface{}{}}[g.r.Intn(4)])}, "unsigned-non-object"
	case 3:
		return [][]interface{}{stepSet([]string{"unsigned"}, &c2obj{}), stepSet([]string{"unsigned", "age_ts"}, c2num("1234"))}, "unsigned-nested-edit"
	case 4:
		return [][]interface{}{stepSet([]string{"signatures", "other.example"}, c2obj1("ed25519:z", c2garbageSig(g.r)))}, "foreign-entity-added"
	case 5:
		s := signers[g.r.Intn(len(signers))]
		return [][]interface{}{stepSet([]string{"signatures", s.name, "ed25519:other"}, c2garbageSig(g.r))}, "foreign-kid-added"
	case 6:
		s := signers[g.r.Intn(len(signers))]
		return [][]interface{}{stepSigop(s, "urlsafe")}, "sig-urlsafe-alphabet"
	case 7:
		s := signers[g.r.Intn(len(signers))]
		return [][]interface{}{stepSigop(s, "newline")}, "sig-with-linebreak"
	case 8:
		return [][]interface{}{stepSet([]string{"signatures", "null.example"}, nil)}, "foreign-entity-null"
	case 9:
		return [][]interface{}{stepRepr()}, "re-serialised"
	}
	return nil, ""
}

const c2benignClasses = 10

// edits inside signatures that destroy one signature or the whole map
func (g *c2gen) sigEdit(class int, signers []c2signer) ([][]interface{}, string) {
	s := signers[g.r.Intn(len(signers))]
	own := []string{"signatures", s.name, s.kid}
	switch class {
	case 0:
		return [][]interface{}{stepDel(own)}, "own-sig-deleted"
	case 1:
		return [][]interface{}{stepDel(own[:2])}, "own-entity-deleted"
	case 2:
		return [][]interface{}{stepDel(own[:1])}, "signatures-deleted"
	case 3:
		return [][]interface{}{stepSigop(s, "flip")}, "sig-bit-flip"
	case 4:
		return [][]interface{}{stepSigop(s, "trunc")}, "sig-63-bytes"
	case 5:
		return [][]interface{}{stepSigop(s, "extend")}, "sig-65-bytes"
	case 6:
		return [][]interface{}{stepSigop(s, "pad")}, "sig-padded"
	case 7:
		return [][]interface{}{stepSet(own, []interface{}{nil, "", c2num("5"), "AA"}[g.r.Intn(4)])}, "own-sig-replaced"
	case 8:
		return [][]interface{}{stepSet([]string{"signatures", "bad.example"}, c2obj1("ed25519:bad", c2badSigs[g.r.Intn(len(c2badSigs))]))}, "foreign-sig-malformed"
	case 9:
		return [][]interface{}{stepSet([]string{"signatures", "bad.example"}, []interface{}{c2num("5"), "x", []interface{}{}, true}[g.r.Intn(4)])}, "foreign-entity-malformed"
	case 10:
		return [][]interface{}{stepSet(own[:1], []interface{}{nil, c2num("5"), "x", []interface{}{}}[g.r.Intn(4)])}, "signatures-not-a-map"
	case 11: // the signature presented under another name / key ID (it does not bind them)
		o := signers[g.r.Intn(len(signers))]
		return [][]interface{}{stepCopy(own, []string{"signatures", o.name + ".copy", o.kid})}, "sig-copied-to-other-name"
	case 12:
		if len(signers) >= 2 {
			o := signers[g.r.Intn(len(signers))]
			return [][]interface{}{stepCopy(own, []string{"signatures", o.name, o.kid})}, "sig-copied-over-other-signer"
		}
	}
	return nil, ""
}

const c2sigClasses = 13

// injectSurrogates plants unpaired-surrogate sentinels in string values (any position) and in the
// names of members that are alone in their (nested) object; never in top-level names nor inside
// signatures (those are read by encoding/json, which sees U+FFFD there). Returns how many.
func (g *c2gen) injectSurrogates(v interface{}, top bool) int {
	n := 0
	switch x := v.(type) {
	case []interface{}:
		for i := range x {
			if s, ok := x[i].(string); ok && g.r.Intn(3) == 0 {
				x[i] = g.withSurr(s)
				n++
			} else {
				n += g.injectSurrogates(x[i], false)
			}
		}
	case *c2obj:
		for i := range x.keys {
			if top && x.keys[i] == "signatures" {
				continue
			}
			if s, ok := x.vals[i].(string); ok && g.r.Intn(3) == 0 {
				x.vals[i] = g.withSurr(s)
				n++
			} else {
				n += g.injectSurrogates(x.vals[i], false)
			}
			if !top && len(x.keys) == 1 && g.r.Intn(3) == 0 {
				x.keys[i] = g.withSurr(x.keys[i])
				n++
			}
		}
	}
	return n
}

func (g *c2gen) withSurr(s string) string {
	rs := []rune(s)
	i := g.r.Intn(len(rs) + 1)
	return string(rs[:i]) + string(c2surr) + string(rs[i:])
}

func (g *c2gen) signers(n int) []c2signer {
	var l []c2signer
	for len(l) < n {
		s := c2signer{g.pick(c2names), g.pick(c2kids), c2seed(g.r.Intn(6))}
		dup := false
		for _, x := range l {
			if x.name == s.name && x.kid == s.kid {
				dup = true
			}
		}
		if !dup {
			l = append(l, s)
		}
	}
	return l
}

// queries: every signer, then for each the wrong name, wrong key ID, wrong keys and malformed keys
func (g *c2gen) queries(signers []c2signer) [][]string {
	var q [][]string
	for _, s := range signers {
		q = append(q, []string{s.name, s.kid, s.seed})
	}
	for _, s := range signers {
		switch g.r.Intn(3) {
		case 0:
			q = append(q, []string{g.pick(c2names), s.kid, s.seed})
		case 1:
			q = append(q, []string{s.name, g.pick(c2kids), s.seed})
		default:
			q = append(q, []string{s.name + ".copy", s.kid, s.seed})
		}
		q = append(q, []string{s.name, s.kid, c2seed(g.r.Intn(8))})
	}
	s := signers[g.r.Intn(len(signers))]
	q = append(q, []string{s.name, s.kid, []string{"", "short", strings.Repeat("k", 31), strings.Repeat("k", 33), strings.Repeat("k", 64)}[g.r.Intn(5)]})
	return q
}

func c2queriesJSON(q [][]string) []byte {
	l := make([]interface{}, len(q))
	for i, x := range q {
		l[i] = c2strs(x...)
	}
	return c2plain(l)
}

func (g *c2gen) startObject(c *Ctx) *c2obj {
	o := g.object(2, 0, 5, c2topKeys)
	if g.r.Intn(3) == 0 {
		o.set("unsigned", g.value(2))
		c.Count("start/unsigned")
	}
	if g.r.Intn(4) == 0 {
		o.set("signatures", g.sigMap(true, []string{"old.example", "older.example", "z"}, c2kids))
		c.Count("start/earlier-signatures")
	}
	return o
}

func genC02(c *Ctx) {
	g := &c2gen{r: c.Rng}
	fancy := &c2presenter{r: c.Rng, fancy: true}
	scenario := func(start interface{}, steps [][]interface{}, queries [][]string, desc string) {
		text0 := c2plain(start)
		if c.Rng.Intn(2) == 0 {
			text0 = fancy.text(start)
		}
		out := c.Run("C02.scenario", [][]byte{text0, c2stepsJSON(steps), B(fmt.Sprint(c.Rng.Int63())), c2queriesJSON(queries)},
			"C02.scenario", "C02.prop.scenario", desc)
		for _, v := range strings.Split(string(out), ",") {
			c.Count("verdict/" + v)
		}
	}

	// ---- 1. signer sequences: 1-4 signers in random order, re-serialised in between --------
	n := c.Scale(500, 5000)
	for i := 0; i < n; i++ {
		signers := g.signers(1 + c.Rng.Intn(4))
		var steps [][]interface{}
		for _, s := range signers {
			steps = append(steps, stepSign(s))
			if c.Rng.Intn(2) == 0 {
				steps = append(steps, stepRepr())
			}
		}
		scenario(g.startObject(c), steps, g.queries(signers), fmt.Sprintf("signers=%d", len(signers)))
		c.Count(fmt.Sprintf("chain/signers=%d", len(signers)))
	}

	// ---- 2. every mutation class after signing, optionally followed by more signers ----------
	type editGen func(class int, obj *c2obj, signers []c2signer) ([][]interface{}, string)
	kinds := []struct {
		name    string
		classes int
		f       editGen
	}{
		{"breaking", c2breakingClasses, func(cl int, o *c2obj, s []c2signer) ([][]interface{}, string) { return g.breakingEdit(cl, o) }},
		{"benign", c2benignClasses, func(cl int, o *c2obj, s []c2signer) ([][]interface{}, string) { return g.benignEdit(cl, s) }},
		{"sigedit", c2sigClasses, func(cl int, o *c2obj, s []c2signer) ([][]interface{}, string) { return g.sigEdit(cl, s) }},
	}
	rounds := c.Scale(30, 300)
	for round := 0; round < rounds; round++ {
		for _, kind := range kinds {
			for class := 0; class < kind.classes; class++ {
				var start *c2obj
				var edit [][]interface{}
				var ename string
				signers := g.signers(1 + c.Rng.Intn(3))
				for tries := 0; tries < 20 && edit == nil; tries++ {
					start = g.object(2, 1, 5, c2topKeys)
					if kind.name == "breaking" && class >= 11 || c.Rng.Intn(4) == 0 {
						// a -0.x literal under a key that needs escaping, at the top or one level down
						m := c2obj1(g.pick(c2escKeys), c2num(g.pick(c2negZero)))
						if c.Rng.Intn(2) == 0 {
							start.set(g.pick(c2escKeys), m)
						} else {
							start.set(m.keys[0], m.vals[0])
						}
					}
					if kind.name == "breaking" && class == 16 || c.Rng.Intn(4) == 0 {
						// an exponent literal, negative exponents (where the sign can get lost) favoured
						n := g.pick(c2expNumbers)
						if c.Rng.Intn(2) == 0 {
							n = g.pick([]string{"1.5", "1", "-0", "0", "-1.5"}) + g.pick([]string{"e-", "E-"}) + g.pick([]string{"0", "00", "03", "05", "3", "10"})
						}
						if c.Rng.Intn(2) == 0 {
							start.set("origin_server_ts", c2num(n))
						} else {
							start.set("content", c2obj1("n", c2num(n), "l", []interface{}{c2num(n)}))
						}
					}
					if c.Rng.Intn(2) == 0 {
						start.set("unsigned", g.object(1, 0, 2, c2nestedKeys))
					}
					edit, ename = kind.f(class, start, signers)
				}
				if edit == nil {
					continue
				}
				var steps [][]interface{}
				for _, s := range signers {
					steps = append(steps, stepSign(s))
				}
				steps = append(steps, edit...)
				later := g.signers(c.Rng.Intn(3))
				for _, s := range later {
					steps = append(steps, stepSign(s))
				}
				all := append(append([]c2signer{}, signers...), later...)
				scenario(start, steps, g.queries(all), kind.name+"/"+ename)
				c.Count("edit/" + kind.name + "/" + ename)
			}
		}
	}

	// ---- 3. unsigned changes and signers interleaved; re-signing; null start ----------------
	n = c.Scale(60, 600)
	for i := 0; i < n; i++ {
		signers := g.signers(2 + c.Rng.Intn(2))
		var steps [][]interface{}
		for _, s := range signers {
			steps = append(steps, stepSign(s))
			e, _ := g.benignEdit(c.Rng.Intn(4), signers)
			steps = append(steps, e...)
		}
		switch c.Rng.Intn(4) {
		case 0: // the first signer signs again with another key under the same name and key ID
			s := signers[0]
			s.seed = c2seed(9)
			steps = append(steps, stepSign(s))
			signers = append(signers, s)
		case 1: // a breaking edit, then the first signer signs again (the others stay broken)
			steps = append(steps, stepSet([]string{"content"}, c2fresh()), stepSign(signers[0]))
		}
		var start interface{} = g.startObject(c)
		if c.Rng.Intn(25) == 0 {
			start = nil
		}
		scenario(start, steps, g.queries(signers), "interleaved")
		c.Count("interleaved")
	}

	// ---- 4. SignJSON directly: output shape byte for byte (signature masked), error branches -
	signDirect := func(name, kid string, text []byte, desc string) {
		out := c.Run("C02.sign", [][]byte{B(name), B(kid), B(c2seed(c.Rng.Intn(4))), text}, "C02.sign", "C02.prop.sign", desc)
		if bytes.HasPrefix(out, B("ok:")) {
			c.Count("sign/ok")
		} else {
			c.Count("sign/" + string(out[:min(len(out), 8)]))
		}
	}
	present := func(v interface{}) []byte {
		if c.Rng.Intn(3) == 0 {
			return c2plain(v)
		}
		return fancy.text(v)
	}
	n = c.Scale(400, 5000)
	for i := 0; i < n; i++ {
		o := g.object(2, 0, 4, c2topKeys)
		name, kid := g.pick(c2names), g.pick(c2kids)
		desc := "sign"
		switch c.Rng.Intn(8) {
		case 0, 1, 2:
			o.set("signatures", g.sigMap(true, c2names, c2kids))
			desc += "/earlier-signatures"
		case 3:
			o.set("signatures", g.sigMap(false, c2names, c2kids))
			desc += "/malformed-signatures"
		case 4:
			o.set("signatures", nil)
			desc += "/null-signatures"
		case 5:
			o.set("signatures", c2obj1(name, nil))
			desc += "/null-own-entity"
		}
		switch c.Rng.Intn(5) {
		case 0:
			o.set("unsigned", g.value(2))
			desc += "/unsigned"
		case 1:
			o.set("unsigned", g.object(1, 0, 3, c2nestedKeys))
			desc += "/unsigned-object"
		}
		signDirect(name, kid, present(o), desc)
	}
	// non-objects and invalid texts
	for _, t := range []string{`[]`, `5`, `"x"`, `true`, `null`, ` null `, `[{"a":1}]`, ``, ` `, `{`, `{"a":1`, `{"a":1}}`, `{"a":1} x`, `{"a"}`, `{"a":}`, `{a:1}`,
		`{"a":1,}`, `{"signatures":{"a":{"k":"AA"}}`, `{"signatures":{"a":{"k":"AA"}},"unsigned":}`, `nul`, `{"a":tru}`, `{"a":01}`, `{"a":"` + "\x01" + `"}`, `{"a":1}{"b":2}`} {
		signDirect("example.org", "ed25519:1", B(t), "sign/non-object-or-invalid")
	}

	// ---- 4b. F68: unpaired surrogate escapes anywhere in signed string values, in unsigned, and in
	// member names below the top level (single-member objects) - SignJSON drops them -----------
	n = c.Scale(60, 600)
	for i := 0; i < n; i++ {
		o := g.object(2, 1, 4, c2topKeys)
		if c.Rng.Intn(3) == 0 {
			o.set("unsigned", g.object(1, 1, 3, c2nestedKeys))
		}
		if g.injectSurrogates(o, true) == 0 {
			o.set("body", "x"+string(c2surr)+"y")
		}
		if c.Rng.Intn(3) == 0 {
			o.set("signatures", g.sigMap(true, c2names, c2kids))
		}
		signDirect(g.pick(c2names), g.pick(c2kids), present(o), "sign/unpaired-surrogate")
	}
	// ---- 4c. F70: texts that are not UTF-8 (member names and values): SignJSON must refuse -----
	bad := []string{"\xff", "\xc0\xaf", "\xed\xa0\x80", "\xe2\x82", "\xf4\x90\x80\x80", "\x80", "\xe9"}
	n = c.Scale(40, 400)
	for i := 0; i < n; i++ {
		o := g.object(2, 1, 4, c2topKeys)
		switch c.Rng.Intn(4) {
		case 0:
			o.set("k"+string(c2raw), c2num("1"))
		case 1:
			o.set("content", c2obj1("body", "caf"+string(c2raw)))
		case 2:
			o.set("content", c2obj1("na"+string(c2raw)+"me", true))
		default:
			o.set("signatures", c2obj1("ent"+string(c2raw), c2obj1("ed25519:1", "AAAA")))
		}
		text := bytes.Replace(present(o), []byte(string(c2raw)), []byte(bad[c.Rng.Intn(len(bad))]), -1)
		signDirect("example.org", "ed25519:1", text, "sign/not-utf8")
	}

	// ---- 4d. F69: a member name repeated at the top level ------------------------------------
	n = c.Scale(60, 600)
	for i := 0; i < n; i++ {
		start := g.object(2, 1, 4, c2topKeys)
		signers := g.signers(1 + c.Rng.Intn(2))
		k := start.keys[c.Rng.Intn(len(start.keys))]
		var x interface{} = c2fresh()
		if c.Rng.Intn(4) == 0 {
			x, _ = c2get(start, []string{k}) // the very same value once more
		}
		before := c.Rng.Intn(2) == 0
		var steps [][]interface{}
		desc := "repeated-member/"
		if c.Rng.Intn(3) == 0 { // the signer is handed an object that already has the name twice
			c2insertDup(start, k, x, before)
			desc += "signed-with-it"
		} else {
			for _, s := range signers {
				steps = append(steps, stepSign(s))
			}
			steps = append(steps, stepDup(k, x, before))
			signers = nil
			if before {
				desc += "inserted-before"
			} else {
				desc += "inserted-after"
			}
		}
		later := g.signers(1 + c.Rng.Intn(2))
		if len(signers) > 0 {
			later = signers
		}
		for _, s := range later {
			steps = append(steps, stepSign(s))
		}
		var all []c2signer
		for _, st := range steps {
			if st[0] == "sign" {
				all = append(all, c2signer{st[1].(string), st[2].(string), st[3].(string)})
			}
		}
		scenario(start, steps, g.queries(all), desc)
		c.Count(desc)
	}

	// ---- 5. VerifyJSON directly on texts that carry no genuine signature (error branches) ----
	n = c.Scale(300, 4000)
	for i := 0; i < n; i++ {
		o := g.object(1, 0, 3, c2topKeys)
		name, kid := g.pick(c2names), g.pick(c2kids)
		desc := "verify_text"
		switch c.Rng.Intn(8) {
		case 0:
			desc += "/no-signatures"
		case 1:
			o.set("signatures", nil)
			desc += "/null-signatures"
		case 2:
			o.set("signatures", g.sigMap(false, c2names, c2kids))
			desc += "/malformed-signatures"
		case 3, 4: // an entry for the queried identity: random bytes of the right and of wrong sizes
			sm := g.sigMap(true, c2names, c2kids).(*c2obj)
			sm.set(name, c2obj1(kid, c2garbageSig(c.Rng)))
			o.set("signatures", sm)
			desc += "/forged-entry"
		case 5: // entry present but null / entity null
			sm := &c2obj{}
			if c.Rng.Intn(2) == 0 {
				sm.set(name, nil)
			} else {
				sm.set(name, c2obj1(kid, nil))
			}
			o.set("signatures", sm)
			desc += "/null-entry"
		default:
			o.set("signatures", g.sigMap(true, c2names, c2kids))
			desc += "/other-signatures"
		}
		key := c2seed(c.Rng.Intn(4))
		if c.Rng.Intn(10) == 0 {
			key = strings.Repeat("p", []int{0, 1, 31, 33, 64}[c.Rng.Intn(5)])
		}
		c.Run("C02.verify_text", [][]byte{B(name), B(kid), B(key), present(o)}, "C02.verify_text", "", desc)
		c.Count(desc)
	}
	for _, t := range []string{`[]`, `5`, `"x"`, `null`, ``, `{`, `{"signatures":{"example.org":{"ed25519:1":"AA"}}`, `[{"signatures":{}}]`, `{"signatures":{"example.org":{"ed25519:1":"AA"}}} x`} {
		c.Run("C02.verify_text", [][]byte{B("example.org"), B("ed25519:1"), B(c2seed(0)), B(t)}, "C02.verify_text", "", "verify_text/non-object-or-invalid")
		c.Count("verify_text/non-object-or-invalid")
	}

	// ---- 6. ListKeyIDs -------------------------------------------------------------------
	n = c.Scale(300, 4000)
	for i := 0; i < n; i++ {
		o := g.object(1, 0, 3, c2topKeys)
		name := g.pick(c2names)
		desc := "list"
		switch c.Rng.Intn(8) {
		case 0:
			desc += "/no-signatures"
		case 1:
			o.set("signatures", nil)
			desc += "/null-signatures"
		case 2:
			o.set("signatures", g.sigMap(false, c2names, c2kids))
			desc += "/malformed-signatures"
		case 3: // values need not be signatures here
			inner := g.object(1, 0, 4, c2kids)
			o.set("signatures", c2obj1(name, inner, "other", g.object(0, 0, 2, c2kids)))
			desc += "/arbitrary-values"
		case 4:
			o.set("signatures", c2obj1(name, nil))
			desc += "/null-entity"
		case 5: // only a differently-cased member
			o.set([]string{"Signatures", "SIGNATURES", "ſignatures"}[c.Rng.Intn(3)], c2obj1(name, c2obj1("ed25519:ghost", "AA")))
			desc += "/case-variant-member"
		default:
			sm := g.sigMap(true, c2names, c2kids).(*c2obj)
			if c.Rng.Intn(2) == 0 {
				sm.set(name, g.sigMap(true, c2kids, c2kids)) // key ids -> (null | objects): arbitrary values again
			}
			o.set("signatures", sm)
			desc += "/signatures"
		}
		c.Run("C02.list", [][]byte{B(name), present(o)}, "C02.list", "C02.prop.list", desc)
		c.Count(desc)
	}
	for _, t := range []string{`[]`, `5`, `null`, ``, `{"signatures":{"a":{"k":1}}`, `{"signatures":{"a":{"k":1}}}`, `{"signatures":{"a":{"k":1,"j":[],"i":{}}}}`} {
		c.Run("C02.list", [][]byte{B("a"), B(t)}, "C02.list", "C02.prop.list", "list/fixed")
	}
}
