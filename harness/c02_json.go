package main

// JSON tree, random presentation, edits: helpers of the C02 harness (no library code under
// test is used here except encoding/json for reading back the library's own outputs).

import (
	"bytes"
	"encoding/json"
	"fmt"
	"math/rand"
	"sort"
	"strings"
)

// Two sentinel characters in tree strings (never produced by the generators otherwise):
// c2surr is printed as an unpaired UTF-16 surrogate escape (finding F68), c2raw always raw (so that
// the caller can splice bytes that are not UTF-8 in its place, repair F70).
const c2surr = rune(0xFDD0)
const c2raw = rune(0xFDD1)

var c2surrEscapes = []string{"udc00", "udfff", "ud800", "udbff", "uDEAD", "uD83d", "uDe00"}

// values: nil, bool, c2num, string, []interface{}, *c2obj
type c2num string
type c2obj struct {
	keys []string
	vals []interface{}
}

func (o *c2obj) hasDup() bool {
	for i, k := range o.keys {
		for _, k2 := range o.keys[i+1:] {
			if k == k2 {
				return true
			}
		}
	}
	return false
}

func (o *c2obj) find(k string) int {
	for i, x := range o.keys {
		if x == k {
			return i
		}
	}
	return -1
}

func (o *c2obj) set(k string, v interface{}) {
	if i := o.find(k); i >= 0 {
		o.vals[i] = v
		return
	}
	o.keys = append(o.keys, k)
	o.vals = append(o.vals, v)
}

func (o *c2obj) del(k string) {
	if i := o.find(k); i >= 0 {
		o.keys = append(append([]string{}, o.keys[:i]...), o.keys[i+1:]...)
		o.vals = append(append([]interface{}{}, o.vals[:i]...), o.vals[i+1:]...)
	}
}

func c2clone(v interface{}) interface{} {
	switch x := v.(type) {
	case []interface{}:
		r := make([]interface{}, len(x))
		for i := range x {
			r[i] = c2clone(x[i])
		}
		return r
	case *c2obj:
		r := &c2obj{}
		for i := range x.keys {
			r.keys = append(r.keys, x.keys[i])
			r.vals = append(r.vals, c2clone(x.vals[i]))
		}
		return r
	}
	return v
}

func c2obj1(kv ...interface{}) *c2obj {
	o := &c2obj{}
	for i := 0; i+1 < len(kv); i += 2 {
		o.set(kv[i].(string), kv[i+1])
	}
	return o
}

// c2parse reads a JSON text (an output of the library, or an edit value) into a tree.
func c2parse(text []byte) (interface{}, error) {
	dec := json.NewDecoder(bytes.NewReader(text))
	dec.UseNumber()
	var x interface{}
	if err := dec.Decode(&x); err != nil {
		return nil, err
	}
	if dec.More() {
		return nil, fmt.Errorf("trailing data")
	}
	return c2conv(x), nil
}

func c2conv(x interface{}) interface{} {
	switch v := x.(type) {
	case json.Number:
		return c2num(string(v))
	case []interface{}:
		r := make([]interface{}, len(v))
		for i := range v {
			r[i] = c2conv(v[i])
		}
		return r
	case map[string]interface{}:
		ks := make([]string, 0, len(v))
		for k := range v {
			ks = append(ks, k)
		}
		sort.Strings(ks)
		o := &c2obj{}
		for _, k := range ks {
			o.keys = append(o.keys, k)
			o.vals = append(o.vals, c2conv(v[k]))
		}
		return o
	}
	return x
}

func c2get(v interface{}, path []string) (interface{}, bool) {
	for _, k := range path {
		o, ok := v.(*c2obj)
		if !ok {
			return nil, false
		}
		i := o.find(k)
		if i < 0 {
			return nil, false
		}
		v = o.vals[i]
	}
	return v, true
}

// c2set: last key created if missing; missing or non-object intermediate: no change
// (the same definition as jset_path in coq/Sign/Scenario.v).
func c2set(v interface{}, path []string, x interface{}) interface{} {
	if len(path) == 0 {
		return x
	}
	o, ok := v.(*c2obj)
	if !ok {
		return v
	}
	if len(path) == 1 {
		o.set(path[0], x)
		return o
	}
	if i := o.find(path[0]); i >= 0 {
		o.vals[i] = c2set(o.vals[i], path[1:], x)
	}
	return o
}

func c2del(v interface{}, path []string) interface{} {
	if len(path) == 0 {
		return v
	}
	o, ok := v.(*c2obj)
	if !ok {
		return v
	}
	if len(path) == 1 {
		o.del(path[0])
		return o
	}
	if i := o.find(path[0]); i >= 0 {
		o.vals[i] = c2del(o.vals[i], path[1:])
	}
	return o
}

// ---- printing ----

var c2twoChar = map[rune]byte{'"': '"', '\\': '\\', '/': '/', 8: 'b', 12: 'f', 10: 'n', 13: 'r', 9: 't'}

// canonical (shortest) spelling of a string, as canon_print's print_string
func c2canonStr(b *bytes.Buffer, s string) {
	b.WriteByte('"')
	for i := 0; i < len(s); i++ {
		c := s[i]
		switch {
		case strings.HasPrefix(s[i:], string(c2surr)):
			b.WriteByte('\\')
			b.WriteString(c2surrEscapes[0])
			i += len(string(c2surr)) - 1
		case c == '"' || c == '\\':
			b.WriteByte('\\')
			b.WriteByte(c)
		case c == 8 || c == 9 || c == 10 || c == 12 || c == 13:
			b.WriteByte('\\')
			b.WriteByte(c2twoChar[rune(c)])
		case c < 0x20:
			fmt.Fprintf(b, "%cu%04x", 92, c)
		default:
			b.WriteByte(c)
		}
	}
	b.WriteByte('"')
}

type c2presenter struct {
	r     *rand.Rand
	fancy bool // random whitespace, escapes and member order; otherwise compact, source order
}

func (p *c2presenter) ws(b *bytes.Buffer) {
	if !p.fancy || p.r.Intn(3) != 0 {
		return
	}
	for n := 1 + p.r.Intn(2); n > 0; n-- {
		b.WriteByte(" \t\n\r"[p.r.Intn(4)])
	}
}

func (p *c2presenter) uesc(b *bytes.Buffer, u uint16) {
	f := "%cu%04x"
	if p.r.Intn(2) == 0 {
		f = "%cu%04X"
	}
	fmt.Fprintf(b, f, 92, u)
}

func (p *c2presenter) str(b *bytes.Buffer, s string) {
	if !p.fancy {
		c2canonStr(b, s)
		return
	}
	b.WriteByte('"')
	// sometimes escape every character (so that a whole key such as signatures is spelled in escapes)
	all := p.r.Intn(12) == 0
	for _, r := range s {
		if r == c2surr {
			b.WriteByte('\\')
			b.WriteString(c2surrEscapes[p.r.Intn(len(c2surrEscapes))])
			continue
		}
		if r == c2raw {
			b.WriteRune(r)
			continue
		}
		must := r < 0x20 || r == '"' || r == '\\'
		ch := p.r.Intn(10)
		tc, hasTwo := c2twoChar[r]
		switch {
		case (must && hasTwo && ch < 6) || (!must && hasTwo && ch == 8):
			b.WriteByte('\\')
			b.WriteByte(tc)
		case must || all || ch == 7:
			if r >= 0x10000 {
				r2 := r - 0x10000
				p.uesc(b, uint16(0xd800+(r2>>10)))
				p.uesc(b, uint16(0xdc00+(r2&0x3ff)))
			} else {
				p.uesc(b, uint16(r))
			}
		default:
			b.WriteRune(r)
		}
	}
	b.WriteByte('"')
}

func (p *c2presenter) val(b *bytes.Buffer, v interface{}) {
	switch x := v.(type) {
	case nil:
		b.WriteString("null")
	case bool:
		if x {
			b.WriteString("true")
		} else {
			b.WriteString("false")
		}
	case c2num:
		b.WriteString(string(x))
	case string:
		p.str(b, x)
	case []interface{}:
		b.WriteByte('[')
		p.ws(b)
		for i, e := range x {
			if i > 0 {
				b.WriteByte(',')
				p.ws(b)
			}
			p.val(b, e)
			p.ws(b)
		}
		b.WriteByte(']')
	case *c2obj:
		idx := make([]int, len(x.keys))
		for i := range idx {
			idx[i] = i
		}
		if p.fancy && !x.hasDup() { // with a repeated name the order of the members matters
			p.r.Shuffle(len(idx), func(i, j int) { idx[i], idx[j] = idx[j], idx[i] })
		}
		b.WriteByte('{')
		p.ws(b)
		for n, i := range idx {
			if n > 0 {
				b.WriteByte(',')
				p.ws(b)
			}
			p.str(b, x.keys[i])
			p.ws(b)
			b.WriteByte(':')
			p.ws(b)
			p.val(b, x.vals[i])
			p.ws(b)
		}
		b.WriteByte('}')
	default:
		panic(fmt.Sprintf("c2presenter: %T", v))
	}
}

func (p *c2presenter) text(v interface{}) []byte {
	var b bytes.Buffer
	p.ws(&b)
	p.val(&b, v)
	p.ws(&b)
	return b.Bytes()
}

func c2plain(v interface{}) []byte { return (&c2presenter{}).text(v) }

func c2strs(ss ...string) []interface{} {
	r := make([]interface{}, len(ss))
	for i, s := range ss {
		r[i] = s
	}
	return r
}

// ---- random values ----

type c2gen struct{ r *rand.Rand }

var c2topKeys = []string{"type", "content", "room_id", "sender", "origin", "depth", "a", "b", "c", "hashes", "prev_events",
	"origin_server_ts", "é", "日本", "😀k", "a.b", "a*b", "k?", "#", "@x", "<tag>", "&amp", "Signatures", "Unsigned", "SIGNATURES",
	"unſigned", "ſignatures", "signature", "unsigned2", "sig natures", "signatures.x", "unsigned.age", "signatures|x", "*signatures", "signatures#", " ", "", "~", string(rune(0x2028)), string(rune(0x212a)), "0", "-", "x|y", "a/b", "zz", "Z",
	// keys that need escaping in canonical form (CanonicalJSON defect F1, repaired)
	`q"uote`, `back\\slash`, "tab\tkey", "nl\nkey", "\x01ctl", `"`, `\\`, `a\\"b`, "\x1f", `signatures"`, `"unsigned`, "\b\f\r"}

// keys that may also occur below the top level (there the two special names are ordinary members)
var c2nestedKeys = append([]string{"signatures", "unsigned"}, c2topKeys...)

var c2strings = []string{"", "x", "hello world", `a"b`, `back\slash`, "line\nbreak\ttab", "\x01\x1f\x7f", "é", "😀", "/", "</script>&", string(rune(0x2028)),
	"m.room.message", "@alice:example.org", "!room:example.org", "signatures", "null", "0", `{"a":1}`, strings.Repeat("long", 20), "\b\f\r", "ſ"}

// -0.x / -0e literals included (defect F2 of CanonicalJSON, repaired): only a bare -0 becomes 0
var c2negZero = []string{"-0.5", "-0.0", "-0e1", "-0.25", "-0E+2", "-0.000", "-0.5e3", "-0e-1"}
var c2numbers = []string{"-0.5", "-0.0", "-0e1", "1e-05", "-0.25", "-0E+2", "0.5", "-1e-05", "-0.000", "0e1", "0", "1", "-1", "42", "-0", "7", "100", "9007199254740991", "-9007199254740992", "9007199254740993",
	"12345678901234567890", "1.5", "-1.25", "1e3", "1E+2", "2.50", "0.0", "1e-2", "10", "-10"}

// exponent literals: mantissa x marker in both cases x exponent sign x exponent digits with and
// without leading zeros (1.5E-03, -0E-0, 0e+00, ...): the look-behind / look-ahead of
// isNegativeZero around a zero that follows a minus sign
var c2expNumbers = func() []string {
	var l []string
	for _, m := range []string{"1.5", "1", "-1.5", "0", "-0", "2.50", "10", "-0.0", "0.5"} {
		for _, e := range []string{"e", "E"} {
			for _, sg := range []string{"", "+", "-"} {
				for _, d := range []string{"0", "00", "03", "05", "3", "10", "010"} {
					l = append(l, m+e+sg+d)
				}
			}
		}
	}
	return l
}()

func (g *c2gen) number() c2num {
	if g.r.Intn(3) == 0 {
		return c2num(g.pick(c2expNumbers))
	}
	return c2num(g.pick(c2numbers))
}

func (g *c2gen) pick(l []string) string { return l[g.r.Intn(len(l))] }

func (g *c2gen) str() string {
	if g.r.Intn(3) == 0 {
		n := g.r.Intn(6)
		var b strings.Builder
		for i := 0; i < n; i++ {
			b.WriteString([]string{"a", "B", "7", " ", "é", "😀", `"`, `\`, "\n", "/", "<", "\x00", "z"}[g.r.Intn(13)])
		}
		return b.String()
	}
	return g.pick(c2strings)
}

func (g *c2gen) value(depth int) interface{} {
	n := 8
	if depth <= 0 {
		n = 6
	}
	switch g.r.Intn(n) {
	case 0:
		return nil
	case 1:
		return g.r.Intn(2) == 0
	case 2, 3:
		return g.number()
	case 4, 5:
		return g.str()
	case 6:
		l := make([]interface{}, g.r.Intn(4))
		for i := range l {
			l[i] = g.value(depth - 1)
		}
		return l
	default:
		return g.object(depth-1, 0, 3, c2nestedKeys)
	}
}

// object with distinct keys
func (g *c2gen) object(depth, nmin, nmax int, pool []string) *c2obj {
	o := &c2obj{}
	n := nmin + g.r.Intn(nmax-nmin+1)
	for tries := 0; len(o.keys) < n && tries < 4*n+4; tries++ {
		k := g.pick(pool)
		if o.find(k) >= 0 {
			continue
		}
		o.set(k, g.value(depth))
	}
	return o
}

// paths (object keys only) to every value below v, outside the given top-level keys
func c2paths(v interface{}, prefix []string, skipTop map[string]bool, out *[][]string) {
	o, ok := v.(*c2obj)
	if !ok {
		return
	}
	for i, k := range o.keys {
		if len(prefix) == 0 && skipTop[k] {
			continue
		}
		p := append(append([]string{}, prefix...), k)
		*out = append(*out, p)
		c2paths(o.vals[i], p, skipTop, out)
	}
}
