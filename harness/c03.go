package main

// C03 — events round-trip; identity is a function of the redacted content.
//
// Implementation side of the correspondence.  The library is run for real (EventBuilder.Build
// with a real ed25519 key, the three parse entry points, the headered form, SetUnsigned,
// SetUnsignedField, Sign, Redact) and every accessor of every event is written into a dump.
// The model has no SHA-256 and no ed25519; it is handed tables
//     h: preimage -> SHA-256(preimage)         s: name 0 keyID 0 message -> signature
// built here from candidates (canonical JSON of the event minus the excluded keys) that are
// CHECKED against what the library emitted (hashes.sha256 of the event, its event ID, a real
// signature verification).  The model looks its own preimages up, so a preimage that differs in
// one byte from what the library hashed or signed leaves the model without an entry and the
// outputs disagree.

import (
	"bytes"
	"crypto/ed25519"
	"crypto/sha256"
	"encoding/base64"
	"encoding/json"
	"fmt"
	"sort"
	"strconv"
	"strings"
	"time"

	gmsl "github.com/matrix-org/gomatrixserverlib"
	"github.com/matrix-org/gomatrixserverlib/spec"
)

// ---------- keys ----------

var c03Keys = map[string]ed25519.PrivateKey{}

// c03Key derives the signing key of (server name, key ID) deterministically.
func c03Key(name, keyID string) ed25519.PrivateKey {
	k := name + "\x00" + keyID
	if p, ok := c03Keys[k]; ok {
		return p
	}
	seed := sha256.Sum256([]byte("c03-key:" + k))
	p := ed25519.NewKeyFromSeed(seed[:])
	c03Keys[k] = p
	return p
}

// ---------- dump ----------

func pct(b []byte) string {
	var sb strings.Builder
	for _, c := range b {
		if c >= 32 && c <= 126 && c != '%' && c != ',' {
			sb.WriteByte(c)
		} else {
			fmt.Fprintf(&sb, "%%%02X", c)
		}
	}
	return sb.String()
}

func pctList(l []string) string {
	if l == nil {
		return "nil"
	}
	parts := make([]string, len(l))
	for i, s := range l {
		parts[i] = pct([]byte(s))
	}
	return "[" + strings.Join(parts, ",") + "]"
}

func guard(f func() string) (s string) {
	defer func() {
		if r := recover(); r != nil {
			s = "PANIC"
		}
	}()
	return f()
}

func c03Dump(e gmsl.PDU) string {
	var lines []string
	add := func(k string, f func() string) { lines = append(lines, k+"="+guard(f)) }
	// the value of the event once its ID is computed (EventID() fills the EventIDRaw cache, the
	// known finding F16); no read-only accessor called below may change it any further
	guard(func() string { return e.EventID() })
	before := guard(func() string { return gmsl.VerifC03EventValue(e) })
	add("id", func() string { return pct([]byte(e.EventID())) })
	add("reid", func() string {
		v, err := gmsl.GetRoomVersion(e.Version())
		if err != nil {
			return "ERR"
		}
		f, err := v.NewEventFromTrustedJSON(append([]byte{}, e.JSON()...), e.Redacted())
		if err != nil {
			return "ERR"
		}
		return pct([]byte(f.EventID()))
	})
	add("type", func() string { return pct([]byte(e.Type())) })
	add("sender", func() string { return pct([]byte(e.SenderID())) })
	add("room", func() string { r := e.RoomID(); return pct([]byte(r.String())) })
	add("skey", func() string {
		if e.StateKey() == nil {
			return "-"
		}
		return "+" + pct([]byte(*e.StateKey()))
	})
	add("content", func() string { return pct(e.Content()) })
	add("depth", func() string { return strconv.FormatInt(e.Depth(), 10) })
	add("ts", func() string { return strconv.FormatUint(uint64(e.OriginServerTS()), 10) })
	add("prev", func() string { return pctList(e.PrevEventIDs()) })
	add("auth", func() string { return pctList(e.AuthEventIDs()) })
	add("redacts", func() string { return pct([]byte(e.Redacts())) })
	add("redacted", func() string { return strconv.FormatBool(e.Redacted()) })
	add("unsigned", func() string { return pct(e.Unsigned()) })
	add("check", func() string {
		if gmsl.CheckFields(e) == nil {
			return "ok"
		}
		return "err"
	})
	add("json", func() string { return pct(e.JSON()) })
	// a second round of the accessors that derive something, then compare the event value
	guard(func() string { r := e.RoomID(); return r.String() })
	guard(func() string { return strings.Join(e.AuthEventIDs(), ",") })
	guard(func() string { return strings.Join(e.PrevEventIDs(), ",") })
	guard(func() string { _, _ = e.Membership(); _, _ = e.JoinRule(); _, _ = e.HistoryVisibility(); _, _ = e.PowerLevels(); return "" })
	guard(func() string { _ = e.IsSticky(time.Now(), time.Now()); _ = e.StickyEndTime(time.Now()); _, _ = e.ToHeaderedJSON(); return "" })
	after := guard(func() string { return gmsl.VerifC03EventValue(e) })
	if before == after {
		lines = append(lines, "pure=ok")
	} else {
		lines = append(lines, "pure=CHANGED")
	}
	return strings.Join(lines, "\n")
}

// ---------- tables ----------

type c03Tab struct {
	seen map[string]bool
	args [][]byte
	glue []string
}

func newTab() *c03Tab { return &c03Tab{seen: map[string]bool{}} }

func (t *c03Tab) add(tag string, key, val []byte) {
	k := tag + "\x00" + string(key)
	if t.seen[k] {
		return
	}
	t.seen[k] = true
	t.args = append(t.args, []byte(tag), key, val)
}

func c03Without(js []byte, keys ...string) ([]byte, error) {
	var m map[string]json.RawMessage
	if err := json.Unmarshal(js, &m); err != nil {
		return nil, err
	}
	for _, k := range keys {
		delete(m, k)
	}
	out, err := json.Marshal(m)
	if err != nil {
		return nil, err
	}
	return gmsl.CanonicalJSON(out)
}

// addEvent enters the two preimages of an event JSON (content hash, reference hash) and the
// messages of the signatures it carries that verify under the harness' keys.
func (t *c03Tab) addEvent(js []byte, ver gmsl.RoomVersion, e gmsl.PDU) {
	verImpl, err := gmsl.GetRoomVersion(ver)
	if err != nil {
		return
	}
	if pre, err := c03Without(js, "signatures", "unsigned", "hashes"); err == nil {
		d := sha256.Sum256(pre)
		t.add("h", pre, d[:])
	}
	red, err := verImpl.RedactEventJSON(js)
	if err != nil {
		return
	}
	pre, err := c03Without(red, "signatures", "unsigned")
	if err != nil {
		return
	}
	d := sha256.Sum256(pre)
	t.add("h", pre, d[:])
	if e != nil && verImpl.EventFormat() == gmsl.EventFormatV2 {
		enc := base64.RawURLEncoding
		if verImpl.EventIDFormat() == gmsl.EventIDFormatV2 {
			enc = base64.RawStdEncoding
		}
		want := "$" + enc.EncodeToString(d[:])
		if got := guard(func() string { return e.EventID() }); got != want {
			t.glue = append(t.glue, "event ID is not the hash of the candidate reference preimage")
		}
	}
	var sigs struct {
		Signatures map[string]map[string]spec.Base64Bytes `json:"signatures"`
	}
	if json.Unmarshal(js, &sigs) == nil {
		for name, m := range sigs.Signatures {
			for kid, sig := range m {
				priv := c03Key(name, kid)
				if ed25519.Verify(priv.Public().(ed25519.PublicKey), pre, sig) {
					key := append(append(append(append([]byte(name), 0), []byte(kid)...), 0), pre...)
					t.add("s", key, sig)
				}
			}
		}
	}
}

// checkContentHash: hashes.sha256 of the event is SHA-256 of the candidate content preimage.
func (t *c03Tab) checkContentHash(js []byte) {
	pre, err := c03Without(js, "signatures", "unsigned", "hashes")
	if err != nil {
		t.glue = append(t.glue, "no content preimage")
		return
	}
	var h struct {
		Hashes struct {
			Sha256 string `json:"sha256"`
		} `json:"hashes"`
	}
	_ = json.Unmarshal(js, &h)
	d := sha256.Sum256(pre)
	if h.Hashes.Sha256 != base64.RawStdEncoding.EncodeToString(d[:]) {
		t.glue = append(t.glue, "hashes.sha256 is not the hash of the candidate content preimage")
	}
}

// ---------- arguments ----------

const c03NArgs = 17

type c03Build struct {
	ver                        gmsl.RoomVersion
	proto                      gmsl.ProtoEvent
	ts                         int64
	origin, keyID              string
	sender, room, typ, redacts string
}

func c03IDList(s string) (interface{}, error) {
	switch s {
	case "nil":
		return nil, nil
	case "null":
		return []string(nil), nil
	}
	var l []string
	if err := json.Unmarshal([]byte(s), &l); err != nil {
		return nil, err
	}
	if l == nil {
		l = []string{}
	}
	return l, nil
}

func c03Parse(a [][]byte) (*c03Build, error) {
	if len(a) < c03NArgs {
		return nil, fmt.Errorf("short args")
	}
	b := &c03Build{ver: gmsl.RoomVersion(a[0])}
	b.proto.SenderID = string(a[1])
	b.proto.RoomID = string(a[2])
	b.proto.Type = string(a[3])
	if string(a[4]) == "1" {
		sk := string(a[5])
		b.proto.StateKey = &sk
	}
	var err error
	if b.proto.PrevEvents, err = c03IDList(string(a[6])); err != nil {
		return nil, err
	}
	if b.proto.AuthEvents, err = c03IDList(string(a[7])); err != nil {
		return nil, err
	}
	b.proto.Redacts = string(a[8])
	if b.proto.Depth, err = strconv.ParseInt(string(a[9]), 10, 64); err != nil {
		return nil, err
	}
	if len(a[10]) > 0 {
		b.proto.Signature = spec.RawJSON(a[10])
	}
	b.proto.Content = spec.RawJSON(a[11])
	if len(a[12]) > 0 {
		b.proto.Unsigned = spec.RawJSON(a[12])
	}
	if b.ts, err = strconv.ParseInt(string(a[14]), 10, 64); err != nil {
		return nil, err
	}
	b.origin, b.keyID = string(a[15]), string(a[16])
	return b, nil
}

func (b *c03Build) build() (gmsl.PDU, error) {
	verImpl, err := gmsl.GetRoomVersion(b.ver)
	if err != nil {
		return nil, err
	}
	pe := b.proto
	eb := verImpl.NewEventBuilderFromProtoEvent(&pe)
	return eb.Build(time.UnixMilli(b.ts), spec.ServerName(b.origin), gmsl.KeyID(b.keyID), c03Key(b.origin, b.keyID))
}

// v1EventID: the random ID Build drew (format 1 only), to be handed to the model.
func c03V1EventID(e gmsl.PDU) []byte {
	var x struct {
		EventID string `json:"event_id"`
	}
	_ = json.Unmarshal(e.JSON(), &x)
	return []byte(x.EventID)
}

func c03Section(name, body string) string { return "--" + name + "\n" + body }

func c03Finish(t *c03Tab, final [][]byte, out string) ([][]byte, []byte) {
	final = append(final, t.args...)
	if len(t.glue) > 0 {
		sort.Strings(t.glue)
		out = "GLUE: " + strings.Join(t.glue, "; ") + "\n" + out
	}
	return final, []byte(out)
}

func init() {
	RegisterImpl("C03.roundtrip", func(args [][]byte) ([][]byte, []byte) {
		final := append([][]byte{}, args[:c03NArgs]...)
		b, err := c03Parse(args)
		if err != nil {
			return final, B("badargs")
		}
		e, err := b.build()
		if e == nil {
			return final, B("builderr")
		}
		final[13] = c03V1EventID(e)
		t := newTab()
		if err != nil { // an event that fails its own field checks: the model needs the tables to see that too
			t.addEvent(e.JSON(), b.ver, nil)
			final = append(final, t.args...)
			return final, B("builderr")
		}
		js := append([]byte{}, e.JSON()...)
		t.checkContentHash(js)
		t.addEvent(js, b.ver, e)
		verImpl, _ := gmsl.GetRoomVersion(b.ver)
		show := func(p gmsl.PDU, err error) string {
			if p == nil {
				return "err"
			}
			// an event that fails its field checks is still shown; the dump carries check=
			return c03Dump(p)
		}
		var parts []string
		parts = append(parts, c03Section("built", c03Dump(e)))
		parts = append(parts, c03Section("untrusted", show(verImpl.NewEventFromUntrustedJSON(append([]byte{}, js...)))))
		parts = append(parts, c03Section("trusted", show(verImpl.NewEventFromTrustedJSON(append([]byte{}, js...), false))))
		hj, herr := e.ToHeaderedJSON()
		if herr != nil {
			parts = append(parts, c03Section("headered", "err"))
		} else {
			parts = append(parts, c03Section("headered", show(gmsl.NewEventFromHeaderedJSON(hj, false))))
		}
		return c03Finish(t, final, strings.Join(parts, "\n"))
	})

	// build args ++ [unsigned value; unsigned-field key; unsigned-field value; name2; keyid2]
	RegisterImpl("C03.edits", func(args [][]byte) ([][]byte, []byte) {
		final := append([][]byte{}, args[:c03NArgs+5]...)
		b, err := c03Parse(args)
		if err != nil {
			return final, B("badargs")
		}
		e0, err := b.build()
		if err != nil || e0 == nil {
			return final, B("builderr")
		}
		final[13] = c03V1EventID(e0)
		u, fk, fv, name2, kid2 := args[c03NArgs], string(args[c03NArgs+1]), args[c03NArgs+2], string(args[c03NArgs+3]), string(args[c03NArgs+4])
		t := newTab()
		js0 := append([]byte{}, e0.JSON()...)
		t.checkContentHash(js0)
		t.addEvent(js0, b.ver, e0)
		verImpl, _ := gmsl.GetRoomVersion(b.ver)
		var parts []string
		parts = append(parts, c03Section("built", c03Dump(e0)))
		e1, err := e0.SetUnsigned(json.RawMessage(u))
		if err != nil || e1 == nil {
			parts = append(parts, c03Section("set_unsigned", "err"))
			return c03Finish(t, final, strings.Join(parts, "\n"))
		}
		t.addEvent(e1.JSON(), b.ver, nil)
		parts = append(parts, c03Section("set_unsigned", c03Dump(e1)))
		if err := e1.SetUnsignedField(fk, json.RawMessage(fv)); err != nil {
			return final, B("fielderr")
		}
		t.addEvent(e1.JSON(), b.ver, nil)
		parts = append(parts, c03Section("set_unsigned_field", c03Dump(e1)))
		e3 := e1.Sign(name2, gmsl.KeyID(kid2), c03Key(name2, kid2))
		t.addEvent(e3.JSON(), b.ver, nil)
		parts = append(parts, c03Section("sign", c03Dump(e3)))
		e3.Redact()
		t.addEvent(e3.JSON(), b.ver, nil)
		parts = append(parts, c03Section("redact", c03Dump(e3)))
		f, err := verImpl.NewEventFromTrustedJSON(js0, false)
		if err != nil {
			return final, B("reparseerr")
		}
		f.Redact()
		t.addEvent(f.JSON(), b.ver, nil)
		parts = append(parts, c03Section("fresh_redact", c03Dump(f)))
		return c03Finish(t, final, strings.Join(parts, "\n"))
	})

	// two builds
	RegisterImpl("C03.variants", func(args [][]byte) ([][]byte, []byte) {
		final := append([][]byte{}, args[:2*c03NArgs]...)
		t := newTab()
		var ids []string
		for i := 0; i < 2; i++ {
			b, err := c03Parse(args[i*c03NArgs:])
			if err != nil {
				return final, B("badargs")
			}
			e, err := b.build()
			if err != nil || e == nil {
				ids = append(ids, "builderr")
				continue
			}
			final[i*c03NArgs+13] = c03V1EventID(e)
			t.addEvent(e.JSON(), b.ver, e)
			ids = append(ids, pct([]byte(e.EventID())))
		}
		return c03Finish(t, final, strings.Join(ids, "\n"))
	})

	// [ver; event JSON]: NewEventFromUntrustedJSON, every accessor, then Redact()
	RegisterImpl("C03.untrusted", func(args [][]byte) ([][]byte, []byte) {
		final := append([][]byte{}, args[:2]...)
		ver := gmsl.RoomVersion(args[0])
		verImpl, err := gmsl.GetRoomVersion(ver)
		if err != nil {
			return final, B("badargs")
		}
		t := newTab()
		t.addEvent(args[1], ver, nil)
		e, err := verImpl.NewEventFromUntrustedJSON(append([]byte{}, args[1]...))
		if e == nil || err != nil {
			return final, B("err")
		}
		t.addEvent(e.JSON(), ver, nil)
		parts := []string{c03Section("parsed", c03Dump(e))}
		parts = append(parts, c03Section("redact", guard(func() string { e.Redact(); return c03Dump(e) })))
		t.addEvent(e.JSON(), ver, nil)
		return c03Finish(t, final, strings.Join(parts, "\n"))
	})

	// [ver; event text as on the wire]: NewEventFromUntrustedJSON, then a trusted parse of the event's
	// own JSON(); the accessors of both
	RegisterImpl("C03.own_json", func(args [][]byte) ([][]byte, []byte) {
		final := append([][]byte{}, args[:2]...)
		verImpl, err := gmsl.GetRoomVersion(gmsl.RoomVersion(args[0]))
		if err != nil {
			return final, B("badargs")
		}
		e, err := verImpl.NewEventFromUntrustedJSON(append([]byte{}, args[1]...))
		if e == nil || err != nil {
			return final, B("err")
		}
		parts := []string{c03Section("parsed", c03Dump(e))}
		f, err := verImpl.NewEventFromTrustedJSON(append([]byte{}, e.JSON()...), e.Redacted())
		if err != nil || f == nil {
			parts = append(parts, c03Section("own_json", "err"))
		} else {
			parts = append(parts, c03Section("own_json", c03Dump(f)))
		}
		return final, []byte(strings.Join(parts, "\n"))
	})

	RegisterProp("C03", genC03)
}

// ---------- generators ----------

func c03Versions() []string {
	var vs []string
	for v := range gmsl.RoomVersions() {
		vs = append(vs, string(v))
	}
	sort.Strings(vs)
	return vs
}

type c03Gen struct{ c *Ctx }

func (g c03Gen) pick(l []string) string { return l[g.c.Rng.Intn(len(l))] }

const b64url = "ABCDEFGHIJKLMNOPQRSTUVWXYZabcdefghijklmnopqrstuvwxyz0123456789-_"
const b64std = "ABCDEFGHIJKLMNOPQRSTUVWXYZabcdefghijklmnopqrstuvwxyz0123456789+/"

func (g c03Gen) randOf(alpha string, n int) string {
	b := make([]byte, n)
	for i := range b {
		b[i] = alpha[g.c.Rng.Intn(len(alpha))]
	}
	return string(b)
}

// an event ID of the shape the version's format gives (or, sometimes, of another shape)
func (g c03Gen) eventID(ver string) string {
	v, _ := gmsl.GetRoomVersion(gmsl.RoomVersion(ver))
	shape := int(v.EventIDFormat())
	if g.c.Rng.Intn(6) == 0 {
		shape = 1 + g.c.Rng.Intn(4)
	}
	switch shape {
	case 1:
		return "$" + g.randOf(b64url[:62], 1+g.c.Rng.Intn(20)) + ":" + g.pick([]string{"example.org", "h:8448", "x"})
	case 2:
		return "$" + g.randOf(b64std, 43)
	case 3:
		return "$" + g.randOf(b64url, 43)
	default:
		return g.pick([]string{"$", "$a", "$ab", "$abc", "$abcd=", "$ab\ncd", "$-_+/", "$ünï:x", "x", "$abcde"})
	}
}

func (g c03Gen) idList(ver string) string {
	switch g.c.Rng.Intn(12) {
	case 0:
		return "nil"
	case 1:
		return "null"
	}
	n := g.c.Rng.Intn(6)
	l := make([]string, n)
	for i := range l {
		l[i] = g.eventID(ver)
	}
	b, _ := json.Marshal(l)
	return string(b)
}

var c03Strings = []string{"", "a", "join", "invite", "public", "@alice:example.org", "ünïcödé ✓", "<b>&amp;</b>", "quote\"back\\slash", "line\nfeed\ttab", " sep", "𝄞 clef", "ctl\x01\x1f", "world_readable", "10"}
var c03Ints = []string{"0", "1", "-1", "50", "100", "9007199254740991", "-9007199254740991", "1700000000000", "42"}
var c03ContentKeys = []string{"membership", "creator", "join_rule", "allow", "users", "events", "ban", "kick", "redact", "invite",
	"state_default", "events_default", "users_default", "redacts", "join_authorised_via_users_server", "third_party_invite",
	"history_visibility", "aliases", "room_version", "body", "msgtype", "name", "ключ", "a", "b", "é", "signed", "additional_creators", "Z", "_x"}

func (g c03Gen) value(depth int) interface{} {
	r := g.c.Rng.Intn(10)
	if depth <= 0 && r >= 7 {
		r = g.c.Rng.Intn(7)
	}
	switch r {
	case 0, 1, 2:
		return g.pick(c03Strings)
	case 3, 4:
		return json.Number(g.pick(c03Ints))
	case 5:
		return g.c.Rng.Intn(2) == 0
	case 6:
		return nil
	case 7:
		n := g.c.Rng.Intn(4)
		l := make([]interface{}, n)
		for i := range l {
			l[i] = g.value(depth - 1)
		}
		return l
	default:
		return g.object(depth - 1)
	}
}

func (g c03Gen) object(depth int) map[string]interface{} {
	n := g.c.Rng.Intn(5)
	m := map[string]interface{}{}
	for i := 0; i < n; i++ {
		m[g.pick(c03ContentKeys)] = g.value(depth)
	}
	return m
}

func c03JSON(v interface{}) string {
	var buf bytes.Buffer
	enc := json.NewEncoder(&buf)
	enc.SetEscapeHTML(false)
	_ = enc.Encode(v)
	return strings.TrimSpace(buf.String())
}

var c03Types = []string{"m.room.create", "m.room.member", "m.room.join_rules", "m.room.power_levels", "m.room.aliases",
	"m.room.history_visibility", "m.room.redaction", "m.room.third_party_invite", "m.room.message", "m.room.name",
	"m.room.message", "m.räum.ünï", "", "x", "M.ROOM.CREATE"}

func (g c03Gen) content(typ string) string {
	m := g.object(2)
	// make the protected keys of the special types likely
	switch typ {
	case "m.room.member":
		m["membership"] = g.pick([]string{"join", "invite", "leave", "ban", "knock"})
		if g.c.Rng.Intn(3) == 0 {
			m["join_authorised_via_users_server"] = "@carol:example.org"
		}
		if g.c.Rng.Intn(3) == 0 {
			m["third_party_invite"] = map[string]interface{}{"display_name": "x", "signed": map[string]interface{}{"mxid": "@a:b", "token": "t"}}
		}
	case "m.room.create":
		m["creator"] = "@alice:example.org"
		m["room_version"] = "10"
	case "m.room.join_rules":
		m["join_rule"] = g.pick([]string{"public", "invite", "restricted"})
		if g.c.Rng.Intn(2) == 0 {
			m["allow"] = []interface{}{map[string]interface{}{"type": "m.room_membership", "room_id": "!other:example.org"}}
		}
	case "m.room.power_levels":
		m["users"] = map[string]interface{}{"@alice:example.org": json.Number("100"), "@bob:example.org": json.Number(g.pick(c03Ints[:5]))}
		m["events"] = map[string]interface{}{"m.room.name": json.Number("50")}
		m["ban"] = json.Number(g.pick(c03Ints[:5]))
		m["invite"] = json.Number(g.pick(c03Ints[:5]))
	case "m.room.redaction":
		m["redacts"] = "$" + g.randOf(b64url, 43)
	case "m.room.history_visibility":
		m["history_visibility"] = g.pick([]string{"shared", "joined", "world_readable"})
	case "m.room.aliases":
		m["aliases"] = []interface{}{"#a:example.org", "#b:example.org"}
	}
	return c03JSON(m)
}

func (g c03Gen) long(n int) string { return strings.Repeat("k", n) }

// a well-formed proto-event (Build succeeds, RoomID() is valid), with boundary values mixed in
func (g c03Gen) proto(ver string) [][]byte {
	v, _ := gmsl.GetRoomVersion(gmsl.RoomVersion(ver))
	typ := g.pick(c03Types)
	if g.c.Rng.Intn(40) == 0 {
		typ = g.long(254 + g.c.Rng.Intn(2))
	}
	skflag, skey := "0", ""
	switch g.c.Rng.Intn(5) {
	case 0:
	case 1, 2:
		skflag = "1"
	case 3:
		skflag, skey = "1", g.pick([]string{"@alice:example.org", "@bob:h:8448", "ünï", "x"})
	case 4:
		skflag, skey = "1", g.pick([]string{"@carol:example.org", g.long(255), " "})
	}
	if typ == "m.room.create" && g.c.Rng.Intn(4) != 0 {
		skflag, skey = "1", ""
	}
	room := g.pick([]string{"!room:example.org", "!r:h:8448", "!ünï:example.org", "!a:1.2.3.4", "!x:y"})
	if v.DomainlessRoomIDs() {
		room = "!" + g.randOf(b64url, 43)
		if g.c.Rng.Intn(8) == 0 {
			room = "!legacy:example.org"
		}
		if typ == "m.room.create" && skflag == "1" {
			room = ""
		}
	}
	sender := g.pick([]string{"@alice:example.org", "@bob:h:8448", "@ünï:example.org", "@a:b"})
	depth := g.pick([]string{"0", "1", "2", "7", "-1", "9007199254740991", strconv.Itoa(g.c.Rng.Intn(100000))})
	redacts := ""
	if typ == "m.room.redaction" || g.c.Rng.Intn(10) == 0 {
		redacts = g.eventID(ver)
	}
	sigs := ""
	switch g.c.Rng.Intn(8) {
	case 0:
		sigs = `{"other.example.org":{"ed25519:x":"` + g.randOf(b64std, 85) + `A"}}`
	case 1:
		sigs = `{"example.org":{"ed25519:old":"` + g.randOf(b64std, 85) + `A"}}`
	}
	unsigned := ""
	switch g.c.Rng.Intn(5) {
	case 0:
		unsigned = `{"age":1234}`
	case 1:
		unsigned = c03JSON(g.object(1))
	}
	ts := g.pick([]string{"0", "1", "1700000000000", "9007199254740991", strconv.Itoa(1600000000000 + g.c.Rng.Intn(1000000000))})
	origin := g.pick([]string{"example.org", "h:8448", "other.example.org"})
	keyid := g.pick([]string{"ed25519:auto", "ed25519:1", "ed25519:old"})
	return Args(ver, sender, room, typ, skflag, skey, g.idList(ver), g.idList(ver), redacts, depth, sigs, g.content(typ), unsigned, "", ts, origin, keyid)
}

func verImplOf(ver string) gmsl.IRoomVersion {
	v, _ := gmsl.GetRoomVersion(gmsl.RoomVersion(ver))
	return v
}

// c03OwnJSON: the event with extra members appended LAST on the wire (content hash recomputed over
// the whole, so the event is accepted unredacted), exact-name oracle only (the value model
// does not represent encoding/json's member matching).
func c03OwnJSON(c *Ctx, ver string, base []byte, desc string) {
	type member struct{ k, v string }
	families := [][]member{
		{{"Type", `"m.room.message"`}, {"State_key", `null`}, {"Content", `{"body":"hello"}`}},
		{{"Type", `"m.room.power_levels"`}, {"State_key", `""`}, {"Content", `{"users":{"@mallory:evil.example":100}}`}},
		{{"TYPE", `"m.room.member"`}},
		{{"Sender", `"@mallory:evil.example"`}},
		{{"ſender", `"@mallory:evil.example"`}},
		{{"state_Key", `"@mallory:evil.example"`}},
		{{"origin_ſerver_ts", `1`}},
		{{"Depth", `424242`}},
		{{"Redacts", `"$elsewhere"`}},
		{{"redactſ", `"$elsewhere"`}},
		{{"Room_id", `"!elsewhere:evil.example"`}},
		{{"Prev_events", `[]`}, {"Auth_events", `[]`}},
		{{"zzz_unrelated", `{"a":1}`}}, // control: a member nobody reads
	}
	for fi, fam := range families {
		var m map[string]json.RawMessage
		if json.Unmarshal(base, &m) != nil {
			return
		}
		for _, mem := range fam {
			m[mem.k] = json.RawMessage(mem.v)
		}
		js, err := json.Marshal(m)
		if err != nil {
			continue
		}
		hashed, err := gmsl.VerifC03AddContentHashes(js)
		if err != nil {
			continue
		}
		var hm map[string]json.RawMessage
		if json.Unmarshal(hashed, &hm) != nil {
			continue
		}
		for _, mem := range fam {
			delete(hm, mem.k)
		}
		body, err := json.Marshal(hm)
		if err != nil {
			continue
		}
		if cj, err := gmsl.CanonicalJSON(body); err == nil {
			body = cj
		}
		for _, first := range []bool{false, true} {
			var sb strings.Builder
			if first {
				sb.WriteString("{")
				for _, mem := range fam {
					kb, _ := json.Marshal(mem.k)
					sb.Write(kb)
					sb.WriteString(":" + mem.v + ",")
				}
				sb.Write(body[1:])
			} else {
				sb.Write(body[:len(body)-1])
				for _, mem := range fam {
					kb, _ := json.Marshal(mem.k)
					sb.WriteString(",")
					sb.Write(kb)
					sb.WriteString(":" + mem.v)
				}
				sb.WriteString("}")
			}
			c.Run("C03.own_json", [][]byte{B(ver), []byte(sb.String())}, "", "C03.prop.own_json",
				fmt.Sprintf("own JSON family %d first=%v %s", fi, first, desc))
			c.Count("own_json")
		}
	}
}

func c03Desc(a [][]byte) string {
	return fmt.Sprintf("v=%s type=%q sk=%s%q room=%q depth=%s", a[0], a[3], a[4], a[5], a[2], a[9])
}

func genC03(c *Ctx) {
	g := c03Gen{c}
	vers := c03Versions()

	// 1. round trip: every version x generated proto-events
	n := c.Scale(30, 400)
	for _, ver := range vers {
		for i := 0; i < n; i++ {
			a := g.proto(ver)
			c.Run("C03.roundtrip", a, "C03.roundtrip", "C03.prop.roundtrip", "roundtrip "+c03Desc(a))
			c.Count("roundtrip/" + ver)
			c.Count("roundtrip/type=" + strconv.Quote(string(a[3])))
		}
	}
	// 2. proto-events Build must refuse or whose events fail their field checks
	bad := func(ver string, mut func(a [][]byte), what string) {
		a := g.proto(ver)
		mut(a)
		c.Run("C03.roundtrip", a, "C03.roundtrip", "C03.prop.roundtrip", "boundary "+what+" "+c03Desc(a))
		c.Count("boundary/" + what)
	}
	for _, ver := range vers {
		v, _ := gmsl.GetRoomVersion(gmsl.RoomVersion(ver))
		for _, s := range []string{"alice", "@nocolon", "", "alice:example.org", "@" + g.long(250) + ":x", "@" + g.long(251) + ":x"} {
			s := s
			bad(ver, func(a [][]byte) { a[1] = B(s) }, "sender")
		}
		for _, r := range []string{"", "room:x", "!nocolon", "!a:b c", "!:x", "!a:", "!abc", "#a:b", "!" + g.long(251) + ":x", "!" + g.long(252) + ":x", "!" + g.randOf(b64url, 43), "!" + g.randOf(b64url, 42), "!" + g.randOf(b64url, 42) + "+", "!a:h:99999", "!a:h:65535", "!a:h:"} {
			r := r
			bad(ver, func(a [][]byte) { a[2] = B(r) }, "room")
		}
		for _, l := range []int{255, 256} {
			l := l
			bad(ver, func(a [][]byte) { a[3] = B(g.long(l)) }, "type-length")
			bad(ver, func(a [][]byte) { a[4], a[5] = B("1"), B(g.long(l)) }, "skey-length")
			bad(ver, func(a [][]byte) { a[4], a[5] = B("1"), B(strings.Repeat("é", l/2+1)) }, "skey-runes")
		}
		for _, d := range []string{"9007199254740992", "-9007199254740992", "9223372036854775807", "-9223372036854775808"} {
			d := d
			bad(ver, func(a [][]byte) { a[9] = B(d) }, "depth")
		}
		bad(ver, func(a [][]byte) { a[14] = B("9007199254740992") }, "ts")
		bad(ver, func(a [][]byte) { a[3] = B("m.room.message"); a[11] = B(`{"body":"x","n":9007199254740992}`) }, "content-bigint")
		bad(ver, func(a [][]byte) { a[11] = B(`{"body":"x","n":1e400}`) }, "content-1e400")
		for _, ct := range []string{`5`, `"x"`, `[1]`, `true`, `null`} {
			ct := ct
			bad(ver, func(a [][]byte) { a[11] = B(ct) }, "content-not-object")
		}
		bad(ver, func(a [][]byte) { a[3] = B("m.room.message"); a[11] = B(`{"body":"x","n":-0}`) }, "content-negzero")
		bad(ver, func(a [][]byte) { a[12] = B(`{"age":9007199254740993}`) }, "unsigned-bigint")
		bad(ver, func(a [][]byte) { a[6] = B("null") }, "prev-typed-nil")
		bad(ver, func(a [][]byte) { a[7] = B("null") }, "auth-typed-nil")
		if v.DomainlessRoomIDs() {
			bad(ver, func(a [][]byte) { a[3], a[4], a[5], a[2] = B("m.room.create"), B("1"), B(""), B("!"+g.randOf(b64url, 43)) }, "v12-create-with-room")
			bad(ver, func(a [][]byte) { a[3], a[4], a[5], a[2] = B("m.room.create"), B("1"), B("x"), B("!"+g.randOf(b64url, 43)) }, "v12-create-skey-x-with-room")
			bad(ver, func(a [][]byte) { a[3], a[4], a[5], a[2] = B("m.room.create"), B("0"), B(""), B("") }, "v12-create-no-skey-no-room")
			bad(ver, func(a [][]byte) { a[3], a[4], a[5], a[2] = B("m.room.create"), B("1"), B(""), B("") }, "v12-create")
			// explicit auth lists that already name the create event: first, in the middle, last, twice
			for _, shape := range [][]int{{0}, {0, 1}, {1, 0}, {1, 0, 2}, {1, 2, 0}, {0, 0}, {1, 0, 0}, {0, 1, 0}} {
				a := g.proto(ver)
				room := "!" + g.randOf(b64url, 43)
				if string(a[3]) == "m.room.create" {
					a[3] = B("m.room.member")
				}
				a[2] = B(room)
				ids := make([]string, len(shape))
				for i, k := range shape {
					if k == 0 {
						ids[i] = "$" + room[1:]
					} else {
						ids[i] = "$" + g.randOf(b64url, 43)
					}
				}
				jb, _ := json.Marshal(ids)
				a[7] = jb
				c.Run("C03.roundtrip", a, "C03.roundtrip", "C03.prop.roundtrip", fmt.Sprintf("v12 auth list names the create event %v %s", shape, c03Desc(a)))
				c.Count("boundary/v12-auth-names-create")
				ae := append(append([][]byte{}, a...), B(`{"age":1}`), B("age"), B("2"), B("second.example.org"), B("ed25519:2"))
				c.Run("C03.edits", ae, "C03.edits", "C03.prop.edits", fmt.Sprintf("v12 auth list names the create event %v %s", shape, c03Desc(a)))
				c.Count("edits/v12-auth-names-create")
			}
			// type m.room.create but not THE create event (no state key): an ordinary event
			bad(ver, func(a [][]byte) { a[3], a[4], a[5], a[2] = B("m.room.create"), B("0"), B(""), B("!"+g.randOf(b64url, 43)) }, "v12-create-type-no-skey-with-room")
			for _, ty := range []string{"m.room.create", "m.room.member"} {
				for _, sk := range [][2]string{{"0", ""}, {"1", ""}, {"1", "x"}} {
					a := g.proto(ver)
					a[3], a[4], a[5] = B(ty), B(sk[0]), B(sk[1])
					a[2] = B("!" + g.randOf(b64url, 43))
					if ty == "m.room.create" && sk[0] == "1" {
						a[2] = B("")
					}
					a[11] = B(`{"creator":"@alice:example.org"}`)
					a = append(a, B(`{"age":1}`), B("age"), B("2"), B("second.example.org"), B("ed25519:2"))
					c.Run("C03.edits", a, "C03.edits", "C03.prop.edits", "v12 create discriminants "+c03Desc(a))
					c.Count("edits/v12-discriminants")
				}
			}
		}
	}
	// the 65536-byte limit of CheckFields, hit exactly: filler of many short strings (the shared
	// JSON parser of the model reverses string bodies quadratically, so no single long string)
	sizeVers := vers
	if !c.Thorough() {
		sizeVers = []string{"1", "10", "12"}
	}
	for _, ver := range sizeVers {
		a := g.proto(ver)
		a[3], a[12] = B("m.room.message"), B("")
		filler := func(n, tail int) string {
			var sb strings.Builder
			sb.WriteString(`{"f":[`)
			for i := 0; i < n; i++ {
				sb.WriteString(`"0123456789abcdef",`)
			}
			sb.WriteString(`"` + strings.Repeat("x", tail) + `"]}`)
			return sb.String()
		}
		a[11] = B(filler(3300, 0))
		if b, err := c03Parse(a); err == nil {
			if e, err := b.build(); err == nil {
				base := len(e.JSON())
				for _, target := range []int{65535, 65536, 65537} {
					need := target - base // bytes to add
					aa := append([][]byte{}, a...)
					aa[11] = B(filler(3300+need/19, need%19))
					c.Run("C03.roundtrip", aa, "C03.roundtrip", "C03.prop.roundtrip", fmt.Sprintf("boundary length %d v=%s", target, ver))
					c.Count("boundary/length")
				}
			}
		}
	}
	// 3. edits
	n = c.Scale(20, 250)
	uvals := []string{`{}`, `{"age":5}`, `{"age":77,"prev_content":{"membership":"join"}}`, `{"x":[1,2,{"y":null}]}`, `{"age":9007199254740992}`, `"str"`, `null`}
	for _, ver := range vers {
		for i := 0; i < n; i++ {
			a := g.proto(ver)
			a = append(a, B(g.pick(uvals)), B(g.pick([]string{"age", "transaction_id", "zz", "a"})), B(g.pick([]string{`1`, `"txn"`, `{"k":[true]}`, `null`})),
				B(g.pick([]string{"second.example.org", "example.org", "h:8448"})), B(g.pick([]string{"ed25519:2", "ed25519:auto"})))
			c.Run("C03.edits", a, "C03.edits", "C03.prop.edits", "edits "+c03Desc(a))
			c.Count("edits/" + ver)
		}
	}
	// 5. untrusted parse of events that are not what Build emitted: keys stripped on receipt,
	// content of every JSON kind and with numbers encoding/json cannot hold (hash recomputed
	// with the library's own addContentHashesToEvent), tampered fields (hash not recomputed:
	// the redacted form must come out), malformed fields, malformed room IDs
	n = c.Scale(3, 25)
	for _, ver := range vers {
		for i := 0; i < n; i++ {
			a := g.proto(ver)
			if i%3 == 0 {
				a[3] = B("m.room.message")
			}
			b, err := c03Parse(a)
			if err != nil {
				continue
			}
			e, err := b.build()
			if err != nil || e == nil {
				continue
			}
			base := e.JSON()
			mut := func(what string, rehash bool, f func(m map[string]json.RawMessage)) {
				var m map[string]json.RawMessage
				if json.Unmarshal(base, &m) != nil {
					return
				}
				f(m)
				js, err := json.Marshal(m)
				if err != nil {
					return
				}
				if rehash {
					if js, err = gmsl.VerifC03AddContentHashes(js); err != nil {
						return
					}
				}
				// Content() and Unsigned() of an untrusted event keep the spelling of the input
				// (escapes, spacing) while JSON() is canonical; the model works on values, so
				// the input is handed over in canonical spelling
				if cj, err := gmsl.CanonicalJSON(js); err == nil {
					js = cj
				}
				c.Run("C03.untrusted", [][]byte{B(ver), js}, "C03.untrusted", "C03.prop.untrusted", "untrusted "+what+" "+c03Desc(a))
				c.Count("untrusted/" + what)
			}
			set := func(k, v string) func(m map[string]json.RawMessage) {
				return func(m map[string]json.RawMessage) { m[k] = json.RawMessage(v) }
			}
			mut("as-is", false, func(m map[string]json.RawMessage) {})
			mut("stripped-keys", false, func(m map[string]json.RawMessage) {
				m["unsigned"], m["age_ts"], m["outlier"] = json.RawMessage(`{"age":1}`), json.RawMessage(`5`), json.RawMessage(`true`)
				m["destinations"], m["event_id"] = json.RawMessage(`["x"]`), json.RawMessage(`"$fake:x"`)
			})
			for _, ct := range []string{`5`, `"x"`, `[1]`, `true`, `null`, `{}`} {
				mut("content="+ct, true, set("content", ct))
			}
			nums := []string{"1e400", "-1e400", "1e308", "1.7976931348623157e308", "1.7976931348623159e308", "1" + strings.Repeat("0", 400)}
			if v, _ := gmsl.GetRoomVersion(gmsl.RoomVersion(ver)); v.CheckCanonicalJSON([]byte(`{"a":1.5}`)) == nil {
				// literals whose float64 value is 0 pass the enforced check of v6+ (C01's finding F3)
				nums = append(nums, "0e999", "5e-400")
			}
			for _, num := range nums {
				mut("content-number="+num[:5], true, set("content", `{"body":"x","n":[{"k":`+num+`}]}`))
			}
			mut("tamper-content", false, set("content", `{"body":"tampered","membership":"join","creator":"@x:y"}`))
			mut("tamper-depth", false, set("depth", `123456`))
			mut("tamper-type", false, set("type", `"m.room.other"`))
			// a hash fault together with each key that is discarded on receipt
			for _, kv := range [][2]string{{"unsigned", `{"age":1}`}, {"age_ts", `5`}, {"outlier", `true`}, {"destinations", `["x"]`},
				{"event_id", `"$fake:x"`}, {"event_id", `"$` + strings.Repeat("A", 43) + `"`}} {
				kv := kv
				mut("tamper-content+"+kv[0], false, func(m map[string]json.RawMessage) {
					m["content"] = json.RawMessage(`{"body":"tampered","membership":"join"}`)
					m[kv[0]] = json.RawMessage(kv[1])
				})
				if i > 0 && !c.Thorough() {
					continue
				}
				mut("tamper-depth+"+kv[0], false, func(m map[string]json.RawMessage) {
					m["depth"] = json.RawMessage(`654321`)
					m[kv[0]] = json.RawMessage(kv[1])
				})
			}
			// members written twice: a textual prefix on the (canonical) event, so that both copies
			// reach the parser
			raw := func(what string, tamper bool, prefix string) {
				var m map[string]json.RawMessage
				if json.Unmarshal(base, &m) != nil {
					return
				}
				if tamper {
					m["content"] = json.RawMessage(`{"body":"tampered","membership":"join"}`)
				}
				js, err := json.Marshal(m)
				if err != nil {
					return
				}
				if cj, err := gmsl.CanonicalJSON(js); err == nil {
					js = cj
				}
				js = append([]byte("{"+prefix+","), js[1:]...)
				c.Run("C03.untrusted", [][]byte{B(ver), js}, "C03.untrusted", "C03.prop.untrusted", "untrusted "+what+" "+c03Desc(a))
				c.Count("untrusted/" + what)
			}
			// F67: every copy of a member discarded on receipt is discarded
			for _, kv := range [][2]string{{"unsigned", `{"redacted_because":{"x":1},"prev_content":{"a":"b"}}`}, {"age_ts", `7`}, {"outlier", `true`}, {"destinations", `["evil.example"]`}} {
				raw("twice "+kv[0], false, `"`+kv[0]+`":{},"`+kv[0]+`":`+kv[1])
				if i == 0 || c.Thorough() {
					raw("thrice "+kv[0], false, `"`+kv[0]+`":1,"`+kv[0]+`":`+kv[1]+`,"`+kv[0]+`":`+kv[1])
					raw("twice "+kv[0]+" + hash fault", true, `"`+kv[0]+`":{},"`+kv[0]+`":`+kv[1])
				}
			}
			mut("Unsigned (case variant)", true, set("Unsigned", `{"redacted_because":{"x":1}}`))
			// F65: in the hash-derived ID formats no spelling or repetition of event_id is believed
			if verImplOf(ver).EventFormat() == gmsl.EventFormatV2 {
				vals := []string{`"$fake:x"`, `"$` + strings.Repeat("A", 43) + `"`, `"not an event ID"`, `"$x"`}
				for vi, v := range vals {
					if vi > 0 && i > 0 && !c.Thorough() {
						break
					}
					for _, k := range []string{"Event_id", "EVENT_ID", "event_ID"} {
						k, v := k, v
						mut("event_id variant "+k+" hash-ok", true, set(k, v))
						mut("event_id variant "+k+" hash-fault", false, func(m map[string]json.RawMessage) {
							m["content"] = json.RawMessage(`{"body":"tampered","membership":"join"}`)
							m[k] = json.RawMessage(v)
						})
					}
					raw("event_id twice hash-ok", false, `"event_id":"$decoy:x","event_id":`+v)
					raw("event_id twice hash-fault", true, `"event_id":"$decoy:x","event_id":`+v)
					raw("event_id thrice", false, `"event_id":`+v+`,"event_id":"$decoy:x","event_id":`+v)
				}
			}
			// F67 (b), recorded: members under a case variant of a name the event struct reads, LAST in
			// wire order: the accessors of the first parse follow them, the event's own JSON() does not
			if i == 0 || c.Thorough() {
				c03OwnJSON(c, ver, base, c03Desc(a))
			}
			mut("underscore-key", true, set("_x", `1`))
			mut("hashes-missing", false, func(m map[string]json.RawMessage) { delete(m, "hashes") })
			mut("hashes-not-base64", false, set("hashes", `{"sha256":"!!!"}`))
			mut("hashes-url-alphabet", false, func(m map[string]json.RawMessage) {
				m["hashes"] = json.RawMessage(strings.NewReplacer("+", "-", "/", "_").Replace(string(m["hashes"])))
			})
			for _, kv := range [][2]string{{"depth", "1.0"}, {"depth", `"1"`}, {"depth", "9223372036854775808"}, {"depth", "-5"}, {"origin_server_ts", "-1"},
				{"type", "5"}, {"type", "null"}, {"state_key", "5"}, {"state_key", "null"}, {"prev_events", "null"}, {"auth_events", `"x"`}, {"sender", "null"}, {"room_id", "null"},
				{"room_id", `"!a:b c"`}, {"room_id", `"!:x"`}, {"room_id", `"!a:"`}, {"room_id", `"!abc"`}, {"room_id", `"room:x"`}, {"redacts", "5"}} {
				mut(kv[0]+"="+kv[1], true, set(kv[0], kv[1]))
			}
		}
	}
	// edits on events whose content is already exactly what redaction keeps: Redact() after
	// SetUnsigned / SetUnsignedField / Sign still has the top-level members to remove
	for _, ver := range vers {
		for _, tc := range [][3]string{{"m.room.member", "@alice:example.org", `{"membership":"leave"}`}, {"m.room.message", "", `{}`},
			{"m.room.join_rules", "", `{"join_rule":"public"}`}} {
			a := g.proto(ver)
			a[3], a[11] = B(tc[0]), B(tc[2])
			if tc[0] == "m.room.message" {
				a[4], a[5] = B("0"), B("")
			} else {
				a[4], a[5] = B("1"), B(tc[1])
			}
			if verImplOf(ver).DomainlessRoomIDs() && len(a[2]) == 0 {
				a[2] = B("!" + g.randOf(b64url, 43))
			}
			a = append(a, B(`{"age":77,"prev_content":{"membership":"join"}}`), B("transaction_id"), B(`"txn"`), B("second.example.org"), B("ed25519:2"))
			c.Run("C03.edits", a, "C03.edits", "C03.prop.edits", "edits minimal content "+c03Desc(a))
			c.Count("edits/minimal-content")
		}
	}
	// 4. variants: one field changed (IDs must differ) or only unsigned / signatures / key ID
	// changed (IDs must be equal)
	n = c.Scale(22, 300)
	for _, ver := range vers {
		for i := 0; i < n; i++ {
			a := g.proto(ver)
			b := append([][]byte{}, a...)
			what := ""
			switch k := c.Rng.Intn(16); k {
			case 0:
				b[1], what = B(string(a[1])+"x"), "sender"
			case 1:
				if len(a[2]) > 0 {
					r := []byte(string(a[2]))
					r[len(r)-1] ^= 1
					b[2], what = r, "room"
				}
			case 2:
				b[3], what = B(string(a[3])+"x"), "type"
			case 3:
				if string(a[4]) == "1" {
					b[4], what = B("0"), "skey-absent"
				} else {
					b[4], b[5], what = B("1"), B(""), "skey-empty"
				}
			case 4:
				b[5], b[4], what = B(string(a[5])+"x"), B("1"), "skey"
			case 5:
				b[6], what = B(g.idList(ver)), "prev"
			case 6:
				b[7], what = B(g.idList(ver)), "auth"
			case 7:
				b[8], what = B(g.eventID(ver)), "redacts"
			case 8:
				d, _ := strconv.ParseInt(string(a[9]), 10, 64)
				b[9], what = B(strconv.FormatInt(d-1, 10)), "depth"
			case 9:
				b[11], what = B(g.content(string(a[3]))), "content"
			case 10:
				t, _ := strconv.ParseInt(string(a[14]), 10, 64)
				b[14], what = B(strconv.FormatInt(t+1, 10)), "ts"
			case 11:
				b[15], what = B(g.pick([]string{"example.org", "h:8448", "third.example.org"})), "origin"
			case 12:
				b[12], what = B(g.pick(uvals[:4])), "unsigned-only"
			case 13:
				b[10], what = B(`{"another.example.org":{"ed25519:x":"`+g.randOf(b64std, 85)+`A"}}`), "signatures-only"
			case 14:
				b[16], what = B("ed25519:other"), "keyid-only"
			case 15:
				// reordered content members: the same event
				var m map[string]json.RawMessage
				if json.Unmarshal(a[11], &m) == nil {
					keys := make([]string, 0, len(m))
					for k := range m {
						keys = append(keys, k)
					}
					sort.Sort(sort.Reverse(sort.StringSlice(keys)))
					var sb strings.Builder
					sb.WriteString("{ ")
					for i, k := range keys {
						if i > 0 {
							sb.WriteString(" , ")
						}
						kb, _ := json.Marshal(k)
						sb.Write(kb)
						sb.WriteString(" : ")
						sb.Write(m[k])
					}
					sb.WriteString(" }")
					b[11], what = B(sb.String()), "content-reordered"
				}
			}
			if what == "" {
				what = "identical"
			}
			c.Run("C03.variants", append(append([][]byte{}, a...), b...), "C03.variants", "C03.prop.variants", "variant "+what+" "+c03Desc(a))
			c.Count("variants/" + what)
		}
	}
}
