package main

// C04: untrusted events whose content hash fails surface only their redacted form.
// Events are built and signed by the library (EventBuilder.Build, real ed25519 keys), tampered
// with here, and parsed with NewEventFromUntrustedJSON for all registered room versions.

import (
	"bytes"
	"context"
	"crypto/ed25519"
	"crypto/sha256"
	"encoding/json"
	"errors"
	"fmt"
	"math/rand"
	"sort"
	"strings"
	"time"

	gmsl "github.com/matrix-org/gomatrixserverlib"
	"github.com/matrix-org/gomatrixserverlib/spec"
)

func c04Marshal(m map[string]json.RawMessage) []byte {
	var buf bytes.Buffer
	enc := json.NewEncoder(&buf)
	enc.SetEscapeHTML(false)
	if err := enc.Encode(m); err != nil {
		panic(err)
	}
	return bytes.TrimRight(buf.Bytes(), "\n")
}

func c04Obj(txt []byte) map[string]json.RawMessage {
	var m map[string]json.RawMessage
	if err := json.Unmarshal(txt, &m); err != nil {
		panic(fmt.Sprintf("c04: not an object: %v", err))
	}
	return m
}

func c04Stripped(ver string) []string {
	l := []string{"outlier", "destinations", "age_ts", "unsigned"}
	if ver != "1" && ver != "2" {
		l = append(l, "event_id")
	}
	return l
}

// the real content hash, computed here: SHA-256 over the canonical JSON of the received event
// without the keys discarded on receipt and without signatures, unsigned, hashes.  Whether the
// value of hashes.sha256 decodes to exactly these bytes is decided by the model and the oracle.
func c04Hash(ver string, txt []byte) []byte {
	m := c04Obj(txt)
	for _, k := range c04Stripped(ver) {
		delete(m, k)
	}
	delete(m, "signatures")
	delete(m, "unsigned")
	delete(m, "hashes")
	cj, err := gmsl.CanonicalJSON(c04Marshal(m))
	if err != nil {
		return nil
	}
	sum := sha256.Sum256(cj)
	return sum[:]
}

// the class of a refusal; a persistable refusal by CheckFields hands the event back as well
func c04Refusal(e gmsl.PDU, err error) []byte {
	var ve gmsl.EventValidationError
	if errors.As(err, &ve) && ve.Code == gmsl.EventValidationTooLarge {
		if ve.Persistable {
			if e != nil {
				return append(B("err-persistable\n"), c04Show(e)...)
			}
			return B("err-persistable")
		}
		return B("err-toolarge")
	}
	return B("err")
}

var c04Verifier = func() c05Verifier {
	v := c05Verifier{keys: map[string]ed25519.PublicKey{}}
	for _, s := range []string{"a", "b", "c"} {
		v.keys[s] = c05Key(s).Public().(ed25519.PublicKey)
	}
	return v
}()

func c04Show(e gmsl.PDU) []byte {
	return []byte(fmt.Sprintf("redacted=%v\n%s\n%s", e.Redacted(), e.JSON(), e.Content()))
}

func init() {
	// [ver; event text; real hash (recomputed)] -> redacted flag, JSON(), Content() | refusal class
	RegisterImpl("C04.parse", func(args [][]byte) ([][]byte, []byte) {
		ver := string(args[0])
		final := [][]byte{args[0], args[1], c04Hash(ver, args[1])}
		e, err := c05Impl(args[0]).NewEventFromUntrustedJSON(args[1])
		if err != nil {
			return final, c04Refusal(e, err)
		}
		return final, c04Show(e)
	})
	// [ver; -; event text; real hash (recomputed); class] -> as C04.parse, in the argument layout of C04.tamper
	RegisterImpl("C04.limits", func(args [][]byte) ([][]byte, []byte) {
		ver := string(args[0])
		final := [][]byte{args[0], args[1], args[2], c04Hash(ver, args[2]), args[4]}
		e, err := c05Impl(args[0]).NewEventFromUntrustedJSON(args[2])
		if err != nil {
			return final, c04Refusal(e, err)
		}
		return final, append(c04Show(e), B("\nid=-\nsig=-")...)
	})
	// [ver; original; tampered; real hash of the tampered text (recomputed); class] -> the above for
	// the tampered event, id=same|diff against the original, sig=ok|bad
	RegisterImpl("C04.tamper", func(args [][]byte) ([][]byte, []byte) {
		ver := string(args[0])
		verImpl := c05Impl(args[0])
		final := [][]byte{args[0], args[1], args[2], c04Hash(ver, args[2]), args[4]}
		orig, err := verImpl.NewEventFromUntrustedJSON(args[1])
		if err != nil || orig.Redacted() {
			return final, B("original-rejected")
		}
		if err := gmsl.VerifyEventSignatures(context.Background(), orig, c04Verifier, c05UserID); err != nil {
			return final, B("original-unverified: " + err.Error())
		}
		e, err := verImpl.NewEventFromUntrustedJSON(args[2])
		if err != nil {
			return final, c04Refusal(e, err)
		}
		out := c04Show(e)
		// accessors of a redacted event expose nothing that the JSON does not have
		if e.Redacted() {
			m := c04Obj(e.JSON())
			if _, ok := m["redacts"]; !ok && e.Redacts() != "" {
				out = append(out, B("\nLEAK redacts")...)
			}
			if len(e.Unsigned()) > 0 {
				out = append(out, B("\nLEAK unsigned")...)
			}
			// every accessor agrees with a PDU parsed afresh from the event's own JSON()
			if fresh, err := verImpl.NewEventFromTrustedJSON(e.JSON(), true); err != nil {
				out = append(out, B("\nLEAK own-json-unparsable")...)
			} else {
				a, b := c05AllAccessors(e), c05AllAccessors(fresh)
				for _, k := range c05AccessorNames {
					if a[k] != b[k] {
						out = append(out, B(fmt.Sprintf("\nLEAK stale-accessor %s: %s, from own JSON: %s", k, a[k], b[k]))...)
					}
				}
			}
		}
		// F65: where the ID is a hash, EventID() is never a value the sender wrote into the event
		if ver != "1" && ver != "2" {
			var top map[string]json.RawMessage
			if json.Unmarshal(args[2], &top) == nil {
				for k, v := range top {
					var sv string
					if strings.EqualFold(k, "event_id") && json.Unmarshal(v, &sv) == nil && sv == e.EventID() {
						out = append(out, B("\nLEAK sender-chosen event ID")...)
					}
				}
			}
		}
		id := "diff"
		if e.EventID() == orig.EventID() {
			id = "same"
		}
		sig := "ok"
		if err := gmsl.VerifyEventSignatures(context.Background(), e, c04Verifier, c05UserID); err != nil {
			sig = "bad"
		}
		out = append(out, B("\nid="+id+"\nsig="+sig)...)
		return final, out
	})
	RegisterProp("C04", genC04)
}

// ---------------------------------------------------------------------------------------------

// the specification's content keep-lists, for labelling the tampering classes (hand-written)
func c04ContentKept(ver, typ, key string) bool {
	alg := map[string]int{"1": 1, "2": 1, "3": 1, "4": 1, "5": 1, "6": 6, "7": 6, "8": 8, "9": 9, "10": 9, "11": 11, "12": 11,
		"org.matrix.msc4014": 9, "org.matrix.msc3667": 6, "org.matrix.msc3787": 9, "org.matrix.hydra.11": 11}[ver]
	switch typ {
	case "m.room.member":
		return key == "membership" || key == "join_authorised_via_users_server" && alg >= 9 ||
			key == "third_party_invite" && alg >= 11 // its signed key, by the specification (the library drops it: F17)
	case "m.room.create":
		return key == "creator" || alg >= 11
	case "m.room.join_rules":
		return key == "join_rule" || key == "allow" && alg >= 8
	case "m.room.power_levels":
		switch key {
		case "ban", "events", "events_default", "kick", "redact", "state_default", "users", "users_default":
			return true
		}
		return key == "invite" && alg >= 11
	case "m.room.aliases":
		return key == "aliases" && alg < 6
	case "m.room.history_visibility":
		return key == "history_visibility"
	case "m.room.redaction":
		return key == "redacts" && alg >= 11
	}
	return false
}

func c04TopKept(ver, key string) bool {
	v11 := ver == "11" || ver == "12" || ver == "org.matrix.hydra.11"
	switch key {
	case "event_id", "type", "room_id", "sender", "state_key", "content", "hashes", "signatures", "depth", "prev_events",
		"auth_events", "origin_server_ts":
		return true
	case "prev_state", "origin", "membership":
		return !v11
	}
	return false
}

type c04Built struct {
	ver, typ string
	txt      []byte
}

func c04Build(c *Ctx, ver, typ string, variant int) c04Built {
	verImpl := c05Impl(B(ver))
	hydra := ver == "12" || ver == "org.matrix.hydra.11"
	pseudo := ver == "org.matrix.msc4014"
	origin, keyID, key := "a", gmsl.KeyID("ed25519:k"), c05Key("a")
	pe := gmsl.ProtoEvent{SenderID: "@alice:a", RoomID: "!room:a", Type: typ, Depth: int64(1 + variant),
		PrevEvents: []string{"$cHJldg"}, AuthEvents: []string{"$YXV0aDE", "$YXV0aDI"}}
	if ver == "1" || ver == "2" {
		pe.PrevEvents = []string{"$p:a"}
		pe.AuthEvents = []string{"$c:a", "$m:a"}
	}
	if hydra {
		pe.RoomID = "!Y3JlYXRlZXZlbnRpZGNyZWF0ZWV2ZW50aWRjcmVhdGV"
	}
	if pseudo {
		pe.SenderID = spec.Base64Bytes(key.Public().(ed25519.PublicKey)).Encode()
		origin, keyID = pe.SenderID, "ed25519:1"
	}
	empty := ""
	extraSigners := []string{}
	var content string
	switch typ {
	case "m.room.member":
		target := "@alice:a"
		membership := []string{"join", "leave", "invite", "ban", "knock"}[variant%5]
		if membership == "invite" || membership == "ban" {
			target = "@bob:b"
		}
		if membership == "invite" {
			extraSigners = append(extraSigners, "b")
		}
		pe.StateKey = &target
		content = fmt.Sprintf(`{"membership":%q,"displayname":"Alice","avatar_url":"mxc://a/b"`, membership)
		if membership == "join" && variant%2 == 0 {
			content += `,"join_authorised_via_users_server":"@carol:c"`
			extraSigners = append(extraSigners, "c")
		}
		if membership == "invite" {
			content += `,"third_party_invite":{"display_name":"bob","signed":{"mxid":"@bob:b","token":"t"}}`
		}
		content += "}"
	case "m.room.create":
		pe.StateKey = &empty
		content = `{"creator":"@alice:a","room_version":"` + ver + `","m.federate":true,"predecessor":{"room_id":"!old:a"}}`
		if hydra {
			pe.RoomID = ""
			pe.AuthEvents = []string{}
			pe.PrevEvents = []string{}
		}
	case "m.room.join_rules":
		pe.StateKey = &empty
		content = `{"join_rule":"restricted","allow":[{"type":"m.room_membership","room_id":"!other:a"}],"note":"x"}`
	case "m.room.power_levels":
		pe.StateKey = &empty
		content = `{"ban":50,"events":{"m.room.name":50},"events_default":0,"invite":0,"kick":50,"redact":50,"state_default":50,"users":{"@alice:a":100},"users_default":0,"notifications":{"room":50}}`
	case "m.room.aliases":
		sk := "a"
		pe.StateKey = &sk
		content = `{"aliases":["#x:a"],"comment":"c"}`
	case "m.room.history_visibility":
		pe.StateKey = &empty
		content = `{"history_visibility":"shared","why":"because"}`
	case "m.room.redaction":
		pe.Redacts = "$cmVkYWN0ZWQ"
		content = `{"reason":"spam","redacts":"$cmVkYWN0ZWQ"}`
	case "m.room.name":
		pe.StateKey = &empty
		content = `{"name":"The room"}`
	default:
		content = `{"body":"hello","msgtype":"m.text","zzz":{"a":[1,2,3]}}`
	}
	pe.Content = spec.RawJSON(content)
	if variant%3 == 1 {
		pe.Unsigned = spec.RawJSON(`{"age":1234}`)
	}
	ev, err := verImpl.NewEventBuilderFromProtoEvent(&pe).Build(time.Unix(1700000000+int64(variant), 0), spec.ServerName(origin), keyID, key)
	if err != nil {
		panic(fmt.Sprintf("c04: build %s %s: %v", ver, typ, err))
	}
	for _, s := range extraSigners {
		ev = ev.Sign(s, "ed25519:k", c05Key(s))
	}
	return c04Built{ver, typ, append([]byte{}, ev.JSON()...)}
}

type c04Tamper struct {
	name     string
	class    string // r = redactable/stripped/unsigned only, p = protected material
	apply    func(m map[string]json.RawMessage)
	propOnly bool // the value model does not represent encoding/json's member matching: oracle only
	prefix   string // members written in front of the marshalled event (repetitions cannot be put into a map)
}

func c04SetContent(m map[string]json.RawMessage, key string, val string, del bool) {
	cm := c04Obj(m["content"])
	if del {
		delete(cm, key)
	} else {
		cm[key] = json.RawMessage(val)
	}
	m["content"] = c04Marshal(cm)
}

func c04Tamperings(c *Ctx, b c04Built, hashVariants bool) []c04Tamper {
	ver, typ := b.ver, b.typ
	var ts []c04Tamper
	add := func(name, class string, f func(m map[string]json.RawMessage)) {
		ts = append(ts, c04Tamper{name, class, f, false, ""})
	}
	cls := func(kept bool) string {
		if kept {
			return "p"
		}
		return "r"
	}
	add("none", "r", func(m map[string]json.RawMessage) {})
	// content keys: every key present, and new ones (in and outside the keep-lists)
	cm := c04Obj(c04Obj(b.txt)["content"])
	var present []string
	for k := range cm {
		present = append(present, k)
	}
	sort.Strings(present)
	for _, k := range present {
		k := k
		add("content-modify "+k, cls(c04ContentKept(ver, typ, k)), func(m map[string]json.RawMessage) { c04SetContent(m, k, `"tampered"`, false) })
		add("content-remove "+k, cls(c04ContentKept(ver, typ, k)), func(m map[string]json.RawMessage) { c04SetContent(m, k, "", true) })
	}
	for _, k := range []string{"zzz_extra", "body", "membership", "join_authorised_via_users_server", "creator", "join_rule", "allow",
		"ban", "users", "invite", "aliases", "history_visibility", "redacts", "third_party_invite", "Membership2"} {
		k := k
		if _, ok := cm[k]; ok {
			continue
		}
		val := `"added"`
		if k == "users" || k == "third_party_invite" {
			val = `{"signed":{"x":1},"@mallory:a":100}`
		}
		if k == "ban" || k == "invite" {
			val = "0"
		}
		add("content-add "+k, cls(c04ContentKept(ver, typ, k)), func(m map[string]json.RawMessage) { c04SetContent(m, k, val, false) })
	}
	// top-level keys
	for _, kv := range [][2]string{{"foo", `"bar"`}, {"redacts", `"$other"`}, {"membership", `"join"`}, {"origin", `"evil.example"`},
		{"prev_state", `[["$x:a",{"sha256":"cA"}]]`}, {"prev_content", `{"a":1}`}, {"replaces_state", `"$r"`},
		{"depth", "99"}, {"origin_server_ts", "1"}, {"sender", `"@mallory:a"`}, {"type", `"m.room.topic"`}, {"state_key", `"other"`},
		{"room_id", `"!elsewhere:a"`}} {
		k, v := kv[0], kv[1]
		if k == "room_id" && (ver == "12" || ver == "org.matrix.hydra.11") {
			v = `"!ZWxzZXdoZXJlZWxzZXdoZXJlZWxzZXdoZXJlZWxzZXc"`
		}
		if k == "sender" && ver == "org.matrix.msc4014" {
			continue
		}
		add("top-set "+k, cls(c04TopKept(ver, k)), func(m map[string]json.RawMessage) { m[k] = json.RawMessage(v) })
	}
	for _, k := range []string{"origin", "prev_state", "origin_server_ts"} {
		k := k
		add("top-remove "+k, cls(c04TopKept(ver, k)), func(m map[string]json.RawMessage) { delete(m, k) })
	}
	// keys discarded on receipt
	for _, kv := range [][2]string{{"unsigned", `{"age":1,"redacted_because":{"x":"y"}}`}, {"age_ts", "12345"}, {"outlier", "true"},
		{"destinations", `["evil.example"]`}, {"event_id", `"$forged:a"`}} {
		k, v := kv[0], kv[1]
		class := "r"
		if k == "event_id" && (ver == "1" || ver == "2") {
			class = "p"
		}
		add("stripped-set "+k, class, func(m map[string]json.RawMessage) { m[k] = json.RawMessage(v) })
	}
	add("stripped-remove unsigned", "r", func(m map[string]json.RawMessage) { delete(m, "unsigned") })
	// the hash itself
	add("hash-other", "p", func(m map[string]json.RawMessage) {
		m["hashes"] = json.RawMessage(`{"sha256":"` + spec.Base64Bytes(bytes.Repeat([]byte{7}, 32)).Encode() + `"}`)
	})
	add("hash-short", "p", func(m map[string]json.RawMessage) { m["hashes"] = json.RawMessage(`{"sha256":"AAAA"}`) })
	add("hash-notb64", "p", func(m map[string]json.RawMessage) { m["hashes"] = json.RawMessage(`{"sha256":"*!*"}`) })
	add("hash-number", "p", func(m map[string]json.RawMessage) { m["hashes"] = json.RawMessage(`{"sha256":5}`) })
	add("hash-empty", "p", func(m map[string]json.RawMessage) { m["hashes"] = json.RawMessage(`{}`) })
	add("hash-removed", "p", func(m map[string]json.RawMessage) { delete(m, "hashes") })
	add("hash-extra-alg", "p", func(m map[string]json.RawMessage) {
		h := c04Obj(m["hashes"])
		h["md5"] = json.RawMessage(`"x"`)
		m["hashes"] = c04Marshal(h)
	})
	// hash value variants: the same 32 bytes spelled differently (m: still a match) and values
	// whose decoded bytes differ or that do not decode (x: a mismatch).  Base64Bytes.Decode:
	// alphabet chosen by the presence of - or _, CR and LF skipped, no padding, unused low bits
	// of the last character ignored.
	var hv struct {
		Sha256 string `json:"sha256"`
	}
	if hashVariants && json.Unmarshal(c04Obj(b.txt)["hashes"], &hv) == nil && len(hv.Sha256) == 43 {
		s0 := hv.Sha256
		setHash := func(v string) func(m map[string]json.RawMessage) {
			return func(m map[string]json.RawMessage) {
				q, _ := json.Marshal(v)
				m["hashes"] = json.RawMessage(`{"sha256":` + string(q) + `}`)
			}
		}
		for _, suffix := range []string{"A", "AA", "AAA", "AAAA", "B", "/w", s0 + "A", s0} {
			add(fmt.Sprintf("hash-append %d", len(suffix)), "x", setHash(s0+suffix))
		}
		add("hash-truncated 1", "x", setHash(s0[:42]))
		add("hash-truncated 2", "x", setHash(s0[:41]))
		add("hash-padded", "x", setHash(s0+"="))
		add("hash-padded-mid", "x", setHash(s0[:40]+"="+s0[40:]))
		add("hash-trailing-space", "x", setHash(s0+" "))
		add("hash-leading-space", "x", setHash(" "+s0))
		add("hash-crlf-inside", "m", setHash(s0[:20]+"\r\n"+s0[20:]))
		add("hash-lf-end", "m", setHash(s0+"\n"))
		add("hash-cr-start", "m", setHash("\r"+s0))
		add("hash-tab-inside", "x", setHash(s0[:20]+"\t"+s0[20:]))
		url := strings.NewReplacer("+", "-", "/", "_").Replace(s0)
		add("hash-urlsafe", "m", setHash(url)) // the same string when the hash has neither + nor /
		if i := strings.IndexAny(s0, "+/"); i >= 0 {
			if j := strings.IndexAny(s0[i+1:], "+/"); j >= 0 {
				// one character of each alphabet: not decodable
				add("hash-mixed-alphabets", "x", setHash(url[:i+1]+s0[i+1:]))
			}
		} else {
			add("hash-urlsafe-marker", "x", setHash(s0[:10]+"-"+s0[11:])) // one character replaced by a URL-safe one
		}
		// the last of 43 characters carries 4 used bits and 2 unused ones: same bytes
		const alpha = "ABCDEFGHIJKLMNOPQRSTUVWXYZabcdefghijklmnopqrstuvwxyz0123456789+/"
		last := strings.IndexByte(alpha, s0[42])
		add("hash-unused-bits", "m", setHash(s0[:42]+string(alpha[last^1])))
		add("hash-used-bit", "x", setHash(s0[:42]+string(alpha[last^4])))
		add("hash-first-char", "x", setHash(string(alpha[(strings.IndexByte(alpha, s0[0])+1)%64])+s0[1:]))
		add("hash-lowercased", "x", setHash(strings.ToLower(s0)+"A"))
	}
	// a hash fault TOGETHER with each key that is discarded on receipt: what surfaces is the
	// redacted form of the event without that key (in particular not a sender-chosen event_id,
	// which redaction keeps, where the ID is a hash); the redactable fault leaves ID and
	// signatures as they were, the replaced hash need not
	combos := [][2]string{{"unsigned", `{"age":1,"redacted_because":{"x":"y"}}`}, {"age_ts", "12345"}, {"outlier", "true"},
		{"destinations", `["evil.example"]`}, {"event_id", `"$forged:a"`}, {"event_id", `"$` + strings.Repeat("A", 43) + `"`}}
	if !hashVariants { // the first variant of every type (and the thorough tier) gets the whole family
		combos = combos[4:5]
	}
	for _, kv := range combos {
		k, v := kv[0], kv[1]
		class := cls(c04ContentKept(ver, typ, "zzz_extra"))
		if k == "event_id" && (ver == "1" || ver == "2") {
			class = "p"
		}
		add("content-add+stripped "+k+" "+v[:min(len(v), 8)], class, func(m map[string]json.RawMessage) {
			c04SetContent(m, "zzz_extra", `"x"`, false)
			m[k] = json.RawMessage(v)
		})
		add("hash-other+stripped "+k+" "+v[:min(len(v), 8)], "p", func(m map[string]json.RawMessage) {
			m["hashes"] = json.RawMessage(`{"sha256":"` + spec.Base64Bytes(bytes.Repeat([]byte{7}, 32)).Encode() + `"}`)
			m[k] = json.RawMessage(v)
		})
	}
	add("content-add+all-stripped", "x", func(m map[string]json.RawMessage) {
		c04SetContent(m, "zzz_extra", `"x"`, false)
		m["unsigned"], m["age_ts"], m["outlier"] = json.RawMessage(`{"age":3}`), json.RawMessage("1"), json.RawMessage("false")
		m["destinations"] = json.RawMessage(`[]`)
		if ver != "1" && ver != "2" {
			m["event_id"] = json.RawMessage(`"$forged:a"`)
		}
	})
	// F67 (a): a member discarded on receipt written twice (three times): every copy is discarded,
	// alone (the event comes back intact, without it) and together with a redactable fault
	{
		dups := [][2]string{{"unsigned", `{"redacted_because":{"x":"y"},"prev_content":{"a":1}}`}, {"age_ts", "12345"}, {"outlier", "true"},
			{"destinations", `["evil.example"]`}}
		if ver != "1" && ver != "2" {
			dups = append(dups, [2]string{"event_id", `"$forged:a"`})
		}
		if !hashVariants {
			dups = dups[:1]
		}
		for _, kv := range dups {
			k, v := kv[0], kv[1]
			nop := func(m map[string]json.RawMessage) { delete(m, k) }
			ts = append(ts, c04Tamper{"twice " + k, "r", nop, false, `"` + k + `":{},"` + k + `":` + v})
			ts = append(ts, c04Tamper{"thrice " + k, "r", nop, false, `"` + k + `":` + v + `,"` + k + `":1,"` + k + `":` + v})
			ts = append(ts, c04Tamper{"twice " + k + " + content-add", cls(c04ContentKept(ver, typ, "zzz_extra")), func(m map[string]json.RawMessage) {
				delete(m, k)
				c04SetContent(m, "zzz_extra", `"x"`, false)
			}, false, `"` + k + `":{},"` + k + `":` + v})
		}
	}
	// F66: ONE added top-level member that is in no keep-list but whose name encoding/json matches
	// to a kept one; for the specification this is redactable material (class r: redacted form of
	// the original, same event ID, signatures still good)
	if hashVariants {
		for _, kv := range [][2]string{{"ſender", `"@mallory:evil"`}, {"Content", `{"membership":"ban","users":{"@mallory:a":100}}`},
			{"origin_ſerver_ts", `1`}, {"state_Key", `"@mallory:evil"`}, {"state_\u212aey", `"@mallory:evil"`}, {"State_key", `""`}, {"Event_id", `"$forged:a"`},
			{"Type", `"m.room.create"`}, {"Depth", `1`}, {"hasheſ", `{"sha256":"AAAA"}`}} {
			k, v := kv[0], kv[1]
			ts = append(ts, c04Tamper{"lookalike-set " + k, "r", func(m map[string]json.RawMessage) { m[k] = json.RawMessage(v) }, true, ""})
		}
	}
	// two at once
	add("content-add+unsigned", cls(c04ContentKept(ver, typ, "zzz_extra")), func(m map[string]json.RawMessage) {
		c04SetContent(m, "zzz_extra", `{"deep":[1,{"x":null}]}`, false)
		m["unsigned"] = json.RawMessage(`{"age":2}`)
	})
	_ = c
	return ts
}

func genC04(c *Ctx) {
	rand.Seed(c.Seed) // EventBuilder.Build draws v1/v2 event IDs from the global source
	types := []string{"m.room.member", "m.room.create", "m.room.join_rules", "m.room.power_levels", "m.room.aliases",
		"m.room.history_visibility", "m.room.redaction", "m.room.name", "m.room.message"}
	variants := c.Scale(2, 10)
	for _, ver := range c05Versions {
		for _, typ := range types {
			nv := variants
			if typ == "m.room.member" {
				nv = c.Scale(5, 20)
			}
			for v := 0; v < nv; v++ {
				if ver == "org.matrix.msc4014" && typ == "m.room.member" {
					continue // joins need a signed mxid_mapping, invites the invitee's key: other properties
				}
				b := c04Build(c, ver, typ, v)
				for _, t := range c04Tamperings(c, b, v == 0 || c.Thorough()) {
					m := c04Obj(b.txt)
					t.apply(m)
					txt := c04Marshal(m)
					if t.prefix != "" {
						txt = append([]byte("{"+t.prefix+","), txt[1:]...)
					}
					corr := "C04.tamper"
					if t.propOnly {
						corr = ""
					}
					c.Run("C04.tamper", [][]byte{B(ver), b.txt, txt, B(""), B(t.class)}, corr, "C04.prop.surface",
						typ+" "+t.name)
					c.Count("tamper/" + strings.SplitN(t.name, " ", 2)[0] + "/" + t.class)
				}
			}
		}
		c04Limits(c, ver)
		// parse-level rejections
		b := c04Build(c, ver, "m.room.message", 0)
		for _, kv := range [][2]string{{"_room_version", `"x"`}, {"_", "1"}, {"room_id", `"noroom"`}, {"room_id", `"#x:a"`},
			{"sender", `"alice"`}, {"sender", `"!x:a"`}, {"type", "5"}, {"depth", `"x"`}, {"depth", "1.5"}, {"prev_events", `"x"`},
			{"auth_events", "null"}, {"prev_events", "null"}, {"state_key", "5"}, {"redacts", "{}"}, {"room_id", "null"},
			{"type", `"` + strings.Repeat("t", 256) + `"`}, {"type", `"` + strings.Repeat("t", 255) + `"`},
			{"state_key", `"` + strings.Repeat("s", 256) + `"`}, {"state_key", `"` + strings.Repeat("s", 255) + `"`},
			{"sender", `"@` + strings.Repeat("s", 252) + `:a"`}, {"sender", `"@` + strings.Repeat("s", 253) + `:a"`}} {
			m := c04Obj(b.txt)
			m[kv[0]] = json.RawMessage(kv[1])
			c.Run("C04.parse", [][]byte{B(ver), c04Marshal(m), B("")}, "C04.parse", "", "reject "+kv[0]+"="+kv[1][:min(len(kv[1]), 12)])
			c.Count("parse-reject")
		}
	}
}

// ---------------------------------------------------------------------------------------------
// length faults, alone and together with a hash fault

// the class the size limits demand for one limited field
func c04LenClass(v string) string {
	switch {
	case len([]rune(v)) > 255:
		return "e:toolarge"
	case len(v) > 255:
		return "e:persistable"
	}
	return "e:ok"
}

// an event with the given limited fields and a CORRECT content hash: built by the library with
// ordinary values (Build refuses over-long ones), then the fields are replaced and hashes.sha256
// is recomputed here (the signatures no longer verify; parsing does not look at them)
func c04BuildCustom(ver, typ string, stateKey *string, sender, content string, prev []string) []byte {
	base := "m.room.message"
	if stateKey != nil {
		base = "m.room.name"
	}
	m := c04Obj(c04Build(nil, ver, base, 0).txt)
	q := func(v string) json.RawMessage { b, _ := json.Marshal(v); return b }
	m["type"] = q(typ)
	if stateKey != nil {
		m["state_key"] = q(*stateKey)
	}
	if sender != "" {
		m["sender"] = q(sender)
	}
	m["content"] = json.RawMessage(content)
	if prev != nil {
		b, _ := json.Marshal(prev)
		m["prev_events"] = b
	}
	delete(m, "unsigned")
	h := c04Hash(ver, c04Marshal(m))
	m["hashes"] = json.RawMessage(`{"sha256":"` + spec.Base64Bytes(h).Encode() + `"}`)
	return c04Marshal(m)
}

func c04Limits(c *Ctx, ver string) {
	pseudo := ver == "org.matrix.msc4014"
	run := func(txt []byte, class, desc string) {
		c.Run("C04.limits", [][]byte{B(ver), B("-"), txt, B(""), B(class)}, "C04.limits", "C04.prop.surface", desc)
		c.Count("limits/" + class)
	}
	// with the hash intact (built that way) and with a hash fault on top (a redactable content key added)
	both := func(txt []byte, class, desc string) {
		run(txt, class, desc+" hash-ok")
		m := c04Obj(txt)
		c04SetContent(m, "zzz_extra", `"x"`, false)
		run(c04Marshal(m), class, desc+" hash-mismatch")
	}
	e2 := "\u00e9" // two bytes, one code point
	values := func(prefix, suffix string) []string {
		room := 255 - len(prefix) - len(suffix)
		return []string{
			prefix + strings.Repeat("t", room) + suffix,                             // 255 bytes
			prefix + strings.Repeat("t", room+1) + suffix,                           // 256 bytes, 256 code points
			prefix + strings.Repeat(e2, (room+2)/2) + suffix,                        // just over 255 bytes, about 128 code points
			prefix + strings.Repeat(e2, room) + suffix,                              // 255 code points, about 510 bytes
			prefix + strings.Repeat(e2, room+1) + suffix,                            // 256 code points
			prefix + strings.Repeat("t", 254-len(prefix)-len(suffix)) + e2 + suffix, // 256 bytes, 255 code points
		}
	}
	content := `{"body":"hello","msgtype":"m.text"}`
	for _, v := range values("t.", "") {
		both(c04BuildCustom(ver, v, nil, "", content, nil), c04LenClass(v), fmt.Sprintf("type %dB/%dcp", len(v), len([]rune(v))))
	}
	for _, v := range values("", "") {
		v := v
		both(c04BuildCustom(ver, "m.room.name", &v, "", `{"name":"n"}`, nil), c04LenClass(v), fmt.Sprintf("state_key %dB/%dcp", len(v), len([]rune(v))))
	}
	if !pseudo {
		for _, v := range values("@", ":a") {
			both(c04BuildCustom(ver, "m.room.message", nil, v, content, nil), c04LenClass(v), fmt.Sprintf("sender %dB/%dcp", len(v), len([]rune(v))))
		}
	}
	// the room ID (with a domain in every version; the create event's is derived): over the byte
	// limit only it is persistable WITH the event (repair of F42), alone and under a hash fault
	withRoom := func(txt []byte, room string) []byte {
		m := c04Obj(txt)
		b, _ := json.Marshal(room)
		m["room_id"] = b
		h := c04Hash(ver, c04Marshal(m))
		m["hashes"] = json.RawMessage(`{"sha256":"` + spec.Base64Bytes(h).Encode() + `"}`)
		return c04Marshal(m)
	}
	for _, v := range values("!", ":a") {
		both(withRoom(c04BuildCustom(ver, "m.room.message", nil, "", content, nil), v), c04LenClass(v), fmt.Sprintf("room %dB/%dcp", len(v), len([]rune(v))))
	}
	// two limited fields at once: the refusal that is not persistable wins, in whatever field it is
	if !pseudo {
		ty := "t." + strings.Repeat(e2, 127)        // 256 bytes: persistable on its own
		snd := "@" + strings.Repeat(e2, 256) + ":a" // 257 code points: refused
		both(c04BuildCustom(ver, ty, nil, snd, content, nil), "e:toolarge", "type persistable + sender too large")
		rm := "!" + strings.Repeat(e2, 130) + ":a"
		both(withRoom(c04BuildCustom(ver, "m.room.message", nil, snd, content, nil), rm), "e:toolarge", "room persistable + sender too large")
		both(withRoom(c04BuildCustom(ver, ty, nil, "", content, nil), rm), "e:persistable", "room persistable + type persistable")
	}
	{
		ty := "t." + strings.Repeat(e2, 127) // 256 bytes: persistable on its own
		sk := strings.Repeat("s", 256)       // 256 code points: refused
		both(c04BuildCustom(ver, ty, &sk, "", content, nil), "e:toolarge", "type persistable + state_key too large")
		sk2 := strings.Repeat(e2, 128)
		both(c04BuildCustom(ver, ty, &sk2, "", content, nil), "e:persistable", "type persistable + state_key persistable")
	}
	// total size: redactable bulk (gone after redaction) and kept bulk (prev_events stay);
	// one version per parser in the quick tier (each case is 66 KB through the extracted model)
	if !c.Thorough() && ver != "2" && ver != "10" && ver != "12" {
		return
	}
	bulk := `{"body":"` + strings.Repeat("x", 66000) + `","msgtype":"m.text"}`
	big := c04BuildCustom(ver, "m.room.message", nil, "", bulk, nil)
	run(big, "e:toolarge", "size: 66000 redactable bytes, hash-ok")
	{
		// the same with a hash fault: what surfaces is the small redacted form, and that is what
		// the limit is applied to (as the code does; Synapse checks the pruned event likewise)
		m := c04Obj(big)
		c04SetContent(m, "zzz_extra", `"x"`, false)
		run(c04Marshal(m), "e:ok", "size: 66000 redactable bytes, hash-mismatch")
	}
	if ver != "1" && ver != "2" {
		many := make([]string, 0, 1600)
		for i := 0; i < 1600; i++ {
			many = append(many, fmt.Sprintf("$%043d", i))
		}
		both(c04BuildCustom(ver, "m.room.message", nil, "", content, many), "e:toolarge", "size: 1600 prev_events (kept)")
	}
}
